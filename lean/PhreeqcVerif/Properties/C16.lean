import PhreeqcVerif.Lemmas.Gamma
import Lean.Elab.Tactic
import PhreeqcVerif.Gen.GammaSrc
import Mathlib.Tactic.Ring
import Mathlib.Tactic.Linarith
import Mathlib.Tactic.FieldSimp
import Mathlib.Algebra.Order.Field.Basic
/-!
# C16 — activity-coefficient models follow their defining equations and Gibbs–Duhem

Statements about `Model/Gamma.lean` (the branches of `Phreeqc::gammas`, the model-selection rule of `read_species`,
the LLNL grid interpolation) and `Model/Pitzer.lean` (the sums of `Phreeqc::pitzer` / `Phreeqc::sit`).  The models are
tied to the C++ by `tools/props/c16.py` (per-species correspondence of real runs at 1e-9; in-process comparison of the
Pitzer/SIT working arrays; integrated Gibbs–Duhem and water-activity oracles on real outputs).

What is *not* a theorem here: Gibbs–Duhem for the ionic-strength-dependent terms (Debye–Hückel `F`, β¹·g, β²·g, ᴱθ)
— that part is the numerical oracle of the check; only the algebraic relation `g + g′ = exp(−x)` is proved.
-/
namespace PhreeqcVerif.Gamma
open NumOps

/-! ## model selection -/

theorem applyOpt_model {α : Type} (a : Assign α) (o : GOpt α) : (applyOpt a o).model = o.model := by
  cases o with
  | gamma x y => cases x <;> rfl
  | llnlGamma x => rfl
  | co2Llnl => rfl
  | actWater => rfl

theorem foldl_applyOpt_model {α : Type} (opts : List (GOpt α)) (a : Assign α) (o : GOpt α)
    (h : opts.getLast? = some o) : (opts.foldl applyOpt a).model = o.model := by
  induction opts generalizing a with
  | nil => simp at h
  | cons x xs ih =>
    cases xs with
    | nil =>
      simp at h
      subst h
      simpa using applyOpt_model a x
    | cons y ys =>
      simp only [List.foldl_cons]
      apply ih
      simpa [List.getLast?_cons_cons] using h

/-- the executable rule satisfies the declarative rule -/
theorem assign_assigned {α : Type} [NumOps α] (d : Decl α) : Assigned d (assign d).model := by
  cases hl : d.opts.getLast? with
  | some o =>
    have := foldl_applyOpt_model d.opts (defaultAssign d) o hl
    unfold assign
    rw [this]
    exact Assigned.lastOpt d o hl
  | none =>
    have hnil : d.opts = [] := by simpa using hl
    have hm : (assign d).model = (defaultAssign d).model := by simp [assign, hnil]
    rw [hm]
    cases hs : d.special with
    | none =>
      cases hz : d.zIsZero with
      | true =>
        have : (defaultAssign d).model = .uncharged := by simp [defaultAssign, hs, hz]
        rw [this]; exact Assigned.neutral d hnil hs hz
      | false =>
        have : (defaultAssign d).model = .davies := by simp [defaultAssign, hs, hz]
        rw [this]; exact Assigned.charged d hnil hs hz
    | eminus =>
      have : (defaultAssign d).model = .unity := by simp [defaultAssign, hs]
      rw [this]; exact Assigned.special d hnil (by simp [hs])
    | h2o =>
      have : (defaultAssign d).model = .unity := by simp [defaultAssign, hs]
      rw [this]; exact Assigned.special d hnil (by simp [hs])

/-- the declarative rule assigns at most one model -/
theorem assigned_unique {α : Type} (d : Decl α) (k₁ k₂ : GModel) (h₁ : Assigned d k₁) (h₂ : Assigned d k₂) : k₁ = k₂ := by
  cases h₁ with
  | lastOpt o h =>
    cases h₂ with
    | lastOpt o' h' => rw [h] at h'; cases h'; rfl
    | special h' _ => simp [h'] at h
    | neutral h' _ _ => simp [h'] at h
    | charged h' _ _ => simp [h'] at h
  | special h hs =>
    cases h₂ with
    | lastOpt o' h' => simp [h] at h'
    | special _ _ => rfl
    | neutral _ hs' _ => exact absurd hs' hs
    | charged _ hs' _ => exact absurd hs' hs
  | neutral h hs hz =>
    cases h₂ with
    | lastOpt o' h' => simp [h] at h'
    | special _ hs' => exact absurd hs hs'
    | neutral _ _ _ => rfl
    | charged _ _ hz' => rw [hz] at hz'; cases hz'
  | charged h hs hz =>
    cases h₂ with
    | lastOpt o' h' => simp [h] at h'
    | special _ hs' => exact absurd hs hs'
    | neutral _ _ hz' => rw [hz] at hz'; cases hz'
    | charged _ _ _ => rfl

/-- **Every species gets exactly one activity-coefficient model**: for every species declaration (charge, name,
any sequence of gamma-type options) there is one and only one model the database rule assigns, it is the one the
reader computes, and it is one of the aqueous branches of `gammas` (never exchange / surface). -/
theorem gamma_model_total_exclusive {α : Type} [NumOps α] (d : Decl α) :
    (∃ k, Assigned d k ∧ ∀ k', Assigned d k' → k' = k) ∧ Assigned d (assign d).model ∧
    (assign d).model ∈ [GModel.uncharged, .davies, .wateq, .unity, .llnl, .llnlCO2, .actWater] := by
  refine ⟨⟨(assign d).model, assign_assigned d, fun k' h => assigned_unique d _ _ h (assign_assigned d)⟩,
    assign_assigned d, ?_⟩
  have h := assign_assigned d
  generalize (assign d).model = m at h
  cases h with
  | lastOpt o _ => cases o <;> simp [GOpt.model]
  | special _ _ => simp
  | neutral _ _ _ => simp
  | charged _ _ _ => simp

/-- `gflag` numbers and branches correspond one to one -/
theorem flag_roundtrip (m : GModel) : GModel.ofFlag m.flag = some m := by cases m <;> rfl

/-- every selectable model has a defined value once the LLNL parameters exist (or are not needed) -/
theorem lgOf_defined {α : Type} [NumOps α] [∀ a b : α, Decidable (a < b)] [∀ a b : α, Decidable (a ≤ b)]
    (d : Decl α) (e : Env α) (z : α)
    (h : e.hasLlnl = true ∨ ((assign d).model ≠ .llnl ∧ (assign d).model ≠ .llnlCO2)) :
    (lgOf e (assign d).model z (assign d).dha (assign d).dhb).isSome = true := by
  have hm := (gamma_model_total_exclusive d).2.2
  generalize (assign d).model = m at hm h
  simp at hm
  rcases hm with rfl | rfl | rfl | rfl | rfl | rfl | rfl <;> simp [lgOf] <;> rcases h with h | h <;> simp_all

/-- non-vacuity: `-llnl_gamma 4` followed by `-gamma 5` (second number missing) on a charged species -/
example (f : TransFns Rat) : letI := ratOps f
    (assign (α := Rat) { zIsZero := false, special := .none, opts := [.llnlGamma (some 4), .gamma (some 5) none] }).model
      = GModel.wateq ∧
    (assign (α := Rat) { zIsZero := false, special := .none, opts := [.llnlGamma (some 4), .gamma (some 5) none] }).dha = 5 ∧
    (assign (α := Rat) { zIsZero := true, special := .none, opts := [] }).dhb = 1 / 10 := by
  refine ⟨rfl, rfl, rfl⟩


/-! ## the formulas -/

/-- **log γ = 0 at I = 0** for every formula branch of `gammas` (Davies, extended/WATEQ Debye–Hückel, `b·I`,
B-dot, the CO₂ polynomial), for arbitrary parameters, whatever `sqrt` is as long as `sqrt 0 = 0`. -/
theorem gamma_zero_mu (f : TransFns Rat) (hs : f.sqrt 0 = 0) (a b z dha dhb aL bL bd c0 c1 c2 c3 c4 tk : Rat) :
    letI := ratOps f
    davies a 0 z = 0 ∧ wateq a b 0 z dha dhb = 0 ∧ uncharged 0 dhb = 0 ∧ bdot aL bL bd 0 z dha = 0 ∧
    co2Poly c0 c1 c2 c3 c4 tk 0 = 0 := by
  refine ⟨?_, ?_, ?_, ?_, ?_⟩
  · simp [davies, hs]
  · simp [wateq, hs]
  · simp [uncharged]
  · simp only [bdot, rat_sqrt, rat_lit, hs]
    split <;> simp
  · simp [co2Poly]

/-- the same through `lgOf`: with `mu = 0` every defined value other than the water-activity branch is 0 -/
theorem gamma_zero_mu_lgOf (f : TransFns Rat) (hs : f.sqrt 0 = 0) (e : Env Rat) (hmu : e.mu = 0)
    (c0 c1 c2 c3 c4 tk : Rat) (m : GModel) (hm : m ≠ .actWater) (z dha dhb v : Rat) :
    letI := ratOps f
    e.lgCO2 = co2Poly c0 c1 c2 c3 c4 tk e.mu → lgOf e m z dha dhb = some v → v = 0 := by
  intro hc h
  have hz := gamma_zero_mu f hs e.a e.b z dha dhb e.aL e.bL e.bdotL c0 c1 c2 c3 c4 tk
  obtain ⟨h1, h2, h3, h4, h5⟩ := hz
  cases m <;> simp only [lgOf, hmu] at h
  · cases h; exact h3
  · cases h; exact h1
  · cases h; exact h2
  · cases h; rfl
  · cases h
  · cases h; rfl
  · cases h
  · split at h
    · cases h; exact h4
    · cases h
  · split at h
    · cases h; rw [hc, hmu]; exact h5
    · cases h
  · exact absurd rfl hm

/-- the entry of `gammas` never evaluates the formulas at `mu <= 0`: it substitutes `1e-10` -/
theorem clampMu_spec (f : TransFns Rat) (mu : Rat) :
    letI := ratOps f
    (mu ≤ 0 → clampMu mu = 1 / 10000000000) ∧ (0 < mu → clampMu mu = mu) ∧ 0 < clampMu mu := by
  simp only [clampMu, rat_lit]
  by_cases h : mu ≤ 0
  · simp [h]
  · have h' : 0 < mu := lt_of_not_ge h
    simp [h, h']

theorem isZero_iff (f : TransFns Rat) (z : Rat) : letI := ratOps f; isZero z = true ↔ z = 0 := by
  simp only [isZero, rat_lit, Bool.and_eq_true]
  exact ⟨fun ⟨a, b⟩ => le_antisymm (of_decide_eq_true a) (of_decide_eq_true b),
    fun h => by subst h; exact ⟨decide_eq_true (le_refl _), decide_eq_true (le_refl _)⟩⟩

theorem isZero_eq_of_sq (f : TransFns Rat) (z z' : Rat) (h : z * z = z' * z') :
    letI := ratOps f; isZero z = isZero z' := by
  have h1 := isZero_iff f z
  have h2 := isZero_iff f z'
  have : z = 0 ↔ z' = 0 := by
    constructor
    · intro h0; subst h0; simpa using h.symm
    · intro h0; subst h0; simpa using h
  rw [Bool.eq_iff_iff, h1, h2, this]

/-- **γ depends on the charge only through z²**: two charges with the same square give the same value in every
branch (in particular `z` and `−z`). -/
theorem gamma_depends_on_z_sq (f : TransFns Rat) (e : Env Rat) (m : GModel) (z z' dha dhb : Rat)
    (h : z * z = z' * z') : letI := ratOps f; lgOf e m z dha dhb = lgOf e m z' dha dhb := by
  have hz := isZero_eq_of_sq f z z' h
  cases m <;> simp only [lgOf]
  · simp only [davies]
    have : (-z) * z = (-z') * z' := by linarith
    rw [this]
  · simp only [wateq]
    have : ∀ x : Rat, (-e.a) * x * z * z = (-e.a) * x * z' * z' := by
      intro x
      have : (-e.a) * x * z * z = (-e.a) * x * (z * z) := by ring
      rw [this, h]; ring
    rw [this]
  · simp only [bdot, hz]
    have : ∀ x : Rat, (-e.aL) * x * z * z = (-e.aL) * x * z' * z' := by
      intro x
      have : (-e.aL) * x * z * z = (-e.aL) * x * (z * z) := by ring
      rw [this, h]; ring
    rw [this]

/-- non-vacuity: Davies at `a = 1/2`, `I = 1`, `sqrt 1 = 1`: `z = 2` and `z = −2` both give `−2/5` -/
example : letI := ratOps ⟨id, id, id, id, id, id, id, id, id, id⟩
    davies (1 / 2 : Rat) 1 2 = -2 / 5 ∧ davies (1 / 2 : Rat) 1 (-2) = -2 / 5 := by
  refine ⟨by norm_num [davies], by norm_num [davies]⟩


/-! ## LLNL temperature grid -/

/-- what the search loop returns on a strictly increasing (suffix of the) grid that contains a node `>= tc`:
`ilast` is the first such node; `ifirst` is the same node when it equals `tc`, otherwise the node before it
(`ifirst0`, the value carried in, when there is none in this suffix) -/
theorem searchGo_spec (f : TransFns Rat) (tc : Rat) (n : Nat) (l : List Rat) (i ifirst : Nat)
    (hex : ∃ x ∈ l, tc ≤ x) :
    letI := ratOps f
    ∃ k, k < l.length ∧ (searchGo tc n l i ifirst).2 = i + k ∧ tc ≤ l.getD k 0 ∧ (∀ j, j < k → l.getD j 0 < tc) ∧
      (searchGo tc n l i ifirst).1 = (if l.getD k 0 ≤ tc then i + k else if k = 0 then ifirst else i + k - 1) := by
  induction l generalizing i ifirst with
  | nil => obtain ⟨x, hx, _⟩ := hex; simp at hx
  | cons t rest ih =>
    by_cases h : tc ≤ t
    · refine ⟨0, by simp, ?_, by simpa using h, by intro j hj; omega, ?_⟩
      · simp [searchGo, h]
      · by_cases h2 : t ≤ tc <;> simp [searchGo, h, h2]
    · have hlt : t < tc := lt_of_not_ge h
      have hex' : ∃ x ∈ rest, tc ≤ x := by
        obtain ⟨x, hx, hxt⟩ := hex
        simp at hx
        rcases hx with rfl | hx
        · exact absurd hxt h
        · exact ⟨x, hx, hxt⟩
      obtain ⟨k, hk, h2, h3, h4, h5⟩ := ih (i + 1) i hex'
      have e : ∀ j, (t :: rest).getD (j + 1) 0 = rest.getD j 0 := fun j => by simp
      refine ⟨k + 1, by simp; omega, ?_, by rw [e]; exact h3, ?_, ?_⟩
      · simp only [searchGo, h, if_false, le_of_lt hlt, if_true]
        rw [h2]; omega
      · intro j hj
        cases j with
        | zero => simpa using hlt
        | succ j => rw [e]; exact h4 j (by omega)
      · simp only [searchGo, h, if_false, le_of_lt hlt, if_true]
        rw [h5, e]
        by_cases h6 : rest.getD k 0 ≤ tc
        · rw [if_pos h6, if_pos h6]; omega
        · rw [if_neg h6, if_neg h6, if_neg (Nat.succ_ne_zero k)]
          by_cases hk0 : k = 0
          · rw [if_pos hk0]; omega
          · rw [if_neg hk0]; omega

theorem getD_lt_of_pairwise (l : List Rat) (hs : l.Pairwise (· < ·)) (a b : Nat) (hab : a < b) (hb : b < l.length) :
    l.getD a 0 < l.getD b 0 := by
  have ha : a < l.length := by omega
  have e1 : l.getD a 0 = l[a] := by simp [List.getD_eq_getElem?_getD, List.getElem?_eq_getElem ha]
  have e2 : l.getD b 0 = l[b] := by simp [List.getD_eq_getElem?_getD, List.getElem?_eq_getElem hb]
  rw [e1, e2]
  exact List.pairwise_iff_getElem.mp hs a b ha hb hab

/-- **The LLNL interpolation as coded is a convex combination of adjacent grid nodes and is exact at nodes**:
on a strictly increasing temperature grid and for `tc` inside it, the indices found by the search loop are equal or
adjacent and bracket `tc`; the weight lies in `[0, 1]`; every interpolated array value lies between the two grid
values; at a node the value is the grid value. -/
theorem llnl_interp_convex (f : TransFns Rat) (ts vs : List Rat) (tc : Rat) (hs : ts.Pairwise (· < ·))
    (hr : letI := ratOps f; inRange ts tc = true) :
    letI := ratOps f
    ∃ i j v, search ts tc = (i, j) ∧ interp ts vs tc = some v ∧ j < ts.length ∧ (j = i ∨ j = i + 1) ∧
      ts.getD i 0 ≤ tc ∧ tc ≤ ts.getD j 0 ∧
      0 ≤ weight ts tc i j ∧ weight ts tc i j ≤ 1 ∧
      min (vs.getD i 0) (vs.getD j 0) ≤ v ∧ v ≤ max (vs.getD i 0) (vs.getD j 0) ∧
      (∀ k, k < ts.length → ts.getD k 0 = tc → i = k ∧ j = k ∧ v = vs.getD k 0) := by
  let _i : NumOps Rat := ratOps f
  cases ts with
  | nil => simp [inRange] at hr
  | cons t0 rest =>
    simp only [inRange, Bool.not_eq_true', Bool.or_eq_false_iff, decide_eq_false_iff_not, not_lt] at hr
    obtain ⟨hlo, hhi⟩ := hr
    have hex : ∃ x ∈ t0 :: rest, tc ≤ x := ⟨(t0 :: rest).getLastD t0, by
      cases rest with
      | nil => simp
      | cons a r => simp [List.getLastD], hhi⟩
    obtain ⟨k, hk, h2, h3, h4, h5⟩ := searchGo_spec f tc (t0 :: rest).length (t0 :: rest) 0 0 hex
    simp only [Nat.zero_add] at h2 h5
    -- ifirst
    have hi : (searchGo tc (t0 :: rest).length (t0 :: rest) 0 0).1 = (if (t0 :: rest).getD k 0 ≤ tc then k else k - 1) := by
      rw [h5]
      by_cases h6 : (t0 :: rest).getD k 0 ≤ tc
      · rw [if_pos h6, if_pos h6]
      · rw [if_neg h6, if_neg h6]
        by_cases hk0 : k = 0
        · subst hk0
          have : (t0 :: rest).getD 0 0 = t0 := by simp
          rw [this] at h6
          exact absurd hlo h6
        · rw [if_neg hk0]
    set ts := t0 :: rest with hts
    have hsearch : search ts tc = ((if ts.getD k 0 ≤ tc then k else k - 1), k) := by
      unfold search
      exact Prod.ext hi h2
    by_cases h6 : ts.getD k 0 ≤ tc
    · -- tc is the node k
      have heq : ts.getD k 0 = tc := le_antisymm h6 h3
      simp only [h6, if_true] at hsearch
      refine ⟨k, k, vs.getD k 0, hsearch, ?_, hk, Or.inl rfl, h6, h3, ?_, ?_, ?_, ?_, ?_⟩
      · have : inRange ts tc = true := by
          simp only [hts, inRange, Bool.not_eq_true', Bool.or_eq_false_iff, decide_eq_false_iff_not, not_lt]
          exact ⟨hlo, hhi⟩
        simp only [interp, this, if_true, hsearch, weight, blend, rat_lit]
        simp
      · simp [weight]
      · simp [weight]
      · simp
      · simp
      · intro k' hk' hk'eq
        have : k' = k := by
          rcases Nat.lt_trichotomy k' k with hlt | heq' | hgt
          · have := h4 k' hlt; rw [hk'eq] at this; exact absurd this (lt_irrefl _)
          · exact heq'
          · have := getD_lt_of_pairwise ts hs k k' hgt hk'
            rw [heq, hk'eq] at this; exact absurd this (lt_irrefl _)
        subst this
        exact ⟨rfl, rfl, rfl⟩
    · -- strictly between node k-1 and node k
      have hk0 : k ≠ 0 := by
        intro hk0; subst hk0; simp [hts] at h6; exact absurd hlo (not_le.mpr h6)
      have hlt : tc < ts.getD k 0 := lt_of_not_ge h6
      have hprev : ts.getD (k - 1) 0 < tc := h4 (k - 1) (by omega)
      simp only [h6, if_false] at hsearch
      have hne : ¬ (k = k - 1) := by omega
      have hden : 0 < ts.getD k 0 - ts.getD (k - 1) 0 := by linarith
      have hw : weight ts tc (k - 1) k = (tc - ts.getD (k - 1) 0) / (ts.getD k 0 - ts.getD (k - 1) 0) := by
        simp [weight, hne]
      have hw0 : 0 ≤ weight ts tc (k - 1) k := by
        rw [hw]; exact div_nonneg (by linarith) (le_of_lt hden)
      have hw1 : weight ts tc (k - 1) k ≤ 1 := by
        rw [hw, div_le_one hden]; linarith
      refine ⟨k - 1, k, blend (weight ts tc (k - 1) k) vs (k - 1) k, hsearch, ?_, hk, Or.inr (by omega), le_of_lt hprev,
        h3, hw0, hw1, ?_, ?_, ?_⟩
      · have : inRange ts tc = true := by
          simp only [hts, inRange, Bool.not_eq_true', Bool.or_eq_false_iff, decide_eq_false_iff_not, not_lt]
          exact ⟨hlo, hhi⟩
        simp only [interp, this, if_true, hsearch]
      · simp only [blend, rat_lit]
        set w := weight ts tc (k - 1) k
        rcases le_total (vs.getD (k - 1) 0) (vs.getD k 0) with hle | hle
        · rw [min_eq_left hle]; nlinarith
        · rw [min_eq_right hle]; nlinarith
      · simp only [blend, rat_lit]
        set w := weight ts tc (k - 1) k
        rcases le_total (vs.getD (k - 1) 0) (vs.getD k 0) with hle | hle
        · rw [max_eq_right hle]; nlinarith
        · rw [max_eq_left hle]; nlinarith
      · intro k' hk' hk'eq
        exfalso
        rcases Nat.lt_or_ge k' k with hlt' | hge
        · have := h4 k' hlt'; rw [hk'eq] at this; exact lt_irrefl _ this
        · rcases Nat.eq_or_lt_of_le hge with heq' | hgt
          · subst heq'; rw [hk'eq] at hlt; exact lt_irrefl _ hlt
          · have := getD_lt_of_pairwise ts hs k k' hgt hk'
            rw [hk'eq] at this; linarith

/-- non-vacuity on the head of llnl.dat's grid: 40 °C lies between the 25 °C and 60 °C nodes -/
example : letI := ratOps ⟨id, id, id, id, id, id, id, id, id, id⟩
    search [1 / 100, 25, 60, 100] (40 : Rat) = (1, 2) ∧
    interp [1 / 100, 25, 60, 100] [4939 / 10000, 5114 / 10000, 5465 / 10000, 5995 / 10000] (40 : Rat)
      = some ((1 - 3 / 7) * (5114 / 10000) + 3 / 7 * (5465 / 10000)) ∧
    interp [1 / 100, 25, 60, 100] [4939 / 10000, 5114 / 10000, 5465 / 10000, 5995 / 10000] (60 : Rat) = some (5465 / 10000) ∧
    interp [1 / 100, 25, 60, 100] [1, 2, 3, 4] (101 : Rat) = none := by
  refine ⟨?_, ?_, ?_, ?_⟩ <;>
    norm_num [search, searchGo, interp, inRange, weight, blend, List.getLastD]


end PhreeqcVerif.Gamma

namespace PhreeqcVerif.Pitzer
open NumOps

/-! ## Gibbs–Duhem for the constant-coefficient virial part -/

/-- a parameter with rational coefficients as a parameter over the dual numbers (all coefficients constant) -/
def PParam.toDual (p : PParam Rat) : PParam Dual :=
  { type := p.type, i0 := p.i0, i1 := p.i1, i2 := p.i2, p := .const p.p, c0den := .const p.c0den,
    ln0 := .const p.ln0, ln1 := .const p.ln1, ln2 := .const p.ln2, os := .const p.os, g := .const p.g,
    gp := .const p.gp, ex := .const p.ex, etheta := .const p.etheta, ethetap := .const p.ethetap }

def uses3 : PType → Bool
  | .psi | .zeta | .eta | .mu => true
  | _ => false

/-- species indices inside `0..n-1` -/
def PParam.wf (n : Nat) (p : PParam Rat) : Prop :=
  p.i0 < n ∧ p.i1 < n ∧ (uses3 p.type = true → p.i2 < n)

/-- the `ln_coef` / `os_coef` multipliers are the ones `pitzer_tidy` computes -/
def PParam.tidy (f : TransFns Rat) (neutral : Nat → Bool) (p : PParam Rat) : Prop :=
  letI := ratOps f
  (p.type = .lambda → (p.ln0, p.ln1, p.os) = lambdaCoefs p.i0 p.i1) ∧
  (p.type = .mu → p.ln0 = muLn p.i0 p.i1 p.i2 p.i0 (neutral p.i0) ∧ p.ln1 = muLn p.i0 p.i1 p.i2 p.i1 (neutral p.i1) ∧
      p.ln2 = muLn p.i0 p.i1 p.i2 p.i2 (neutral p.i2) ∧
      p.os = muOs p.i0 p.i1 p.i2 (neutral p.i0) (neutral p.i1) (neutral p.i2))

/-- weighted sum of the first-order parts of a list of additions -/
def wsum (m : Nat → Rat) (T : List (Nat × Dual)) : Rat :=
  match T with
  | [] => 0
  | t :: rest => m t.1 * t.2.eps + wsum m rest

theorem wsum_append (m : Nat → Rat) (A B : List (Nat × Dual)) : wsum m (A ++ B) = wsum m A + wsum m B := by
  induction A with
  | nil => simp [wsum]
  | cons a A ih => simp only [List.cons_append, wsum, ih]; ring

/-- `Σ_k m_k · ε(LGAMMA[k])` over the species equals the weighted sum over the additions -/
theorem rsum_addTerms (f : TransFns Rat) (n : Nat) (m : Nat → Rat) (T : List (Nat × Dual)) (acc : Nat → Dual)
    (h : ∀ t ∈ T, t.1 < n) :
    letI := dualOps f
    rsum n (fun k => m k * (addTerms T k (acc k)).eps) = rsum n (fun k => m k * (acc k).eps) + wsum m T := by
  induction T generalizing acc with
  | nil => simp [addTerms, wsum]
  | cons t T ih =>
    have ht : t.1 < n := h t (by simp)
    have hT : ∀ t' ∈ T, t'.1 < n := fun t' ht' => h t' (by simp [ht'])
    have step := ih (fun k => if t.1 = k then acc k + t.2 else acc k) hT
    simp only [addTerms, List.foldl_cons] at step ⊢
    rw [step]
    have : (fun k => m k * (if t.1 = k then acc k + t.2 else acc k).eps)
        = (fun k => m k * (acc k).eps + (if t.1 = k then m t.1 * t.2.eps else 0)) := by
      funext k
      by_cases hk : t.1 = k
      · subst hk; simp; ring
      · simp [hk]
    rw [this, rsum_add, rsum_ite n t.1 _ ht]
    simp only [wsum]; ring

theorem foldl_add_eps (f : TransFns Rat) {β : Type} (l : List β) (g : β → Dual) (a : Dual) :
    letI := dualOps f
    (l.foldl (fun acc p => acc + g p) a).eps = a.eps + (l.map fun p => (g p).eps).sum := by
  induction l generalizing a with
  | nil => simp
  | cons x l ih => simp only [List.foldl_cons, ih, List.map_cons, List.sum_cons, d_add_eps]; ring

theorem wsum_flatMap (m : Nat → Rat) {β : Type} (l : List β) (g : β → List (Nat × Dual)) :
    wsum m (l.flatMap g) = (l.map fun p => wsum m (g p)).sum := by
  induction l with
  | nil => simp [wsum]
  | cons x l ih => simp only [List.flatMap_cons, wsum_append, ih, List.map_cons, List.sum_cons]

theorem sumTo_re (f : TransFns Rat) (n : Nat) (g : Nat → Dual) :
    letI := dualOps f
    (sumTo n g).re = rsum n (fun k => (g k).re) := by
  induction n with
  | zero => simp [sumTo, rsum]
  | succ k ih => simp only [sumTo, rsum, d_add_re, ih]

theorem lambda_cases (f : TransFns Rat) (i0 i1 : Nat) (l0 l1 os : Rat)
    (h : letI := ratOps f; (l0, l1, os) = lambdaCoefs i0 i1) :
    (i0 = i1 ∧ l0 = 1 ∧ l1 = 1 ∧ os = 1 / 2) ∨ (i0 ≠ i1 ∧ l0 = 2 ∧ l1 = 2 ∧ os = 1) := by
  simp only [lambdaCoefs] at h
  by_cases e : i0 = i1
  · simp only [e, if_true, rat_lit, Prod.mk.injEq] at h
    exact Or.inl ⟨e, h.1, h.2.1, h.2.2⟩
  · simp only [e, if_false, rat_lit, Prod.mk.injEq] at h
    exact Or.inr ⟨e, h.1, h.2.1, h.2.2⟩

/-- one parameter: `Σ_k m_k · ε(its additions to LGAMMA[k])`, including its share of `z·CSUM`, equals
`ε(2 · its addition to OSMOT)` — for an arbitrary dual `bigZ` -/
theorem param_gd (f : TransFns Rat) (neutral : Nat → Bool) (p : PParam Rat) (ht : p.tidy f neutral)
    (m d : Nat → Rat) (bigZ : Dual) (present : Nat → Bool) :
    letI := dualOps f
    wsum m (lnTermsConst p.toDual (fun k => Dual.mk (m k) (d k)) bigZ present)
        + bigZ.re * (csumOf p.toDual (fun k => Dual.mk (m k) (d k))).eps
      = 2 * (osConst p.toDual (fun k => Dual.mk (m k) (d k)) bigZ present).eps := by
  obtain ⟨ty, i0, i1, i2, pp, cden, l0, l1, l2, os, g, gp, ex, et, etp⟩ := p
  cases ty
  case b0 => simp [lnTermsConst, osConst, csumOf, PParam.toDual, wsum]; ring
  case b1 => simp [lnTermsConst, osConst, csumOf, PParam.toDual, wsum]
  case b2 => simp [lnTermsConst, osConst, csumOf, PParam.toDual, wsum]
  case c0 =>
    simp only [lnTermsConst, osConst, csumOf, PParam.toDual, wsum, d_mul_eps, d_mul_re, d_div_eps, d_div_re,
      d_const_re, d_const_eps, d_mk_re, d_mk_eps, mul_zero, sub_zero, add_zero]
    by_cases hc : cden = 0
    · subst hc; simp
    · field_simp
      ring
  case theta => simp [lnTermsConst, osConst, csumOf, PParam.toDual, wsum]; ring
  case lambda =>
    have hl := lambda_cases f i0 i1 l0 l1 os (ht.1 rfl)
    rcases hl with ⟨e, h0, h1, h2⟩ | ⟨e, h0, h1, h2⟩
    · subst e h0 h1 h2
      simp [lnTermsConst, osConst, csumOf, PParam.toDual, wsum]; ring
    · subst h0 h1 h2
      simp [lnTermsConst, osConst, csumOf, PParam.toDual, wsum]; ring
  case zeta =>
    cases hp : present i2 <;> simp [lnTermsConst, osConst, csumOf, PParam.toDual, wsum, hp]
    ring
  case psi =>
    cases hp : present i2 <;> simp [lnTermsConst, osConst, csumOf, PParam.toDual, wsum, hp]
    ring
  case etheta => simp [lnTermsConst, osConst, csumOf, PParam.toDual, wsum]
  case alphas => simp [lnTermsConst, osConst, csumOf, PParam.toDual, wsum]
  case eta =>
    cases hp : present i2 <;> simp [lnTermsConst, osConst, csumOf, PParam.toDual, wsum, hp]
    ring
  case mu =>
    obtain ⟨h0, h1, h2, h3⟩ := ht.2 rfl
    simp only at h0 h1 h2 h3
    subst h0 h1 h2 h3
    cases hp : present i2
    · simp [lnTermsConst, osConst, csumOf, PParam.toDual, wsum, hp]
    · by_cases e01 : i0 = i1
      · subst e01
        by_cases e02 : i0 = i2
        · subst e02
          cases h0 : neutral i0 <;>
            simp_all [lnTermsConst, osConst, csumOf, PParam.toDual, wsum, muLn, muOs, cnt] <;> ring
        · have e20 := Ne.symm e02
          cases h0 : neutral i0 <;> cases h2 : neutral i2 <;>
            simp_all [lnTermsConst, osConst, csumOf, PParam.toDual, wsum, muLn, muOs, cnt] <;> ring
      · have e10 := Ne.symm e01
        by_cases e02 : i0 = i2
        · subst e02
          cases h0 : neutral i0 <;> cases h1 : neutral i1 <;>
            simp_all [lnTermsConst, osConst, csumOf, PParam.toDual, wsum, muLn, muOs, cnt] <;> ring
        · have e20 := Ne.symm e02
          by_cases e12 : i1 = i2
          · subst e12
            cases h0 : neutral i0 <;> cases h1 : neutral i1 <;>
              simp_all [lnTermsConst, osConst, csumOf, PParam.toDual, wsum, muLn, muOs, cnt] <;> ring
          · have e21 := Ne.symm e12
            cases h0 : neutral i0 <;> cases h1 : neutral i1 <;> cases h2 : neutral i2 <;>
              simp_all [lnTermsConst, osConst, csumOf, PParam.toDual, wsum, muLn, muOs, cnt] <;> ring


theorem lnTermsConst_idx (n : Nat) (p : PParam Rat) (h : p.wf n) (mD : Nat → Dual) (bigZ : Dual) (present : Nat → Bool)
    (f : TransFns Rat) : letI := dualOps f
    ∀ t ∈ lnTermsConst p.toDual mD bigZ present, t.1 < n := by
  obtain ⟨h0, h1, h2⟩ := h
  obtain ⟨ty, i0, i1, i2, pp, cden, l0, l1, l2, os, g, gp, ex, et, etp⟩ := p
  intro t ht
  cases ty <;> simp only [lnTermsConst, PParam.toDual] at ht
  case b0 => simp at ht; rcases ht with rfl | rfl <;> assumption
  case b1 => simp at ht
  case b2 => simp at ht
  case c0 => simp at ht; rcases ht with rfl | rfl <;> assumption
  case theta => simp at ht; rcases ht with rfl | rfl <;> assumption
  case lambda => simp at ht; rcases ht with rfl | rfl <;> assumption
  case etheta => simp at ht
  case alphas => simp at ht
  all_goals
    have h2' : i2 < n := h2 rfl
    cases hp : present i2 <;> simp [hp] at ht
    rcases ht with rfl | rfl | rfl <;> assumption

theorem sum_params (f : TransFns Rat) (neutral : Nat → Bool) (ps : List (PParam Rat))
    (ht : ∀ p ∈ ps, p.tidy f neutral) (m d : Nat → Rat) (bigZ : Dual) (present : Nat → Bool) :
    letI := dualOps f
    (ps.map fun p => wsum m (lnTermsConst p.toDual (fun k => Dual.mk (m k) (d k)) bigZ present)).sum
      + bigZ.re * (ps.map fun p => (csumOf p.toDual (fun k => Dual.mk (m k) (d k))).eps).sum
      = 2 * (ps.map fun p => (osConst p.toDual (fun k => Dual.mk (m k) (d k)) bigZ present).eps).sum := by
  induction ps with
  | nil => simp
  | cons p ps ih =>
    have hp := param_gd f neutral p (ht p (by simp)) m d bigZ present
    have ih' := ih (fun q hq => ht q (by simp [hq]))
    simp only [List.map_cons, List.sum_cons] at *
    linarith

/-- **Gibbs–Duhem for the constant-coefficient virial part of `pitzer()`**, for every parameter list (β⁰, Cφ, θ, λ,
ψ, ζ, μ, η with the multipliers `pitzer_tidy` assigns; β¹, β², ᴱθ contribute nothing to this part), every number of
species, every composition `m`, every direction of change `d` and every presence pattern `IPRSNT`:

  `Σ_k m_k · d(ln γ_k) = d( (φ − 1) · Σ_k m_k ) = d(2 · OSMOT)`

where `d(·)` is the first-order variation along `d` (the ε-part of the model evaluated on the dual numbers
`m_k + d_k ε`), `ln γ_k = LGAMMA[k]` includes the `z_k · CSUM` term and `BIGZ = Σ m_k |z_k|` varies with `m`. -/
theorem virial_gibbs_duhem (f : TransFns Rat) (neutral : Nat → Bool) (n : Nat) (ps : List (PParam Rat))
    (hwf : ∀ p ∈ ps, p.wf n) (htidy : ∀ p ∈ ps, p.tidy f neutral) (m d zabs : Nat → Rat) (present : Nat → Bool) :
    letI := dualOps f
    rsum n (fun k => m k *
        (lgammaConst (ps.map PParam.toDual) (fun k => Dual.mk (m k) (d k)) (fun k => Dual.const (zabs k))
          (sumTo n fun k => Dual.mk (m k) (d k) * Dual.const (zabs k)) present k).eps)
      = (lit 2 * osmotConst (ps.map PParam.toDual) (fun k => Dual.mk (m k) (d k))
          (sumTo n fun k => Dual.mk (m k) (d k) * Dual.const (zabs k)) present).eps := by
  let _i : NumOps Dual := dualOps f
  generalize hZ : (sumTo n fun k => Dual.mk (m k) (d k) * Dual.const (zabs k)) = bigZ
  have hZre : bigZ.re = rsum n (fun k => m k * zabs k) := by
    rw [← hZ, sumTo_re]
    apply rsum_congr; intro k _; simp
  have hidx : ∀ t ∈ constTerms (ps.map PParam.toDual) (fun k => Dual.mk (m k) (d k)) bigZ present, t.1 < n := by
    intro t ht
    simp only [constTerms, List.mem_flatMap, List.mem_map] at ht
    obtain ⟨pD, ⟨p, hp, rfl⟩, hmem⟩ := ht
    exact lnTermsConst_idx n p (hwf p hp) _ bigZ present f t hmem
  have h1 := rsum_addTerms f n m _ (fun _ => (lit 0 : Dual)) hidx
  have hsplit : (fun k => m k * (lgammaConst (ps.map PParam.toDual) (fun k => Dual.mk (m k) (d k))
        (fun k => Dual.const (zabs k)) bigZ present k).eps)
      = fun k => m k * (addTerms (constTerms (ps.map PParam.toDual) (fun k => Dual.mk (m k) (d k)) bigZ present) k (lit 0)).eps
          + (m k * zabs k) * ((ps.map PParam.toDual).foldl (fun a p => a + csumOf p fun k => Dual.mk (m k) (d k)) (lit 0)).eps := by
    funext k
    simp only [lgammaConst, d_add_eps, d_mul_eps, d_const_re, d_const_eps]
    ring
  rw [hsplit, rsum_add, h1, rsum_mul_right n (fun k => m k * zabs k), ← hZre]
  simp only [constTerms, osmotConst]
  rw [wsum_flatMap, foldl_add_eps f]
  simp only [d_mul_eps, d_lit_re, d_lit_eps]
  rw [foldl_add_eps f]
  simp only [d_lit_eps, d_lit_re, d_mul_eps, List.map_map, Function.comp_def, mul_zero, zero_mul, add_zero, zero_add]
  have hs := sum_params f neutral ps htidy m d bigZ present
  have h0 : rsum n (fun _ => (0 : Rat)) = 0 := by
    have := rsum_mul_right n (fun _ => (0 : Rat)) 0
    simpa using this
  rw [h0]
  linarith


/-! ## water activity, osmotic coefficient, the g-functions -/

/-- **a_w from φ**: `pitzer()` and `sit()` set `AW = exp(−Σm · φ / 55.50837)` with `φ = COSMOT` and `Σm = OSUM` the sum
of all molalities in the species list — the definition of the osmotic coefficient with `M_w = 1/55.50837 kg/mol`. -/
theorem aw_from_phi (f : TransFns Rat) (x : PzIn Rat) (y : SitIn Rat) :
    letI := ratOps f
    (pitzer x).aw = f.exp (-((pitzer x).osum * (pitzer x).cosmot) / (5550837 / 100000)) ∧
    (pitzer x).osum = sumTo x.n x.m ∧ (pitzer x).cosmot = 1 + 2 * (pitzer x).osmot / (pitzer x).osum ∧
    (sit y).aw = f.exp (-((sit y).osum * (sit y).cosmot) / (5550837 / 100000)) ∧
    (sit y).osum = sumTo y.n y.m := by
  refine ⟨?_, rfl, rfl, ?_, rfl⟩
  · simp only [pitzer, pitzerP, rat_exp, rat_lit]; congr 1; ring
  · simp only [sit, rat_exp, rat_lit]; congr 1; ring

/-- `(φ − 1)·Σm = 2·OSMOT`: the quantity the Gibbs–Duhem identity is about (partial: needs `Σm ≠ 0`, otherwise the
code divides by zero) -/
theorem cosmot_partial (osmot osum : Rat) (h : osum ≠ 0) : ((1 + 2 * osmot / osum) - 1) * osum = 2 * osmot := by
  field_simp; ring

/-- the two g-functions of the β¹/β² terms satisfy `g(y) + g′(y) = exp(−y)` as coded (`G`, `GP`), whatever `exp`
is: this is the relation `Bᵠ = B + I·B′` between the γ-side and the φ-side of the β¹ term (partial: `y ≠ 0`; at
`y = 0` the code returns 0 for both) -/
theorem g_gp_exp_partial (f : TransFns Rat) (y : Rat) (hy : y ≠ 0) :
    letI := ratOps f
    G y + GP y = f.exp (-y) := by
  have hz : (letI := ratOps f; isZero y) = false := by
    simp only [isZero, rat_lit]
    rcases lt_or_gt_of_ne hy with h | h
    · have : ¬ (0 ≤ y) := not_le.mpr h
      simp [this]
    · have : ¬ (y ≤ 0) := not_le.mpr h
      simp [this]
  simp only [G, GP, hz, rat_lit, rat_exp]
  simp only [Bool.false_eq_true, if_false]
  field_simp
  ring

/-- the full statement fails at `y = 0`: both functions return 0 there, `exp 0` need not be 0 -/
example : letI := ratOps ⟨id, id, id, fun _ => 1, id, id, id, id, id, id⟩
    G (0 : Rat) + GP 0 ≠ (fun _ => (1 : Rat)) (-0) := by
  norm_num [G, GP, isZero]

/-- non-vacuity of `virial_gibbs_duhem`'s ingredients on a concrete instance: β⁰(0,1) = 1/10, Cφ(0,1) = 1/50 with
`2·sqrt|z0 z1| = 2`, ψ(0,1,2) = 1/100 at `m = (1, 2, 3)`, `|z| = (1, 1, 1)`, varying species 0 only -/
example : letI := dualOps ⟨id, id, id, id, id, id, id, id, id, id⟩
    let ps : List (PParam Dual) :=
      [ { type := .b0, i0 := 0, i1 := 1, i2 := 3, p := .const (1 / 10), c0den := .const 0, ln0 := .const 0, ln1 := .const 0,
          ln2 := .const 0, os := .const 0, g := .const 0, gp := .const 0, ex := .const 0, etheta := .const 0, ethetap := .const 0 },
        { type := .c0, i0 := 0, i1 := 1, i2 := 3, p := .const (1 / 50), c0den := .const 2, ln0 := .const 0, ln1 := .const 0,
          ln2 := .const 0, os := .const 0, g := .const 0, gp := .const 0, ex := .const 0, etheta := .const 0, ethetap := .const 0 },
        { type := .psi, i0 := 0, i1 := 1, i2 := 2, p := .const (1 / 100), c0den := .const 0, ln0 := .const 0, ln1 := .const 0,
          ln2 := .const 0, os := .const 0, g := .const 0, gp := .const 0, ex := .const 0, etheta := .const 0, ethetap := .const 0 } ]
    let m : Nat → Dual := fun k => if k = 0 then ⟨1, 1⟩ else if k = 1 then ⟨2, 0⟩ else ⟨3, 0⟩
    let bigZ : Dual := ⟨6, 1⟩
    (lit 2 * osmotConst ps m bigZ (fun _ => true)).eps = 4 / 5 ∧
    1 * (lgammaConst ps m (fun _ => .const 1) bigZ (fun _ => true) 0).eps
      + 2 * (lgammaConst ps m (fun _ => .const 1) bigZ (fun _ => true) 1).eps
      + 3 * (lgammaConst ps m (fun _ => .const 1) bigZ (fun _ => true) 2).eps = 4 / 5 := by
  refine ⟨?_, ?_⟩ <;>
    norm_num [osmotConst, osConst, lgammaConst, constTerms, lnTermsConst, csumOf, addTerms, Dual.const]


/-! ## Gibbs–Duhem for the whole `pitzer()` skeleton -/

section full
variable (f : TransFns Rat)

@[simp] theorem d_sqrt_re (x : Dual) : (@NumOps.sqrt Dual (dualOps f) x).re = f.sqrt x.re := rfl
@[simp] theorem d_sqrt_eps (x : Dual) : (@NumOps.sqrt Dual (dualOps f) x).eps = x.eps / (2 * f.sqrt x.re) := rfl
@[simp] theorem d_ln_re (x : Dual) : (@NumOps.ln Dual (dualOps f) x).re = f.ln x.re := rfl
@[simp] theorem d_ln_eps (x : Dual) : (@NumOps.ln Dual (dualOps f) x).eps = x.eps / x.re := rfl

/-- Debye–Hückel part: `Σ_k m_k z_k² · dF = 2 I · dF = d(2 · OSMOT₀)` for `F = fDH`, with `√I · √I = I`
(hypothesis on the uninterpreted `sqrt`) and the derivative rules of `sqrt`, `ln` carried by the dual numbers -/
theorem dh_gd (a0 I dI : Rat) (hs : f.sqrt I * f.sqrt I = I) (hs0 : f.sqrt I ≠ 0)
    (hb : 1 + 12 / 10 * f.sqrt I ≠ 0) :
    letI := dualOps f
    2 * I * (fDH (Dual.const a0) (sqrt (Dual.mk I dI)) (lit (12 / 10))).eps
      = 2 * (osmot0 (Dual.const a0) (Dual.mk I dI) (sqrt (Dual.mk I dI))).eps := by
  simp only [fDH, osmot0, d_mul_eps, d_mul_re, d_div_eps, d_div_re, d_add_eps, d_add_re, d_neg_re, d_neg_eps,
    d_const_re, d_const_eps, d_lit_re, d_lit_eps, d_sqrt_re, d_sqrt_eps, d_ln_re, d_ln_eps, d_mk_re, d_mk_eps]
  set s := f.sqrt I with hsdef
  have hI : I = s * s := hs.symm
  have hb2 : (10 : Rat) + 12 * s ≠ 0 := by
    intro h; apply hb; linarith
  have hb3 : (10 : Rat) + s * 12 ≠ 0 := by rw [mul_comm]; exact hb2
  have hb4 : (1 : Rat) + 12 / 10 * s ≠ 0 := hb
  rw [hI]
  field_simp
  ring

/-- first-order parts of the ionic-strength functions of one parameter -/
structure DData where
  dg : Rat
  dgp : Rat
  dex : Rat
  dE : Rat
  dEp : Rat

/-- a parameter over the dual numbers: constant coefficients, ionic-strength functions with first-order parts -/
def PParam.toDualI (p : PParam Rat) (q : DData) : PParam Dual :=
  { type := p.type, i0 := p.i0, i1 := p.i1, i2 := p.i2, p := .const p.p, c0den := .const p.c0den,
    ln0 := .const p.ln0, ln1 := .const p.ln1, ln2 := .const p.ln2, os := .const p.os, g := ⟨p.g, q.dg⟩,
    gp := ⟨p.gp, q.dgp⟩, ex := ⟨p.ex, q.dex⟩, etheta := ⟨p.etheta, q.dE⟩, ethetap := ⟨p.ethetap, q.dEp⟩ }

/-- the derivative relations the code relies on, as hypotheses on the numbers a parameter carries at ionic strength
`I` with variation `dI`: `d g(α√I) = GP(α√I)/I · dI` (the code's `GP(y)` is `y g′(y)/2`), `exp(−α√I) = G + GP` (proved
for the coded `G`, `GP` in `g_gp_exp_partial`) together with its variation, and `d(ᴱθ) = ᴱθ′ dI` (the code's
`etheta` / `ethetap` pair) -/
def IRel (I dI : Rat) (p : PParam Rat) (q : DData) : Prop :=
  q.dg = p.gp * dI / I ∧ p.ex = p.g + p.gp ∧ q.dex = q.dg + q.dgp ∧ q.dE = p.ethetap * dI

theorem toDualI_const (p : PParam Rat) (q : DData) (mD : Nat → Dual) (bigZ : Dual) (present : Nat → Bool) :
    letI := dualOps f
    lnTermsConst (p.toDualI q) mD bigZ present = lnTermsConst p.toDual mD bigZ present ∧
    osConst (p.toDualI q) mD bigZ present = osConst p.toDual mD bigZ present ∧
    csumOf (p.toDualI q) mD = csumOf p.toDual mD := by
  obtain ⟨ty, i0, i1, i2, pp, cden, l0, l1, l2, os, g, gp, ex, et, etp⟩ := p
  cases ty <;> exact ⟨rfl, rfl, rfl⟩

theorem isZero_const (a : Rat) : letI := dualOps f; isZero (Dual.const a) = true ↔ a = 0 := by
  simp only [isZero, Bool.and_eq_true]
  constructor
  · intro ⟨h1, h2⟩
    exact le_antisymm (of_decide_eq_true h1) (of_decide_eq_true h2)
  · intro h; subst h
    exact ⟨decide_eq_true (le_refl (0 : Rat)), decide_eq_true (le_refl (0 : Rat))⟩

/-- one parameter, ionic-strength-dependent part: `Σ_k m_k · ε(additions to LGAMMA[k])`, plus its share `2I · ε(F_var)`
of `Σ_k m_k z_k² F`, equals `ε(2 · its addition to OSMOT)` -/
theorem param_gd_I (p : PParam Rat) (q : DData) (I dI : Rat) (hI : I ≠ 0) (hr : IRel I dI p q)
    (m d : Nat → Rat) (ue : Bool) :
    letI := dualOps f
    wsum m (lnTermsI (p.toDualI q) (fun k => Dual.mk (m k) (d k)) ue)
        + 2 * I * (fVar (p.toDualI q) (fun k => Dual.mk (m k) (d k)) (Dual.mk I dI) ue).eps
      = 2 * (osI (p.toDualI q) (fun k => Dual.mk (m k) (d k)) (Dual.mk I dI) ue).eps := by
  let _i : NumOps Dual := dualOps f
  obtain ⟨h1, h2, h3, h4⟩ := hr
  obtain ⟨ty, i0, i1, i2, pp, cden, l0, l1, l2, os, g, gp, ex, et, etp⟩ := p
  obtain ⟨dg, dgp, dex, dE, dEp⟩ := q
  simp only at h1 h2 h3 h4
  cases ty
  case b1 =>
    by_cases hz : pp = 0
    · have : isZero (Dual.const pp) = true := (isZero_const f pp).mpr hz
      simp [lnTermsI, osI, fVar, PParam.toDualI, this, wsum]
    · have : isZero (Dual.const pp) = false := by
        rw [Bool.eq_false_iff]; intro h; exact hz ((isZero_const f pp).mp h)
      subst h1 h2 h3
      simp [lnTermsI, osI, fVar, PParam.toDualI, this, wsum]
      field_simp
      ring
  case b2 =>
    by_cases hz : pp = 0
    · have : isZero (Dual.const pp) = true := (isZero_const f pp).mpr hz
      simp [lnTermsI, osI, fVar, PParam.toDualI, this, wsum]
    · have : isZero (Dual.const pp) = false := by
        rw [Bool.eq_false_iff]; intro h; exact hz ((isZero_const f pp).mp h)
      subst h1 h2 h3
      simp [lnTermsI, osI, fVar, PParam.toDualI, this, wsum]
      field_simp
      ring
  case etheta =>
    subst h4
    cases ue <;> simp [lnTermsI, osI, fVar, PParam.toDualI, wsum]
    ring
  all_goals simp [lnTermsI, osI, fVar, PParam.toDualI, wsum]

theorem lnTermsI_idx (n : Nat) (p : PParam Rat) (q : DData) (h : p.wf n) (mD : Nat → Dual) (ue : Bool) :
    letI := dualOps f
    ∀ t ∈ lnTermsI (p.toDualI q) mD ue, t.1 < n := by
  let _i : NumOps Dual := dualOps f
  obtain ⟨h0, h1, _⟩ := h
  obtain ⟨ty, i0, i1, i2, pp, cden, l0, l1, l2, os, g, gp, ex, et, etp⟩ := p
  intro t ht
  cases ty <;> simp only [lnTermsI, PParam.toDualI] at ht
  case b1 =>
    cases hz : isZero (Dual.const pp) <;> simp [hz] at ht
    rcases ht with rfl | rfl <;> assumption
  case b2 =>
    cases hz : isZero (Dual.const pp) <;> simp [hz] at ht
    rcases ht with rfl | rfl <;> assumption
  case etheta =>
    cases ue <;> simp at ht
    rcases ht with rfl | rfl <;> assumption
  all_goals simp at ht

/-- the input of `pitzer()` over the dual numbers built from rational data: molalities `m_k + d_k ε`, ionic strength
`I + dI ε`, constant charges / `A0` / MacInnes parameters, parameters with their ionic-strength functions -/
def dualInput (n : Nat) (m d z : Nat → Rat) (I dI a0 mt : Rat) (icon : Bool) (ic : Nat) (ue : Bool)
    (mc0 mc1 mcc : Option Rat) (ps : List (PParam Rat × DData)) : PzIn Dual :=
  { n := n, m := fun k => Dual.mk (m k) (d k), z := fun k => Dual.const (z k), mu := Dual.mk I dI, a0 := Dual.const a0,
    minTotal := Dual.const mt, icon := icon, ic := ic, useEtheta := ue, mcb0 := mc0.map Dual.const,
    mcb1 := mc1.map Dual.const, mcc0 := mcc.map Dual.const, ps := ps.map fun pq => pq.1.toDualI pq.2 }

theorem sum_params_full (neutral : Nat → Bool) (ps : List (PParam Rat × DData)) (I dI : Rat) (hI : I ≠ 0)
    (ht : ∀ pq ∈ ps, pq.1.tidy f neutral) (hr : ∀ pq ∈ ps, IRel I dI pq.1 pq.2)
    (m d : Nat → Rat) (bigZ : Dual) (present : Nat → Bool) (ue : Bool) :
    letI := dualOps f
    (ps.map fun pq => wsum m (lnTermsConst (pq.1.toDualI pq.2) (fun k => Dual.mk (m k) (d k)) bigZ present
        ++ lnTermsI (pq.1.toDualI pq.2) (fun k => Dual.mk (m k) (d k)) ue)).sum
      + bigZ.re * (ps.map fun pq => (csumOf (pq.1.toDualI pq.2) (fun k => Dual.mk (m k) (d k))).eps).sum
      + 2 * I * (ps.map fun pq => (fVar (pq.1.toDualI pq.2) (fun k => Dual.mk (m k) (d k)) (Dual.mk I dI) ue).eps).sum
      = 2 * (ps.map fun pq => (osConst (pq.1.toDualI pq.2) (fun k => Dual.mk (m k) (d k)) bigZ present
            + osI (pq.1.toDualI pq.2) (fun k => Dual.mk (m k) (d k)) (Dual.mk I dI) ue).eps).sum := by
  let _i : NumOps Dual := dualOps f
  induction ps with
  | nil => simp
  | cons pq ps ih =>
    have h1 := param_gd f neutral pq.1 (ht pq (by simp)) m d bigZ present
    have h2 := param_gd_I f pq.1 pq.2 I dI hI (hr pq (by simp)) m d ue
    obtain ⟨e1, e2, e3⟩ := toDualI_const f pq.1 pq.2 (fun k => Dual.mk (m k) (d k)) bigZ present
    have ih' := ih (fun q hq => ht q (by simp [hq])) (fun q hq => hr q (by simp [hq]))
    simp only [List.map_cons, List.sum_cons, wsum_append, d_add_eps] at *
    rw [e1, e2, e3]
    linarith

/-- **Gibbs–Duhem for the whole `pitzer()` skeleton** (`patm_x ≤ 1`): Debye–Hückel `F`, β⁰, β¹·g, β²·g, Cφ, θ, ᴱθ, λ,
ψ, ζ, μ, η, the `z·CSUM` and `z²·F` terms and the MacInnes scaling, for every parameter list, composition `m`,
direction `d`, variation `dI` of the ionic strength and presence pattern:

  `Σ_k m_k · d(LGAMMA[k]) = d(2 · OSMOT)`      (`2·OSMOT = (COSMOT − 1)·OSUM`, see `aw_from_phi`)

Hypotheses, all explicit: `2I = Σ m_k z_k²` (the `mu_x` the code uses is the ionic strength of the composition),
electroneutrality when MacInnes scaling is on, `√I·√I = I`, the derivative rules of `sqrt`/`ln` (carried by the dual
numbers), and for every parameter the relations `IRel` between the numbers `g, g′, exp, ᴱθ, ᴱθ′` it carries. -/
theorem pitzer_gibbs_duhem (neutral : Nat → Bool) (n : Nat) (m d z : Nat → Rat) (I dI a0 mt : Rat) (icon : Bool) (ic : Nat)
    (ue : Bool) (mc0 mc1 mcc : Option Rat) (ps : List (PParam Rat × DData))
    (hwf : ∀ pq ∈ ps, pq.1.wf n) (htidy : ∀ pq ∈ ps, pq.1.tidy f neutral) (hrel : ∀ pq ∈ ps, IRel I dI pq.1 pq.2)
    (hI2 : 2 * I = rsum n (fun k => m k * (z k * z k)))
    (hneut : icon = true → rsum n (fun k => m k * z k) = 0)
    (hs : f.sqrt I * f.sqrt I = I) (hs0 : f.sqrt I ≠ 0) (hb : 1 + 12 / 10 * f.sqrt I ≠ 0) :
    letI := dualOps f
    rsum n (fun k => m k * ((pitzer (dualInput n m d z I dI a0 mt icon ic ue mc0 mc1 mcc ps)).lgamma k).eps)
      = (lit 2 * (pitzer (dualInput n m d z I dI a0 mt icon ic ue mc0 mc1 mcc ps)).osmot).eps := by
  let _i : NumOps Dual := dualOps f
  have hI : I ≠ 0 := by
    intro h
    have h2 : f.sqrt I * f.sqrt I = 0 := by rw [hs]; exact h
    rcases mul_eq_zero.mp h2 with h' | h' <;> exact hs0 h'
  set X := dualInput n m d z I dI a0 mt icon ic ue mc0 mc1 mcc ps with hX
  set bigZ := bigZOf X with hZ
  set pres := presentOf X with hP
  have habs : ∀ k, absv (X.z k) = Dual.const |z k| := by
    intro k
    simp only [hX, dualInput, absv]
    by_cases h : z k < 0
    · have : (Dual.const (z k) < (lit 0 : Dual)) := h
      rw [if_pos this, abs_of_neg h]; rfl
    · have : ¬ (Dual.const (z k) < (lit 0 : Dual)) := h
      rw [if_neg this, abs_of_nonneg (not_lt.mp h)]
  have hZre : bigZ.re = rsum n (fun k => m k * |z k|) := by
    rw [hZ]; simp only [bigZOf]
    rw [show X.n = n from rfl, sumTo_re]
    apply rsum_congr; intro k _
    rw [habs k]; simp [hX, dualInput]
  -- ε of lg1
  set F := fTotal X (fDH X.a0 (sqrt X.mu) (lit (12 / 10))) with hF
  set C := csumTotal X with hC
  set T := allTerms X.ps X.m bigZ pres X.useEtheta with hT
  have hlg1 : ∀ k, (lg1 X { active := false, b1 := lit (12 / 10), b2 := lit (12 / 10) } k).eps
      = (addTerms T k (lit 0)).eps + (z k * z k) * F.eps + |z k| * C.eps := by
    intro k
    simp only [lg1, Bool.false_eq_true, if_false]
    rw [habs k]
    by_cases h0 : z k = 0
    · have hz : isZero (Dual.const |z k|) = true := (isZero_const f _).mpr (by simp [h0])
      rw [if_pos hz]; simp only [h0, mul_zero, zero_mul, abs_zero, add_zero]; rfl
    · have hz : ¬ (isZero (Dual.const |z k|) = true) := fun h => h0 (abs_eq_zero.mp ((isZero_const f _).mp h))
      rw [if_neg hz]
      simp only [d_add_eps, d_mul_eps, d_mul_re, d_const_re, d_const_eps, mul_zero, zero_mul, add_zero]
      rw [abs_mul_abs_self, ← add_assoc]
  have hidx : ∀ t ∈ T, t.1 < n := by
    intro t ht
    simp only [hT, allTerms, hX, dualInput, List.mem_flatMap, List.mem_map, List.mem_append] at ht
    obtain ⟨pD, ⟨pq, hp, rfl⟩, hmem⟩ := ht
    rcases hmem with hm | hm
    · rw [(toDualI_const f pq.1 pq.2 _ _ _).1] at hm
      exact lnTermsConst_idx n pq.1 (hwf pq hp) _ _ _ f t hm
    · exact lnTermsI_idx f n pq.1 pq.2 (hwf pq hp) _ _ t hm
  have hsum := rsum_addTerms f n m T (fun _ => (lit 0 : Dual)) hidx
  have h0 : rsum n (fun _ => (0 : Rat)) = 0 := by
    have := rsum_mul_right n (fun _ => (0 : Rat)) 0
    simpa using this
  -- the left-hand side
  have hL : rsum n (fun k => m k * ((pitzer X).lgamma k).eps)
      = wsum m T + 2 * I * F.eps + bigZ.re * C.eps := by
    have e : (fun k => m k * ((pitzer X).lgamma k).eps)
        = fun k => (m k * (addTerms T k (lit 0)).eps + (m k * (z k * z k)) * F.eps + (m k * |z k|) * C.eps)
            + (m k * z k) * (if icon then (phimac X { active := false, b1 := lit (12 / 10), b2 := lit (12 / 10) }).eps else 0) := by
      funext k
      simp only [pitzer, pitzerP]
      have hic : X.icon = icon := rfl
      have hzk : X.z k = Dual.const (z k) := rfl
      rw [hic]
      cases icon
      · simp only [Bool.false_eq_true, if_false, hlg1 k]; ring
      · simp only [if_true, d_add_eps, d_mul_eps, hzk, d_const_re, d_const_eps, hlg1 k]; ring
    rw [e, rsum_add, rsum_add, rsum_add, hsum, rsum_mul_right n (fun k => m k * (z k * z k)),
      rsum_mul_right n (fun k => m k * |z k|), rsum_mul_right n (fun k => m k * z k), ← hI2, ← hZre]
    simp only [d_lit_eps, mul_zero, h0]
    cases icon
    · simp
    · simp [hneut rfl]
  rw [hL]
  -- expand the sums over the parameters
  have hTsum : wsum m T = (ps.map fun pq => wsum m (lnTermsConst (pq.1.toDualI pq.2) (fun k => Dual.mk (m k) (d k)) bigZ pres
        ++ lnTermsI (pq.1.toDualI pq.2) (fun k => Dual.mk (m k) (d k)) ue)).sum := by
    simp only [hT, allTerms, hX, dualInput]
    rw [wsum_flatMap, List.map_map]; rfl
  have hFeps : F.eps = (fDH (Dual.const a0) (sqrt (Dual.mk I dI)) (lit (12 / 10))).eps
      + (ps.map fun pq => (fVar (pq.1.toDualI pq.2) (fun k => Dual.mk (m k) (d k)) (Dual.mk I dI) ue).eps).sum := by
    simp only [hF, fTotal, hX, dualInput]
    rw [foldl_add_eps f, List.map_map]; rfl
  have hCeps : C.eps = (ps.map fun pq => (csumOf (pq.1.toDualI pq.2) (fun k => Dual.mk (m k) (d k))).eps).sum := by
    simp only [hC, csumTotal, hX, dualInput]
    rw [foldl_add_eps f, List.map_map]; simp [Function.comp_def]
  have hO : ((pitzer X).osmot).eps = (osmot0 (Dual.const a0) (Dual.mk I dI) (sqrt (Dual.mk I dI))).eps
      + (ps.map fun pq => (osConst (pq.1.toDualI pq.2) (fun k => Dual.mk (m k) (d k)) bigZ pres
            + osI (pq.1.toDualI pq.2) (fun k => Dual.mk (m k) (d k)) (Dual.mk I dI) ue).eps).sum := by
    simp only [pitzer, pitzerP, osmotTotal]
    rw [foldl_add_eps f]
    simp only [hX, dualInput, List.map_map]; rfl
  have hdh := dh_gd f a0 I dI hs hs0 hb
  have hps := sum_params_full f neutral ps I dI hI htidy hrel m d bigZ pres ue
  simp only [d_mul_eps, d_lit_re, d_lit_eps, zero_mul, add_zero]
  rw [hTsum, hFeps, hCeps, hO]
  linarith

end full

end PhreeqcVerif.Pitzer

/-! ## the source the models were written from (translator `tools/gen_pitzer.py`)

The translator parses the functions with clang and executes them symbolically; what it regenerates into
`Gen/GammaSrc.lean` on every run is, per function, the operator tree of every quantity the function stores outside its
locals (locals, hoisted sub-expressions, named constants and one-line static helpers inlined; `if` / `switch` /
`continue` / `return` as guards; loops as folds; independent statements in no particular order).  Each theorem says that
these trees are the ones listed here — the ones the Lean model transcribes.  A behaviour-preserving rewrite of the C++
leaves them unchanged; a change of an operator, operand, constant, guard or order of evaluation of a stored quantity
makes the obligation fail, and the check then runs its failing-input search. -/
namespace PhreeqcVerif.C16Src
open PhreeqcVerif.Gen.GammaSrc

/-- `pitzer()`: the assembly — the loops over `s_list`, `param_list`, `ion_list`, the stores into `LGAMMA[]`, the MacInnes scaling — transcribed by `Pitzer.pitzerP`, `lg1`, `phimac`, `gamclm`, `presentOf`, `bigZOf` (the per-type additions, start values, `COSMOT`, `AW` are proved equal to generated definitions in `C16Gen`) -/
theorem pitzerNF_as_modelled : pitzerNF = [
  ("$ret", "1"),
  ("AW", "t1 := ((spec[s_list[$k1]] != NULL) && (spec[s_list[$k1]]->in == 1)); t2 := [s_list[$k1]]; t3 := store($prev1{M[]}, t2 := 0.0); t4 := (((spec[s_list[$k1]]->type == 5) || (spec[s_list[$k1]]->type == 6)) || (spec[s_list[$k1]]->type == 7)); t5 := ite(t4, 0.0, under(spec[s_list[$k1]]->lm)); t6 := fold($k1 from 0 ++ while ($k1 < size(s_list)); init M[]; step ite(t1, store(t3, t2 := t5), t3)); t7 := fold($k1 from 0 ++ while ($k1 < size(s_list)); init 0.0; step ($prev1{OSUM} + sel(t6, t2))); t8 := (sel(t6, [pitz_params[param_list[$k1]]->ispec[0]]) * sel(t6, [pitz_params[param_list[$k1]]->ispec[1]])); t9 := (t8 * pitz_params[param_list[$k1]]->p); t10 := ($prev1{OSMOT} + t9); t11 := ite((pitz_params[param_list[$k1]]->p != 0.0), ($prev1{OSMOT} + (t9 * exp((-pitz_params[param_list[$k1]]->alpha * sqrt(mu_x))))), $prev1{OSMOT}); t12 := store($prev1{IPRSNT[]}, t2 := 0); t13 := fold($k1 from 0 ++ while ($k1 < size(s_list)); init IPRSNT[]; step ite(t1, ite((t5 > MIN_TOTAL), store(t12, t2 := !t4), t12), t12)); t14 := [pitz_params[param_list[$k1]]->ispec[2]]; t15 := (sel(ite((ICON == 1), store(t13, [IC] := 1), t13), t14) == 0); t16 := ((t8 * sel(t6, t14)) * pitz_params[param_list[$k1]]->p); t17 := ite(t15, $prev1{OSMOT}, ($prev1{OSMOT} + t16)); exp(((-t7 * (1.0 + ((2.0 * fold($k1 from 0 ++ while ($k1 < size(param_list)); init ((-A0 * pow(mu_x, 1.5)) / (1.0 + (1.2 * sqrt(mu_x)))); step switch(pitz_params[param_list[$k1]]->type; TYPE_B0 -> t10; TYPE_B1 -> t11; TYPE_B2 -> t11; TYPE_C0 -> ($prev1{OSMOT} + (((t8 * fold($k1 from 0 ++ while ($k1 < size(s_list)); init 0.0; step ($prev1{XX} + (sel(t6, t2) * fabs(spec[s_list[$k1]]->z))))) * pitz_params[param_list[$k1]]->p) / (2.0 * sqrt(fabs((spec[pitz_params[param_list[$k1]]->ispec[0]]->z * spec[pitz_params[param_list[$k1]]->ispec[1]]->z)))))); TYPE_ETA -> t17; TYPE_ETHETA -> ite((use_etheta == 1), ($prev1{OSMOT} + (t8 * (pitz_params[param_list[$k1]]->thetas->etheta + (mu_x * pitz_params[param_list[$k1]]->thetas->ethetap)))), $prev1{OSMOT}); TYPE_LAMBDA -> ($prev1{OSMOT} + (t9 * pitz_params[param_list[$k1]]->os_coef)); TYPE_MU -> ite(t15, $prev1{OSMOT}, ($prev1{OSMOT} + (t16 * pitz_params[param_list[$k1]]->os_coef))); TYPE_PSI -> t17; TYPE_THETA -> t10; TYPE_ZETA -> t17; else -> $prev1{OSMOT}))) / t7))) / 55.50837))"),
  ("COSMOT", "t1 := ((spec[s_list[$k1]] != NULL) && (spec[s_list[$k1]]->in == 1)); t2 := [s_list[$k1]]; t3 := store($prev1{M[]}, t2 := 0.0); t4 := (((spec[s_list[$k1]]->type == 5) || (spec[s_list[$k1]]->type == 6)) || (spec[s_list[$k1]]->type == 7)); t5 := ite(t4, 0.0, under(spec[s_list[$k1]]->lm)); t6 := fold($k1 from 0 ++ while ($k1 < size(s_list)); init M[]; step ite(t1, store(t3, t2 := t5), t3)); t7 := (sel(t6, [pitz_params[param_list[$k1]]->ispec[0]]) * sel(t6, [pitz_params[param_list[$k1]]->ispec[1]])); t8 := (t7 * pitz_params[param_list[$k1]]->p); t9 := ($prev1{OSMOT} + t8); t10 := ite((pitz_params[param_list[$k1]]->p != 0.0), ($prev1{OSMOT} + (t8 * exp((-pitz_params[param_list[$k1]]->alpha * sqrt(mu_x))))), $prev1{OSMOT}); t11 := store($prev1{IPRSNT[]}, t2 := 0); t12 := fold($k1 from 0 ++ while ($k1 < size(s_list)); init IPRSNT[]; step ite(t1, ite((t5 > MIN_TOTAL), store(t11, t2 := !t4), t11), t11)); t13 := [pitz_params[param_list[$k1]]->ispec[2]]; t14 := (sel(ite((ICON == 1), store(t12, [IC] := 1), t12), t13) == 0); t15 := ((t7 * sel(t6, t13)) * pitz_params[param_list[$k1]]->p); t16 := ite(t14, $prev1{OSMOT}, ($prev1{OSMOT} + t15)); (1.0 + ((2.0 * fold($k1 from 0 ++ while ($k1 < size(param_list)); init ((-A0 * pow(mu_x, 1.5)) / (1.0 + (1.2 * sqrt(mu_x)))); step switch(pitz_params[param_list[$k1]]->type; TYPE_B0 -> t9; TYPE_B1 -> t10; TYPE_B2 -> t10; TYPE_C0 -> ($prev1{OSMOT} + (((t7 * fold($k1 from 0 ++ while ($k1 < size(s_list)); init 0.0; step ($prev1{XX} + (sel(t6, t2) * fabs(spec[s_list[$k1]]->z))))) * pitz_params[param_list[$k1]]->p) / (2.0 * sqrt(fabs((spec[pitz_params[param_list[$k1]]->ispec[0]]->z * spec[pitz_params[param_list[$k1]]->ispec[1]]->z)))))); TYPE_ETA -> t16; TYPE_ETHETA -> ite((use_etheta == 1), ($prev1{OSMOT} + (t7 * (pitz_params[param_list[$k1]]->thetas->etheta + (mu_x * pitz_params[param_list[$k1]]->thetas->ethetap)))), $prev1{OSMOT}); TYPE_LAMBDA -> ($prev1{OSMOT} + (t8 * pitz_params[param_list[$k1]]->os_coef)); TYPE_MU -> ite(t14, $prev1{OSMOT}, ($prev1{OSMOT} + (t15 * pitz_params[param_list[$k1]]->os_coef))); TYPE_PSI -> t16; TYPE_THETA -> t9; TYPE_ZETA -> t16; else -> $prev1{OSMOT}))) / fold($k1 from 0 ++ while ($k1 < size(s_list)); init 0.0; step ($prev1{OSUM} + sel(t6, t2)))))"),
  ("IPRSNT[]", "t1 := (((spec[s_list[$k1]]->type == 5) || (spec[s_list[$k1]]->type == 6)) || (spec[s_list[$k1]]->type == 7)); t2 := [s_list[$k1]]; t3 := store($prev1{IPRSNT[]}, t2 := 0); t4 := fold($k1 from 0 ++ while ($k1 < size(s_list)); init IPRSNT[]; step ite(((spec[s_list[$k1]] != NULL) && (spec[s_list[$k1]]->in == 1)), ite((ite(t1, 0.0, under(spec[s_list[$k1]]->lm)) > MIN_TOTAL), store(t3, t2 := !t1), t3), t3)); ite((ICON == 1), store(t4, [IC] := 1), t4)"),
  ("LGAMMA[]", "t1 := [s_list[$k1]]; t2 := [pitz_params[param_list[$k1]]->ispec[0]]; t3 := sel($prev1{LGAMMA[]}, t2); t4 := ((spec[s_list[$k1]] != NULL) && (spec[s_list[$k1]]->in == 1)); t5 := store($prev1{M[]}, t1 := 0.0); t6 := (((spec[s_list[$k1]]->type == 5) || (spec[s_list[$k1]]->type == 6)) || (spec[s_list[$k1]]->type == 7)); t7 := ite(t6, 0.0, under(spec[s_list[$k1]]->lm)); t8 := fold($k1 from 0 ++ while ($k1 < size(s_list)); init M[]; step ite(t4, store(t5, t1 := t7), t5)); t9 := [pitz_params[param_list[$k1]]->ispec[1]]; t10 := ((sel(t8, t9) * 2.0) * pitz_params[param_list[$k1]]->p); t11 := store($prev1{LGAMMA[]}, t2 := (t3 + t10)); t12 := ((sel(t8, t2) * 2.0) * pitz_params[param_list[$k1]]->p); t13 := (pitz_params[param_list[$k1]]->p != 0.0); t14 := (pitz_params[param_list[$k1]]->alpha * sqrt(mu_x)); t15 := store($prev1{LGAMMA[]}, t2 := (t3 + (t10 * G(t14)))); t16 := ite(t13, store(t15, t9 := (sel(t15, t9) + (t12 * G(t14)))), $prev1{LGAMMA[]}); t17 := fold($k1 from 0 ++ while ($k1 < size(s_list)); init 0.0; step ($prev1{XX} + (sel(t8, t1) * fabs(spec[s_list[$k1]]->z)))); t18 := (2.0 * sqrt(fabs((spec[pitz_params[param_list[$k1]]->ispec[0]]->z * spec[pitz_params[param_list[$k1]]->ispec[1]]->z)))); t19 := store($prev1{LGAMMA[]}, t2 := (t3 + (((sel(t8, t9) * t17) * pitz_params[param_list[$k1]]->p) / t18))); t20 := store($prev1{IPRSNT[]}, t1 := 0); t21 := fold($k1 from 0 ++ while ($k1 < size(s_list)); init IPRSNT[]; step ite(t4, ite((t7 > MIN_TOTAL), store(t20, t1 := !t6), t20), t20)); t22 := [pitz_params[param_list[$k1]]->ispec[2]]; t23 := (sel(ite((ICON == 1), store(t21, [IC] := 1), t21), t22) == 0); t24 := ((sel(t8, t9) * sel(t8, t22)) * pitz_params[param_list[$k1]]->p); t25 := store($prev1{LGAMMA[]}, t2 := ite(t23, t3, (t3 + t24))); t26 := ((sel(t8, t2) * sel(t8, t22)) * pitz_params[param_list[$k1]]->p); t27 := store(t25, t9 := ite(t23, sel(t25, t9), (sel(t25, t9) + t26))); t28 := sel(t27, t22); t29 := (sel(t8, t2) * sel(t8, t9)); t30 := (t29 * pitz_params[param_list[$k1]]->p); t31 := store(t27, t22 := ite(t23, t28, (t28 + t30))); t32 := (use_etheta == 1); t33 := (2.0 * sel(t8, t9)); t34 := store($prev1{LGAMMA[]}, t2 := (t3 + (t33 * pitz_params[param_list[$k1]]->thetas->etheta))); t35 := (2.0 * sel(t8, t2)); t36 := store($prev1{LGAMMA[]}, t2 := (t3 + ((sel(t8, t9) * pitz_params[param_list[$k1]]->p) * pitz_params[param_list[$k1]]->ln_coef[0]))); t37 := store($prev1{LGAMMA[]}, t2 := ite(t23, t3, (t3 + (t24 * pitz_params[param_list[$k1]]->ln_coef[0])))); t38 := store(t37, t9 := ite(t23, sel(t37, t9), (sel(t37, t9) + (t26 * pitz_params[param_list[$k1]]->ln_coef[1])))); t39 := sel(t38, t22); t40 := store($prev1{LGAMMA[]}, t2 := (t3 + (t33 * pitz_params[param_list[$k1]]->p))); t41 := [ion_list[$k1]]; t42 := fabs(spec[ion_list[$k1]]->z); t43 := (patm_x > 1.0); t44 := ((7e-05 + (1.93e-09 * pow((tk_x - 250.0), 2.0))) * patm_x); t45 := (1.2 - ite((t44 > 0.2), 0.2, t44)); t46 := (1.0 + (t45 * sqrt(mu_x))); t47 := (1.0 + (1.2 * sqrt(mu_x))); t48 := (-A0 * ((sqrt(mu_x) / t47) + ((2.0 * log(t47)) / 1.2))); t49 := ite(t43, ite((t45 != 0), (-A0 * ((sqrt(mu_x) / t46) + ((2.0 * log(t46)) / t45))), t48), t48); t50 := switch(pitz_params[param_list[$k1]]->type; TYPE_ETA -> !t23; TYPE_MU -> !t23; TYPE_PSI -> !t23; TYPE_ZETA -> !t23; else -> 1); t51 := ite(t13, ((t30 * GP(t14)) / mu_x), 0); t52 := switch(pitz_params[param_list[$k1]]->type; TYPE_B1 -> t51; TYPE_B2 -> t51; TYPE_ETHETA -> ite(t32, (t29 * pitz_params[param_list[$k1]]->thetas->ethetap), 0); else -> 0); t53 := ite((tk_x > 263.0), ((9.65e-10 * pow((tk_x - 263.0), 2.773)) * pow(patm_x, 0.623)), t44); t54 := (1.2 - ite((t53 > 0.2), 0.2, t53)); t55 := (1.0 + (t54 * sqrt(mu_x))); t56 := fold($k1 from 0 ++ while ($k1 < size(ion_list)); init fold($k1 from 0 ++ while ($k1 < size(param_list)); init fold($k1 from 0 ++ while ($k1 < size(s_list)); init LGAMMA[]; step store($prev1{LGAMMA[]}, t1 := 0.0)); step switch(pitz_params[param_list[$k1]]->type; TYPE_B0 -> store(t11, t9 := (sel(t11, t9) + t12)); TYPE_B1 -> t16; TYPE_B2 -> t16; TYPE_C0 -> store(t19, t9 := (sel(t19, t9) + (((sel(t8, t2) * t17) * pitz_params[param_list[$k1]]->p) / t18))); TYPE_ETA -> t31; TYPE_ETHETA -> ite(t32, store(t34, t9 := (sel(t34, t9) + (t35 * pitz_params[param_list[$k1]]->thetas->etheta))), $prev1{LGAMMA[]}); TYPE_LAMBDA -> store(t36, t9 := (sel(t36, t9) + ((sel(t8, t2) * pitz_params[param_list[$k1]]->p) * pitz_params[param_list[$k1]]->ln_coef[1]))); TYPE_MU -> store(t38, t22 := ite(t23, t39, (t39 + (t30 * pitz_params[param_list[$k1]]->ln_coef[2])))); TYPE_PSI -> t31; TYPE_THETA -> store(t40, t9 := (sel(t40, t9) + (t35 * pitz_params[param_list[$k1]]->p))); TYPE_ZETA -> t31; else -> $prev1{LGAMMA[]})); step store($prev1{LGAMMA[]}, t41 := (sel($prev1{LGAMMA[]}, t41) + (((t42 * t42) * ite((t42 == 1), fold($k1 from 0 ++ while ($k1 < size(param_list)); init t49; step ite(t50, ($prev1{F1} + t52), $prev1{F1})), ite((t42 == 2.0), fold($k1 from 0 ++ while ($k1 < size(param_list)); init ite(t43, ite((t54 != 0), (-A0 * ((sqrt(mu_x) / t55) + ((2.0 * log(t55)) / t54))), t48), t48); step ite(t50, ($prev1{F2} + t52), $prev1{F2})), fold($k1 from 0 ++ while ($k1 < size(param_list)); init t48; step ite(t50, ($prev1{F} + t52), $prev1{F}))))) + (t42 * fold($k1 from 0 ++ while ($k1 < size(param_list)); init 0.0; step switch(pitz_params[param_list[$k1]]->type; TYPE_C0 -> ($prev1{CSUM} + (t30 / t18)); else -> $prev1{CSUM}))))))); t57 := ite((mcb0 != NULL), (t49 + ((mu_x * 2.0) * mcb0->p)), t49); t58 := (2.0 * sqrt(mu_x)); t59 := ite((mcb1 != NULL), (t57 + (((mu_x * 2.0) * mcb1->p) * ((1.0 - (((1.0 + t58) - ((t58 * t58) * 0.5)) * exp(-t58))) / (t58 * t58)))), t57); ite((ICON == 1), fold($k1 from 0 ++ while ($k1 < size(s_list)); init t56; step store($prev1{LGAMMA[]}, t1 := (sel($prev1{LGAMMA[]}, t1) + (spec[s_list[$k1]]->z * (sel(t56, [IC]) - ite((mcc0 != NULL), (t59 + (((1.5 * mcc0->p) * mu_x) * mu_x)), t59)))))), t56)"),
  ("M[]", "t1 := [s_list[$k1]]; t2 := store($prev1{M[]}, t1 := 0.0); fold($k1 from 0 ++ while ($k1 < size(s_list)); init M[]; step ite(((spec[s_list[$k1]] != NULL) && (spec[s_list[$k1]]->in == 1)), store(t2, t1 := ite((((spec[s_list[$k1]]->type == 5) || (spec[s_list[$k1]]->type == 6)) || (spec[s_list[$k1]]->type == 7)), 0.0, under(spec[s_list[$k1]]->lm))), t2))"),
  ("spec[]->lg_pitzer", "t1 := [s_list[$k1]]; t2 := [pitz_params[param_list[$k1]]->ispec[0]]; t3 := sel($prev1{LGAMMA[]}, t2); t4 := ((spec[s_list[$k1]] != NULL) && (spec[s_list[$k1]]->in == 1)); t5 := store($prev1{M[]}, t1 := 0.0); t6 := (((spec[s_list[$k1]]->type == 5) || (spec[s_list[$k1]]->type == 6)) || (spec[s_list[$k1]]->type == 7)); t7 := ite(t6, 0.0, under(spec[s_list[$k1]]->lm)); t8 := fold($k1 from 0 ++ while ($k1 < size(s_list)); init M[]; step ite(t4, store(t5, t1 := t7), t5)); t9 := [pitz_params[param_list[$k1]]->ispec[1]]; t10 := ((sel(t8, t9) * 2.0) * pitz_params[param_list[$k1]]->p); t11 := store($prev1{LGAMMA[]}, t2 := (t3 + t10)); t12 := ((sel(t8, t2) * 2.0) * pitz_params[param_list[$k1]]->p); t13 := (pitz_params[param_list[$k1]]->p != 0.0); t14 := (pitz_params[param_list[$k1]]->alpha * sqrt(mu_x)); t15 := store($prev1{LGAMMA[]}, t2 := (t3 + (t10 * G(t14)))); t16 := ite(t13, store(t15, t9 := (sel(t15, t9) + (t12 * G(t14)))), $prev1{LGAMMA[]}); t17 := fold($k1 from 0 ++ while ($k1 < size(s_list)); init 0.0; step ($prev1{XX} + (sel(t8, t1) * fabs(spec[s_list[$k1]]->z)))); t18 := (2.0 * sqrt(fabs((spec[pitz_params[param_list[$k1]]->ispec[0]]->z * spec[pitz_params[param_list[$k1]]->ispec[1]]->z)))); t19 := store($prev1{LGAMMA[]}, t2 := (t3 + (((sel(t8, t9) * t17) * pitz_params[param_list[$k1]]->p) / t18))); t20 := store($prev1{IPRSNT[]}, t1 := 0); t21 := fold($k1 from 0 ++ while ($k1 < size(s_list)); init IPRSNT[]; step ite(t4, ite((t7 > MIN_TOTAL), store(t20, t1 := !t6), t20), t20)); t22 := [pitz_params[param_list[$k1]]->ispec[2]]; t23 := (sel(ite((ICON == 1), store(t21, [IC] := 1), t21), t22) == 0); t24 := ((sel(t8, t9) * sel(t8, t22)) * pitz_params[param_list[$k1]]->p); t25 := store($prev1{LGAMMA[]}, t2 := ite(t23, t3, (t3 + t24))); t26 := ((sel(t8, t2) * sel(t8, t22)) * pitz_params[param_list[$k1]]->p); t27 := store(t25, t9 := ite(t23, sel(t25, t9), (sel(t25, t9) + t26))); t28 := sel(t27, t22); t29 := (sel(t8, t2) * sel(t8, t9)); t30 := (t29 * pitz_params[param_list[$k1]]->p); t31 := store(t27, t22 := ite(t23, t28, (t28 + t30))); t32 := (use_etheta == 1); t33 := (2.0 * sel(t8, t9)); t34 := store($prev1{LGAMMA[]}, t2 := (t3 + (t33 * pitz_params[param_list[$k1]]->thetas->etheta))); t35 := (2.0 * sel(t8, t2)); t36 := store($prev1{LGAMMA[]}, t2 := (t3 + ((sel(t8, t9) * pitz_params[param_list[$k1]]->p) * pitz_params[param_list[$k1]]->ln_coef[0]))); t37 := store($prev1{LGAMMA[]}, t2 := ite(t23, t3, (t3 + (t24 * pitz_params[param_list[$k1]]->ln_coef[0])))); t38 := store(t37, t9 := ite(t23, sel(t37, t9), (sel(t37, t9) + (t26 * pitz_params[param_list[$k1]]->ln_coef[1])))); t39 := sel(t38, t22); t40 := store($prev1{LGAMMA[]}, t2 := (t3 + (t33 * pitz_params[param_list[$k1]]->p))); t41 := [ion_list[$k1]]; t42 := fabs(spec[ion_list[$k1]]->z); t43 := (patm_x > 1.0); t44 := ((7e-05 + (1.93e-09 * pow((tk_x - 250.0), 2.0))) * patm_x); t45 := (1.2 - ite((t44 > 0.2), 0.2, t44)); t46 := (1.0 + (t45 * sqrt(mu_x))); t47 := (1.0 + (1.2 * sqrt(mu_x))); t48 := (-A0 * ((sqrt(mu_x) / t47) + ((2.0 * log(t47)) / 1.2))); t49 := ite(t43, ite((t45 != 0), (-A0 * ((sqrt(mu_x) / t46) + ((2.0 * log(t46)) / t45))), t48), t48); t50 := switch(pitz_params[param_list[$k1]]->type; TYPE_ETA -> !t23; TYPE_MU -> !t23; TYPE_PSI -> !t23; TYPE_ZETA -> !t23; else -> 1); t51 := ite(t13, ((t30 * GP(t14)) / mu_x), 0); t52 := switch(pitz_params[param_list[$k1]]->type; TYPE_B1 -> t51; TYPE_B2 -> t51; TYPE_ETHETA -> ite(t32, (t29 * pitz_params[param_list[$k1]]->thetas->ethetap), 0); else -> 0); t53 := ite((tk_x > 263.0), ((9.65e-10 * pow((tk_x - 263.0), 2.773)) * pow(patm_x, 0.623)), t44); t54 := (1.2 - ite((t53 > 0.2), 0.2, t53)); t55 := (1.0 + (t54 * sqrt(mu_x))); t56 := fold($k1 from 0 ++ while ($k1 < size(ion_list)); init fold($k1 from 0 ++ while ($k1 < size(param_list)); init fold($k1 from 0 ++ while ($k1 < size(s_list)); init LGAMMA[]; step store($prev1{LGAMMA[]}, t1 := 0.0)); step switch(pitz_params[param_list[$k1]]->type; TYPE_B0 -> store(t11, t9 := (sel(t11, t9) + t12)); TYPE_B1 -> t16; TYPE_B2 -> t16; TYPE_C0 -> store(t19, t9 := (sel(t19, t9) + (((sel(t8, t2) * t17) * pitz_params[param_list[$k1]]->p) / t18))); TYPE_ETA -> t31; TYPE_ETHETA -> ite(t32, store(t34, t9 := (sel(t34, t9) + (t35 * pitz_params[param_list[$k1]]->thetas->etheta))), $prev1{LGAMMA[]}); TYPE_LAMBDA -> store(t36, t9 := (sel(t36, t9) + ((sel(t8, t2) * pitz_params[param_list[$k1]]->p) * pitz_params[param_list[$k1]]->ln_coef[1]))); TYPE_MU -> store(t38, t22 := ite(t23, t39, (t39 + (t30 * pitz_params[param_list[$k1]]->ln_coef[2])))); TYPE_PSI -> t31; TYPE_THETA -> store(t40, t9 := (sel(t40, t9) + (t35 * pitz_params[param_list[$k1]]->p))); TYPE_ZETA -> t31; else -> $prev1{LGAMMA[]})); step store($prev1{LGAMMA[]}, t41 := (sel($prev1{LGAMMA[]}, t41) + (((t42 * t42) * ite((t42 == 1), fold($k1 from 0 ++ while ($k1 < size(param_list)); init t49; step ite(t50, ($prev1{F1} + t52), $prev1{F1})), ite((t42 == 2.0), fold($k1 from 0 ++ while ($k1 < size(param_list)); init ite(t43, ite((t54 != 0), (-A0 * ((sqrt(mu_x) / t55) + ((2.0 * log(t55)) / t54))), t48), t48); step ite(t50, ($prev1{F2} + t52), $prev1{F2})), fold($k1 from 0 ++ while ($k1 < size(param_list)); init t48; step ite(t50, ($prev1{F} + t52), $prev1{F}))))) + (t42 * fold($k1 from 0 ++ while ($k1 < size(param_list)); init 0.0; step switch(pitz_params[param_list[$k1]]->type; TYPE_C0 -> ($prev1{CSUM} + (t30 / t18)); else -> $prev1{CSUM}))))))); t57 := ite((mcb0 != NULL), (t49 + ((mu_x * 2.0) * mcb0->p)), t49); t58 := (2.0 * sqrt(mu_x)); t59 := ite((mcb1 != NULL), (t57 + (((mu_x * 2.0) * mcb1->p) * ((1.0 - (((1.0 + t58) - ((t58 * t58) * 0.5)) * exp(-t58))) / (t58 * t58)))), t57); fold($k1 from 0 ++ while ($k1 < size(s_list)); init spec[]->lg_pitzer; step store($prev1{spec[]->lg_pitzer}, t1 := (sel(ite((ICON == 1), fold($k1 from 0 ++ while ($k1 < size(s_list)); init t56; step store($prev1{LGAMMA[]}, t1 := (sel($prev1{LGAMMA[]}, t1) + (spec[s_list[$k1]]->z * (sel(t56, [IC]) - ite((mcc0 != NULL), (t59 + (((1.5 * mcc0->p) * mu_x) * mu_x)), t59)))))), t56), t1) * (1.0 / LOG_10))))"),
  ("theta_params[]->etheta", "ite((use_etheta == 1), fold($k1 from 0 ++ while ($k1 < size(theta_params)); init theta_params[]->etheta; step store($prev1{theta_params[]->etheta}, [$k1] := ETHETAS#out3(theta_params[$k1]->zj, theta_params[$k1]->zk, mu_x))), theta_params[]->etheta)"),
  ("theta_params[]->ethetap", "ite((use_etheta == 1), fold($k1 from 0 ++ while ($k1 < size(theta_params)); init theta_params[]->ethetap; step store($prev1{theta_params[]->ethetap}, [$k1] := ETHETAS#out4(theta_params[$k1]->zj, theta_params[$k1]->zk, mu_x))), theta_params[]->ethetap)")
] := rfl

/-- `sit()`: the assembly of the loops — `Pitzer.sit` -/
theorem sitNF_as_modelled : sitNF = [
  ("$ret", "1"),
  ("AW", "t1 := [s_list[$k1]]; t2 := fold($k1 from 0 ++ while ($k1 < size(s_list)); init sit_M[]; step ite((spec[s_list[$k1]]->lm > log10(MIN_TOTAL)), store($prev1{sit_M[]}, t1 := under(spec[s_list[$k1]]->lm)), store($prev1{sit_M[]}, t1 := 0.0))); t3 := fold($k1 from 0 ++ while ($k1 < size(s_list)); init 0.0; step ($prev1{OSUM} + sel(t2, t1))); t4 := (1.0 + (1.5 * sqrt(mu_x))); t5 := ((spec[sit_params[param_list[$k1]]->ispec[0]]->z == 0.0) && (spec[sit_params[param_list[$k1]]->ispec[1]]->z == 0.0)); t6 := ((sel(t2, [sit_params[param_list[$k1]]->ispec[0]]) * sel(t2, [sit_params[param_list[$k1]]->ispec[1]])) * sit_params[param_list[$k1]]->p); t7 := ($prev1{OSMOT} + t6); exp(((-t3 * (1.0 + ((fold($k1 from 0 ++ while ($k1 < size(param_list)); init (((-2.0 * ((3 * sit_A0) / LOG_10)) / ((1.5 * 1.5) * 1.5)) * ((t4 - (2.0 * log(t4))) - (1.0 / t4))); step switch(sit_params[param_list[$k1]]->type; TYPE_SIT_EPSILON -> ite(t5, ($prev1{OSMOT} + (t6 / 2.0)), t7); TYPE_SIT_EPSILON_MU -> ite(t5, (t7 + ((t6 * mu_x) / 2.0)), (t7 + (t6 * mu_x))); else -> $prev1{OSMOT})) * LOG_10) / t3))) / 55.50837))"),
  ("COSMOT", "t1 := (1.0 + (1.5 * sqrt(mu_x))); t2 := ((spec[sit_params[param_list[$k1]]->ispec[0]]->z == 0.0) && (spec[sit_params[param_list[$k1]]->ispec[1]]->z == 0.0)); t3 := [s_list[$k1]]; t4 := fold($k1 from 0 ++ while ($k1 < size(s_list)); init sit_M[]; step ite((spec[s_list[$k1]]->lm > log10(MIN_TOTAL)), store($prev1{sit_M[]}, t3 := under(spec[s_list[$k1]]->lm)), store($prev1{sit_M[]}, t3 := 0.0))); t5 := ((sel(t4, [sit_params[param_list[$k1]]->ispec[0]]) * sel(t4, [sit_params[param_list[$k1]]->ispec[1]])) * sit_params[param_list[$k1]]->p); t6 := ($prev1{OSMOT} + t5); (1.0 + ((fold($k1 from 0 ++ while ($k1 < size(param_list)); init (((-2.0 * ((3 * sit_A0) / LOG_10)) / ((1.5 * 1.5) * 1.5)) * ((t1 - (2.0 * log(t1))) - (1.0 / t1))); step switch(sit_params[param_list[$k1]]->type; TYPE_SIT_EPSILON -> ite(t2, ($prev1{OSMOT} + (t5 / 2.0)), t6); TYPE_SIT_EPSILON_MU -> ite(t2, (t6 + ((t5 * mu_x) / 2.0)), (t6 + (t5 * mu_x))); else -> $prev1{OSMOT})) * LOG_10) / fold($k1 from 0 ++ while ($k1 < size(s_list)); init 0.0; step ($prev1{OSUM} + sel(t4, t3)))))"),
  ("sit_LGAMMA[]", "t1 := [s_list[$k1]]; t2 := [sit_params[param_list[$k1]]->ispec[0]]; t3 := sel($prev1{sit_LGAMMA[]}, t2); t4 := fold($k1 from 0 ++ while ($k1 < size(s_list)); init sit_M[]; step ite((spec[s_list[$k1]]->lm > log10(MIN_TOTAL)), store($prev1{sit_M[]}, t1 := under(spec[s_list[$k1]]->lm)), store($prev1{sit_M[]}, t1 := 0.0))); t5 := [sit_params[param_list[$k1]]->ispec[1]]; t6 := store($prev1{sit_LGAMMA[]}, t2 := (t3 + (sel(t4, t5) * sit_params[param_list[$k1]]->p))); t7 := store($prev1{sit_LGAMMA[]}, t2 := (t3 + ((sel(t4, t5) * mu_x) * sit_params[param_list[$k1]]->p))); t8 := [ion_list[$k1]]; fold($k1 from 0 ++ while ($k1 < size(ion_list)); init fold($k1 from 0 ++ while ($k1 < size(param_list)); init fold($k1 from 0 ++ while ($k1 < size(s_list)); init sit_LGAMMA[]; step store($prev1{sit_LGAMMA[]}, t1 := 0.0)); step switch(sit_params[param_list[$k1]]->type; TYPE_SIT_EPSILON -> store(t6, t5 := (sel(t6, t5) + (sel(t4, t2) * sit_params[param_list[$k1]]->p))); TYPE_SIT_EPSILON_MU -> store(t7, t5 := (sel(t7, t5) + ((sel(t4, t2) * mu_x) * sit_params[param_list[$k1]]->p))); else -> $prev1{sit_LGAMMA[]})); step store($prev1{sit_LGAMMA[]}, t8 := (sel($prev1{sit_LGAMMA[]}, t8) + ((spec[ion_list[$k1]]->z * spec[ion_list[$k1]]->z) * (-((3 * sit_A0) / LOG_10) * (sqrt(mu_x) / (1.0 + (1.5 * sqrt(mu_x)))))))))"),
  ("sit_M[]", "t1 := [s_list[$k1]]; fold($k1 from 0 ++ while ($k1 < size(s_list)); init sit_M[]; step ite((spec[s_list[$k1]]->lm > log10(MIN_TOTAL)), store($prev1{sit_M[]}, t1 := under(spec[s_list[$k1]]->lm)), store($prev1{sit_M[]}, t1 := 0.0)))"),
  ("spec[]->lg_pitzer", "t1 := [s_list[$k1]]; t2 := [sit_params[param_list[$k1]]->ispec[0]]; t3 := sel($prev1{sit_LGAMMA[]}, t2); t4 := fold($k1 from 0 ++ while ($k1 < size(s_list)); init sit_M[]; step ite((spec[s_list[$k1]]->lm > log10(MIN_TOTAL)), store($prev1{sit_M[]}, t1 := under(spec[s_list[$k1]]->lm)), store($prev1{sit_M[]}, t1 := 0.0))); t5 := [sit_params[param_list[$k1]]->ispec[1]]; t6 := store($prev1{sit_LGAMMA[]}, t2 := (t3 + (sel(t4, t5) * sit_params[param_list[$k1]]->p))); t7 := store($prev1{sit_LGAMMA[]}, t2 := (t3 + ((sel(t4, t5) * mu_x) * sit_params[param_list[$k1]]->p))); t8 := [ion_list[$k1]]; fold($k1 from 0 ++ while ($k1 < size(s_list)); init spec[]->lg_pitzer; step store($prev1{spec[]->lg_pitzer}, t1 := sel(fold($k1 from 0 ++ while ($k1 < size(ion_list)); init fold($k1 from 0 ++ while ($k1 < size(param_list)); init fold($k1 from 0 ++ while ($k1 < size(s_list)); init sit_LGAMMA[]; step store($prev1{sit_LGAMMA[]}, t1 := 0.0)); step switch(sit_params[param_list[$k1]]->type; TYPE_SIT_EPSILON -> store(t6, t5 := (sel(t6, t5) + (sel(t4, t2) * sit_params[param_list[$k1]]->p))); TYPE_SIT_EPSILON_MU -> store(t7, t5 := (sel(t7, t5) + ((sel(t4, t2) * mu_x) * sit_params[param_list[$k1]]->p))); else -> $prev1{sit_LGAMMA[]})); step store($prev1{sit_LGAMMA[]}, t8 := (sel($prev1{sit_LGAMMA[]}, t8) + ((spec[ion_list[$k1]]->z * spec[ion_list[$k1]]->z) * (-((3 * sit_A0) / LOG_10) * (sqrt(mu_x) / (1.0 + (1.5 * sqrt(mu_x))))))))), t1)))")
] := rfl

/-- `gammas()`: the LLNL block with its search loop (`Gamma.searchGo`, `inRange`) and the early returns -/
theorem gammasNF_as_modelled : gammasNF = [
  ("$ret", "t1 := (pitzer_model == 1); t2 := (sit_model == 1); ite((!t1 && !t2), 1, ite(t2, ite(t1, gammas_pz(1), gammas_sit()), ite(t1, gammas_pz(1), $noret)))"),
  ("a_llnl", "t1 := size(llnl_temp); t2 := (!(pitzer_model == 1) && !(sit_model == 1)); t3 := (tc_x <= llnl_temp[$k1]); t4 := ite((ite(t2, fold($k1 from 0 ++ while ($k1 < size(llnl_temp)); init t1; step ite(t3, $k1, $prev1{ilast}); exit (t2 && t3)), t1) == ite(t2, fold($k1 from 0 ++ while ($k1 < size(llnl_temp)); init 0; step ite((tc_x >= llnl_temp[$k1]), $k1, $prev1{ifirst}); exit (t2 && t3)), 0)), 1, ((tc_x - llnl_temp[ite((!(pitzer_model == 1) && !(sit_model == 1)), fold($k1 from 0 ++ while ($k1 < size(llnl_temp)); init 0; step ite((tc_x >= llnl_temp[$k1]), $k1, $prev1{ifirst}); exit ((!(pitzer_model == 1) && !(sit_model == 1)) && (tc_x <= llnl_temp[$k1]))), 0)]) / (llnl_temp[ite((!(pitzer_model == 1) && !(sit_model == 1)), fold($k1 from 0 ++ while ($k1 < size(llnl_temp)); init size(llnl_temp); step ite((tc_x <= llnl_temp[$k1]), $k1, $prev1{ilast}); exit ((!(pitzer_model == 1) && !(sit_model == 1)) && (tc_x <= llnl_temp[$k1]))), size(llnl_temp))] - llnl_temp[ite((!(pitzer_model == 1) && !(sit_model == 1)), fold($k1 from 0 ++ while ($k1 < size(llnl_temp)); init 0; step ite((tc_x >= llnl_temp[$k1]), $k1, $prev1{ifirst}); exit ((!(pitzer_model == 1) && !(sit_model == 1)) && (tc_x <= llnl_temp[$k1]))), 0)]))); ite((t1 > 0), ite(t2, (((1 - t4) * llnl_adh[ite((!(pitzer_model == 1) && !(sit_model == 1)), fold($k1 from 0 ++ while ($k1 < size(llnl_temp)); init 0; step ite((tc_x >= llnl_temp[$k1]), $k1, $prev1{ifirst}); exit ((!(pitzer_model == 1) && !(sit_model == 1)) && (tc_x <= llnl_temp[$k1]))), 0)]) + (t4 * llnl_adh[ite((!(pitzer_model == 1) && !(sit_model == 1)), fold($k1 from 0 ++ while ($k1 < size(llnl_temp)); init size(llnl_temp); step ite((tc_x <= llnl_temp[$k1]), $k1, $prev1{ilast}); exit ((!(pitzer_model == 1) && !(sit_model == 1)) && (tc_x <= llnl_temp[$k1]))), size(llnl_temp))])), a_llnl), ite(t2, 0, a_llnl))"),
  ("b_llnl", "t1 := size(llnl_temp); t2 := (!(pitzer_model == 1) && !(sit_model == 1)); t3 := (tc_x <= llnl_temp[$k1]); t4 := ite((ite(t2, fold($k1 from 0 ++ while ($k1 < size(llnl_temp)); init t1; step ite(t3, $k1, $prev1{ilast}); exit (t2 && t3)), t1) == ite(t2, fold($k1 from 0 ++ while ($k1 < size(llnl_temp)); init 0; step ite((tc_x >= llnl_temp[$k1]), $k1, $prev1{ifirst}); exit (t2 && t3)), 0)), 1, ((tc_x - llnl_temp[ite((!(pitzer_model == 1) && !(sit_model == 1)), fold($k1 from 0 ++ while ($k1 < size(llnl_temp)); init 0; step ite((tc_x >= llnl_temp[$k1]), $k1, $prev1{ifirst}); exit ((!(pitzer_model == 1) && !(sit_model == 1)) && (tc_x <= llnl_temp[$k1]))), 0)]) / (llnl_temp[ite((!(pitzer_model == 1) && !(sit_model == 1)), fold($k1 from 0 ++ while ($k1 < size(llnl_temp)); init size(llnl_temp); step ite((tc_x <= llnl_temp[$k1]), $k1, $prev1{ilast}); exit ((!(pitzer_model == 1) && !(sit_model == 1)) && (tc_x <= llnl_temp[$k1]))), size(llnl_temp))] - llnl_temp[ite((!(pitzer_model == 1) && !(sit_model == 1)), fold($k1 from 0 ++ while ($k1 < size(llnl_temp)); init 0; step ite((tc_x >= llnl_temp[$k1]), $k1, $prev1{ifirst}); exit ((!(pitzer_model == 1) && !(sit_model == 1)) && (tc_x <= llnl_temp[$k1]))), 0)]))); ite((t1 > 0), ite(t2, (((1 - t4) * llnl_bdh[ite((!(pitzer_model == 1) && !(sit_model == 1)), fold($k1 from 0 ++ while ($k1 < size(llnl_temp)); init 0; step ite((tc_x >= llnl_temp[$k1]), $k1, $prev1{ifirst}); exit ((!(pitzer_model == 1) && !(sit_model == 1)) && (tc_x <= llnl_temp[$k1]))), 0)]) + (t4 * llnl_bdh[ite((!(pitzer_model == 1) && !(sit_model == 1)), fold($k1 from 0 ++ while ($k1 < size(llnl_temp)); init size(llnl_temp); step ite((tc_x <= llnl_temp[$k1]), $k1, $prev1{ilast}); exit ((!(pitzer_model == 1) && !(sit_model == 1)) && (tc_x <= llnl_temp[$k1]))), size(llnl_temp))])), b_llnl), ite(t2, 0, b_llnl))"),
  ("bdot_llnl", "t1 := size(llnl_temp); t2 := (!(pitzer_model == 1) && !(sit_model == 1)); t3 := (tc_x <= llnl_temp[$k1]); t4 := ite((ite(t2, fold($k1 from 0 ++ while ($k1 < size(llnl_temp)); init t1; step ite(t3, $k1, $prev1{ilast}); exit (t2 && t3)), t1) == ite(t2, fold($k1 from 0 ++ while ($k1 < size(llnl_temp)); init 0; step ite((tc_x >= llnl_temp[$k1]), $k1, $prev1{ifirst}); exit (t2 && t3)), 0)), 1, ((tc_x - llnl_temp[ite((!(pitzer_model == 1) && !(sit_model == 1)), fold($k1 from 0 ++ while ($k1 < size(llnl_temp)); init 0; step ite((tc_x >= llnl_temp[$k1]), $k1, $prev1{ifirst}); exit ((!(pitzer_model == 1) && !(sit_model == 1)) && (tc_x <= llnl_temp[$k1]))), 0)]) / (llnl_temp[ite((!(pitzer_model == 1) && !(sit_model == 1)), fold($k1 from 0 ++ while ($k1 < size(llnl_temp)); init size(llnl_temp); step ite((tc_x <= llnl_temp[$k1]), $k1, $prev1{ilast}); exit ((!(pitzer_model == 1) && !(sit_model == 1)) && (tc_x <= llnl_temp[$k1]))), size(llnl_temp))] - llnl_temp[ite((!(pitzer_model == 1) && !(sit_model == 1)), fold($k1 from 0 ++ while ($k1 < size(llnl_temp)); init 0; step ite((tc_x >= llnl_temp[$k1]), $k1, $prev1{ifirst}); exit ((!(pitzer_model == 1) && !(sit_model == 1)) && (tc_x <= llnl_temp[$k1]))), 0)]))); ite((t1 > 0), ite(t2, (((1 - t4) * llnl_bdot[ite((!(pitzer_model == 1) && !(sit_model == 1)), fold($k1 from 0 ++ while ($k1 < size(llnl_temp)); init 0; step ite((tc_x >= llnl_temp[$k1]), $k1, $prev1{ifirst}); exit ((!(pitzer_model == 1) && !(sit_model == 1)) && (tc_x <= llnl_temp[$k1]))), 0)]) + (t4 * llnl_bdot[ite((!(pitzer_model == 1) && !(sit_model == 1)), fold($k1 from 0 ++ while ($k1 < size(llnl_temp)); init size(llnl_temp); step ite((tc_x <= llnl_temp[$k1]), $k1, $prev1{ilast}); exit ((!(pitzer_model == 1) && !(sit_model == 1)) && (tc_x <= llnl_temp[$k1]))), size(llnl_temp))])), bdot_llnl), ite(t2, 0, bdot_llnl))")
] := rfl

/-- `pitzer_tidy` — `lambdaCoefs`, `muLn`, `muOs`, the default and `-ALPHAS` values of alpha -/
theorem tidyNF_as_modelled : tidyNF = [
  ("pitz_params[]->alpha", "t1 := fabs(spec[sel(fold($k1 from 0 ++ while ($k1 < size(pitz_params)); init pitz_params[]->ispec[]; step store(store(store($prev1{pitz_params[]->ispec[]}, [$k1; 0] := ISPEC(pitz_params[$k1]->species[0])), [$k1; 1] := ite((((0 < 2) && (ISPEC(pitz_params[$k1]->species[0]) == -1)) || (((0 == 2) && ((pitz_params[$k1]->type == TYPE_PSI) || (pitz_params[$k1]->type == TYPE_ZETA))) && (ISPEC(pitz_params[$k1]->species[0]) == -1))), sel(store($prev1{pitz_params[]->ispec[]}, [$k1; 0] := ISPEC(pitz_params[$k1]->species[0])), [$k1; 1]), ISPEC(pitz_params[$k1]->species[1]))), [$k1; 2] := ite((!(((0 < 2) && (ISPEC(pitz_params[$k1]->species[0]) == -1)) || (((0 == 2) && ((pitz_params[$k1]->type == TYPE_PSI) || (pitz_params[$k1]->type == TYPE_ZETA))) && (ISPEC(pitz_params[$k1]->species[0]) == -1))) && !(((1 < 2) && (ite((((0 < 2) && (ISPEC(pitz_params[$k1]->species[0]) == -1)) || (((0 == 2) && ((pitz_params[$k1]->type == TYPE_PSI) || (pitz_params[$k1]->type == TYPE_ZETA))) && (ISPEC(pitz_params[$k1]->species[0]) == -1))), sel(store($prev1{pitz_params[]->ispec[]}, [$k1; 0] := ISPEC(pitz_params[$k1]->species[0])), [$k1; 1]), ISPEC(pitz_params[$k1]->species[1])) == -1)) || (((1 == 2) && ((pitz_params[$k1]->type == TYPE_PSI) || (pitz_params[$k1]->type == TYPE_ZETA))) && (ite((((0 < 2) && (ISPEC(pitz_params[$k1]->species[0]) == -1)) || (((0 == 2) && ((pitz_params[$k1]->type == TYPE_PSI) || (pitz_params[$k1]->type == TYPE_ZETA))) && (ISPEC(pitz_params[$k1]->species[0]) == -1))), sel(store($prev1{pitz_params[]->ispec[]}, [$k1; 0] := ISPEC(pitz_params[$k1]->species[0])), [$k1; 1]), ISPEC(pitz_params[$k1]->species[1])) == -1)))), ISPEC(pitz_params[$k1]->species[2]), sel(store(store($prev1{pitz_params[]->ispec[]}, [$k1; 0] := ISPEC(pitz_params[$k1]->species[0])), [$k1; 1] := ite((((0 < 2) && (ISPEC(pitz_params[$k1]->species[0]) == -1)) || (((0 == 2) && ((pitz_params[$k1]->type == TYPE_PSI) || (pitz_params[$k1]->type == TYPE_ZETA))) && (ISPEC(pitz_params[$k1]->species[0]) == -1))), sel(store($prev1{pitz_params[]->ispec[]}, [$k1; 0] := ISPEC(pitz_params[$k1]->species[0])), [$k1; 1]), ISPEC(pitz_params[$k1]->species[1]))), [$k1; 2])))), [$k1; 0])]->z); t2 := fabs(spec[sel(fold($k1 from 0 ++ while ($k1 < size(pitz_params)); init pitz_params[]->ispec[]; step store(store(store($prev1{pitz_params[]->ispec[]}, [$k1; 0] := ISPEC(pitz_params[$k1]->species[0])), [$k1; 1] := ite((((0 < 2) && (ISPEC(pitz_params[$k1]->species[0]) == -1)) || (((0 == 2) && ((pitz_params[$k1]->type == TYPE_PSI) || (pitz_params[$k1]->type == TYPE_ZETA))) && (ISPEC(pitz_params[$k1]->species[0]) == -1))), sel(store($prev1{pitz_params[]->ispec[]}, [$k1; 0] := ISPEC(pitz_params[$k1]->species[0])), [$k1; 1]), ISPEC(pitz_params[$k1]->species[1]))), [$k1; 2] := ite((!(((0 < 2) && (ISPEC(pitz_params[$k1]->species[0]) == -1)) || (((0 == 2) && ((pitz_params[$k1]->type == TYPE_PSI) || (pitz_params[$k1]->type == TYPE_ZETA))) && (ISPEC(pitz_params[$k1]->species[0]) == -1))) && !(((1 < 2) && (ite((((0 < 2) && (ISPEC(pitz_params[$k1]->species[0]) == -1)) || (((0 == 2) && ((pitz_params[$k1]->type == TYPE_PSI) || (pitz_params[$k1]->type == TYPE_ZETA))) && (ISPEC(pitz_params[$k1]->species[0]) == -1))), sel(store($prev1{pitz_params[]->ispec[]}, [$k1; 0] := ISPEC(pitz_params[$k1]->species[0])), [$k1; 1]), ISPEC(pitz_params[$k1]->species[1])) == -1)) || (((1 == 2) && ((pitz_params[$k1]->type == TYPE_PSI) || (pitz_params[$k1]->type == TYPE_ZETA))) && (ite((((0 < 2) && (ISPEC(pitz_params[$k1]->species[0]) == -1)) || (((0 == 2) && ((pitz_params[$k1]->type == TYPE_PSI) || (pitz_params[$k1]->type == TYPE_ZETA))) && (ISPEC(pitz_params[$k1]->species[0]) == -1))), sel(store($prev1{pitz_params[]->ispec[]}, [$k1; 0] := ISPEC(pitz_params[$k1]->species[0])), [$k1; 1]), ISPEC(pitz_params[$k1]->species[1])) == -1)))), ISPEC(pitz_params[$k1]->species[2]), sel(store(store($prev1{pitz_params[]->ispec[]}, [$k1; 0] := ISPEC(pitz_params[$k1]->species[0])), [$k1; 1] := ite((((0 < 2) && (ISPEC(pitz_params[$k1]->species[0]) == -1)) || (((0 == 2) && ((pitz_params[$k1]->type == TYPE_PSI) || (pitz_params[$k1]->type == TYPE_ZETA))) && (ISPEC(pitz_params[$k1]->species[0]) == -1))), sel(store($prev1{pitz_params[]->ispec[]}, [$k1; 0] := ISPEC(pitz_params[$k1]->species[0])), [$k1; 1]), ISPEC(pitz_params[$k1]->species[1]))), [$k1; 2])))), [$k1; 1])]->z); t3 := ite((equal(t1, 1.0, 1e-08) || equal(t2, 1.0, 1e-08)), 1, ite((equal(t1, 2.0, 1e-08) && equal(t2, 2.0, 1e-08)), 2, 3)); t4 := store($prev1{pitz_params[]->alpha}, [$k1] := 2.0); t5 := store($prev1{pitz_params[]->alpha}, [$k1] := 12.0); t6 := ISPEC(pitz_params[$k1]->species[0]); t7 := store($prev1{pitz_params[]->ispec[]}, [$k1; 0] := t6); t8 := ((pitz_params[$k1]->type == TYPE_PSI) || (pitz_params[$k1]->type == TYPE_ZETA)); t9 := (((0 < 2) && (t6 == -1)) || (((0 == 2) && t8) && (t6 == -1))); t10 := ite(t9, sel(t7, [$k1; 1]), ISPEC(pitz_params[$k1]->species[1])); t11 := store(t7, [$k1; 1] := t10); t12 := fold($k1 from 0 ++ while ($k1 < size(pitz_params)); init pitz_params[]->ispec[]; step store(t11, [$k1; 2] := ite((!t9 && !(((1 < 2) && (t10 == -1)) || (((1 == 2) && t8) && (t10 == -1)))), ISPEC(pitz_params[$k1]->species[2]), sel(t11, [$k1; 2])))); t13 := !(sel(t12, [$k1; 0]) != sel(t12, [$k2; 0])); t14 := !(sel(t12, [$k1; 1]) != sel(t12, [$k2; 1])); t15 := ((!(pitz_params[$k2]->type != TYPE_B1) && t13) && t14); t16 := sel($prev2{pitz_params[]->alpha}, [$k2]); t17 := ((!(pitz_params[$k2]->type != TYPE_B2) && t13) && t14); fold($k1 from 0 ++ while ($k1 < size(pitz_params)); init fold($k1 from 0 ++ while ($k1 < size(pitz_params)); init pitz_params[]->alpha; step ite((pitz_params[$k1]->type == TYPE_B1), switch(t3; 1 -> t4; 2 -> store($prev1{pitz_params[]->alpha}, [$k1] := 1.4); 3 -> t4; else -> $prev1{pitz_params[]->alpha}), ite((pitz_params[$k1]->type == TYPE_B2), switch(t3; 1 -> t5; 2 -> t5; 3 -> store($prev1{pitz_params[]->alpha}, [$k1] := 50.0); else -> $prev1{pitz_params[]->alpha}), $prev1{pitz_params[]->alpha}))); step ite((pitz_params[$k1]->type == TYPE_ALPHAS), fold($k2 from 0 ++ while ($k2 < size(pitz_params)); init fold($k2 from 0 ++ while ($k2 < size(pitz_params)); init $prev1{pitz_params[]->alpha}; step store($prev2{pitz_params[]->alpha}, [$k2] := ite(t15, pitz_params[$k1]->a[0], t16)); exit t15); step store($prev2{pitz_params[]->alpha}, [$k2] := ite(t17, pitz_params[$k1]->a[1], t16)); exit t17), $prev1{pitz_params[]->alpha}))"),
  ("pitz_params[]->ln_coef[]", "t1 := ISPEC(pitz_params[$k1]->species[0]); t2 := store($prev1{pitz_params[]->ispec[]}, [$k1; 0] := t1); t3 := ((pitz_params[$k1]->type == TYPE_PSI) || (pitz_params[$k1]->type == TYPE_ZETA)); t4 := (((0 < 2) && (t1 == -1)) || (((0 == 2) && t3) && (t1 == -1))); t5 := ite(t4, sel(t2, [$k1; 1]), ISPEC(pitz_params[$k1]->species[1])); t6 := store(t2, [$k1; 1] := t5); t7 := fold($k1 from 0 ++ while ($k1 < size(pitz_params)); init pitz_params[]->ispec[]; step store(t6, [$k1; 2] := ite((!t4 && !(((1 < 2) && (t5 == -1)) || (((1 == 2) && t3) && (t5 == -1)))), ISPEC(pitz_params[$k1]->species[2]), sel(t6, [$k1; 2])))); t8 := sel(t7, [$k1; 2]); t9 := sel(t7, [$k1; 1]); t10 := sel(t7, [$k1; 0]); t11 := store($prev1{count[]}, [0] := 0); t12 := ite((t10 == t10), store(t11, [0] := (0 + 1)), t11); t13 := ite((t10 == t9), store(t12, [0] := (sel(t12, [0]) + 1)), t12); t14 := store(ite((t10 == t8), store(t13, [0] := (sel(t13, [0]) + 1)), t13), [1] := 0); t15 := ite((t9 == t10), store(t14, [1] := (0 + 1)), t14); t16 := ite((t9 == t9), store(t15, [1] := (sel(t15, [1]) + 1)), t15); t17 := store(ite((t9 == t8), store(t16, [1] := (sel(t16, [1]) + 1)), t16), [2] := 0); t18 := ite((t8 == t10), store(t17, [2] := (0 + 1)), t17); t19 := ite((t8 == t9), store(t18, [2] := (sel(t18, [2]) + 1)), t18); t20 := ite((t8 == t8), store(t19, [2] := (sel(t19, [2]) + 1)), t19); t21 := sel(t20, [2]); t22 := ((spec[sel(fold($k1 from 0 ++ while ($k1 < size(pitz_params)); init pitz_params[]->ispec[]; step store(store(store($prev1{pitz_params[]->ispec[]}, [$k1; 0] := ISPEC(pitz_params[$k1]->species[0])), [$k1; 1] := ite((((0 < 2) && (ISPEC(pitz_params[$k1]->species[0]) == -1)) || (((0 == 2) && ((pitz_params[$k1]->type == TYPE_PSI) || (pitz_params[$k1]->type == TYPE_ZETA))) && (ISPEC(pitz_params[$k1]->species[0]) == -1))), sel(store($prev1{pitz_params[]->ispec[]}, [$k1; 0] := ISPEC(pitz_params[$k1]->species[0])), [$k1; 1]), ISPEC(pitz_params[$k1]->species[1]))), [$k1; 2] := ite((!(((0 < 2) && (ISPEC(pitz_params[$k1]->species[0]) == -1)) || (((0 == 2) && ((pitz_params[$k1]->type == TYPE_PSI) || (pitz_params[$k1]->type == TYPE_ZETA))) && (ISPEC(pitz_params[$k1]->species[0]) == -1))) && !(((1 < 2) && (ite((((0 < 2) && (ISPEC(pitz_params[$k1]->species[0]) == -1)) || (((0 == 2) && ((pitz_params[$k1]->type == TYPE_PSI) || (pitz_params[$k1]->type == TYPE_ZETA))) && (ISPEC(pitz_params[$k1]->species[0]) == -1))), sel(store($prev1{pitz_params[]->ispec[]}, [$k1; 0] := ISPEC(pitz_params[$k1]->species[0])), [$k1; 1]), ISPEC(pitz_params[$k1]->species[1])) == -1)) || (((1 == 2) && ((pitz_params[$k1]->type == TYPE_PSI) || (pitz_params[$k1]->type == TYPE_ZETA))) && (ite((((0 < 2) && (ISPEC(pitz_params[$k1]->species[0]) == -1)) || (((0 == 2) && ((pitz_params[$k1]->type == TYPE_PSI) || (pitz_params[$k1]->type == TYPE_ZETA))) && (ISPEC(pitz_params[$k1]->species[0]) == -1))), sel(store($prev1{pitz_params[]->ispec[]}, [$k1; 0] := ISPEC(pitz_params[$k1]->species[0])), [$k1; 1]), ISPEC(pitz_params[$k1]->species[1])) == -1)))), ISPEC(pitz_params[$k1]->species[2]), sel(store(store($prev1{pitz_params[]->ispec[]}, [$k1; 0] := ISPEC(pitz_params[$k1]->species[0])), [$k1; 1] := ite((((0 < 2) && (ISPEC(pitz_params[$k1]->species[0]) == -1)) || (((0 == 2) && ((pitz_params[$k1]->type == TYPE_PSI) || (pitz_params[$k1]->type == TYPE_ZETA))) && (ISPEC(pitz_params[$k1]->species[0]) == -1))), sel(store($prev1{pitz_params[]->ispec[]}, [$k1; 0] := ISPEC(pitz_params[$k1]->species[0])), [$k1; 1]), ISPEC(pitz_params[$k1]->species[1]))), [$k1; 2])))), [$k1; 2])]->z < 0) || (spec[sel(fold($k1 from 0 ++ while ($k1 < size(pitz_params)); init pitz_params[]->ispec[]; step store(store(store($prev1{pitz_params[]->ispec[]}, [$k1; 0] := ISPEC(pitz_params[$k1]->species[0])), [$k1; 1] := ite((((0 < 2) && (ISPEC(pitz_params[$k1]->species[0]) == -1)) || (((0 == 2) && ((pitz_params[$k1]->type == TYPE_PSI) || (pitz_params[$k1]->type == TYPE_ZETA))) && (ISPEC(pitz_params[$k1]->species[0]) == -1))), sel(store($prev1{pitz_params[]->ispec[]}, [$k1; 0] := ISPEC(pitz_params[$k1]->species[0])), [$k1; 1]), ISPEC(pitz_params[$k1]->species[1]))), [$k1; 2] := ite((!(((0 < 2) && (ISPEC(pitz_params[$k1]->species[0]) == -1)) || (((0 == 2) && ((pitz_params[$k1]->type == TYPE_PSI) || (pitz_params[$k1]->type == TYPE_ZETA))) && (ISPEC(pitz_params[$k1]->species[0]) == -1))) && !(((1 < 2) && (ite((((0 < 2) && (ISPEC(pitz_params[$k1]->species[0]) == -1)) || (((0 == 2) && ((pitz_params[$k1]->type == TYPE_PSI) || (pitz_params[$k1]->type == TYPE_ZETA))) && (ISPEC(pitz_params[$k1]->species[0]) == -1))), sel(store($prev1{pitz_params[]->ispec[]}, [$k1; 0] := ISPEC(pitz_params[$k1]->species[0])), [$k1; 1]), ISPEC(pitz_params[$k1]->species[1])) == -1)) || (((1 == 2) && ((pitz_params[$k1]->type == TYPE_PSI) || (pitz_params[$k1]->type == TYPE_ZETA))) && (ite((((0 < 2) && (ISPEC(pitz_params[$k1]->species[0]) == -1)) || (((0 == 2) && ((pitz_params[$k1]->type == TYPE_PSI) || (pitz_params[$k1]->type == TYPE_ZETA))) && (ISPEC(pitz_params[$k1]->species[0]) == -1))), sel(store($prev1{pitz_params[]->ispec[]}, [$k1; 0] := ISPEC(pitz_params[$k1]->species[0])), [$k1; 1]), ISPEC(pitz_params[$k1]->species[1])) == -1)))), ISPEC(pitz_params[$k1]->species[2]), sel(store(store($prev1{pitz_params[]->ispec[]}, [$k1; 0] := ISPEC(pitz_params[$k1]->species[0])), [$k1; 1] := ite((((0 < 2) && (ISPEC(pitz_params[$k1]->species[0]) == -1)) || (((0 == 2) && ((pitz_params[$k1]->type == TYPE_PSI) || (pitz_params[$k1]->type == TYPE_ZETA))) && (ISPEC(pitz_params[$k1]->species[0]) == -1))), sel(store($prev1{pitz_params[]->ispec[]}, [$k1; 0] := ISPEC(pitz_params[$k1]->species[0])), [$k1; 1]), ISPEC(pitz_params[$k1]->species[1]))), [$k1; 2])))), [$k1; 2])]->z > 0)); t23 := sel(t20, [0]); t24 := sel(t20, [1]); t25 := ((t23 > 1) || (t24 > 1)); t26 := ((spec[sel(fold($k1 from 0 ++ while ($k1 < size(pitz_params)); init pitz_params[]->ispec[]; step store(store(store($prev1{pitz_params[]->ispec[]}, [$k1; 0] := ISPEC(pitz_params[$k1]->species[0])), [$k1; 1] := ite((((0 < 2) && (ISPEC(pitz_params[$k1]->species[0]) == -1)) || (((0 == 2) && ((pitz_params[$k1]->type == TYPE_PSI) || (pitz_params[$k1]->type == TYPE_ZETA))) && (ISPEC(pitz_params[$k1]->species[0]) == -1))), sel(store($prev1{pitz_params[]->ispec[]}, [$k1; 0] := ISPEC(pitz_params[$k1]->species[0])), [$k1; 1]), ISPEC(pitz_params[$k1]->species[1]))), [$k1; 2] := ite((!(((0 < 2) && (ISPEC(pitz_params[$k1]->species[0]) == -1)) || (((0 == 2) && ((pitz_params[$k1]->type == TYPE_PSI) || (pitz_params[$k1]->type == TYPE_ZETA))) && (ISPEC(pitz_params[$k1]->species[0]) == -1))) && !(((1 < 2) && (ite((((0 < 2) && (ISPEC(pitz_params[$k1]->species[0]) == -1)) || (((0 == 2) && ((pitz_params[$k1]->type == TYPE_PSI) || (pitz_params[$k1]->type == TYPE_ZETA))) && (ISPEC(pitz_params[$k1]->species[0]) == -1))), sel(store($prev1{pitz_params[]->ispec[]}, [$k1; 0] := ISPEC(pitz_params[$k1]->species[0])), [$k1; 1]), ISPEC(pitz_params[$k1]->species[1])) == -1)) || (((1 == 2) && ((pitz_params[$k1]->type == TYPE_PSI) || (pitz_params[$k1]->type == TYPE_ZETA))) && (ite((((0 < 2) && (ISPEC(pitz_params[$k1]->species[0]) == -1)) || (((0 == 2) && ((pitz_params[$k1]->type == TYPE_PSI) || (pitz_params[$k1]->type == TYPE_ZETA))) && (ISPEC(pitz_params[$k1]->species[0]) == -1))), sel(store($prev1{pitz_params[]->ispec[]}, [$k1; 0] := ISPEC(pitz_params[$k1]->species[0])), [$k1; 1]), ISPEC(pitz_params[$k1]->species[1])) == -1)))), ISPEC(pitz_params[$k1]->species[2]), sel(store(store($prev1{pitz_params[]->ispec[]}, [$k1; 0] := ISPEC(pitz_params[$k1]->species[0])), [$k1; 1] := ite((((0 < 2) && (ISPEC(pitz_params[$k1]->species[0]) == -1)) || (((0 == 2) && ((pitz_params[$k1]->type == TYPE_PSI) || (pitz_params[$k1]->type == TYPE_ZETA))) && (ISPEC(pitz_params[$k1]->species[0]) == -1))), sel(store($prev1{pitz_params[]->ispec[]}, [$k1; 0] := ISPEC(pitz_params[$k1]->species[0])), [$k1; 1]), ISPEC(pitz_params[$k1]->species[1]))), [$k1; 2])))), [$k1; 1])]->z < 0) || (spec[sel(fold($k1 from 0 ++ while ($k1 < size(pitz_params)); init pitz_params[]->ispec[]; step store(store(store($prev1{pitz_params[]->ispec[]}, [$k1; 0] := ISPEC(pitz_params[$k1]->species[0])), [$k1; 1] := ite((((0 < 2) && (ISPEC(pitz_params[$k1]->species[0]) == -1)) || (((0 == 2) && ((pitz_params[$k1]->type == TYPE_PSI) || (pitz_params[$k1]->type == TYPE_ZETA))) && (ISPEC(pitz_params[$k1]->species[0]) == -1))), sel(store($prev1{pitz_params[]->ispec[]}, [$k1; 0] := ISPEC(pitz_params[$k1]->species[0])), [$k1; 1]), ISPEC(pitz_params[$k1]->species[1]))), [$k1; 2] := ite((!(((0 < 2) && (ISPEC(pitz_params[$k1]->species[0]) == -1)) || (((0 == 2) && ((pitz_params[$k1]->type == TYPE_PSI) || (pitz_params[$k1]->type == TYPE_ZETA))) && (ISPEC(pitz_params[$k1]->species[0]) == -1))) && !(((1 < 2) && (ite((((0 < 2) && (ISPEC(pitz_params[$k1]->species[0]) == -1)) || (((0 == 2) && ((pitz_params[$k1]->type == TYPE_PSI) || (pitz_params[$k1]->type == TYPE_ZETA))) && (ISPEC(pitz_params[$k1]->species[0]) == -1))), sel(store($prev1{pitz_params[]->ispec[]}, [$k1; 0] := ISPEC(pitz_params[$k1]->species[0])), [$k1; 1]), ISPEC(pitz_params[$k1]->species[1])) == -1)) || (((1 == 2) && ((pitz_params[$k1]->type == TYPE_PSI) || (pitz_params[$k1]->type == TYPE_ZETA))) && (ite((((0 < 2) && (ISPEC(pitz_params[$k1]->species[0]) == -1)) || (((0 == 2) && ((pitz_params[$k1]->type == TYPE_PSI) || (pitz_params[$k1]->type == TYPE_ZETA))) && (ISPEC(pitz_params[$k1]->species[0]) == -1))), sel(store($prev1{pitz_params[]->ispec[]}, [$k1; 0] := ISPEC(pitz_params[$k1]->species[0])), [$k1; 1]), ISPEC(pitz_params[$k1]->species[1])) == -1)))), ISPEC(pitz_params[$k1]->species[2]), sel(store(store($prev1{pitz_params[]->ispec[]}, [$k1; 0] := ISPEC(pitz_params[$k1]->species[0])), [$k1; 1] := ite((((0 < 2) && (ISPEC(pitz_params[$k1]->species[0]) == -1)) || (((0 == 2) && ((pitz_params[$k1]->type == TYPE_PSI) || (pitz_params[$k1]->type == TYPE_ZETA))) && (ISPEC(pitz_params[$k1]->species[0]) == -1))), sel(store($prev1{pitz_params[]->ispec[]}, [$k1; 0] := ISPEC(pitz_params[$k1]->species[0])), [$k1; 1]), ISPEC(pitz_params[$k1]->species[1]))), [$k1; 2])))), [$k1; 1])]->z > 0)); t27 := ((spec[sel(fold($k1 from 0 ++ while ($k1 < size(pitz_params)); init pitz_params[]->ispec[]; step store(store(store($prev1{pitz_params[]->ispec[]}, [$k1; 0] := ISPEC(pitz_params[$k1]->species[0])), [$k1; 1] := ite((((0 < 2) && (ISPEC(pitz_params[$k1]->species[0]) == -1)) || (((0 == 2) && ((pitz_params[$k1]->type == TYPE_PSI) || (pitz_params[$k1]->type == TYPE_ZETA))) && (ISPEC(pitz_params[$k1]->species[0]) == -1))), sel(store($prev1{pitz_params[]->ispec[]}, [$k1; 0] := ISPEC(pitz_params[$k1]->species[0])), [$k1; 1]), ISPEC(pitz_params[$k1]->species[1]))), [$k1; 2] := ite((!(((0 < 2) && (ISPEC(pitz_params[$k1]->species[0]) == -1)) || (((0 == 2) && ((pitz_params[$k1]->type == TYPE_PSI) || (pitz_params[$k1]->type == TYPE_ZETA))) && (ISPEC(pitz_params[$k1]->species[0]) == -1))) && !(((1 < 2) && (ite((((0 < 2) && (ISPEC(pitz_params[$k1]->species[0]) == -1)) || (((0 == 2) && ((pitz_params[$k1]->type == TYPE_PSI) || (pitz_params[$k1]->type == TYPE_ZETA))) && (ISPEC(pitz_params[$k1]->species[0]) == -1))), sel(store($prev1{pitz_params[]->ispec[]}, [$k1; 0] := ISPEC(pitz_params[$k1]->species[0])), [$k1; 1]), ISPEC(pitz_params[$k1]->species[1])) == -1)) || (((1 == 2) && ((pitz_params[$k1]->type == TYPE_PSI) || (pitz_params[$k1]->type == TYPE_ZETA))) && (ite((((0 < 2) && (ISPEC(pitz_params[$k1]->species[0]) == -1)) || (((0 == 2) && ((pitz_params[$k1]->type == TYPE_PSI) || (pitz_params[$k1]->type == TYPE_ZETA))) && (ISPEC(pitz_params[$k1]->species[0]) == -1))), sel(store($prev1{pitz_params[]->ispec[]}, [$k1; 0] := ISPEC(pitz_params[$k1]->species[0])), [$k1; 1]), ISPEC(pitz_params[$k1]->species[1])) == -1)))), ISPEC(pitz_params[$k1]->species[2]), sel(store(store($prev1{pitz_params[]->ispec[]}, [$k1; 0] := ISPEC(pitz_params[$k1]->species[0])), [$k1; 1] := ite((((0 < 2) && (ISPEC(pitz_params[$k1]->species[0]) == -1)) || (((0 == 2) && ((pitz_params[$k1]->type == TYPE_PSI) || (pitz_params[$k1]->type == TYPE_ZETA))) && (ISPEC(pitz_params[$k1]->species[0]) == -1))), sel(store($prev1{pitz_params[]->ispec[]}, [$k1; 0] := ISPEC(pitz_params[$k1]->species[0])), [$k1; 1]), ISPEC(pitz_params[$k1]->species[1]))), [$k1; 2])))), [$k1; 0])]->z < 0) || (spec[sel(fold($k1 from 0 ++ while ($k1 < size(pitz_params)); init pitz_params[]->ispec[]; step store(store(store($prev1{pitz_params[]->ispec[]}, [$k1; 0] := ISPEC(pitz_params[$k1]->species[0])), [$k1; 1] := ite((((0 < 2) && (ISPEC(pitz_params[$k1]->species[0]) == -1)) || (((0 == 2) && ((pitz_params[$k1]->type == TYPE_PSI) || (pitz_params[$k1]->type == TYPE_ZETA))) && (ISPEC(pitz_params[$k1]->species[0]) == -1))), sel(store($prev1{pitz_params[]->ispec[]}, [$k1; 0] := ISPEC(pitz_params[$k1]->species[0])), [$k1; 1]), ISPEC(pitz_params[$k1]->species[1]))), [$k1; 2] := ite((!(((0 < 2) && (ISPEC(pitz_params[$k1]->species[0]) == -1)) || (((0 == 2) && ((pitz_params[$k1]->type == TYPE_PSI) || (pitz_params[$k1]->type == TYPE_ZETA))) && (ISPEC(pitz_params[$k1]->species[0]) == -1))) && !(((1 < 2) && (ite((((0 < 2) && (ISPEC(pitz_params[$k1]->species[0]) == -1)) || (((0 == 2) && ((pitz_params[$k1]->type == TYPE_PSI) || (pitz_params[$k1]->type == TYPE_ZETA))) && (ISPEC(pitz_params[$k1]->species[0]) == -1))), sel(store($prev1{pitz_params[]->ispec[]}, [$k1; 0] := ISPEC(pitz_params[$k1]->species[0])), [$k1; 1]), ISPEC(pitz_params[$k1]->species[1])) == -1)) || (((1 == 2) && ((pitz_params[$k1]->type == TYPE_PSI) || (pitz_params[$k1]->type == TYPE_ZETA))) && (ite((((0 < 2) && (ISPEC(pitz_params[$k1]->species[0]) == -1)) || (((0 == 2) && ((pitz_params[$k1]->type == TYPE_PSI) || (pitz_params[$k1]->type == TYPE_ZETA))) && (ISPEC(pitz_params[$k1]->species[0]) == -1))), sel(store($prev1{pitz_params[]->ispec[]}, [$k1; 0] := ISPEC(pitz_params[$k1]->species[0])), [$k1; 1]), ISPEC(pitz_params[$k1]->species[1])) == -1)))), ISPEC(pitz_params[$k1]->species[2]), sel(store(store($prev1{pitz_params[]->ispec[]}, [$k1; 0] := ISPEC(pitz_params[$k1]->species[0])), [$k1; 1] := ite((((0 < 2) && (ISPEC(pitz_params[$k1]->species[0]) == -1)) || (((0 == 2) && ((pitz_params[$k1]->type == TYPE_PSI) || (pitz_params[$k1]->type == TYPE_ZETA))) && (ISPEC(pitz_params[$k1]->species[0]) == -1))), sel(store($prev1{pitz_params[]->ispec[]}, [$k1; 0] := ISPEC(pitz_params[$k1]->species[0])), [$k1; 1]), ISPEC(pitz_params[$k1]->species[1]))), [$k1; 2])))), [$k1; 0])]->z > 0)); t28 := ite(t27, ite(t25, store($prev1{pitz_params[]->ln_coef[]}, [$k1; 0] := 3), store($prev1{pitz_params[]->ln_coef[]}, [$k1; 0] := 6)), $prev1{pitz_params[]->ln_coef[]}); t29 := sel(t28, [$k1; 0]); t30 := store(t28, [$k1; 0] := ite(t27, t29, 3)); t31 := ite((t23 == 3), store(t28, [$k1; 0] := ite(t27, t29, 1)), ite((t23 == 2), t30, ite((t23 == 1), ite(t25, t30, store(t28, [$k1; 0] := ite(t27, t29, 6))), t28))); t32 := ite(t26, ite(t25, store(t31, [$k1; 1] := 3), store(t31, [$k1; 1] := 6)), t31); t33 := sel(t32, [$k1; 1]); t34 := store(t32, [$k1; 1] := ite(t26, t33, 3)); t35 := ite((t24 == 3), store(t32, [$k1; 1] := ite(t26, t33, 1)), ite((t24 == 2), t34, ite((t24 == 1), ite(t25, t34, store(t32, [$k1; 1] := ite(t26, t33, 6))), t32))); t36 := ite(t22, ite(t25, store(t35, [$k1; 2] := 3), store(t35, [$k1; 2] := 6)), t35); t37 := sel(t36, [$k1; 2]); t38 := store(t36, [$k1; 2] := ite(t22, t37, 3)); fold($k1 from 0 ++ while ($k1 < size(pitz_params)); init fold($k1 from 0 ++ while ($k1 < size(pitz_params)); init pitz_params[]->ln_coef[]; step ite((pitz_params[$k1]->type == TYPE_MU), ite((t21 == 3), store(t36, [$k1; 2] := ite(t22, t37, 1)), ite((t21 == 2), t38, ite((t21 == 1), ite(t25, t38, store(t36, [$k1; 2] := ite(t22, t37, 6))), t36))), $prev1{pitz_params[]->ln_coef[]})); step ite((pitz_params[$k1]->type == TYPE_LAMBDA), ite((t10 == t9), store(store($prev1{pitz_params[]->ln_coef[]}, [$k1; 0] := 1), [$k1; 1] := 1), store(store($prev1{pitz_params[]->ln_coef[]}, [$k1; 0] := 2), [$k1; 1] := 2)), $prev1{pitz_params[]->ln_coef[]}))"),
  ("pitz_params[]->os_coef", "t1 := ISPEC(pitz_params[$k1]->species[0]); t2 := store($prev1{pitz_params[]->ispec[]}, [$k1; 0] := t1); t3 := ((pitz_params[$k1]->type == TYPE_PSI) || (pitz_params[$k1]->type == TYPE_ZETA)); t4 := (((0 < 2) && (t1 == -1)) || (((0 == 2) && t3) && (t1 == -1))); t5 := ite(t4, sel(t2, [$k1; 1]), ISPEC(pitz_params[$k1]->species[1])); t6 := store(t2, [$k1; 1] := t5); t7 := fold($k1 from 0 ++ while ($k1 < size(pitz_params)); init pitz_params[]->ispec[]; step store(t6, [$k1; 2] := ite((!t4 && !(((1 < 2) && (t5 == -1)) || (((1 == 2) && t3) && (t5 == -1)))), ISPEC(pitz_params[$k1]->species[2]), sel(t6, [$k1; 2])))); t8 := sel(t7, [$k1; 0]); t9 := sel(t7, [$k1; 1]); t10 := sel(t7, [$k1; 2]); t11 := (((t8 == t9) || (t9 == t10)) || (t8 == t10)); t12 := ite((spec[sel(fold($k1 from 0 ++ while ($k1 < size(pitz_params)); init pitz_params[]->ispec[]; step store(store(store($prev1{pitz_params[]->ispec[]}, [$k1; 0] := ISPEC(pitz_params[$k1]->species[0])), [$k1; 1] := ite((((0 < 2) && (ISPEC(pitz_params[$k1]->species[0]) == -1)) || (((0 == 2) && ((pitz_params[$k1]->type == TYPE_PSI) || (pitz_params[$k1]->type == TYPE_ZETA))) && (ISPEC(pitz_params[$k1]->species[0]) == -1))), sel(store($prev1{pitz_params[]->ispec[]}, [$k1; 0] := ISPEC(pitz_params[$k1]->species[0])), [$k1; 1]), ISPEC(pitz_params[$k1]->species[1]))), [$k1; 2] := ite((!(((0 < 2) && (ISPEC(pitz_params[$k1]->species[0]) == -1)) || (((0 == 2) && ((pitz_params[$k1]->type == TYPE_PSI) || (pitz_params[$k1]->type == TYPE_ZETA))) && (ISPEC(pitz_params[$k1]->species[0]) == -1))) && !(((1 < 2) && (ite((((0 < 2) && (ISPEC(pitz_params[$k1]->species[0]) == -1)) || (((0 == 2) && ((pitz_params[$k1]->type == TYPE_PSI) || (pitz_params[$k1]->type == TYPE_ZETA))) && (ISPEC(pitz_params[$k1]->species[0]) == -1))), sel(store($prev1{pitz_params[]->ispec[]}, [$k1; 0] := ISPEC(pitz_params[$k1]->species[0])), [$k1; 1]), ISPEC(pitz_params[$k1]->species[1])) == -1)) || (((1 == 2) && ((pitz_params[$k1]->type == TYPE_PSI) || (pitz_params[$k1]->type == TYPE_ZETA))) && (ite((((0 < 2) && (ISPEC(pitz_params[$k1]->species[0]) == -1)) || (((0 == 2) && ((pitz_params[$k1]->type == TYPE_PSI) || (pitz_params[$k1]->type == TYPE_ZETA))) && (ISPEC(pitz_params[$k1]->species[0]) == -1))), sel(store($prev1{pitz_params[]->ispec[]}, [$k1; 0] := ISPEC(pitz_params[$k1]->species[0])), [$k1; 1]), ISPEC(pitz_params[$k1]->species[1])) == -1)))), ISPEC(pitz_params[$k1]->species[2]), sel(store(store($prev1{pitz_params[]->ispec[]}, [$k1; 0] := ISPEC(pitz_params[$k1]->species[0])), [$k1; 1] := ite((((0 < 2) && (ISPEC(pitz_params[$k1]->species[0]) == -1)) || (((0 == 2) && ((pitz_params[$k1]->type == TYPE_PSI) || (pitz_params[$k1]->type == TYPE_ZETA))) && (ISPEC(pitz_params[$k1]->species[0]) == -1))), sel(store($prev1{pitz_params[]->ispec[]}, [$k1; 0] := ISPEC(pitz_params[$k1]->species[0])), [$k1; 1]), ISPEC(pitz_params[$k1]->species[1]))), [$k1; 2])))), [$k1; 0])]->z == 0), (0 + 1), 0); t13 := ite((spec[sel(fold($k1 from 0 ++ while ($k1 < size(pitz_params)); init pitz_params[]->ispec[]; step store(store(store($prev1{pitz_params[]->ispec[]}, [$k1; 0] := ISPEC(pitz_params[$k1]->species[0])), [$k1; 1] := ite((((0 < 2) && (ISPEC(pitz_params[$k1]->species[0]) == -1)) || (((0 == 2) && ((pitz_params[$k1]->type == TYPE_PSI) || (pitz_params[$k1]->type == TYPE_ZETA))) && (ISPEC(pitz_params[$k1]->species[0]) == -1))), sel(store($prev1{pitz_params[]->ispec[]}, [$k1; 0] := ISPEC(pitz_params[$k1]->species[0])), [$k1; 1]), ISPEC(pitz_params[$k1]->species[1]))), [$k1; 2] := ite((!(((0 < 2) && (ISPEC(pitz_params[$k1]->species[0]) == -1)) || (((0 == 2) && ((pitz_params[$k1]->type == TYPE_PSI) || (pitz_params[$k1]->type == TYPE_ZETA))) && (ISPEC(pitz_params[$k1]->species[0]) == -1))) && !(((1 < 2) && (ite((((0 < 2) && (ISPEC(pitz_params[$k1]->species[0]) == -1)) || (((0 == 2) && ((pitz_params[$k1]->type == TYPE_PSI) || (pitz_params[$k1]->type == TYPE_ZETA))) && (ISPEC(pitz_params[$k1]->species[0]) == -1))), sel(store($prev1{pitz_params[]->ispec[]}, [$k1; 0] := ISPEC(pitz_params[$k1]->species[0])), [$k1; 1]), ISPEC(pitz_params[$k1]->species[1])) == -1)) || (((1 == 2) && ((pitz_params[$k1]->type == TYPE_PSI) || (pitz_params[$k1]->type == TYPE_ZETA))) && (ite((((0 < 2) && (ISPEC(pitz_params[$k1]->species[0]) == -1)) || (((0 == 2) && ((pitz_params[$k1]->type == TYPE_PSI) || (pitz_params[$k1]->type == TYPE_ZETA))) && (ISPEC(pitz_params[$k1]->species[0]) == -1))), sel(store($prev1{pitz_params[]->ispec[]}, [$k1; 0] := ISPEC(pitz_params[$k1]->species[0])), [$k1; 1]), ISPEC(pitz_params[$k1]->species[1])) == -1)))), ISPEC(pitz_params[$k1]->species[2]), sel(store(store($prev1{pitz_params[]->ispec[]}, [$k1; 0] := ISPEC(pitz_params[$k1]->species[0])), [$k1; 1] := ite((((0 < 2) && (ISPEC(pitz_params[$k1]->species[0]) == -1)) || (((0 == 2) && ((pitz_params[$k1]->type == TYPE_PSI) || (pitz_params[$k1]->type == TYPE_ZETA))) && (ISPEC(pitz_params[$k1]->species[0]) == -1))), sel(store($prev1{pitz_params[]->ispec[]}, [$k1; 0] := ISPEC(pitz_params[$k1]->species[0])), [$k1; 1]), ISPEC(pitz_params[$k1]->species[1]))), [$k1; 2])))), [$k1; 1])]->z == 0), (t12 + 1), t12); t14 := (ite((spec[sel(fold($k1 from 0 ++ while ($k1 < size(pitz_params)); init pitz_params[]->ispec[]; step store(store(store($prev1{pitz_params[]->ispec[]}, [$k1; 0] := ISPEC(pitz_params[$k1]->species[0])), [$k1; 1] := ite((((0 < 2) && (ISPEC(pitz_params[$k1]->species[0]) == -1)) || (((0 == 2) && ((pitz_params[$k1]->type == TYPE_PSI) || (pitz_params[$k1]->type == TYPE_ZETA))) && (ISPEC(pitz_params[$k1]->species[0]) == -1))), sel(store($prev1{pitz_params[]->ispec[]}, [$k1; 0] := ISPEC(pitz_params[$k1]->species[0])), [$k1; 1]), ISPEC(pitz_params[$k1]->species[1]))), [$k1; 2] := ite((!(((0 < 2) && (ISPEC(pitz_params[$k1]->species[0]) == -1)) || (((0 == 2) && ((pitz_params[$k1]->type == TYPE_PSI) || (pitz_params[$k1]->type == TYPE_ZETA))) && (ISPEC(pitz_params[$k1]->species[0]) == -1))) && !(((1 < 2) && (ite((((0 < 2) && (ISPEC(pitz_params[$k1]->species[0]) == -1)) || (((0 == 2) && ((pitz_params[$k1]->type == TYPE_PSI) || (pitz_params[$k1]->type == TYPE_ZETA))) && (ISPEC(pitz_params[$k1]->species[0]) == -1))), sel(store($prev1{pitz_params[]->ispec[]}, [$k1; 0] := ISPEC(pitz_params[$k1]->species[0])), [$k1; 1]), ISPEC(pitz_params[$k1]->species[1])) == -1)) || (((1 == 2) && ((pitz_params[$k1]->type == TYPE_PSI) || (pitz_params[$k1]->type == TYPE_ZETA))) && (ite((((0 < 2) && (ISPEC(pitz_params[$k1]->species[0]) == -1)) || (((0 == 2) && ((pitz_params[$k1]->type == TYPE_PSI) || (pitz_params[$k1]->type == TYPE_ZETA))) && (ISPEC(pitz_params[$k1]->species[0]) == -1))), sel(store($prev1{pitz_params[]->ispec[]}, [$k1; 0] := ISPEC(pitz_params[$k1]->species[0])), [$k1; 1]), ISPEC(pitz_params[$k1]->species[1])) == -1)))), ISPEC(pitz_params[$k1]->species[2]), sel(store(store($prev1{pitz_params[]->ispec[]}, [$k1; 0] := ISPEC(pitz_params[$k1]->species[0])), [$k1; 1] := ite((((0 < 2) && (ISPEC(pitz_params[$k1]->species[0]) == -1)) || (((0 == 2) && ((pitz_params[$k1]->type == TYPE_PSI) || (pitz_params[$k1]->type == TYPE_ZETA))) && (ISPEC(pitz_params[$k1]->species[0]) == -1))), sel(store($prev1{pitz_params[]->ispec[]}, [$k1; 0] := ISPEC(pitz_params[$k1]->species[0])), [$k1; 1]), ISPEC(pitz_params[$k1]->species[1]))), [$k1; 2])))), [$k1; 2])]->z == 0), (t13 + 1), t13) == 3); t15 := store($prev1{pitz_params[]->os_coef}, [$k1] := 1); t16 := ite(t14, ite(((t8 == t9) && (t9 == t10)), t15, ite(t11, store($prev1{pitz_params[]->os_coef}, [$k1] := 3), store($prev1{pitz_params[]->os_coef}, [$k1] := 6))), $prev1{pitz_params[]->os_coef}); t17 := sel(t16, [$k1]); fold($k1 from 0 ++ while ($k1 < size(pitz_params)); init fold($k1 from 0 ++ while ($k1 < size(pitz_params)); init pitz_params[]->os_coef; step ite((pitz_params[$k1]->type == TYPE_MU), ite(t11, store(t16, [$k1] := ite(t14, t17, 3)), store(t16, [$k1] := ite(t14, t17, 6))), $prev1{pitz_params[]->os_coef})); step ite((pitz_params[$k1]->type == TYPE_LAMBDA), ite((t8 == t9), store($prev1{pitz_params[]->os_coef}, [$k1] := 0.5), t15), $prev1{pitz_params[]->os_coef}))")
] := rfl

/-- `read_species` — `Gamma.defaultAssign`, `applyOpt` (gflag / dha / dhb per option index, with the option table) -/
theorem readSpeciesNF_as_modelled : readSpeciesNF = [
  ("s_eminus->gflag", "t1 := init('no_check', 'check', 'gamma', 'mb', 'mass_balance', 'log_k', 'logk', 'delta_h', 'deltah', 'analytical_expression', 'a_e', 'ae', 'mole_balance', 'llnl_gamma', 'co2_llnl_gamma', 'activity_water', 'add_logk', 'add_log_k', 'add_constant', 'dw', 'erm_ddl', 'millero', 'vm', 'viscosity'); t2 := get_option(t1, 24, &next_char); t3 := ite((t2 == -4), $prev1{opt_save}, t2); t4 := !$prev1{$flive}; t5 := switch(t3; -1 -> -1; -2 -> 3; else -> $prev1{return_value}); t6 := ite(($prev1{s_ptr} == NULL), t4, 1); t7 := (ite(t6, sscanf(get_option#out2(t1, 24), '%lf%lf%lf%lf%lf%lf%lf', &s_ptr->dw, &s_ptr->dw_t, &s_ptr->dw_a, &s_ptr->dw_a2, &s_ptr->dw_a_visc, &s_ptr->dw_a3, &s_ptr->dw_a_v_dif), $prev1{i}) < 1); fold($k1 from -  while true; init s_eminus->gflag; step switch(t3; -4 -> ite((strcmp(trxn.token[0].s->name, 'H+') == 0), $prev1{s_eminus->gflag}, ite((strcmp(trxn.token[0].s->name, 'H3O+') == 0), $prev1{s_eminus->gflag}, ite((strcmp(trxn.token[0].s->name, 'e-') == 0), ite(($prev1{$flive} && ite((parse_eq(line, construct(), 1) == 0), t4, 1)), 3, $prev1{s_eminus->gflag}), $prev1{s_eminus->gflag}))); else -> $prev1{s_eminus->gflag}); exit ((((t5 == -1) || (t5 == 3)) && switch(t3; 19 -> ite(t7, !($prev1{$flive} && t6), 1); else -> 1)) && switch(t3; 19 -> ite(t7, (!t6 && $prev1{$flive}), $prev1{$flive}); else -> $prev1{$flive})))"),
  ("s_h2o->gflag", "t1 := init('no_check', 'check', 'gamma', 'mb', 'mass_balance', 'log_k', 'logk', 'delta_h', 'deltah', 'analytical_expression', 'a_e', 'ae', 'mole_balance', 'llnl_gamma', 'co2_llnl_gamma', 'activity_water', 'add_logk', 'add_log_k', 'add_constant', 'dw', 'erm_ddl', 'millero', 'vm', 'viscosity'); t2 := get_option(t1, 24, &next_char); t3 := ite((t2 == -4), $prev1{opt_save}, t2); t4 := !$prev1{$flive}; t5 := switch(t3; -1 -> -1; -2 -> 3; else -> $prev1{return_value}); t6 := ite(($prev1{s_ptr} == NULL), t4, 1); t7 := (ite(t6, sscanf(get_option#out2(t1, 24), '%lf%lf%lf%lf%lf%lf%lf', &s_ptr->dw, &s_ptr->dw_t, &s_ptr->dw_a, &s_ptr->dw_a2, &s_ptr->dw_a_visc, &s_ptr->dw_a3, &s_ptr->dw_a_v_dif), $prev1{i}) < 1); fold($k1 from -  while true; init s_h2o->gflag; step switch(t3; -4 -> ite((strcmp(trxn.token[0].s->name, 'H+') == 0), $prev1{s_h2o->gflag}, ite((strcmp(trxn.token[0].s->name, 'H3O+') == 0), $prev1{s_h2o->gflag}, ite((strcmp(trxn.token[0].s->name, 'e-') == 0), $prev1{s_h2o->gflag}, ite((strcmp(trxn.token[0].s->name, 'H2O') == 0), ite(($prev1{$flive} && ite((parse_eq(line, construct(), 1) == 0), t4, 1)), 3, $prev1{s_h2o->gflag}), $prev1{s_h2o->gflag})))); else -> $prev1{s_h2o->gflag}); exit ((((t5 == -1) || (t5 == 3)) && switch(t3; 19 -> ite(t7, !($prev1{$flive} && t6), 1); else -> 1)) && switch(t3; 19 -> ite(t7, (!t6 && $prev1{$flive}), $prev1{$flive}); else -> $prev1{$flive})))"),
  ("s_ptr->dha", "t1 := init('no_check', 'check', 'gamma', 'mb', 'mass_balance', 'log_k', 'logk', 'delta_h', 'deltah', 'analytical_expression', 'a_e', 'ae', 'mole_balance', 'llnl_gamma', 'co2_llnl_gamma', 'activity_water', 'add_logk', 'add_log_k', 'add_constant', 'dw', 'erm_ddl', 'millero', 'vm', 'viscosity'); t2 := get_option(t1, 24, &next_char); t3 := ite((t2 == -4), $prev1{opt_save}, t2); t4 := !$prev1{$flive}; t5 := ite(($prev1{s_ptr} == NULL), t4, 1); t6 := ($prev1{$flive} && t5); t7 := get_option#out2(t1, 24); t8 := switch(t3; -1 -> -1; -2 -> 3; else -> $prev1{return_value}); t9 := (ite(t5, sscanf(t7, '%lf%lf%lf%lf%lf%lf%lf', &s_ptr->dw, &s_ptr->dw_t, &s_ptr->dw_a, &s_ptr->dw_a2, &s_ptr->dw_a_visc, &s_ptr->dw_a3, &s_ptr->dw_a_v_dif), $prev1{i}) < 1); fold($k1 from -  while true; init s_ptr->dha; step switch(t3; -4 -> ite(($prev1{$flive} && ite((parse_eq(line, construct(), 1) == 0), t4, 1)), 0.0, $prev1{s_ptr->dha}); 13 -> ite(t6, sscanf#out2(t7, '%lf'), $prev1{s_ptr->dha}); 2 -> ite(t6, sscanf#out2(t7, '%lf%lf'), $prev1{s_ptr->dha}); else -> $prev1{s_ptr->dha}); exit ((((t8 == -1) || (t8 == 3)) && switch(t3; 19 -> ite(t9, !t6, 1); else -> 1)) && switch(t3; 19 -> ite(t9, (!t5 && $prev1{$flive}), $prev1{$flive}); else -> $prev1{$flive})))"),
  ("s_ptr->dhb", "t1 := init('no_check', 'check', 'gamma', 'mb', 'mass_balance', 'log_k', 'logk', 'delta_h', 'deltah', 'analytical_expression', 'a_e', 'ae', 'mole_balance', 'llnl_gamma', 'co2_llnl_gamma', 'activity_water', 'add_logk', 'add_log_k', 'add_constant', 'dw', 'erm_ddl', 'millero', 'vm', 'viscosity'); t2 := get_option(t1, 24, &next_char); t3 := ite((t2 == -4), $prev1{opt_save}, t2); t4 := !$prev1{$flive}; t5 := ($prev1{$flive} && ite((parse_eq(line, construct(), 1) == 0), t4, 1)); t6 := ite(($prev1{s_ptr} == NULL), t4, 1); t7 := ($prev1{$flive} && t6); t8 := get_option#out2(t1, 24); t9 := switch(t3; -1 -> -1; -2 -> 3; else -> $prev1{return_value}); t10 := (ite(t6, sscanf(t8, '%lf%lf%lf%lf%lf%lf%lf', &s_ptr->dw, &s_ptr->dw_t, &s_ptr->dw_a, &s_ptr->dw_a2, &s_ptr->dw_a_visc, &s_ptr->dw_a3, &s_ptr->dw_a_v_dif), $prev1{i}) < 1); fold($k1 from -  while true; init s_ptr->dhb; step switch(t3; -4 -> ite((equal(s_ptr->z, 0.0, 1e-09) == 1), ite(t5, 0.1, $prev1{s_ptr->dhb}), ite(t5, 0.0, $prev1{s_ptr->dhb})); 2 -> ite(t7, sscanf#out3(t8, '%lf%lf'), $prev1{s_ptr->dhb}); else -> $prev1{s_ptr->dhb}); exit ((((t9 == -1) || (t9 == 3)) && switch(t3; 19 -> ite(t10, !t7, 1); else -> 1)) && switch(t3; 19 -> ite(t10, (!t6 && $prev1{$flive}), $prev1{$flive}); else -> $prev1{$flive})))"),
  ("s_ptr->gflag", "t1 := init('no_check', 'check', 'gamma', 'mb', 'mass_balance', 'log_k', 'logk', 'delta_h', 'deltah', 'analytical_expression', 'a_e', 'ae', 'mole_balance', 'llnl_gamma', 'co2_llnl_gamma', 'activity_water', 'add_logk', 'add_log_k', 'add_constant', 'dw', 'erm_ddl', 'millero', 'vm', 'viscosity'); t2 := get_option(t1, 24, &next_char); t3 := ite((t2 == -4), $prev1{opt_save}, t2); t4 := !$prev1{$flive}; t5 := ($prev1{$flive} && ite((parse_eq(line, construct(), 1) == 0), t4, 1)); t6 := ite(($prev1{s_ptr} == NULL), t4, 1); t7 := ($prev1{$flive} && t6); t8 := switch(t3; -1 -> -1; -2 -> 3; else -> $prev1{return_value}); t9 := (ite(t6, sscanf(get_option#out2(t1, 24), '%lf%lf%lf%lf%lf%lf%lf', &s_ptr->dw, &s_ptr->dw_t, &s_ptr->dw_a, &s_ptr->dw_a2, &s_ptr->dw_a_visc, &s_ptr->dw_a3, &s_ptr->dw_a_v_dif), $prev1{i}) < 1); fold($k1 from -  while true; init s_ptr->gflag; step switch(t3; -4 -> ite((equal(s_ptr->z, 0.0, 1e-09) == 1), ite(t5, 0, $prev1{s_ptr->gflag}), ite(t5, 1, $prev1{s_ptr->gflag})); 13 -> ite(t7, 7, $prev1{s_ptr->gflag}); 14 -> ite(t7, 8, $prev1{s_ptr->gflag}); 15 -> ite(t7, 9, $prev1{s_ptr->gflag}); 2 -> ite(t7, 2, $prev1{s_ptr->gflag}); else -> $prev1{s_ptr->gflag}); exit ((((t8 == -1) || (t8 == 3)) && switch(t3; 19 -> ite(t9, !t7, 1); else -> 1)) && switch(t3; 19 -> ite(t9, (!t6 && $prev1{$flive}), $prev1{$flive}); else -> $prev1{$flive})))")
] := rfl

end PhreeqcVerif.C16Src

namespace PhreeqcVerif.Pitzer
open NumOps

def exF : TransFns Rat := ⟨id, id, id, id, id, id, id, id, id, id⟩
def exB1 : PParam Rat :=
  ⟨.b1, 0, 1, 2, 1 / 5, 2, 0, 0, 0, 0, 1 / 2, 1 / 4, 3 / 4, 0, 0⟩
def exEth : PParam Rat :=
  ⟨.etheta, 0, 1, 2, 1, 2, 0, 0, 0, 0, 0, 0, 0, 1 / 10, 1 / 20⟩
def exPs : List (PParam Rat × DData) :=
  [(exB1, { dg := 1 / 8, dgp := 1 / 3, dex := 11 / 24, dE := 0, dEp := 0 }),
   (exEth, { dg := 0, dgp := 0, dex := 0, dE := 1 / 40, dEp := 7 })]

/-- non-vacuity of `pitzer_gibbs_duhem`: its hypotheses hold together on a concrete instance (two ions `z = ±1`, `m = (1, 1)`,
`I = 1` with `sqrt 1 = 1`, a β¹ and an ᴱθ parameter with consistent derivative data, MacInnes scaling on) -/
example : letI := dualOps exF
    rsum 2 (fun k => (fun _ => (1 : Rat)) k *
        ((pitzer (dualInput 2 (fun _ => 1) (fun k => if k = 0 then 1 else 0) (fun k => if k = 0 then 1 else -1) 1 (1 / 2) (2 / 5) 0
          true 1 true (some (1 / 20)) none none exPs)).lgamma k).eps)
      = (lit 2 * (pitzer (dualInput 2 (fun _ => 1) (fun k => if k = 0 then 1 else 0) (fun k => if k = 0 then 1 else -1) 1 (1 / 2) (2 / 5) 0
          true 1 true (some (1 / 20)) none none exPs)).osmot).eps :=
  pitzer_gibbs_duhem exF (fun _ => false) 2 (fun _ => 1) (fun k => if k = 0 then 1 else 0) (fun k => if k = 0 then 1 else -1)
    1 (1 / 2) (2 / 5) 0 true 1 true (some (1 / 20)) none none exPs
    (by intro pq h; simp [exPs] at h; rcases h with rfl | rfl <;> simp [PParam.wf, exB1, exEth, uses3])
    (by intro pq h; simp [exPs] at h; rcases h with rfl | rfl <;> simp [PParam.tidy, exB1, exEth])
    (by intro pq h; simp [exPs] at h; rcases h with rfl | rfl <;> norm_num [IRel, exB1, exEth])
    (by norm_num [rsum]) (by intro _; norm_num [rsum]) (by simp [exF]) (by simp [exF]) (by norm_num [exF])

end PhreeqcVerif.Pitzer

/-! # generated definitions = hand models

`tools/gen_pitzer.py` turns the operator tree of each stored quantity of the source into a definition over `[NumOps α]`
(`Gen/GammaSrc.lean`, regenerated on every run).  The theorems below prove those definitions equal to the hand models the
other theorems of this file are about, so that those theorems are statements about what the source computes. -/
namespace PhreeqcVerif.C16Gen
open Lean Elab Tactic Meta in
/-- close `a = b` with `Eq.refl a` and leave the definitional-equality check to the kernel (whose conversion checker
shares work on terms with many repeated sub-terms, where the elaborator's unifier does not) -/
elab "kernel_rfl" : tactic => do
  let g ← getMainGoal
  let t ← instantiateMVars (← g.getType)
  let some (_, a, _) := t.eq? | throwError "kernel_rfl: goal is not an equality"
  g.assign (← mkEqRefl a)

open PhreeqcVerif PhreeqcVerif.Gen.GammaSrc PhreeqcVerif.Pitzer NumOps

variable {α : Type} [NumOps α] [∀ a b : α, Decidable (a < b)] [∀ a b : α, Decidable (a ≤ b)]

/-! ## `gammas()`: the generated trees are the branches of `Gamma.lgOf` -/

theorem lg0_src (dhb mu old : α) : lg_gflag0 true dhb mu old = Gamma.uncharged (Gamma.clampMu mu) dhb := rfl
theorem lg1_src (z a mu old : α) : lg_gflag1 true z a mu old = Gamma.davies a (Gamma.clampMu mu) z := rfl
theorem lg2_src (a mu z dha b dhb old : α) :
    lg_gflag2 true a mu z dha b dhb old = Gamma.wateq a b (Gamma.clampMu mu) z dha dhb := rfl
theorem lg3_src (old : α) : lg_gflag3 true old = lit 0 := rfl
theorem lg5_src (old : α) : lg_gflag5 true old = lit 0 := rfl
theorem lg7_src (z old aL mu dha bL bd : α) :
    lg_gflag7 true z true old aL mu dha bL bd = Gamma.bdot aL bL bd (Gamma.clampMu mu) z dha := rfl
theorem lg8_src (c0 c1 tk c2 mu c3 c4 old : α) :
    lg_gflag8 true true c0 c1 tk c2 mu c3 c4 (ln (lit 10)) old = Gamma.co2Poly c0 c1 c2 c3 c4 tk (Gamma.clampMu mu) := rfl
theorem lg9_src (la gfw old : α) : lg_gflag9 true la (ln (lit 10)) gfw old = Gamma.actWater la gfw := rfl

/-- a guard that does not hold (Pitzer / SIT model active: `gammas` returns before the loop) leaves the old value -/
theorem lg_src_dead (z a mu old : α) : lg_gflag1 false z a mu old = old := rfl

/-- **`lgOf` is what the source computes**: for every aqueous branch the value of `Gamma.lgOf` at the clamped ionic
strength is the generated tree of that `gflag` case (LLNL parameters present, `LOG_10 = ln 10`) -/
theorem lgOf_src (e : Gamma.Env α) (mu z dha dhb old : α) (hmu : e.mu = Gamma.clampMu mu) (hl : e.hasLlnl = true) :
    Gamma.lgOf e .uncharged z dha dhb = some (lg_gflag0 true dhb mu old) ∧
    Gamma.lgOf e .davies z dha dhb = some (lg_gflag1 true z e.a mu old) ∧
    Gamma.lgOf e .wateq z dha dhb = some (lg_gflag2 true e.a mu z dha e.b dhb old) ∧
    Gamma.lgOf e .unity z dha dhb = some (lg_gflag3 true old) ∧
    Gamma.lgOf e .unity5 z dha dhb = some (lg_gflag5 true old) ∧
    Gamma.lgOf e .llnl z dha dhb = some (lg_gflag7 true z true old e.aL mu dha e.bL e.bdotL) ∧
    Gamma.lgOf e .actWater z dha dhb = some (lg_gflag9 true e.laH2O (ln (lit 10)) e.gfwWater old) := by
  simp only [Gamma.lgOf, hmu, hl, if_true]
  exact ⟨rfl, rfl, rfl, rfl, rfl, rfl, rfl⟩

/-- the interpolated LLNL constants: `(1 − f)·v[ifirst] + f·v[ilast]` with the weight of `Gamma.weight` -/
theorem llnl_blend_src (ts vs : List α) (tc old : α) (i j : Nat) :
    a_llnl_src true true (decide (j = i)) tc (ts.getD i (lit 0)) (ts.getD j (lit 0)) (vs.getD i (lit 0)) (vs.getD j (lit 0)) old
      = Gamma.blend (Gamma.weight ts tc i j) vs i j ∧
    b_llnl_src true true (decide (j = i)) tc (ts.getD i (lit 0)) (ts.getD j (lit 0)) (vs.getD i (lit 0)) (vs.getD j (lit 0)) old
      = Gamma.blend (Gamma.weight ts tc i j) vs i j ∧
    bdot_llnl_src true true (decide (j = i)) tc (ts.getD i (lit 0)) (ts.getD j (lit 0)) (vs.getD i (lit 0)) (vs.getD j (lit 0)) old
      = Gamma.blend (Gamma.weight ts tc i j) vs i j := by
  by_cases h : j = i <;> simp [a_llnl_src, b_llnl_src, bdot_llnl_src, Gamma.blend, Gamma.weight, h]

/-! ## `G`, `GP`, `calc_pitz_param`, `calc_sit_param` -/

theorem g_src_eq (y : α) : g_src y = Pitzer.G y := rfl
theorem gp_src_eq (y : α) : gp_src y = Pitzer.GP y := rfl
theorem calc_param_src_eq (a0 a1 a2 a3 a4 a5 tk : α) :
    calc_param_src tk (lit (29815 / 100)) a0 a1 a2 a3 a4 a5 = Pitzer.calcParam a0 a1 a2 a3 a4 a5 tk := rfl
theorem calc_sit_param_src_eq (a0 a1 a2 a3 a4 tk : α) :
    calc_sit_param_src tk (lit (29815 / 100)) a0 a1 a2 a3 a4 = Pitzer.calcSitParam a0 a1 a2 a3 a4 tk := rfl


/-! ## `pitzer()`: per parameter type, the additions the source makes are the ones of the model

`P t` is a model parameter of type `t` whose ionic-strength functions are the ones the source evaluates in place:
`g = G(α√I)`, `g′ = GP(α√I)`, `exp(−α√I)`, and whose `c0den` is `2·sqrt|z0 z1|`. -/

/-- the model parameter the source's quantities of one loop iteration denote -/
def srcParam (t : PType) (i0 i1 i2 : Nat) (p alpha l0 l1 l2 os et etp mu : α) (z : Nat → α) : PParam α :=
  { type := t, i0 := i0, i1 := i1, i2 := i2, p := p, c0den := lit 2 * sqrt (absv (z i0 * z i1)),
    ln0 := l0, ln1 := l1, ln2 := l2, os := os, g := G (alpha * sqrt mu), gp := GP (alpha * sqrt mu),
    ex := exp ((-alpha) * sqrt mu), etheta := et, ethetap := etp }

section
variable (i0 i1 i2 : Nat) (p alpha l0 l1 l2 os et etp mu bigZ : α) (z m : Nat → α) (present : Nat → Bool) (ue : Bool)

local notation "P" t => srcParam t i0 i1 i2 p alpha l0 l1 l2 os et etp mu z

theorem pz_b0_src :
    lnTermsConst (P .b0) m bigZ present = pz_ln_b0 i0 (m i1) p i1 (m i0) ∧ lnTermsI (P .b0) m ue = [] ∧
    osConst (P .b0) m bigZ present = pz_os_b0 (m i0) (m i1) p ∧ osI (P .b0) m mu ue = lit 0 ∧
    csumOf (P .b0) m = pz_csum_b0 ∧ fVar (P .b0) m mu ue = pz_fvar_b0 := ⟨rfl, rfl, rfl, rfl, rfl, rfl⟩

theorem pz_b1_src :
    lnTermsConst (P .b1) m bigZ present = [] ∧ lnTermsI (P .b1) m ue = pz_ln_b1 p i0 (m i1) alpha mu i1 (m i0) ∧
    osConst (P .b1) m bigZ present = lit 0 ∧ osI (P .b1) m mu ue = pz_os_b1 (m i0) (m i1) p alpha mu ∧
    csumOf (P .b1) m = pz_csum_b1 ∧ fVar (P .b1) m mu ue = pz_fvar_b1 p (m i0) (m i1) alpha mu := ⟨rfl, rfl, rfl, rfl, rfl, rfl⟩

theorem pz_b2_src :
    lnTermsConst (P .b2) m bigZ present = [] ∧ lnTermsI (P .b2) m ue = pz_ln_b2 p i0 (m i1) alpha mu i1 (m i0) ∧
    osConst (P .b2) m bigZ present = lit 0 ∧ osI (P .b2) m mu ue = pz_os_b2 (m i0) (m i1) p alpha mu ∧
    csumOf (P .b2) m = pz_csum_b2 ∧ fVar (P .b2) m mu ue = pz_fvar_b2 p (m i0) (m i1) alpha mu := ⟨rfl, rfl, rfl, rfl, rfl, rfl⟩

theorem pz_c0_src :
    lnTermsConst (P .c0) m bigZ present = pz_ln_c0 i0 (m i1) bigZ p (z i0) (z i1) i1 (m i0) ∧ lnTermsI (P .c0) m ue = [] ∧
    osConst (P .c0) m bigZ present = pz_os_c0 (m i0) (m i1) bigZ p (z i0) (z i1) ∧ osI (P .c0) m mu ue = lit 0 ∧
    csumOf (P .c0) m = pz_csum_c0 (m i0) (m i1) p (z i0) (z i1) ∧ fVar (P .c0) m mu ue = pz_fvar_c0 :=
  ⟨rfl, rfl, rfl, rfl, rfl, rfl⟩

theorem pz_theta_src :
    lnTermsConst (P .theta) m bigZ present = pz_ln_theta i0 (m i1) p i1 (m i0) ∧ lnTermsI (P .theta) m ue = [] ∧
    osConst (P .theta) m bigZ present = pz_os_theta (m i0) (m i1) p ∧ osI (P .theta) m mu ue = lit 0 ∧
    csumOf (P .theta) m = pz_csum_theta ∧ fVar (P .theta) m mu ue = pz_fvar_theta := ⟨rfl, rfl, rfl, rfl, rfl, rfl⟩

theorem pz_lambda_src :
    lnTermsConst (P .lambda) m bigZ present = pz_ln_lambda i0 (m i1) p l0 i1 (m i0) l1 ∧ lnTermsI (P .lambda) m ue = [] ∧
    osConst (P .lambda) m bigZ present = pz_os_lambda (m i0) (m i1) p os ∧ osI (P .lambda) m mu ue = lit 0 ∧
    csumOf (P .lambda) m = pz_csum_lambda ∧ fVar (P .lambda) m mu ue = pz_fvar_lambda := ⟨rfl, rfl, rfl, rfl, rfl, rfl⟩

theorem pz_etheta_src :
    lnTermsConst (P .etheta) m bigZ present = [] ∧ lnTermsI (P .etheta) m ue = pz_ln_etheta ue i0 (m i1) et i1 (m i0) ∧
    osConst (P .etheta) m bigZ present = lit 0 ∧ osI (P .etheta) m mu ue = pz_os_etheta (m i0) (m i1) et mu etp ue ∧
    csumOf (P .etheta) m = pz_csum_etheta ∧ fVar (P .etheta) m mu ue = pz_fvar_etheta ue (m i0) (m i1) etp := by
  refine ⟨rfl, ?_, rfl, ?_, rfl, ?_⟩ <;> cases ue <;> rfl

/-- ψ, ζ, η: the source skips the parameter when the third species is absent (`IPRSNT[i2] == FALSE`) -/
theorem pz_psi_zeta_eta_src :
    lnTermsConst (P .psi) m bigZ present = pz_ln_psi (!present i2) i0 (m i1) (m i2) p i1 (m i0) i2 ∧
    lnTermsConst (P .zeta) m bigZ present = pz_ln_zeta (!present i2) i0 (m i1) (m i2) p i1 (m i0) i2 ∧
    lnTermsConst (P .eta) m bigZ present = pz_ln_eta (!present i2) i0 (m i1) (m i2) p i1 (m i0) i2 ∧
    osConst (P .psi) m bigZ present = pz_os_psi (m i0) (m i1) (m i2) p (!present i2) ∧
    osConst (P .zeta) m bigZ present = pz_os_zeta (m i0) (m i1) (m i2) p (!present i2) ∧
    osConst (P .eta) m bigZ present = pz_os_eta (m i0) (m i1) (m i2) p (!present i2) ∧
    lnTermsI (P .psi) m ue = [] ∧ lnTermsI (P .zeta) m ue = [] ∧ lnTermsI (P .eta) m ue = [] ∧
    osI (P .psi) m mu ue = lit 0 ∧ osI (P .zeta) m mu ue = lit 0 ∧ osI (P .eta) m mu ue = lit 0 ∧
    csumOf (P .psi) m = pz_csum_psi ∧ csumOf (P .zeta) m = pz_csum_zeta ∧ csumOf (P .eta) m = pz_csum_eta := by
  refine ⟨?_, ?_, ?_, ?_, ?_, ?_, rfl, rfl, rfl, rfl, rfl, rfl, rfl, rfl, rfl⟩ <;> cases hp : present i2 <;>
    simp [lnTermsConst, osConst, srcParam, pz_ln_psi, pz_ln_zeta, pz_ln_eta, pz_os_psi, pz_os_zeta, pz_os_eta, hp]

theorem pz_mu_src :
    lnTermsConst (P .mu) m bigZ present = pz_ln_mu (!present i2) i0 (m i1) (m i2) p l0 i1 (m i0) l1 i2 l2 ∧
    osConst (P .mu) m bigZ present = pz_os_mu (m i0) (m i1) (m i2) p os (!present i2) ∧
    lnTermsI (P .mu) m ue = [] ∧ osI (P .mu) m mu ue = lit 0 ∧ csumOf (P .mu) m = pz_csum_mu := by
  refine ⟨?_, ?_, rfl, rfl, rfl⟩ <;> cases hp : present i2 <;>
    simp [lnTermsConst, osConst, srcParam, pz_ln_mu, pz_os_mu, hp]

end

/-! ## Debye–Hückel start values, `COSMOT`, `AW` -/

theorem pz_f_init0_src (a0 mu : α) : pz_f_init0 a0 mu = fDH a0 (sqrt mu) (lit (12 / 10)) := rfl

theorem ite_not_swap {β : Type} (c : Bool) (x y : β) : (if c = true then x else y) = (if (true && !c) = true then y else x) := by
  cases c <;> rfl

/-- `F1`, `F2` under pressure: the start values are the Debye–Hückel function with the `B1`, `B2` of `pcorrOf` -/
theorem pz_f_init12_src (patm tk a0 mu : α) :
    pz_f_init1 patm tk a0 mu
      = (if ((pcorrOf tk patm).active && !isZero (pcorrOf tk patm).b1) = true then fDH a0 (sqrt mu) (pcorrOf tk patm).b1
         else fDH a0 (sqrt mu) (lit (12 / 10))) ∧
    pz_f_init2 patm tk a0 mu
      = (if ((pcorrOf tk patm).active && !isZero (pcorrOf tk patm).b2) = true then fDH a0 (sqrt mu) (pcorrOf tk patm).b2
         else fDH a0 (sqrt mu) (lit (12 / 10))) := by
  constructor
  · unfold pz_f_init1 pcorrOf
    by_cases h : lit 1 < patm
    · simp only [h, if_true]
      exact ite_not_swap _ _ _
    · simp only [h, if_false]; rfl
  · unfold pz_f_init2 pcorrOf
    by_cases h : lit 1 < patm
    · simp only [h, if_true]
      exact ite_not_swap _ _ _
    · simp only [h, if_false]; rfl

theorem pz_osmot_init_src (a0 mu : α) : pz_osmot_init a0 mu = osmot0 a0 mu (sqrt mu) := rfl

/-- `COSMOT` and `AW` of the source are the ones of the model, in terms of the accumulated `OSMOT` and `OSUM` -/
theorem pz_cosmot_aw_src (x : PzIn α) (pc : PCorr α) :
    (pitzerP x pc).cosmot = pz_cosmot (pitzerP x pc).osmot (pitzerP x pc).osum ∧
    (pitzerP x pc).aw = pz_aw (pitzerP x pc).osum (pitzerP x pc).osmot := ⟨rfl, rfl⟩

/-! ## `sit()` -/

theorem sit_eps_src (x : SitIn α) (i0 i1 : Nat) (p acc : α) :
    sitTerms x ⟨false, i0, i1, p⟩ = sit_ln_eps i0 (x.m i1) p i1 (x.m i0) ∧
    sitTerms x ⟨true, i0, i1, p⟩ = sit_ln_eps1 i0 (x.m i1) x.mu p i1 (x.m i0) ∧
    sitOs x ⟨false, i0, i1, p⟩ acc = sit_os_eps (x.z i0) (x.z i1) acc (x.m i0) (x.m i1) p ∧
    sitOs x ⟨true, i0, i1, p⟩ acc = sit_os_eps1 (x.z i0) (x.z i1) acc (x.m i0) (x.m i1) p x.mu := by
  refine ⟨rfl, rfl, ?_, ?_⟩ <;>
    (cases h0 : isZero (x.z i0) <;> cases h1 : isZero (x.z i1) <;> simp [sitOs, sit_os_eps, sit_os_eps1, h0, h1])

theorem sit_scalars_src (y : SitIn α) (k : Nat) :
    sit_osmot_init y.a0 (ln (lit 10)) y.mu
      = (-(lit 2)) * (lit 3 * y.a0 / ln (lit 10)) / (lit (15 / 10) * lit (15 / 10) * lit (15 / 10))
          * ((lit 1 + lit (15 / 10) * sqrt y.mu) - lit 2 * ln (lit 1 + lit (15 / 10) * sqrt y.mu) - lit 1 / (lit 1 + lit (15 / 10) * sqrt y.mu)) ∧
    (sit y).cosmot = sit_cosmot (sit y).osmot (ln (lit 10)) (sit y).osum ∧
    (sit y).aw = sit_aw (sit y).osum (sit y).osmot (ln (lit 10)) := ⟨rfl, rfl, rfl⟩


/-! ## `ETHETAS`, `ETHETA_PARAMS` -/

theorem etheta_src_eq (zj zk jjk jjj jkk i : α) : etheta_src zj zk jjk jjj jkk i = ethetaOf zj zk i jjk jjj jkk := rfl
theorem ethetap_src_eq (zj zk pjk pjj pkk i jjk jjj jkk : α) :
    ethetap_src zj zk pjk pjj pkk i jjk jjj jkk = ethetapOf zj zk i jjk jjj jkk pjk pjj pkk := rfl

/-- the unrolled Clenshaw evaluation of the source (both coefficient tables, `L_Z`, the 19 steps) is `Pitzer.jay` -/
theorem jay_src_eq (x : α) : jay_src x = jay x := by kernel_rfl
theorem jprime_src_eq (x dk20 : α) : jprime_src x dk20 = jprime x dk20 := by kernel_rfl


end PhreeqcVerif.C16Gen

namespace PhreeqcVerif.Pitzer
open NumOps

/-! ## `JPRIME` is `X · dJAY/dX` -/

section cheb
variable (f : TransFns Rat)

@[simp] theorem d_exp_re (x : Dual) : (@NumOps.exp Dual (dualOps f) x).re = f.exp x.re := rfl
@[simp] theorem d_exp_eps (x : Dual) : (@NumOps.exp Dual (dualOps f) x).eps = f.exp x.re * x.eps := rfl

/-- invariant of the recurrence run on `z + e·ε` with constant coefficients: the real parts follow the run on `z`, and
the first-order parts of `BK` are `e` times the `DK` of the run on `z` -/
def CInv (e : Rat) (sD : CS Dual) (s : CS Rat) : Prop :=
  sD.b0.re = s.b0 ∧ sD.b1.re = s.b1 ∧ sD.b2.re = s.b2 ∧
  sD.b0.eps = e * s.d0 ∧ sD.b1.eps = e * s.d1 ∧ sD.b2.eps = e * s.d2

theorem csStep_inv (z e a : Rat) (sD : CS Dual) (s : CS Rat) (h : CInv e sD s) :
    letI := dualOps f
    CInv e (csStep (Dual.mk z e) (Dual.const a) sD) (@csStep Rat (ratOps f) z a s) := by
  obtain ⟨h0, h1, h2, e0, e1, e2⟩ := h
  refine ⟨?_, h0, h1, ?_, e0, e1⟩
  · simp [csStep, h0, h1]
  · simp [csStep, h0, h1, e0, e1]; ring

theorem foldl_inv (z e : Rat) (c : Nat → Rat) (idx : List Nat) (sD : CS Dual) (s : CS Rat) (h : CInv e sD s) :
    letI := dualOps f
    CInv e (idx.foldl (fun s i => csStep (Dual.mk z e) (Dual.const (c i)) s) sD)
      (idx.foldl (fun s i => @csStep Rat (ratOps f) z (c i) s) s) := by
  induction idx generalizing sD s with
  | nil => simpa using h
  | cons i idx ih => exact ih _ _ (csStep_inv f z e (c i) sD s h)

/-- **the Clenshaw recurrences of `ETHETA_PARAMS`**: run on `z + e·ε` with constant coefficients, `BK[0] − BK[2]` has
first-order part `e · (DK[0] − DK[2])`, where `DK` is the recurrence the code runs next to `BK` — provided the never
assigned `DK[20]` is 0 -/
theorem csRun_deriv (z e : Rat) (c : Nat → Rat) :
    letI := dualOps f
    ((csRun (Dual.mk z e) (fun i => Dual.const (c i)) (Dual.const 0)).b0
        - (csRun (Dual.mk z e) (fun i => Dual.const (c i)) (Dual.const 0)).b2).eps
      = e * ((@csRun Rat (ratOps f) z c 0).d0 - (@csRun Rat (ratOps f) z c 0).d2) := by
  have hinit : CInv e (@csInit Dual (dualOps f) (Dual.mk z e) (Dual.const (c 20)) (Dual.const (c 19)) (Dual.const 0))
      (@csInit Rat (ratOps f) z (c 20) (c 19) 0) := by
    refine ⟨?_, rfl, rfl, ?_, ?_, ?_⟩ <;> simp [csInit]
  have h := foldl_inv f z e c [18, 17, 16, 15, 14, 13, 12, 11, 10, 9, 8, 7, 6, 5, 4, 3, 2, 1, 0] _ _ hinit
  obtain ⟨_, _, _, e0, _, e2⟩ := h
  simp only [csRun, d_sub_eps]
  rw [e0, e2]; ring

theorem dual_ext {a b : Dual} (h1 : a.re = b.re) (h2 : a.eps = b.eps) : a = b := by
  cases a; cases b; simp_all

theorem ak_dual : (@akLow Dual (dualOps f)) = (@akLow Rat (ratOps f)).map Dual.const ∧
    (@akHigh Dual (dualOps f)) = (@akHigh Rat (ratOps f)).map Dual.const := by
  have hneg : ∀ q : Rat, -(Dual.const q) = Dual.const (-q) := fun q => dual_ext rfl (by simp)
  have hlit : ∀ q : Rat, @NumOps.lit Dual (dualOps f) q = Dual.const q := fun _ => rfl
  constructor
  · simp only [akLow, hlit, hneg, rat_lit, List.map_cons, List.map_nil]
  · simp only [akHigh, hlit, hneg, rat_lit, List.map_cons, List.map_nil]

theorem getD_map_const (l : List Rat) (i : Nat) :
    (l.map Dual.const).getD i (Dual.const 0) = Dual.const (l.getD i 0) := by
  simp only [List.getD_eq_getElem?_getD, List.getElem?_map]
  cases l[i]? <;> rfl

theorem akCoef_dual (X e : Rat) (i : Nat) :
    @akCoef Dual (dualOps f) _ (Dual.mk X e) i = Dual.const (@akCoef Rat (ratOps f) _ X i) := by
  have hlit0 : (@NumOps.lit Dual (dualOps f) 0) = Dual.const 0 := rfl
  unfold akCoef
  by_cases h : X ≤ 1
  · have hD : (Dual.mk X e) ≤ (@NumOps.lit Dual (dualOps f) 1) := h
    have hR : X ≤ (@NumOps.lit Rat (ratOps f) 1) := h
    rw [if_pos hD, if_pos hR, (ak_dual f).1, hlit0]
    exact getD_map_const _ _
  · have hD : ¬ ((Dual.mk X e) ≤ (@NumOps.lit Dual (dualOps f) 1)) := h
    have hR : ¬ (X ≤ (@NumOps.lit Rat (ratOps f) 1)) := h
    rw [if_neg hD, if_neg hR, (ak_dual f).2, hlit0]
    exact getD_map_const _ _

/-- **`JPRIME` is `X · dJAY/dX`**: for the series as coded (both coefficient tables, both changes of variable), with the
derivative rules of `exp` and `ln` (the code's `pow(X, a)` is `exp(a ln X)`) and `DK[20] = 0`:
`jprime X 0 = X · ε(jay (X + ε))`.  This is the relation `IRel`'s `d(ᴱθ) = ᴱθ′ dI` rests on. -/
theorem jprime_is_x_times_djay (X : Rat) (hX : X ≠ 0) :
    @jprime Rat (ratOps f) _ X 0 = X * (@jay Dual (dualOps f) _ (Dual.mk X 1)).eps := by
  let _i : NumOps Dual := dualOps f
  let _r : NumOps Rat := ratOps f
  have hco : (fun i => @akCoef Dual (dualOps f) _ (Dual.mk X 1) i) = fun i => Dual.const (@akCoef Rat (ratOps f) _ X i) := by
    funext i; exact akCoef_dual f X 1 i
  have hz : ∃ e, @lzOf Dual (dualOps f) _ (Dual.mk X 1) = Dual.mk (@lzOf Rat (ratOps f) _ X) e ∧
      @ldzOf Rat (ratOps f) _ X = X * (5 / 10) * e := by
    by_cases h : X ≤ 1
    · have hD : (Dual.mk X 1) ≤ (@NumOps.lit Dual (dualOps f) 1) := h
      have hR : X ≤ (@NumOps.lit Rat (ratOps f) 1) := h
      refine ⟨4 * (f.exp (2 / 10 * f.ln X) * (2 / 10 * (1 / X))), ?_, ?_⟩
      · unfold lzOf; rw [if_pos hD, if_pos hR]
        apply dual_ext <;> simp [powf]
      · unfold ldzOf; rw [if_pos hR]; simp [powf]; field_simp; ring
    · have hD : ¬ ((Dual.mk X 1) ≤ (@NumOps.lit Dual (dualOps f) 1)) := h
      have hR : ¬ (X ≤ (@NumOps.lit Rat (ratOps f) 1)) := h
      refine ⟨40 * (f.exp (-(1 / 10) * f.ln X) * (-(1 / 10) * (1 / X))) / 9, ?_, ?_⟩
      · unfold lzOf; rw [if_neg hD, if_neg hR]
        apply dual_ext <;> simp [powf] <;> ring
      · unfold ldzOf; rw [if_neg hR]; simp [powf]; field_simp; ring
  obtain ⟨e, hz1, hz2⟩ := hz
  have hlit0 : (@NumOps.lit Dual (dualOps f) 0) = Dual.const 0 := rfl
  have hd := csRun_deriv f (@lzOf Rat (ratOps f) _ X) e (fun i => @akCoef Rat (ratOps f) _ X i)
  unfold jay jprime
  simp only [hz1, hlit0]
  rw [show (@akCoef Dual (dualOps f) _ (Dual.mk X 1)) = fun i => Dual.const (@akCoef Rat (ratOps f) _ X i) from hco]
  simp only [d_add_eps, d_sub_eps, d_mul_eps, d_div_eps, d_lit_re, d_lit_eps, d_mk_re, d_mk_eps, hd, hz2, rat_lit]
  field_simp
  ring

end cheb

end PhreeqcVerif.Pitzer

namespace PhreeqcVerif.Pitzer
open NumOps

section cheb2
variable (f : TransFns Rat)

/-- chain-rule form: along any variation `d` of `X`, `X · ε(jay (X + d ε)) = d · jprime X 0` -/
theorem jay_eps (X d : Rat) (hX : X ≠ 0) :
    X * (@jay Dual (dualOps f) _ (Dual.mk X d)).eps = d * @jprime Rat (ratOps f) _ X 0 := by
  let _i : NumOps Dual := dualOps f
  let _r : NumOps Rat := ratOps f
  have hco : (@akCoef Dual (dualOps f) _ (Dual.mk X d)) = fun i => Dual.const (@akCoef Rat (ratOps f) _ X i) := by
    funext i; exact akCoef_dual f X d i
  have hz : ∃ e, @lzOf Dual (dualOps f) _ (Dual.mk X d) = Dual.mk (@lzOf Rat (ratOps f) _ X) e ∧
      d * @ldzOf Rat (ratOps f) _ X = X * (5 / 10) * e := by
    by_cases h : X ≤ 1
    · have hD : (Dual.mk X d) ≤ (@NumOps.lit Dual (dualOps f) 1) := h
      have hR : X ≤ (@NumOps.lit Rat (ratOps f) 1) := h
      refine ⟨4 * (f.exp (2 / 10 * f.ln X) * (2 / 10 * (d / X))), ?_, ?_⟩
      · unfold lzOf; rw [if_pos hD, if_pos hR]
        apply dual_ext <;> simp [powf]
      · unfold ldzOf; rw [if_pos hR]; simp [powf]; field_simp; ring
    · have hD : ¬ ((Dual.mk X d) ≤ (@NumOps.lit Dual (dualOps f) 1)) := h
      have hR : ¬ (X ≤ (@NumOps.lit Rat (ratOps f) 1)) := h
      refine ⟨40 * (f.exp (-(1 / 10) * f.ln X) * (-(1 / 10) * (d / X))) / 9, ?_, ?_⟩
      · unfold lzOf; rw [if_neg hD, if_neg hR]
        apply dual_ext <;> simp [powf] <;> ring
      · unfold ldzOf; rw [if_neg hR]; simp [powf]; field_simp; ring
  obtain ⟨e, hz1, hz2⟩ := hz
  have hlit0 : (@NumOps.lit Dual (dualOps f) 0) = Dual.const 0 := rfl
  have hd := csRun_deriv f (@lzOf Rat (ratOps f) _ X) e (fun i => @akCoef Rat (ratOps f) _ X i)
  unfold jay jprime
  simp only [hz1, hlit0, hco]
  simp only [d_add_eps, d_sub_eps, d_mul_eps, d_div_eps, d_lit_re, d_lit_eps, d_mk_re, d_mk_eps, hd, rat_lit]
  have : d * (X * (25 / 100) + @ldzOf Rat (ratOps f) _ X *
      ((@csRun Rat (ratOps f) (@lzOf Rat (ratOps f) _ X) (fun i => @akCoef Rat (ratOps f) _ X i) 0).d0 -
        (@csRun Rat (ratOps f) (@lzOf Rat (ratOps f) _ X) (fun i => @akCoef Rat (ratOps f) _ X i) 0).d2))
      = d * X * (25 / 100) + (d * @ldzOf Rat (ratOps f) _ X) *
      ((@csRun Rat (ratOps f) (@lzOf Rat (ratOps f) _ X) (fun i => @akCoef Rat (ratOps f) _ X i) 0).d0 -
        (@csRun Rat (ratOps f) (@lzOf Rat (ratOps f) _ X) (fun i => @akCoef Rat (ratOps f) _ X i) 0).d2) := by ring
  rw [this, hz2]
  field_simp
  ring

theorem jay_re (X d : Rat) : (@jay Dual (dualOps f) _ (Dual.mk X d)).re = @jay Rat (ratOps f) _ X := by
  let _i : NumOps Dual := dualOps f
  let _r : NumOps Rat := ratOps f
  have hco : (@akCoef Dual (dualOps f) _ (Dual.mk X d)) = fun i => Dual.const (@akCoef Rat (ratOps f) _ X i) := by
    funext i; exact akCoef_dual f X d i
  have hz : (@lzOf Dual (dualOps f) _ (Dual.mk X d)).re = @lzOf Rat (ratOps f) _ X := by
    by_cases h : X ≤ 1
    · have hD : (Dual.mk X d) ≤ (@NumOps.lit Dual (dualOps f) 1) := h
      have hR : X ≤ (@NumOps.lit Rat (ratOps f) 1) := h
      unfold lzOf; rw [if_pos hD, if_pos hR]; simp [powf]
    · have hD : ¬ ((Dual.mk X d) ≤ (@NumOps.lit Dual (dualOps f) 1)) := h
      have hR : ¬ (X ≤ (@NumOps.lit Rat (ratOps f) 1)) := h
      unfold lzOf; rw [if_neg hD, if_neg hR]; simp [powf]
  have hzD : @lzOf Dual (dualOps f) _ (Dual.mk X d) = Dual.mk (@lzOf Rat (ratOps f) _ X) (@lzOf Dual (dualOps f) _ (Dual.mk X d)).eps :=
    dual_ext hz rfl
  have hlit0 : (@NumOps.lit Dual (dualOps f) 0) = Dual.const 0 := rfl
  set e := (@lzOf Dual (dualOps f) _ (Dual.mk X d)).eps
  have hinit : CInv e (@csInit Dual (dualOps f) (Dual.mk (@lzOf Rat (ratOps f) _ X) e) (Dual.const (@akCoef Rat (ratOps f) _ X 20))
      (Dual.const (@akCoef Rat (ratOps f) _ X 19)) (Dual.const 0))
      (@csInit Rat (ratOps f) (@lzOf Rat (ratOps f) _ X) (@akCoef Rat (ratOps f) _ X 20) (@akCoef Rat (ratOps f) _ X 19) 0) := by
    refine ⟨?_, rfl, rfl, ?_, ?_, ?_⟩ <;> simp [csInit]
  have h := foldl_inv f (@lzOf Rat (ratOps f) _ X) e (fun i => @akCoef Rat (ratOps f) _ X i)
    [18, 17, 16, 15, 14, 13, 12, 11, 10, 9, 8, 7, 6, 5, 4, 3, 2, 1, 0] _ _ hinit
  obtain ⟨r0, _, r2, _, _, _⟩ := h
  unfold jay
  rw [hzD, hlit0, hco]
  simp only [csRun, d_add_re, d_sub_re, d_mul_re, d_div_re, d_lit_re, d_mk_re, rat_lit, r0, r2]

/-- **`ethetap` is the derivative of `etheta` with respect to the ionic strength**, for the source's `ETHETAS` on top of the
source's `ETHETA_PARAMS`: evaluated on `I + dI ε` (with `√I·√I = I`, the derivative rules of `sqrt`, `exp`, `ln`, and
`DK[20] = 0`), the first-order part of `etheta` is `dI` times the `ethetap` the code computes.  This is the hypothesis
`IRel … dE = ethetap · dI` of `pitzer_gibbs_duhem`, derived from the code instead of assumed. -/
theorem etheta_derivative (zj zk a0 I dI : Rat) (hs : f.sqrt I * f.sqrt I = I) (hs0 : f.sqrt I ≠ 0) (ha : a0 ≠ 0)
    (hzj : zj ≠ 0) (hzk : zk ≠ 0) :
    letI := dualOps f
    let xcon : Dual := (lit 6 * Dual.const a0) * sqrt (Dual.mk I dI)
    let x : Rat := 6 * a0 * f.sqrt I
    (ethetaOf (Dual.const zj) (Dual.const zk) (Dual.mk I dI) (jay (xcon * (Dual.const zj * Dual.const zk)))
        (jay ((xcon * Dual.const zj) * Dual.const zj)) (jay ((xcon * Dual.const zk) * Dual.const zk))).eps
      = dI * @ethetapOf Rat (ratOps f) _ zj zk I (@jay Rat (ratOps f) _ (x * (zj * zk))) (@jay Rat (ratOps f) _ ((x * zj) * zj))
          (@jay Rat (ratOps f) _ ((x * zk) * zk)) (@jprime Rat (ratOps f) _ (x * (zj * zk)) 0)
          (@jprime Rat (ratOps f) _ ((x * zj) * zj) 0) (@jprime Rat (ratOps f) _ ((x * zk) * zk) 0) := by
  intro xcon x
  let _i : NumOps Dual := dualOps f
  let _r : NumOps Rat := ratOps f
  have hI : I ≠ 0 := by
    intro h
    have h2 : f.sqrt I * f.sqrt I = 0 := by rw [hs]; exact h
    rcases mul_eq_zero.mp h2 with h' | h' <;> exact hs0 h'
  have hx : x ≠ 0 := by
    simp only [x]; exact mul_ne_zero (mul_ne_zero (by norm_num) ha) hs0
  -- the three arguments as dual numbers
  have hxc : xcon = Dual.mk x (6 * a0 * (dI / (2 * f.sqrt I))) := by
    apply dual_ext <;> simp [xcon, x]
  have key : ∀ c : Rat, c ≠ 0 → ∀ (XD : Dual), XD = Dual.mk (x * c) (6 * a0 * (dI / (2 * f.sqrt I)) * c) →
      (jay XD).re = @jay Rat (ratOps f) _ (x * c) ∧
      (jay XD).eps = dI / (2 * I) * @jprime Rat (ratOps f) _ (x * c) 0 := by
    intro c hc XD hXD
    subst hXD
    refine ⟨jay_re f _ _, ?_⟩
    have hj := jay_eps f (x * c) (6 * a0 * (dI / (2 * f.sqrt I)) * c) (mul_ne_zero hx hc)
    have hxc' : x * c ≠ 0 := mul_ne_zero hx hc
    have : (@jay Dual (dualOps f) _ (Dual.mk (x * c) (6 * a0 * (dI / (2 * f.sqrt I)) * c))).eps
        = (6 * a0 * (dI / (2 * f.sqrt I)) * c) * @jprime Rat (ratOps f) _ (x * c) 0 / (x * c) := by
      rw [eq_div_iff hxc', mul_comm]; exact hj
    rw [this]
    have hI2 : dI / (2 * I) = dI / (2 * (f.sqrt I * f.sqrt I)) := by rw [hs]
    rw [hI2]
    have hx' : x = 6 * a0 * f.sqrt I := rfl
    generalize @jprime Rat (ratOps f) _ (x * c) 0 = P
    rw [hx']
    generalize f.sqrt I = s at hs0 ⊢
    field_simp
  obtain ⟨rjk, ejk⟩ := key (zj * zk) (mul_ne_zero hzj hzk) (xcon * (Dual.const zj * Dual.const zk)) (by
    rw [hxc]; apply dual_ext <;> simp)
  obtain ⟨rjj, ejj⟩ := key (zj * zj) (mul_ne_zero hzj hzj) ((xcon * Dual.const zj) * Dual.const zj) (by
    rw [hxc]; apply dual_ext <;> simp <;> ring)
  obtain ⟨rkk, ekk⟩ := key (zk * zk) (mul_ne_zero hzk hzk) ((xcon * Dual.const zk) * Dual.const zk) (by
    rw [hxc]; apply dual_ext <;> simp <;> ring)
  have e1 : (x * zj) * zj = x * (zj * zj) := by ring
  have e2 : (x * zk) * zk = x * (zk * zk) := by ring
  rw [e1, e2]
  unfold ethetapOf ethetaOf
  by_cases hz : zj = zk
  · have h1 : isZero (Dual.const zj - Dual.const zk) = true := by
      have : Dual.const zj - Dual.const zk = Dual.const (zj - zk) := dual_ext rfl (by simp)
      rw [this]; exact (isZero_const f _).mpr (by simp [hz])
    have h2 : @isZero Rat (ratOps f) _ (zj - zk) = true := by
      simp [isZero, hz]
    rw [if_pos h1, if_pos h2]; simp
  · have h1 : ¬ (isZero (Dual.const zj - Dual.const zk) = true) := by
      have : Dual.const zj - Dual.const zk = Dual.const (zj - zk) := dual_ext rfl (by simp)
      rw [this]; intro h; exact hz (sub_eq_zero.mp ((isZero_const f _).mp h))
    have h2 : ¬ (@isZero Rat (ratOps f) _ (zj - zk) = true) := by
      intro h
      simp only [isZero, rat_lit, Bool.and_eq_true] at h
      exact hz (sub_eq_zero.mp (le_antisymm (of_decide_eq_true h.1) (of_decide_eq_true h.2)))
    simp only [if_neg h1, if_neg h2]
    simp only [d_div_eps, d_div_re, d_mul_eps, d_mul_re, d_sub_eps, d_sub_re, d_const_re, d_const_eps, d_lit_re, d_lit_eps,
      d_mk_re, d_mk_eps, rjk, rjj, rkk, ejk, ejj, ekk, rat_lit]
    field_simp
    ring

end cheb2
end PhreeqcVerif.Pitzer

namespace PhreeqcVerif.Pitzer
open NumOps

section gders
variable (f : TransFns Rat)

theorem isZero_dual (y : Dual) : (letI := dualOps f; isZero y) = (letI := ratOps f; isZero y.re) := rfl

/-- **the hypotheses `IRel` makes about β¹/β², derived from the coded `G`, `GP`**: on `y + dy ε` with `y = α√I`,
`dy = α dI/(2√I)` (so `dI/I = 2 dy / y`), the first-order part of `G` is `GP(y) · dI / I`, and `exp(−y) = G + GP` holds for
the first-order parts too — with the derivative rule of `exp` only -/
theorem g_derivative (y dy : Rat) (hy : y ≠ 0) :
    letI := dualOps f
    (G (Dual.mk y dy)).eps = (@GP Rat (ratOps f) _ y) * (2 * dy / y) ∧
    (exp (-(Dual.mk y dy))).re = (G (Dual.mk y dy)).re + (GP (Dual.mk y dy)).re ∧
    (exp (-(Dual.mk y dy))).eps = (G (Dual.mk y dy)).eps + (GP (Dual.mk y dy)).eps := by
  let _i : NumOps Dual := dualOps f
  let _r : NumOps Rat := ratOps f
  have hzR : @isZero Rat (ratOps f) _ y = false := by
    rw [Bool.eq_false_iff]; intro h
    simp only [isZero, rat_lit, Bool.and_eq_true] at h
    exact hy (le_antisymm (of_decide_eq_true h.1) (of_decide_eq_true h.2))
  have hzD : isZero (Dual.mk y dy) = false := by rw [isZero_dual]; exact hzR
  refine ⟨?_, ?_, ?_⟩
  · simp only [G, GP, hzD, hzR, Bool.false_eq_true, if_false, d_div_eps, d_mul_eps, d_mul_re, d_sub_eps, d_sub_re, d_add_eps,
      d_add_re, d_neg_re, d_neg_eps, d_lit_re, d_lit_eps, d_mk_re, d_mk_eps, d_exp_re, d_exp_eps, rat_lit, rat_exp]
    field_simp
    ring
  · simp only [G, GP, hzD, Bool.false_eq_true, if_false, d_div_re, d_mul_re, d_sub_re, d_add_re, d_neg_re, d_lit_re, d_mk_re,
      d_exp_re]
    field_simp
    ring
  · simp only [G, GP, hzD, Bool.false_eq_true, if_false, d_div_eps, d_div_re, d_mul_eps, d_mul_re, d_sub_eps, d_sub_re,
      d_add_eps, d_add_re, d_neg_re, d_neg_eps, d_lit_re, d_lit_eps, d_mk_re, d_mk_eps, d_exp_re, d_exp_eps]
    field_simp
    ring

end gders
end PhreeqcVerif.Pitzer
