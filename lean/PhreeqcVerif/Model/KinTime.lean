import PhreeqcVerif.Model.NumOps
/-! Time bookkeeping of kinetic calculations.

* `currentStep` — `cxxKinetics::Current_step` (cxxKinetics.cxx): the kinetic time of reaction step `reaction_step`
  (1-based) for cumulative / incremental bookkeeping and for the two ways of writing `-steps`;
* `reactionSteps` — `cxxKinetics::Get_reaction_steps`;
* `batch` — the loop of `Phreeqc::reactions` (mainsubs.cpp): which (start time, kinetic time) each call of
  `run_reactions` gets (`rate_sim_time_start`, `kin_time`);
* `restartBody` / `restartRun` — the CVODE restart loop of `Phreeqc::run_reactions` as an interpreter of the
  straight-line assignments the translator reads from the source (`Gen/RKTableau.restartProg`). -/
namespace PhreeqcVerif.KinTime
open PhreeqcVerif

section
variable {α : Type} [NumOps α]

/-- `cxxKinetics::Current_step(incremental_reactions, reaction_step)`; `ofNat` converts the integer counters as the
C casts do -/
def currentStep (ofNat : Nat → α) (steps : List α) (count : Nat) (equalIncrements incremental : Bool) (reactionStep : Nat) : α :=
  match steps with
  | [] => ofNat 1
  | s0 :: _ =>
    if !incremental then
      if !equalIncrements then
        if steps.length < reactionStep then steps.getD (steps.length - 1) s0 else steps.getD (reactionStep - 1) s0
      else
        if count < reactionStep then s0 else ofNat reactionStep * s0 / ofNat count
    else
      if !equalIncrements then
        if steps.length < reactionStep then steps.getD (steps.length - 1) s0 else steps.getD (reactionStep - 1) s0
      else
        if count < reactionStep then ofNat 0 else s0 / ofNat count

def reactionSteps (steps : List α) (count : Nat) (equalIncrements : Bool) : Nat :=
  if equalIncrements then count else steps.length

/-- the calls `run_reactions(-2, kin_time, ...)` of `Phreeqc::reactions` with `rate_sim_time_start` at each call:
cumulative steps restart from the initial state at time 0, incremental steps continue -/
def batch (ofNat : Nat → α) (steps : List α) (count : Nat) (equalIncrements incremental : Bool) : List (α × α) :=
  let n := reactionSteps steps count equalIncrements
  let rec go (k : Nat) (i : Nat) (start : α) (acc : List (α × α)) : List (α × α) :=
    match k with
    | 0 => acc.reverse
    | k + 1 =>
      let kt := currentStep ofNat steps count equalIncrements incremental i
      go k (i + 1) (if incremental then start + kt else start) ((start, kt) :: acc)
  go n 1 (ofNat 0) []

end

/-! ### CVODE restart loop (exact arithmetic) -/

/-- environment: 0 tout, 1 sum_t, 2 cvode_last_good_time, 3 tout1, 4 t -/
abbrev Env := List Rat

def evalLin (coefs : List Rat) (const : Rat) (env : Env) : Rat :=
  ((coefs.zip env).map fun p => p.1 * p.2).foldl (· + ·) const

/-- run the straight-line assignments read from the source -/
def restartBody (prog : List (Nat × List Rat × Rat)) (env : Env) : Env :=
  prog.foldl (fun e a => e.set a.1 (evalLin a.2.1 a.2.2 e)) env

/-- one failed CVode call reached `last` (= cvode_last_good_time) before giving up; the loop body then decides the end time
of the next call.  `restartRun` returns (total time covered by the failed calls as seen by the integrator, end time handed
to the final successful call).  `lasts` are the `cvode_last_good_time` values of the successive failed calls. -/
def restartRun (prog : List (Nat × List Rat × Rat)) (callArg : Nat) (tout : Rat) (lasts : List Rat) : Rat × Rat :=
  let rec go (ls : List Rat) (env : Env) (covered : Rat) (arg : Rat) : Rat × Rat :=
    match ls with
    | [] => (covered, arg)
    | l :: rest =>
      let env := restartBody prog (env.set 2 l)
      go rest env (covered + l) (env.getD callArg 0)
  go lasts [tout, 0, 0, 0, 0] 0 tout

/-- the linear map of the loop body on (tout, sum_t, last): images of the unit vectors and of 0 (constant part) -/
def bodyOn (prog : List (Nat × List Rat × Rat)) (v : Env) : Env := restartBody prog v

/-! ### CVODE driver: the last-good-state hook of `CVStep` and the hand-off to a re-started call

`CVStep` (cvode.cpp) loops over attempts.  At the top of every attempt the engine records the pair
(`cvode_last_good_time`, `cvode_last_good_y`) from which `run_reactions` re-starts when the CVode call gives up.  A failed attempt is
undone by `CVRestore` (time and Nordsieck array `zn` go back), but the work vector `y` keeps the failed corrector iterate. -/

/-- state of one CVode call; `accepted` is a ghost history of (time, solution) pairs the integrator has accepted -/
structure Cv where
  tn : Rat
  zn0 : Rat
  y : Rat
  lastT : Rat
  lastY : Rat
  accepted : List (Rat × Rat)

/-- one attempt of CVStep: `save` says which vector the hook stores (0 = zn[0], 1 = y); the attempt tries a step `h`, the
corrector produces `ynew`, `ok` is the outcome of the convergence and error tests -/
def cvAttempt (save : Nat) (s : Cv) (a : Rat × Rat × Bool) : Cv × Bool :=
  let s := { s with lastT := s.tn, lastY := if save = 0 then s.zn0 else s.y }
  if a.2.2 then
    ({ s with tn := s.tn + a.1, zn0 := a.2.1, y := a.2.1, accepted := (s.tn + a.1, a.2.1) :: s.accepted }, true)
  else
    ({ s with y := a.2.1 }, false)

/-- CVStep: attempts until one passes (or the list of attempts ends: the call gives up) -/
def cvStep (save : Nat) : Cv → List (Rat × Rat × Bool) → Cv
  | s, [] => s
  | s, a :: rest =>
    let r := cvAttempt save s a
    if r.2 then r.1 else cvStep save r.1 rest

/-- a CVode call: a sequence of CVStep calls -/
def cvCall (save : Nat) (s : Cv) (steps : List (List (Rat × Rat × Bool))) : Cv :=
  steps.foldl (cvStep save) s

/-- start of a call at time 0 with solution `y0` -/
def cvInit (y0 : Rat) : Cv := { tn := 0, zn0 := y0, y := y0, lastT := 0, lastY := y0, accepted := [(0, y0)] }

/-- the restart loop with its call counter: `lasts` are the times reached by the successive failed calls; gives up
(`none`) when `++m_iter >= bad_step_max` (or `>`) -/
def restartLimited (prog : List (Nat × List Rat × Rat)) (callArg : Nat) (stopsAtGe : Bool) (badStepMax : Nat) (tout : Rat)
    (lasts : List Rat) : Option (Rat × Rat) :=
  let stops (mIter : Nat) : Bool := if stopsAtGe then badStepMax ≤ mIter else badStepMax < mIter
  if (List.range lasts.length).any (fun i => stops (i + 1)) then none else some (restartRun prog callArg tout lasts)

end PhreeqcVerif.KinTime
