import PhreeqcVerif.Model.Route
import PhreeqcVerif.Properties.C05
/-!
# Routing theorems (C05, C09): file, string, line and table views of one event stream
-/
namespace PhreeqcVerif.Route
open PhreeqcVerif.SelOut

/-! ## line splitting -/

theorem splitLines_no_newline (s : List Char) : ∀ l ∈ splitLines s, '\n' ∉ l := by
  induction s with
  | nil => simp [splitLines]
  | cons c cs ih =>
    unfold splitLines
    split
    · intro l hl; simp at hl; rcases hl with rfl | hl
      · simp
      · exact ih l hl
    · rename_i hc
      split
      · intro l hl; simp at hl; subst hl; simpa using Ne.symm hc
      · rename_i l0 ls heq
        intro l hl
        simp at hl
        rcases hl with rfl | hl
        · have := ih l0 (by simp [heq])
          simp [this, Ne.symm hc]
        · exact ih l (by simp [heq, hl])

/-- Joining the lines with '\n' gives back the string when it is empty or newline-terminated -/
theorem joinLines_splitLines (s : List Char) (h : s = [] ∨ s.getLast? = some '\n') :
    joinLines (splitLines s) = s := by
  induction s with
  | nil => simp [splitLines, joinLines]
  | cons c cs ih =>
    have hcs : c ≠ '\n' → cs ≠ [] := by
      intro hc hnil; subst hnil; simp at h; exact hc h
    have hlast : cs = [] ∨ cs.getLast? = some '\n' := by
      rcases h with h | h
      · cases h
      · cases cs with
        | nil => left; rfl
        | cons d ds => right; simpa [List.getLast?_cons_cons] using h
    have ih' := ih hlast
    unfold splitLines
    split
    · rename_i hc; subst hc; simp [joinLines] at ih' ⊢; exact ih'
    · rename_i hc
      split
      · rename_i heq
        rw [heq] at ih'; simp [joinLines] at ih'
        exact absurd ih' (hcs hc)
      · rename_i l0 ls heq
        rw [heq] at ih'
        simp [joinLines] at ih' ⊢
        exact ih'

/-- the string has no line ⇔ it is empty -/
theorem splitLines_eq_nil (s : List Char) : splitLines s = [] ↔ s = [] := by
  cases s with
  | nil => simp [splitLines]
  | cons c cs =>
    simp only [splitLines]
    split
    · simp
    · split <;> simp

/-- line count = number of newline characters (+1 for an unterminated last line) -/
theorem splitLines_length (s : List Char) :
    (splitLines s).length =
      s.count '\n' + (if s ≠ [] ∧ s.getLast? ≠ some '\n' then 1 else 0) := by
  induction s with
  | nil => simp [splitLines]
  | cons c cs ih =>
    unfold splitLines
    split
    · rename_i hc; subst hc
      cases cs with
      | nil => simp [splitLines]
      | cons d ds => simp [ih, List.getLast?_cons_cons]; omega
    · rename_i hc
      have hcount : (c :: cs).count '\n' = cs.count '\n' := by
        simp [List.count_cons, hc]
      split
      · rename_i heq
        have : cs = [] := (splitLines_eq_nil cs).1 heq
        subst this; simp [hc]
      · rename_i l0 ls heq
        have hne : cs ≠ [] := by intro h; subst h; simp [splitLines] at heq
        rw [heq] at ih
        obtain ⟨d, ds, rfl⟩ := List.exists_cons_of_ne_nil hne
        simp [List.getLast?_cons_cons] at ih ⊢
        rw [hcount]; simp [List.count_cons] at ih ⊢; omega

/-- line accessor: inside `0..count-1` the i-th line, outside the empty string -/
theorem lineAt_spec (ls : List (List Char)) (n : Int) :
    (0 ≤ n ∧ n < ls.length → lineAt ls n = ls.getD n.toNat []) ∧
    (n < 0 ∨ n ≥ ls.length → lineAt ls n = []) := by
  constructor
  · intro h; have : ¬ (n < 0 ∨ n ≥ (ls.length : Int)) := by omega
    simp [lineAt, this]
  · intro h; simp [lineAt, h]

/-! ## plain streams (output, log) -/

theorem routeMsgs_aux (cfg : MsgCfg) (ms : List Msg) (s : MsgSinks) :
    (ms.foldl (MsgSinks.step cfg) s).str =
      s.str ++ (ms.filter (fun m => cfg.strOn && m.on)).flatMap (·.text) ∧
    (ms.foldl (MsgSinks.step cfg) s).file =
      s.file ++ (ms.filter (fun m => cfg.fileOn && m.on)).flatMap (·.text) := by
  induction ms generalizing s with
  | nil => simp
  | cons m ms ih =>
    simp only [List.foldl_cons]
    obtain ⟨h1, h2⟩ := ih (MsgSinks.step cfg s m)
    rw [h1, h2]
    constructor
    · simp only [MsgSinks.step, List.filter_cons]
      split <;> simp_all
    · simp only [MsgSinks.step, List.filter_cons]
      split <;> simp_all

/-- both sinks enabled ⇒ byte-identical content -/
theorem msgs_file_eq_string (cfg : MsgCfg) (ms : List Msg) (h1 : cfg.strOn = true)
    (h2 : cfg.fileOn = true) : (routeMsgs cfg ms).file = (routeMsgs cfg ms).str := by
  have := routeMsgs_aux cfg ms {}
  simp [routeMsgs, this.1, this.2, h1, h2]

/-- a disabled sink receives nothing -/
theorem msgs_disabled_nothing (cfg : MsgCfg) (ms : List Msg) :
    (cfg.strOn = false → (routeMsgs cfg ms).str = []) ∧
    (cfg.fileOn = false → (routeMsgs cfg ms).file = []) := by
  have := routeMsgs_aux cfg ms {}
  constructor <;> intro h <;> simp [routeMsgs, this.1, this.2, h]

/-- switching one sink never changes what the other receives -/
theorem msgs_sinks_independent (c1 c2 : MsgCfg) (ms : List Msg) :
    (c1.strOn = c2.strOn → (routeMsgs c1 ms).str = (routeMsgs c2 ms).str) ∧
    (c1.fileOn = c2.fileOn → (routeMsgs c1 ms).file = (routeMsgs c2 ms).file) := by
  have a := routeMsgs_aux c1 ms {}
  have b := routeMsgs_aux c2 ms {}
  constructor <;> intro h <;> simp [routeMsgs, a.1, a.2, b.1, b.2, h]

/-! ## error stream -/

/-- every chunk of the error string is written to the error file, in the same order -/
theorem errfile_contains_errstring (cfg : ErrCfg) (es : List ErrEv) (hf : cfg.fileOn = true) :
    (errStrChunks cfg es).Sublist (errFileChunks cfg es) := by
  induction es with
  | nil => simp [errStrChunks, errFileChunks]
  | cons e es ih =>
    cases e with
    | err on stop t =>
      simp only [errStrChunks, errFileChunks, hf, Bool.true_and]
      cases on <;> cases hs : cfg.errStrOn <;> cases stop <;> simp
      all_goals first
        | exact ih
        | exact List.Sublist.cons _ ih
        | exact List.Sublist.cons _ (List.Sublist.cons _ ih)
        | exact List.Sublist.cons₂ _ ih
        | exact List.Sublist.cons₂ _ (List.Sublist.cons _ ih)
    | warn on t =>
      simp only [errStrChunks, errFileChunks, hf, Bool.true_and]
      cases on <;> simp
      · exact ih
      · exact List.Sublist.cons _ ih

/-- the error string is non-empty-chunked exactly when an ERROR was recorded with recording on -/
theorem errStr_nil_of_disabled (cfg : ErrCfg) (es : List ErrEv) (h : cfg.errStrOn = false) :
    errStrChunks cfg es = [] := by
  induction es with
  | nil => rfl
  | cons e es ih => cases e <;> simp [errStrChunks, h, ih]

theorem errStr_length_le (cfg : ErrCfg) (es : List ErrEv) :
    (errStrChunks cfg es).length ≤ errCount es := by
  induction es with
  | nil => simp [errStrChunks, errCount]
  | cons e es ih =>
    cases e with
    | err on stop t =>
      simp only [errStrChunks, errCount]
      split
      · simp only [List.length_cons]; omega
      · omega
    | warn on t => simpa [errStrChunks, errCount] using ih

/-- with recording enabled and `error_on` set at every event, one chunk per ERROR event -/
theorem errStr_length_eq (cfg : ErrCfg) (es : List ErrEv) (h : cfg.errStrOn = true)
    (hon : ∀ e ∈ es, match e with | .err on _ _ => on = true | .warn _ _ => True) :
    (errStrChunks cfg es).length = errCount es := by
  induction es with
  | nil => simp [errStrChunks, errCount]
  | cons e es ih =>
    have ih' := ih (fun e he => hon e (by simp [he]))
    cases e with
    | err on stop t =>
      have : on = true := by simpa using hon (.err on stop t) (by simp)
      simp [errStrChunks, errCount, h, this, ih']
    | warn on t => simpa [errStrChunks, errCount] using ih'

/-! ## selected output -/

theorem upd_same {β} (f : Int → β) (n : Int) (g : β → β) : upd f n g n = g (f n) := by simp [upd]
theorem upd_other {β} (f : Int → β) (n m : Int) (g : β → β) (h : m ≠ n) : upd f n g m = f m := by
  simp [upd, h]

/-- events of other user numbers do not touch user number `n` (tables, strings and files are per number) -/
theorem step_other (cfg : PCfg) (s : PSinks) (e : PEv) (n : Int) (h : e.user ≠ n) :
    ((s.step cfg e).str n = s.str n) ∧ ((s.step cfg e).file n = s.file n) ∧
    ((s.step cfg e).tab n = s.tab n) := by
  cases e <;> simp [PSinks.step, PEv.user] at h ⊢ <;> simp [upd, Ne.symm h]

/-- string sink of user number `n`: receives exactly the text of `n`'s events when enabled -/
theorem route_str (cfg : PCfg) (evs : List PEv) (s : PSinks) (n : Int) :
    (evs.foldl (PSinks.step cfg) s).str n =
      s.str n ++ (if cfg.strOn n then (evs.filter (·.user = n)).flatMap PEv.text else []) := by
  induction evs generalizing s with
  | nil => simp
  | cons e evs ih =>
    simp only [List.foldl_cons]
    rw [ih (s.step cfg e)]
    by_cases hu : e.user = n
    · cases e with
      | msg m on t =>
        have hm : m = n := hu
        subst hm
        simp only [PSinks.step, PEv.user, upd_same, List.filter_cons, PEv.text, decide_true, if_true,
          List.flatMap_cons]
        by_cases hb : cfg.strOn m = true <;> cases on <;> simp [hb]
      | val m on name v r =>
        have hm : m = n := hu
        subst hm
        simp only [PSinks.step, PEv.user, upd_same, List.filter_cons, PEv.text, decide_true, if_true,
          List.flatMap_cons]
        by_cases hb : cfg.strOn m = true <;> cases on <;> simp [hb]
      | endRow m p =>
        have hm : m = n := hu
        subst hm
        simp [PSinks.step, PEv.user, PEv.text]
      | reopen m =>
        have hm : m = n := hu
        subst hm
        simp [PSinks.step, PEv.user, PEv.text]
    · obtain ⟨a, _, _⟩ := step_other cfg s e n hu
      rw [a]; simp [hu]

/-- file sink of user number `n` over a stretch of events in which its file is not re-opened -/
theorem route_file (cfg : PCfg) (evs : List PEv) (s : PSinks) (n : Int)
    (hno : ∀ e ∈ evs, e ≠ .reopen n) :
    (evs.foldl (PSinks.step cfg) s).file n =
      s.file n ++ (if cfg.fileOn n then (evs.filter (·.user = n)).flatMap PEv.text else []) := by
  induction evs generalizing s with
  | nil => simp
  | cons e evs ih =>
    simp only [List.foldl_cons]
    rw [ih (s.step cfg e) (fun x hx => hno x (by simp [hx]))]
    by_cases hu : e.user = n
    · cases e with
      | msg m on t =>
        have hm : m = n := hu
        subst hm
        simp only [PSinks.step, PEv.user, upd_same, List.filter_cons, PEv.text, decide_true, if_true,
          List.flatMap_cons]
        by_cases hb : cfg.fileOn m = true <;> cases on <;> simp [hb]
      | val m on name v r =>
        have hm : m = n := hu
        subst hm
        simp only [PSinks.step, PEv.user, upd_same, List.filter_cons, PEv.text, decide_true, if_true,
          List.flatMap_cons]
        by_cases hb : cfg.fileOn m = true <;> cases on <;> simp [hb]
      | endRow m p =>
        have hm : m = n := hu
        subst hm
        simp [PSinks.step, PEv.user, PEv.text]
      | reopen m =>
        have hm : m = n := hu
        subst hm
        exact absurd rfl (hno _ (by simp))
    · obtain ⟨_, b, _⟩ := step_other cfg s e n hu
      rw [b]; simp [hu]

/-- re-opening truncates: right after `reopen n` the file of `n` is empty -/
theorem route_reopen_truncates (cfg : PCfg) (pre : List PEv) (n : Int) :
    ((pre ++ [PEv.reopen n]).foldl (PSinks.step cfg) PSinks.init).file n = [] := by
  simp [List.foldl_append, PSinks.step, upd_same]

/-- **file = string**, general form. If the punch file of `n` is opened once in the call, before any text
is punched for `n` (`pre` carries no text of `n`), and both switches of `n` are on, the file and the string
hold byte-identical content — for every event trace. -/
theorem punch_file_eq_string (cfg : PCfg) (pre post : List PEv) (n : Int)
    (h1 : cfg.strOn n = true) (h2 : cfg.fileOn n = true)
    (hpre : (pre.filter (·.user = n)).flatMap PEv.text = [])
    (hpost : ∀ e ∈ post, e ≠ .reopen n) :
    (routePunch cfg (pre ++ [PEv.reopen n] ++ post)).file n =
      (routePunch cfg (pre ++ [PEv.reopen n] ++ post)).str n := by
  unfold routePunch
  rw [List.foldl_append, route_file cfg post _ n hpost, route_reopen_truncates, ← List.foldl_append,
    List.append_assoc, route_str]
  simp only [h1, h2, PSinks.init, List.filter_append, List.flatMap_append, hpre, if_true, List.nil_append,
    List.append_assoc]
  simp [PEv.user, PEv.text]

/-- without any re-open in the call (file already attached), same conclusion from empty sinks -/
theorem punch_file_eq_string_noopen (cfg : PCfg) (evs : List PEv) (n : Int)
    (h1 : cfg.strOn n = true) (h2 : cfg.fileOn n = true) (hno : ∀ e ∈ evs, e ≠ .reopen n) :
    (routePunch cfg evs).file n = (routePunch cfg evs).str n := by
  unfold routePunch
  rw [route_file cfg evs _ n hno, route_str]
  simp [h1, h2, PSinks.init]

/-- a file re-opened after text was punched (SELECTED_OUTPUT redefined inside one call) holds only the
text punched since, while the string keeps everything: the two differ on this concrete trace -/
theorem reopen_after_text_differs :
    let cfg : PCfg := ⟨fun _ => true, fun _ => true⟩
    let evs := [PEv.reopen 1, .msg 1 true "h1\n".toList, .reopen 1, .msg 1 true "h2\n".toList]
    (routePunch cfg evs).file 1 = "h2\n".toList ∧ (routePunch cfg evs).str 1 = "h1\nh2\n".toList := by
  decide

/-- a disabled selected-output sink receives nothing -/
theorem punch_disabled_nothing (cfg : PCfg) (evs : List PEv) (n : Int) :
    (cfg.strOn n = false → (routePunch cfg evs).str n = []) ∧
    (cfg.fileOn n = false → (routePunch cfg evs).file n = []) := by
  constructor
  · intro h; rw [routePunch, route_str]; simp [h, PSinks.init]
  · intro h
    have : ∀ s : PSinks, s.file n = [] → (evs.foldl (PSinks.step cfg) s).file n = [] := by
      induction evs with
      | nil => intro s hs; simpa
      | cons e evs ih =>
        intro s hs
        simp only [List.foldl_cons]
        apply ih
        cases e <;> simp only [PSinks.step, upd] <;> (try split) <;> simp_all
    exact this _ rfl

/-- the table does not depend on any switch -/
theorem table_switch_independent (c1 c2 : PCfg) (evs : List PEv) (n : Int) :
    (routePunch c1 evs).tab n = (routePunch c2 evs).tab n := by
  have : ∀ s1 s2 : PSinks, s1.tab = s2.tab →
      (evs.foldl (PSinks.step c1) s1).tab = (evs.foldl (PSinks.step c2) s2).tab := by
    induction evs with
    | nil => intro s1 s2 h; simpa
    | cons e evs ih =>
      intro s1 s2 h
      simp only [List.foldl_cons]
      apply ih
      cases e <;> simp [PSinks.step, h]
  exact congrFun (this _ _ rfl) n

theorem pushPending_inv (t : Table) (p : List String) (h : t.Inv) : (pushPending t p).Inv := by
  induction p generalizing t with
  | nil => simpa [pushPending]
  | cons x xs ih => exact ih _ (inv_pushBack t x .empty h)

/-- every table reachable by any event trace satisfies the table invariant
(each row has exactly ColumnCount cells once its row is ended) -/
theorem route_tables_inv (cfg : PCfg) (evs : List PEv) (n : Int) :
    ((routePunch cfg evs).tab n).Inv := by
  have : ∀ s : PSinks, (∀ m, (s.tab m).Inv) → ∀ m, ((evs.foldl (PSinks.step cfg) s).tab m).Inv := by
    induction evs with
    | nil => intro s h; simpa
    | cons e evs ih =>
      intro s h
      simp only [List.foldl_cons]
      apply ih
      intro m
      cases e with
      | msg k on t => simpa [PSinks.step] using h m
      | val k on name v r =>
        simp only [PSinks.step, upd]; split
        · exact inv_pushBack _ _ _ (h m)
        · exact h m
      | endRow k p =>
        simp only [PSinks.step, upd]; split
        · exact (inv_endRow _ (pushPending_inv _ _ (h m))).1
        · exact h m
      | reopen k => simpa [PSinks.step] using h m
  exact this PSinks.init (fun _ => inv_init) n

/-- the current defect (known finding): with the code's switch rule all user numbers follow the
switch of the *current* number — exhibited on a concrete trace: user 2's switch is off, yet its
string sink receives the text because user 1 (current) has the switch on -/
theorem codeStrOn_violates_per_user_switch :
    let sw : Int → Bool := fun n => n == 1
    let ev := [PEv.msg 2 true "x\n".toList]
    (routePunch ⟨codeStrOn sw 1, fun _ => false⟩ ev).str 2 = "x\n".toList ∧
    (routePunch ⟨specStrOn sw, fun _ => false⟩ ev).str 2 = [] := by
  decide

/-- non-vacuity of the routing theorems on a concrete two-user trace -/
example :
    let cfg : PCfg := ⟨fun _ => true, fun n => n == 1⟩
    let evs := [PEv.reopen 1, .msg 1 true "h\n".toList, .val 1 true "a" (.long 1) "1\t".toList,
                .val 2 true "b" (.str "q") "q\t".toList, .msg 1 true "\n".toList, .endRow 1 ["c"], .endRow 2 []]
    let r := routePunch cfg evs
    r.str 1 = "h\n1\t\n".toList ∧ r.file 1 = r.str 1 ∧ r.file 2 = [] ∧ r.str 2 = "q\t".toList ∧
    (r.tab 1).get 1 0 = (VR_OK, .long 1) ∧ (r.tab 1).get 1 1 = (VR_OK, .empty) ∧
    (r.tab 2).get 1 0 = (VR_OK, .str "q") ∧ splitLines (r.str 1) = ["h".toList, "1\t".toList] := by
  decide

end PhreeqcVerif.Route
