"""Translator (C14): facts of the anchored C++ that the store model depends on, re-read from the CURRENT source and
written as Lean data to lean/PhreeqcVerif/Gen/StoreTables.lean:

  * the order of the calls of one simulation in IPhreeqc::do_run and Phreeqc::run_simulations
    (read_input, tidy_model, initial_*, reactions, ..., run_as_cells, do_mixes, copy_entities, dump, delete_entities);
  * the kind orders inside set_use (order of the "not found" checks), copy_use, saver (+ which kinds are fanned out with
    Rxn_copies and which with a Rxn_copy loop), do_mixes, copy_entities (+ the loop variable type), delete_entities,
    dump_ostream, list_components; what Rxn_copy / Rxn_copies do;
  * the option vectors of StorageBinList (DELETE), runner (RUN_CELLS) and dumper (DUMP) and the item each option case selects;
    KEY_x -> kind wiring of USE / SAVE / COPY;
  * the option names the generator writes (tools/gens/store.py), so that the theorem "every written option resolves to
    the intended item" is about the text that is really sent.

The facts are read from the STRUCTURE of the code, not from its spelling: every function body is parsed into a statement
tree (blocks, if/else, loops, switch with its case labels, simple statements) over comment- and preprocessor-stripped text;
statement text is compared in a canonical form (no insignificant white space); before a fact is read
  * local reference aliases `const T& x = expr;` are substituted into the statements that follow them,
  * a call of a file-local helper (static function or template in the same file) is replaced by the helper's body with the
    arguments substituted for the parameters (one level),
  * enumerators / `static const int` of the file are replaced by their values in case labels and conditions,
  * a `switch` is read as a set of (labels -> statements) groups, whatever their order,
  * a guard `if (it == b.end()) …` directly after `b[k] = …; it = b.find(k);` is dropped: std::map::operator[] has just
    created key k, so the condition is false (the one redundancy that is PROVED; any other extra statement makes the shape
    comparison fail).
FAILS CLOSED (TranslatorError) when what the code says is not what the model assumes or cannot be established.
`extract(repo)` returns Python data, `generate(ctx)` writes the Lean file (only when its content changes)."""
import re
from pathlib import Path

import vlib


class TranslatorError(Exception):
    pass


MAPNAME = {"solution": "solution", "pp_assemblage": "pp", "exchange": "exchange", "surface": "surface",
           "ss_assemblage": "ss", "gas_phase": "gas", "kinetics": "kinetics", "mix": "mix", "reaction": "reaction",
           "temperature": "temperature", "pressure": "pressure", "cell": "cell"}
ELEVEN = sorted(k for k in MAPNAME if k != "cell")


# ------------------------------------------------------------------------------------------------ text level
def strip_comments(src):
    src = re.sub(r"/\*.*?\*/", lambda m: "\n" * m.group(0).count("\n"), src, flags=re.S)
    src = re.sub(r"//[^\n]*", "", src)
    # preprocessor lines (with continuations); both branches of a conditional stay in the text
    return re.sub(r"(?m)^[ \t]*#(?:[^\n\\]|\\.|\\\n)*$", "", src)


TOK = re.compile(r'"(?:[^"\\]|\\.)*"|\'(?:[^\'\\]|\\.)*\'|[A-Za-z_0-9]+|\S')


def canon(s):
    """canonical spelling: tokens joined without white space, except one blank between two word tokens"""
    out, prev = [], ""
    for t in TOK.findall(s):
        if prev and re.match(r"\w", prev[-1]) and re.match(r"\w", t[0]):
            out.append(" ")
        out.append(t)
        prev = t
    return "".join(out)


def scan(s, i, stop):
    """index of the first char of `stop` at nesting depth 0 from i on (quotes and () [] {} respected)"""
    depth = 0
    n = len(s)
    while i < n:
        c = s[i]
        if c in "\"'":
            j = i + 1
            while j < n and s[j] != c:
                j += 2 if s[j] == "\\" else 1
            i = j + 1
            continue
        if depth == 0 and c in stop:
            return i
        if c in "([{":
            depth += 1
        elif c in ")]}":
            depth -= 1
            if depth < 0:
                return i
        i += 1
    return n


def skip_ws(s, i):
    while i < len(s) and s[i].isspace():
        i += 1
    return i


def parens(s, i, what):
    i = skip_ws(s, i)
    if i >= len(s) or s[i] != "(":
        raise TranslatorError(f"{what}: '(' expected")
    j = scan(s, i + 1, ")")
    return s[i + 1:j], j + 1


KW = re.compile(r"(if|for|while|switch|do|try|case|default|else)\b")


def parse_stmt(s, i, what):
    """one statement from s[i:] -> (node, next index). Nodes:
    ("block", [n]) ("if", cond, then, else|None) ("loop", kw, header, body) ("switch", expr, body) ("label", text)
    ("try", block, [handler blocks]) ("simple", text) — all texts canonical"""
    i = skip_ws(s, i)
    if s[i] == "{":
        out, i = [], i + 1
        while True:
            i = skip_ws(s, i)
            if i >= len(s):
                raise TranslatorError(f"{what}: unbalanced braces")
            if s[i] == "}":
                return ("block", out), i + 1
            n, i = parse_stmt(s, i, what)
            if n is not None:
                out.append(n)
    m = KW.match(s, i)
    kw = m.group(1) if m else None
    if kw == "if":
        cond, i = parens(s, m.end(), what)
        then, i = parse_stmt(s, i, what)
        j = skip_ws(s, i)
        els = None
        if re.match(r"else\b", s[j:j + 5]):
            els, i = parse_stmt(s, j + 4, what)
        return ("if", canon(cond), then, els), i
    if kw in ("for", "while"):
        hdr, i = parens(s, m.end(), what)
        body, i = parse_stmt(s, i, what)
        return ("loop", kw, canon(hdr), body), i
    if kw == "switch":
        e, i = parens(s, m.end(), what)
        body, i = parse_stmt(s, i, what)
        return ("switch", canon(e), body), i
    if kw == "do":
        body, i = parse_stmt(s, m.end(), what)
        j = skip_ws(s, i)
        cond, i = parens(s, j + 5, what)
        return ("loop", "do", canon(cond), body), scan(s, i, ";") + 1
    if kw == "try":
        blk, i = parse_stmt(s, m.end(), what)
        hs = []
        while re.match(r"catch\b", s[skip_ws(s, i):skip_ws(s, i) + 6]):
            _, i = parens(s, skip_ws(s, i) + 5, what)
            h, i = parse_stmt(s, i, what)
            hs.append(h)
        return ("try", blk, hs), i
    if kw in ("case", "default"):
        j = m.end()
        while True:                      # the ':' that is not part of '::'
            j = scan(s, j, ":")
            if s[j:j + 2] == "::":
                j += 2
                continue
            break
        return ("label", canon(s[m.end():j]) if kw == "case" else "default"), j + 1
    if s[i] == ";":
        return None, i + 1
    j = scan(s, i, ";")
    return ("simple", canon(s[i:j])), j + 1


def function_def(src, name, what=None):
    """(parameter text, body tree) of the DEFINITION of `name` in comment-stripped src"""
    what = what or name
    for m in re.finditer(r"\b" + re.escape(name) + r"\s*\(", src):
        j = scan(src, m.end(), ")")
        k = skip_ws(src, j + 1)
        if src[k:k + 5] == "const":
            k = skip_ws(src, k + 5)
        if k < len(src) and src[k] == "{":
            # not a call inside an expression: the previous non-blank token must not be an operator that makes it one
            body, _ = parse_stmt(src, k, what)
            return src[m.end():j], body
    raise TranslatorError(f"{what}: definition not found")


# ------------------------------------------------------------------------------------------------ tree level
def stmts(node):
    """statement list of a block (a single statement counts as a one-element block); nested plain blocks are flattened"""
    if node is None:
        return []
    if node[0] != "block":
        return [node]
    out = []
    for n in node[1]:
        out += stmts(n) if n[0] == "block" else [n]
    return out


def walk(node):
    """all nodes, preorder, in source order"""
    if node is None:
        return
    yield node
    k = node[0]
    if k == "block":
        for n in node[1]:
            yield from walk(n)
    elif k == "if":
        yield from walk(node[2])
        yield from walk(node[3])
    elif k == "loop":
        yield from walk(node[3])
    elif k == "switch":
        yield from walk(node[2])
    elif k == "try":
        yield from walk(node[1])
        for h in node[2]:
            yield from walk(h)


def texts(node):
    """canonical texts (conditions, headers, labels, simple statements) in source order"""
    for n in walk(node):
        if n[0] == "simple" or n[0] == "label":
            yield n[1]
        elif n[0] == "if":
            yield n[1]
        elif n[0] == "loop":
            yield n[2]
        elif n[0] == "switch":
            yield n[1]


def alltext(node):
    return ";".join(texts(node))


def mapnode(node, f):
    """the tree with f applied to every text"""
    if node is None:
        return None
    k = node[0]
    if k == "block":
        return ("block", [mapnode(n, f) for n in node[1]])
    if k == "if":
        return ("if", f(node[1]), mapnode(node[2], f), mapnode(node[3], f))
    if k == "loop":
        return ("loop", node[1], f(node[2]), mapnode(node[3], f))
    if k == "switch":
        return ("switch", f(node[1]), mapnode(node[2], f))
    if k == "try":
        return ("try", mapnode(node[1], f), [mapnode(h, f) for h in node[2]])
    return (k, f(node[1]))


def subst(node, table):
    """word-wise substitution of identifiers by canonical expressions"""
    if not table:
        return node
    rx = re.compile(r"(?<![\w.>])(" + "|".join(re.escape(k) for k in table) + r")\b")
    return mapnode(node, lambda t: canon(rx.sub(lambda m: table[m.group(1)], t)))


ALIAS = re.compile(r"^(?:const )?[\w:<>, ]*?&(\w+)=(.+)$")


def resolve_aliases(node):
    """`const T& x = expr;` -> x replaced by expr in the statements that follow in the same block"""
    if node is None:
        return None
    k = node[0]
    if k == "block":
        out, rest = [], list(node[1])
        while rest:
            n = rest.pop(0)
            m = ALIAS.match(n[1]) if n[0] == "simple" else None
            if m and "(" not in n[1].split("=")[0]:
                rest = [subst(x, {m.group(1): m.group(2)}) for x in rest]
                continue
            out.append(resolve_aliases(n))
        return ("block", out)
    if k == "if":
        return ("if", node[1], resolve_aliases(node[2]), resolve_aliases(node[3]))
    if k == "loop":
        return ("loop", node[1], node[2], resolve_aliases(node[3]))
    if k == "switch":
        return ("switch", node[1], resolve_aliases(node[2]))
    if k == "try":
        return ("try", resolve_aliases(node[1]), [resolve_aliases(h) for h in node[2]])
    return node


def split_args(s, angles=False):
    """top-level comma split; angles=True: commas inside template brackets <...> do not split (parameter lists)"""
    if angles:
        depth, t = 0, []
        for c in s:
            depth += (c == "<") - (c == ">")
            t.append("\x00" if c == "," and depth > 0 else c)
        return [a.replace("\x00", ",") for a in split_args("".join(t))]
    out, i = [], 0
    while i <= len(s):
        j = scan(s, i, ",")
        out.append(s[i:j])
        i = j + 1
    return [a for a in (x.strip() for x in out) if a]


def inline_helpers(node, src, what):
    """a statement that is just a call of a function defined in the same file as a non-member (static / template helper) is
    replaced by that function's body, parameters replaced by the arguments (one level)"""
    def helper(name):
        for m in re.finditer(r"(?<![\w:.>])" + re.escape(name) + r"\s*\(", src):
            j = scan(src, m.end(), ")")
            k = skip_ws(src, j + 1)
            if k < len(src) and src[k] == "{":
                pre = src[max(0, m.start() - 200):m.start()]
                if re.search(r"::\s*$", pre):
                    return None
                params = [re.findall(r"\w+", p)[-1] for p in split_args(src[m.end():j], angles=True)]
                body, _ = parse_stmt(src, k, what)
                return params, body
        return None

    def rec(n):
        if n is None:
            return None
        k = n[0]
        if k == "simple":
            m = re.match(r"^(\w+)\((.*)\)$", n[1])
            if m and not re.match(r"(return|if|for|while|switch)$", m.group(1)):
                h = helper(m.group(1))
                if h:
                    params, body = h
                    args = [canon(a) for a in split_args(m.group(2))]
                    if len(args) == len(params):
                        return subst(body, dict(zip(params, args)))
            return n
        if k == "block":
            return ("block", [rec(x) for x in n[1]])
        if k == "if":
            return ("if", n[1], rec(n[2]), rec(n[3]))
        if k == "loop":
            return ("loop", n[1], n[2], rec(n[3]))
        if k == "switch":
            return ("switch", n[1], rec(n[2]))
        if k == "try":
            return ("try", rec(n[1]), [rec(h) for h in n[2]])
        return n
    return rec(node)


def file_constants(src):
    """enumerators and integral constants of a file -> value"""
    tab = {}
    for m in re.finditer(r"\benum\b[^{;]*\{([^}]*)\}", src):
        v = -1
        for item in split_args(m.group(1)):
            mm = re.match(r"^(\w+)\s*(?:=\s*(-?\w+))?$", item.strip())
            if not mm:
                continue
            if mm.group(2) is not None:
                try:
                    v = int(mm.group(2), 0)
                except ValueError:
                    if mm.group(2) in tab:
                        v = int(tab[mm.group(2)])
                    else:
                        continue
            else:
                v += 1
            tab[mm.group(1)] = str(v)
    for m in re.finditer(r"\b(?:static\s+)?const\s+(?:unsigned\s+)?(?:int|long|size_t)\s+(\w+)\s*=\s*(-?\d+)\s*;", src):
        tab[m.group(1)] = m.group(2)
    return tab


def drop_proved_guards(node):
    """`b[k] = e; it = b.find(k); if (it == b.end()) {...}` -> the `if` is dropped (operator[] has inserted k)"""
    if node is None:
        return None
    k = node[0]
    if k == "block":
        out = []
        for n in node[1]:
            n = drop_proved_guards(n)
            if n[0] == "if" and n[3] is None and len(out) >= 2 and out[-1][0] == out[-2][0] == "simple":
                a = re.match(r"^(\w+)\[(\w+)\]=.+$", out[-2][1])
                f = re.match(r"^(\w+)=(\w+)\.find\((\w+)\)$", out[-1][1])
                if a and f and f.group(2) == a.group(1) and f.group(3) == a.group(2) and \
                        n[1] in (f"{f.group(1)}=={a.group(1)}.end()", f"{a.group(1)}.end()=={f.group(1)}"):
                    continue
            out.append(n)
        return ("block", out)
    if k == "if":
        return ("if", node[1], drop_proved_guards(node[2]), drop_proved_guards(node[3]))
    if k == "loop":
        return ("loop", node[1], node[2], drop_proved_guards(node[3]))
    if k == "switch":
        return ("switch", node[1], drop_proved_guards(node[2]))
    return node


DECL = re.compile(r"^(?:typename )?[\w:<>,*& ]+ \*?\w+$")


def ser(node):
    """canonical serialisation of what a body does: declarations without initialiser dropped, `return(x)` = `return x`"""
    if node is None:
        return ""
    k = node[0]
    if k == "block":
        return "{" + "".join(ser(n) for n in node[1]) + "}"
    if k == "if":
        return f"if({node[1]})" + ser(("block", stmts(node[2]))) + (("else" + ser(("block", stmts(node[3])))) if node[3] else "")
    if k == "loop":
        return f"{node[1]}({node[2]})" + ser(("block", stmts(node[3])))
    if k == "switch":
        return f"switch({node[1]})" + ser(node[2])
    if k == "label":
        return f"case {node[1]}:"
    t = node[1]
    if DECL.match(t) and "=" not in t and "(" not in t and not t.startswith("return"):
        return ""
    t = re.sub(r"^return\((.*)\)$", r"return \1", t)
    return t + ";"


def switch_groups(sw, consts, what):
    """[(labels, [statements])] of a switch; labels resolved through the file constants; order of groups/labels irrelevant.
    A group ends at break/return; statements followed directly by another label without break (fall-through with code) are
    not accepted."""
    groups, labels, body = [], [], []
    for n in stmts(sw[2]):
        if n[0] == "label":
            if body:
                raise TranslatorError(f"{what}: fall-through with statements before 'case {n[1]}'")
            labels.append(consts.get(n[1], n[1]))
            continue
        if n[0] == "simple" and n[1] == "break":
            groups.append((labels, body))
            labels, body = [], []
            continue
        body.append(n)
        if n[0] == "simple" and n[1].startswith("return"):
            groups.append((labels, body))
            labels, body = [], []
    if labels or body:
        groups.append((labels, body))
    return groups


def kinds(names, what):
    out = []
    for n in names:
        if n not in MAPNAME:
            raise TranslatorError(f"{what}: unknown map Rxn_{n}_map")
        out.append(MAPNAME[n])
    return out


# ------------------------------------------------------------------------------------------------ the facts
SIM_CALLS = ["read_input", "tidy_model", "initial_solutions", "initial_exchangers", "initial_surfaces", "initial_gas_phases",
             "reactions", "inverse_models", "advection", "transport", "run_as_cells", "do_mixes", "copy_entities",
             "dump_entities", "dump_ostream", "delete_entities"]


def sim_calls(body, what):
    """the store-relevant calls of the simulation loop in execution (= source) order; dump_entities/dump_ostream -> "dump";
    copy_entities must be guarded by new_copy"""
    calls = []
    for t in texts(body):
        for m in re.finditer(r"(?:PhreeqcPtr->|(?<![\w.>]))(\w+)\(", t):
            n = m.group(1)
            if n in SIM_CALLS:
                n = "dump" if n.startswith("dump_") else n
                if not (calls and calls[-1] == n == "dump"):
                    calls.append(n)
    if calls.count("read_input") != 1 or calls[0] != "read_input":
        raise TranslatorError(f"{what}: read_input is not the first call of the loop: {calls}")
    for n in ("tidy_model", "reactions", "run_as_cells", "do_mixes", "copy_entities", "dump", "delete_entities"):
        if calls.count(n) != 1:
            raise TranslatorError(f"{what}: expected exactly one call of {n}: {calls}")
    ok = any(n[0] == "if" and re.fullmatch(r"(this->PhreeqcPtr->)?new_copy", n[1]) and
             [re.sub(r"this->PhreeqcPtr->", "", x[1]) for x in stmts(n[2])] == ["copy_entities()"] for n in walk(body))
    if not ok:
        raise TranslatorError(f"{what}: copy_entities is no longer guarded by new_copy")
    return calls


def vopts_of(src, what):
    m = re.search(r"temp_vopts\s*\[\s*\]\s*=\s*\{(.*?)\}\s*;", src, re.S)
    if not m:
        raise TranslatorError(f"{what}: temp_vopts not found")
    v = re.findall(r'value_type\s*\(\s*"([^"]*)"\s*\)', m.group(1))
    if not v:
        raise TranslatorError(f"{what}: empty option vector")
    return v


def saver_facts(body):
    sv = []
    for n in stmts(body):
        if n[0] != "if":
            continue
        m = re.match(r"^save\.(\w+)==TRUE(.*)$", n[1])
        if not m or m.group(1) == "kinetics":
            continue
        t = alltext(n[2])
        c = re.findall(r"Utilities::Rxn_copies\(Rxn_(\w+)_map", t)
        e = re.findall(r"Utilities::Rxn_copy\(Rxn_(\w+)_map", t)
        if m.group(2) or len(c) + len(e) != 1 or not re.search(r"x\w+_save\(n\)", t):
            raise TranslatorError(f"saver: block of {m.group(1)} not recognised")
        if e:       # the Rxn_copy loop runs over n+1 … n_end, copying from n
            k = m.group(1)
            loop = [x for x in walk(n[2]) if x[0] == "loop"]
            if len(loop) != 1 or not re.fullmatch(rf"i=save\.n_{k}_user\+1;i<=save\.n_{k}_user_end;i\+\+", loop[0][2]) or \
                    [x[1] for x in stmts(loop[0][3])] != [f"Utilities::Rxn_copy(Rxn_{k}_map,n,i)"]:
                raise TranslatorError(f"saver: Rxn_copy loop of {k} not recognised")
        sv.append((MAPNAME[(c + e)[0]], bool(c)))
    if [k for k, _ in sv] != ["solution", "pp", "exchange", "surface", "gas", "ss"]:
        raise TranslatorError(f"saver: kinds {sv}")
    return sv


def copy_entities_facts(body):
    """[(kind, loop variable type)] in order: per COPY list one loop over its instructions; inside: nothing unless the source
    exists; every number start…end except the source number receives Rxn_copy(map, source, number); then the list is cleared"""
    out, cleared = [], []
    top = stmts(body)
    for n in top:
        if n[0] == "simple":
            m = re.fullmatch(r"copier_clear\(&copy_(\w+)\)", n[1])
            if m:
                cleared.append(m.group(1))
            continue
        if n[0] != "loop":
            continue
        m = re.fullmatch(r"size_t j=0;j<copy_(\w+)\.n_user\.size\(\);j\+\+", n[2])
        if not m:
            raise TranslatorError(f"copy_entities: outer loop header {n[2]!r}")
        K = m.group(1)
        src_ = rf"copy_{K}\.n_user\[j\]"
        find = rf"(?:Utilities::)?Rxn_find\(Rxn_{K}_map,{src_}\)"
        exists, inner = False, None
        for st in stmts(n[3]):
            if st[0] == "if" and re.fullmatch(find + r"!=NULL", st[1]) and st[3] is None:
                inn = [x for x in stmts(st[2])]
                if len(inn) == 1 and inn[0][0] == "loop":
                    exists, inner = True, inn[0]
                    continue
            if st[0] == "if" and re.fullmatch(find + r"==NULL", st[1]) and st[3] is None and \
                    [x[1] for x in stmts(st[2])] == ["continue"] and inner is None:
                exists = True
                continue
            if st[0] == "loop" and exists and inner is None:
                inner = st
                continue
            raise TranslatorError(f"copy_entities: statement in the loop of {K} not recognised: {ser(st)[:120]}")
        if not exists or inner is None:
            raise TranslatorError(f"copy_entities: existence test / range loop of {K} missing")
        m = re.fullmatch(rf"(\w+) i=copy_{K}\.start\[j\];i<=copy_{K}\.end\[j\];(?:i\+\+|\+\+i)", inner[2])
        if not m:
            raise TranslatorError(f"copy_entities: range loop of {K}: {inner[2]!r}")
        T = m.group(1)
        copy = rf"Utilities::Rxn_copy\(Rxn_{K}_map,{src_},(?:\(int\))?i\)"
        ib = stmts(inner[3])
        skip_then_copy = (len(ib) == 2 and ib[0][0] == "if" and re.fullmatch(rf"i=={src_}", ib[0][1]) and ib[0][3] is None and
                          [x[1] for x in stmts(ib[0][2])] == ["continue"] and ib[1][0] == "simple" and re.fullmatch(copy, ib[1][1]))
        copy_if_other = (len(ib) == 1 and ib[0][0] == "if" and re.fullmatch(rf"i!={src_}", ib[0][1]) and ib[0][3] is None and
                         len(stmts(ib[0][2])) == 1 and stmts(ib[0][2])[0][0] == "simple" and
                         re.fullmatch(copy, stmts(ib[0][2])[0][1]))
        if not (skip_then_copy or copy_if_other):
            raise TranslatorError(f"copy_entities: body of the range loop of {K} not recognised: {ser(inner[3])[:160]}")
        out.append((K, T))
    if [k for k, _ in out] != cleared[:len(out)] or len(out) != 11:
        raise TranslatorError(f"copy_entities: loops {[k for k, _ in out]} / cleared lists {cleared}")
    if not any(n[0] == "simple" and n[1] == "new_copy=FALSE" for n in top):
        raise TranslatorError("copy_entities: new_copy is not reset")
    types = {t for _, t in out}
    if len(types) != 1 or types - {"size_t", "int"}:
        raise TranslatorError(f"copy_entities: loop variable types {types}")
    return kinds([k for k, _ in out], "copy_entities"), ("sizet" if types == {"size_t"} else "int")


def delete_entities_facts(body):
    """kinds in order; per kind: if the item is defined: no numbers -> map.clear(), else map.erase(n) for every listed n;
    only the item's own map is touched; afterwards every item is reset"""
    out = []
    top = stmts(body)
    for n in top:
        if n[0] != "if":
            continue
        m = re.fullmatch(r"delete_info\.Get_(\w+)\(\)\.Get_defined\(\)", n[1])
        if not m:
            continue
        K = m.group(1)
        t = alltext(n[2])
        if set(re.findall(r"Rxn_(\w+)_map", t)) != {K} or set(re.findall(r"delete_info\.Get_(\w+)\(\)", t)) != {K}:
            raise TranslatorError(f"delete_entities: block of {K} touches other maps or items")
        inner = [x for x in stmts(n[2]) if x[0] != "simple" or not DECL.match(x[1])]
        nums = rf"delete_info\.Get_{K}\(\)\.Get_numbers\(\)"
        if len(inner) != 1 or inner[0][0] != "if" or not re.fullmatch(nums + r"\.size\(\)==0", inner[0][1]) or inner[0][3] is None:
            raise TranslatorError(f"delete_entities: block of {K}: 'no numbers' test not recognised")
        if [x[1] for x in stmts(inner[0][2])] != [f"Rxn_{K}_map.clear()"]:
            raise TranslatorError(f"delete_entities: {K}: clear branch")
        els = [x for x in stmts(inner[0][3]) if not (x[0] == "simple" and DECL.match(x[1]) and "=" not in x[1])]
        if len(els) != 1 or els[0][0] != "loop":
            raise TranslatorError(f"delete_entities: {K}: erase loop not found")
        hm = re.fullmatch(rf"(?:[\w:<> ]+ )?(\w+)={nums}\.begin\(\);(\w+)!={nums}\.end\(\);(?:(\w+)\+\+|\+\+(\w+))", els[0][2])
        if not hm or len({hm.group(1), hm.group(2), hm.group(3) or hm.group(4)}) != 1:
            raise TranslatorError(f"delete_entities: {K}: loop header {els[0][2]!r}")
        if [x[1] for x in stmts(els[0][3])] != [f"Rxn_{K}_map.erase(*{hm.group(1)})"]:
            raise TranslatorError(f"delete_entities: {K}: loop body")
        out.append(K)
    if "delete_info.SetAll(false)" not in [x[1] for x in top if x[0] == "simple"]:
        raise TranslatorError("delete_entities: the request is not reset (SetAll(false))")
    return kinds(out, "delete_entities")


RXN_COPY = ("{it=b.find(i);if(it!=b.end()){b[j]=it->second;it=b.find(j);it->second.Set_n_user(j);it->second.Set_n_user_end(j);"
            "return&(it->second);}else{return NULL;}}")
RXN_COPIES = ("{if(n_user_end<=n_user){return;}it=b.find(n_user);if(it!=b.end()){for(int j=n_user+1;j<=n_user_end;j++)"
              "{b[j]=it->second;it=b.find(j);it->second.Set_n_user(j);it->second.Set_n_user_end(j);}}}")


def rxn_shapes(hdr):
    for name, want in (("Rxn_copy", RXN_COPY), ("Rxn_copies", RXN_COPIES)):
        _, body = function_def(hdr, name)
        got = ser(drop_proved_guards(body))
        got = got.replace("return (NULL);", "return NULL;")
        if got != want:
            raise TranslatorError(f"{name}: does not say what the model assumes:\n  {got}\n  {want}")


def item_switch(fn_body, consts, item_rx, what):
    """{option index: item} from the switch whose groups assign `item`"""
    for sw in (n for n in walk(fn_body) if n[0] == "switch" and n[1] == "opt"):
        gs = switch_groups(sw, consts, what)
        if not any(any(x[0] == "simple" and x[1].startswith("item=") for x in b) for _, b in gs):
            continue
        cases = {}
        for labels, b in gs:
            if labels == ["default"]:
                if b:
                    raise TranslatorError(f"{what}: default case of the item switch does something")
                continue
            if len(b) != 1 or b[0][0] != "simple":
                raise TranslatorError(f"{what}: item switch group {labels}: {[ser(x) for x in b]}")
            m = re.fullmatch(item_rx, b[0][1])
            if not m:
                raise TranslatorError(f"{what}: item switch group {labels}: {b[0][1]!r}")
            for lb in labels:
                if not re.fullmatch(r"\d+", lb) or int(lb) in cases:
                    raise TranslatorError(f"{what}: case label {lb!r}")
                cases[int(lb)] = m.group(1) if m.lastindex else "cell"
        return cases
    raise TranslatorError(f"{what}: item switch not found")


def all_case(fn_body, consts, what):
    for sw in (n for n in walk(fn_body) if n[0] == "switch" and n[1] == "opt"):
        for labels, b in switch_groups(sw, consts, what):
            if [x[1] for x in b if x[0] == "simple"] == ["this->SetAll(true)"] and len(b) == 1:
                if len(labels) != 1 or not re.fullmatch(r"\d+", labels[0]):
                    raise TranslatorError(f"{what}: -all case labels {labels}")
                return int(labels[0])
    raise TranslatorError(f"{what}: -all case not found")


def storage_bin_facts(sb):
    consts = file_constants(sb)
    vopts = vopts_of(sb, "StorageBinList")
    _, rd = function_def(sb, "StorageBinList::Read")
    cases = {k: MAPNAME[v] for k, v in item_switch(rd, consts, r"item=&\(this->Get_(\w+)\(\)\)", "StorageBinList::Read").items()}
    cases[all_case(rd, consts, "StorageBinList::Read")] = "all"
    if sorted(cases) != list(range(len(vopts))):
        raise TranslatorError(f"StorageBinList::Read: cases {sorted(cases)} do not cover the {len(vopts)} options")
    top = stmts(rd)
    first_loop = next((i for i, n in enumerate(top) if n[0] == "loop"), None)
    if first_loop is None:
        raise TranslatorError("StorageBinList::Read: option loop not found")
    before = [n[1] for n in top[:first_loop] if n[0] == "simple"]
    if "this->cell.Clear()" not in before or "this->cell.Set_defined(false)" not in before:
        raise TranslatorError("StorageBinList::Read: the cell list is no longer cleared at the start of a block")
    # which options are followed by numbers: everything but -all
    loop = top[first_loop]
    reads = None
    for n in stmts(loop[3]):
        if n[0] == "if" and re.search(r"\bopt\b", n[1]) and "Augment" in alltext(n[2]):
            cond = re.sub(r"\b(\w+)\b", lambda m: consts.get(m.group(1), m.group(1)), n[1])
            if not re.fullmatch(r"[\dopt()<>=&|! ]+", cond):
                raise TranslatorError(f"StorageBinList::Read: numbers condition {cond!r}")
            py = cond.replace("&&", " and ").replace("||", " or ").replace("!", " not ").replace(" not =", "!=")
            reads = {i for i in range(len(vopts)) if eval(py, {"opt": i})}
    if reads != {i for i in range(len(vopts)) if cases[i] != "all"}:
        raise TranslatorError(f"StorageBinList::Read: options followed by numbers: {reads}")
    after = [n for n in top[first_loop + 1:] if n[0] == "if" and n[1] == "this->Get_cell().Get_defined()"]
    if len(after) != 1 or ser(("block", stmts(after[0][2]))) != \
            "{if(this->Get_cell().Get_numbers().empty()){this->SetAll(true);}else{this->TransferAll(this->Get_cell());}}":
        raise TranslatorError("StorageBinList::Read: the cell list is not transferred at the end of the block as assumed")
    _, ga = function_def(sb, "StorageBinList::GetAllItems")
    items = sorted(re.findall(r"items\.insert\(&this->(\w+)\)", alltext(ga)))
    if items != ELEVEN:
        raise TranslatorError(f"StorageBinList::GetAllItems: {items}")
    _, ta = function_def(sb, "StorageBinList::TransferAll")
    if not re.search(r"\(\*item\)->Augment\(\*it\)", alltext(ta)) or len([n for n in walk(ta) if n[0] == "loop"]) != 2:
        raise TranslatorError("StorageBinList::TransferAll not recognised")
    _, sa = function_def(sb, "StorageBinList::SetAll")
    if not {"(*it)->Clear()", "(*it)->Set_defined(tf)"} <= set(texts(sa)):
        raise TranslatorError("StorageBinList::SetAll not recognised")
    return vopts, [cases[i] for i in range(len(vopts))]


def key_cases(fn_body, stmt_rx, what):
    """[(KEY_x, captured name)] from every switch group of the function that contains a statement matching stmt_rx"""
    out = []
    for sw in (n for n in walk(fn_body) if n[0] == "switch"):
        try:
            gs = switch_groups(sw, {}, what)
        except TranslatorError:
            continue
        for labels, b in gs:
            hits = [m.group(1) for x in b if x[0] == "simple" for m in [re.fullmatch(stmt_rx, x[1])] if m]
            if len(hits) == 1:
                for lb in labels:
                    m = re.fullmatch(r"Keywords::(KEY_\w+)", lb)
                    if not m:
                        raise TranslatorError(f"{what}: label {lb!r}")
                    out.append((m.group(1), hits[0], b))
    return out


def extract(repo=None):
    repo = Path(repo or vlib.REPO)
    pp = repo / "src" / "phreeqcpp"
    facts = {}
    ip = strip_comments((repo / "src" / "IPhreeqc.cpp").read_text())
    facts["do_run"] = sim_calls(function_def(ip, "IPhreeqc::do_run")[1], "do_run")
    ms = strip_comments((pp / "mainsubs.cpp").read_text())

    def fn(name):
        _, b = function_def(ms, name)
        return resolve_aliases(inline_helpers(b, ms, name))
    facts["run_simulations"] = sim_calls(fn("run_simulations"), "run_simulations")
    b = fn("set_use")
    facts["set_use"] = kinds(re.findall(r"Rxn_find\(Rxn_(\w+)_map", alltext(b)), "set_use")
    b = fn("copy_use")
    facts["copy_use"] = kinds(re.findall(r"Rxn_copy\(Rxn_(\w+)_map", alltext(b)), "copy_use")
    if not re.search(r"save\.solution=TRUE;save\.n_solution_user=i;", alltext(b) + ";"):
        raise TranslatorError("copy_use: 'always save solution to i' not recognised")
    facts["saver"] = saver_facts(fn("saver"))
    facts["do_mixes"] = kinds(re.findall(r"Rxn_mix\(Rxn_\w+_mix_map,Rxn_(\w+)_map", alltext(fn("do_mixes"))), "do_mixes")
    facts["copy_entities"], facts["copy_loop"] = copy_entities_facts(fn("copy_entities"))
    rc = strip_comments((pp / "ReadClass.cxx").read_text())
    facts["delete_entities"] = delete_entities_facts(resolve_aliases(inline_helpers(function_def(rc, "delete_entities")[1], rc,
                                                                                    "delete_entities")))
    b = resolve_aliases(function_def(rc, "dump_ostream")[1])
    facts["dump_ostream"] = kinds(re.findall(r"Rxn_dump_raw\(Rxn_(\w+)_map", alltext(b)), "dump_ostream")
    for n in stmts(b):
        m = re.fullmatch(r"dump_info\.Get_bool_(\w+)\(\)", n[1]) if n[0] == "if" else None
        if m and set(re.findall(r"Rxn_(\w+)_map", alltext(n[2]))) != {m.group(1)}:
            raise TranslatorError(f"dump_ostream: block of {m.group(1)} touches another map")
    ph = strip_comments((pp / "Phreeqc.cpp").read_text())
    b = function_def(ph, "Phreeqc::list_components")[1]
    facts["list_components"] = kinds(re.findall(r"\w+=Rxn_(\w+)_map\.begin\(\)", alltext(b)), "list_components")
    rxn_shapes(strip_comments((pp / "Phreeqc.h").read_text()))
    # option tables
    sb = strip_comments((pp / "StorageBinList.cpp").read_text())
    facts["bin_vopts"], facts["bin_cases"] = storage_bin_facts(sb)
    rn = strip_comments((pp / "runner.cpp").read_text())
    facts["runner_vopts"] = vopts_of(rn, "runner")
    rr = function_def(rn, "runner::Read")[1]
    cells = []
    for sw in (n for n in walk(rr) if n[0] == "switch" and n[1] == "opt"):
        for labels, bb in switch_groups(sw, file_constants(rn), "runner::Read"):
            if "item.Augment(token)" in alltext(("block", bb)):
                cells += [int(x) for x in labels if re.fullmatch(r"\d+", x)]
    if not cells:
        raise TranslatorError("runner::Read: cell cases not found")
    facts["runner_cell_cases"] = sorted(cells)
    dm = strip_comments((pp / "dumper.cpp").read_text())
    facts["dumper_vopts"] = vopts_of(dm, "dumper")
    dr = function_def(dm, "dumper::Read")[1]
    dconst = file_constants(dm)
    facts["dumper_all_case"] = all_case(dr, dconst, "dumper::Read")
    dc = {0: "file", 1: "append", facts["dumper_all_case"]: "all"}
    for k, v in item_switch(dr, dconst, r"item=&(?:\(this->binList\.Get_(\w+)\(\)\)|cells)", "dumper::Read").items():
        dc[k] = MAPNAME[v] if v in MAPNAME else "cell"
    if sorted(dc) != list(range(len(facts["dumper_vopts"]))):
        raise TranslatorError(f"dumper::Read: cases {sorted(dc)} do not cover the {len(facts['dumper_vopts'])} options")
    facts["dumper_cases"] = [dc[i] for i in range(len(facts["dumper_vopts"]))]
    # USE / SAVE / COPY: which Keywords::KEY_x selects which kind
    rd = strip_comments((pp / "read.cpp").read_text())
    usemap = {"solution": "solution", "pp_assemblage": "pp", "reaction": "reaction", "mix": "mix", "exchange": "exchange",
              "surface": "surface", "temperature": "temperature", "pressure": "pressure", "gas_phase": "gas",
              "kinetics": "kinetics", "ss_assemblage": "ss"}
    uk = key_cases(function_def(rd, "read_use")[1], r"use\.Set_n_(\w+)_user\(n_user\)", "read_use")
    if len(uk) != 11:
        raise TranslatorError(f"read_use: {len(uk)} cases recognised")
    facts["use_keys"] = [(k, usemap[m]) for k, m, _ in uk]
    sk = key_cases(function_def(rd, "read_save")[1], r"save\.(\w+)=TRUE", "read_save")
    for k, m, b in sk:
        if sorted(x[1] for x in b if x[0] == "simple") != sorted([f"save.{m}=TRUE", f"save.n_{m}_user=n_user",
                                                                  f"save.n_{m}_user_end=n_user_end"]):
            raise TranslatorError(f"read_save: case {k} not recognised")
    if len(sk) != 6:
        raise TranslatorError(f"read_save: {len(sk)} cases recognised")
    facts["save_keys"] = [(k, usemap[m]) for k, m, _ in sk]
    rcopy = function_def(rd, "read_copy")[1]
    ck = key_cases(rcopy, r"copier_add\(&copy_(\w+),n_user,n_user_start,n_user_end\)", "read_copy")
    if len(ck) != 11:
        raise TranslatorError(f"read_copy: {len(ck)} single-kind cases recognised")
    facts["copy_keys"] = [(k, usemap[m]) for k, m, _ in ck]
    cell_ok = False
    for sw in (n for n in walk(rcopy) if n[0] == "switch"):
        for labels, bb in switch_groups(sw, {}, "read_copy"):
            if labels == ["Keywords::KEY_NONE"]:
                adds = sorted(m.group(1) for x in bb if x[0] == "simple"
                              for m in [re.fullmatch(r"copier_add\(&copy_(\w+),n_user,n_user_start,n_user_end\)", x[1])] if m)
                if adds == sorted(usemap) and any(x[0] == "if" and x[1] == 'strstr(nonkeyword,"cell")!=nonkeyword' for x in bb):
                    cell_ok = True
    if not cell_ok:
        raise TranslatorError("read_copy: COPY cell does not add all eleven kinds")
    # what the generator writes
    from gens import store as G
    facts["del_names"] = [(k, G.DEL_NAME[k]) for k in G.KINDS]
    facts["use_names"] = [(k, G.USE_NAME[k]) for k in G.KINDS]
    facts["kw_names"] = [(k, G.KW[k].lower()) for k in G.KINDS]
    return facts


def lean_list(xs, f=lambda x: f'"{x}"'):
    return "[" + ", ".join(f(x) for x in xs) + "]"


def render(f):
    o = ["/-! GENERATED by tools/gen_store.py from the current /repo sources — do not edit.",
         "Sources: src/IPhreeqc.cpp (do_run), src/phreeqcpp/mainsubs.cpp (run_simulations, set_use, copy_use, saver, do_mixes,",
         "copy_entities), read.cpp (read_use, read_save, read_copy), ReadClass.cxx (delete_entities, dump_ostream), Phreeqc.cpp (list_components), StorageBinList.cpp,",
         "runner.cpp, dumper.cpp, Phreeqc.h (Rxn_copies), tools/gens/store.py (DEL_NAME). -/",
         "namespace PhreeqcVerif.Gen.StoreTables", ""]
    for name in ("do_run", "run_simulations", "set_use", "copy_use", "do_mixes", "copy_entities", "delete_entities",
                 "dump_ostream", "list_components", "bin_vopts", "bin_cases", "runner_vopts", "dumper_vopts", "dumper_cases"):
        lname = re.sub(r"_(\w)", lambda m: m.group(1).upper(), name)
        o.append(f"def {lname} : List String := {lean_list(f[name])}")
    o.append("def saverFan : List (String × Bool) := " + lean_list(f["saver"], lambda p: f'("{p[0]}", {"true" if p[1] else "false"})'))
    o.append(f"def copyLoopUnsigned : Bool := {'true' if f['copy_loop'] == 'sizet' else 'false'}")
    o.append("def runnerCellCases : List Nat := " + lean_list(f["runner_cell_cases"], str))
    o.append(f"def dumperAllCase : Nat := {f['dumper_all_case']}")
    for lname, key in (("delNames", "del_names"), ("useNames", "use_names"), ("kwNames", "kw_names"), ("useKeys", "use_keys"),
                       ("saveKeys", "save_keys"), ("copyKeys", "copy_keys")):
        o.append(f"def {lname} : List (String × String) := " + lean_list(f[key], lambda p: f'("{p[0]}", "{p[1]}")'))
    o += ["", "end PhreeqcVerif.Gen.StoreTables", ""]
    return "\n".join(o)


def generate(ctx=None):
    f = extract()
    text = render(f)
    out = vlib.LEAN / "PhreeqcVerif" / "Gen" / "StoreTables.lean"
    if not out.exists() or out.read_text() != text:
        out.write_text(text)
    return f


if __name__ == "__main__":
    import json
    import sys
    print(json.dumps(extract(sys.argv[1]) if len(sys.argv) > 1 else generate(), indent=1))
