/-! `pmodel rk`: line-protocol driver (stub — replaced by the owner of this model). -/
namespace Driver.RK

def run : IO Unit := IO.eprintln "pmodel rk: not implemented"

end Driver.RK
