// C14 correspondence harness: a history of RunString calls on one IPhreeqc instance. After every call the reaction
// store is observed through the public interface only:
//   R <errors> <hex error string>          result of the call
//   U <hex>                                dump string produced by the call itself (DUMP blocks inside the input)
//   D <hex>                                dump string of a following, otherwise empty, run "DUMP; -all"
//   F <errors> <hex error string>          result of that observing run (pending requests of a stopped call run here)
//   C <n> <name>...                        GetComponentCount / GetComponent
// ops:  new <hex database path> | run <hex input> | neg  (friend access: negative keys of every map -> G kind:n,n ...)
// own friend shim (Phreeqc.h: `friend class TestIPhreeqc;`, IPhreeqc.hpp the same under CPPUNIT): read access to the maps
#ifndef CPPUNIT
#define CPPUNIT 1
#endif
#include "hx.hpp"
#include "IPhreeqc.hpp"
#include "Phreeqc.h"
#include "Solution.h"
#include "PPassemblage.h"
#include "Exchange.h"
#include "Surface.h"
#include "SSassemblage.h"
#include "GasPhase.h"
#include "cxxKinetics.h"
#include "cxxMix.h"
#include "Reaction.h"
#include "Temperature.h"
#include "Pressure.h"
#include <memory>
#include <sstream>
class TestIPhreeqc {
public:
  template<class M> static void keys(std::ostringstream& o, const char* name, const M& m){
    o<<" "<<name<<":"; bool first=true;
    for(auto it=m.begin(); it!=m.end(); ++it) if(it->first<0){ if(!first) o<<","; o<<it->first; first=false; }
  }
  // negative keys of every map: the numbers the engine (or the user) files entities under that DUMP never shows
  static std::string negkeys(IPhreeqc* p){
    Phreeqc* e = p->PhreeqcPtr; std::ostringstream o;
    keys(o,"solution",e->Rxn_solution_map); keys(o,"pp",e->Rxn_pp_assemblage_map); keys(o,"exchange",e->Rxn_exchange_map);
    keys(o,"surface",e->Rxn_surface_map); keys(o,"ss",e->Rxn_ss_assemblage_map); keys(o,"gas",e->Rxn_gas_phase_map);
    keys(o,"kinetics",e->Rxn_kinetics_map); keys(o,"mix",e->Rxn_mix_map); keys(o,"reaction",e->Rxn_reaction_map);
    keys(o,"temperature",e->Rxn_temperature_map); keys(o,"pressure",e->Rxn_pressure_map);
    return o.str();
  }
};

static const char* DUMPALL = "DUMP\n-all\nEND\n";

int main(){
  std::unique_ptr<IPhreeqc> p;
  std::string line;
  while(std::getline(std::cin,line)){
    auto w = hx::words(line); if(w.empty()) continue;
    const std::string& op = w[0];
    if(op=="new"){
      p.reset(new IPhreeqc());
      p->SetOutputFileOn(false); p->SetErrorFileOn(false); p->SetLogFileOn(false); p->SetSelectedOutputFileOn(false);
      p->SetDumpFileOn(false); p->SetDumpStringOn(true); p->SetErrorStringOn(true); p->SetErrorOn(true);
      int e = p->LoadDatabase(hx::unhex(w[1]).c_str());
      std::cout<<"N "<<e<<"\n";
    } else if(op=="run" && p){
      std::string in = hx::unhex(w[1]);
      int e = p->RunString(in.c_str());
      std::string err = p->GetErrorString();
      std::cout<<"R "<<e<<" "<<hx::hex(err)<<"\n";
      std::string u = p->GetDumpString();
      std::cout<<"U "<<hx::hex(u)<<"\n";
      int e2 = p->RunString(DUMPALL);
      std::string d = p->GetDumpString();
      std::cout<<"D "<<hx::hex(d)<<"\n";
      std::cout<<"F "<<e2<<" "<<hx::hex(e2 ? std::string(p->GetErrorString()) : std::string())<<"\n";
      size_t n = p->GetComponentCount();
      std::cout<<"C "<<n;
      for(size_t i=0;i<n;i++) std::cout<<" "<<p->GetComponent((int)i);
      std::cout<<"\n";
    } else if(op=="neg" && p){
      std::cout<<"G"<<TestIPhreeqc::negkeys(p.get())<<"\n";
    } else std::cout<<"bad-op\n";
    std::cout.flush();
  }
  return 0;
}
