import PhreeqcVerif.Model.Registry
import PhreeqcVerif.Model.Api
/-!
# C13 — registry and C / C++ / Fortran bindings behave as one consistent API
-/
namespace PhreeqcVerif.Api
open PhreeqcVerif.Gen.Api

/-- every C wrapper regenerated from the current source has the documented forwarding shape -/
theorem cwrappers_wellformed : cWrappers.all wfC = true := by decide +kernel

/-- every Fortran glue function regenerated from the current source adds only the documented
index shift, padding and row-count adjustment -/
theorem fwrappers_wellformed : fWrappers.all wfF = true := by decide

/-- the `bind(C)` declarations of the Fortran module match the glue functions -/
theorem f90_binds_match : f90Ok = true := by decide

/-- **wrapper = documentation, for every function**: the invalid-instance branch of each of the C functions of
IPhreeqcLib.cpp (all of them: the table, the definitions and the declarations of IPhreeqc.h name the same 77 functions
with the same return types and arities) is the result transcribed from the doc comments of IPhreeqc.h -/
theorem wrappers_match_documentation :
    cComplete = true ∧ cWrappers.all badOk = true := by decide +kernel

/-- the hand transcription of the documentation agrees with the mechanical reading of every doc block
(`@retval IPQ_BADINSTANCE`, "a negative value indicates an error", or silence) -/
theorem documentation_table_matches_header : specMatchesHeader = true := by decide

/-- the Fortran glue is complete (declarations of IPhreeqc_interface_F.h = definitions; every glue function has its C
function; the C functions without glue are exactly the listed ones) and the functions it shifts by one are exactly those
the documentation marks "N is one-based for the Fortran interface" -/
theorem fortran_glue_complete_and_shifts_documented : fComplete = true ∧ shiftsMatchDoc = true := by decide

/-- non-vacuity: the predicates reject a wrapper returning the wrong invalid-instance result, a wrong shift and a
row-count adjustment without its guard -/
example :
    matchesDoc ⟨"GetLogString", "const char*", [("int", "id")], [], [], "err_msg", true, "x", [], "ok"⟩ .silentEmpty = false ∧
    matchesDoc ⟨"GetDumpStringLineCount", "int", [("int", "id")], [], [], "IPQ_BADINSTANCE", false, "", [], "ok"⟩ .silentZero = false ∧
    wfF ⟨"GetComponentF", "void", [("int*", "id"), ("int*", "n"), ("char*", "comp"), ("int*", "line_length")],
         [("GetComponent", ["*id", "*n"])], [["comp", "::GetComponent(*id,*n)", "line_length"]], false, "", false, "ok"⟩ = false ∧
    wfF ⟨"GetSelectedOutputRowCountF", "int", [("int*", "id")], [("GetSelectedOutputRowCount", ["*id"])], [], true, "", false, "ok"⟩ = false := by
  decide

/-- `padfstring`: the buffer always holds exactly `len` characters, the source prefix followed by blanks,
and the reported length is the source length -/
theorem padfstring_spec (src : List Char) (len : Nat) :
    (padfstring src len).1.length = len ∧ (padfstring src len).2 = src.length ∧
    (padfstring src len).1.take (min len src.length) = src.take len ∧
    (∀ i, src.length ≤ i → i < len → (padfstring src len).1.getD i 'x' = ' ') := by
  refine ⟨?_, rfl, ?_, ?_⟩
  · simp [padfstring]; omega
  · simp only [padfstring]
    rw [List.take_append_of_le_length (by simp)]
    simp [List.take_take]
  · intro i h1 h2
    simp only [padfstring, List.getD_eq_getElem?_getD]
    have hl : (List.take len src).length = src.length := by simp; omega
    rw [List.getElem?_append_right (by omega), hl, List.getElem?_replicate]
    have : i - src.length < len - src.length := by omega
    simp [this]

end PhreeqcVerif.Api

namespace PhreeqcVerif.Registry

theorem inv_init {σ} : (Reg.init : Reg σ).Inv := ⟨by simp [Reg.init], by simp [Reg.init]⟩

theorem inv_create {σ} (r : Reg σ) (fresh : Nat → σ) (h : r.Inv) : (r.create fresh).1.Inv := by
  constructor
  · intro p hp
    simp [Reg.create] at hp ⊢
    rcases hp with rfl | hp
    · simp
    · have := h.below p hp; omega
  · simp only [Reg.create, List.map_cons, List.nodup_cons]
    refine ⟨?_, h.nodup⟩
    intro hm
    simp at hm
    obtain ⟨s, hs⟩ := hm
    have := h.below _ hs
    simp at this

theorem inv_destroy {σ} (r : Reg σ) (id : Int) (h : r.Inv) : (r.destroy id).1.Inv := by
  unfold Reg.destroy
  split
  · constructor
    · intro p hp; simp at hp; exact h.below p hp.1
    · simp only
      have : List.Sublist ((r.live.filter (fun p => p.1 ≠ id.toNat)).map (·.1)) (r.live.map (·.1)) :=
        List.Sublist.map _ List.filter_sublist
      exact this.nodup h.nodup
  · exact h

theorem map_fst_update {σ} (l : List (Nat × σ)) (b : Nat) (s' : σ) :
    (l.map (fun p => if p.1 = b then (p.1, s') else p)).map (·.1) = l.map (·.1) := by
  induction l with
  | nil => rfl
  | cons p ps ih => simp only [List.map_cons, ih]; split <;> rfl

theorem lookup_filter_ne {σ} (l : List (Nat × σ)) (a b : Nat) (h : a ≠ b) :
    List.lookup a (l.filter (fun p => p.1 ≠ b)) = List.lookup a l := by
  induction l with
  | nil => rfl
  | cons p ps ih =>
    obtain ⟨k, v⟩ := p
    by_cases hp : k = b
    · subst hp
      have h1 : (a == k) = false := by simpa using h
      simpa [List.filter_cons, List.lookup_cons, h1] using ih
    · by_cases ha : a = k
      · subst ha
        simp [List.filter_cons, hp, List.lookup_cons]
      · have h1 : (a == k) = false := by simpa using ha
        simpa [List.filter_cons, hp, List.lookup_cons, h1] using ih

theorem lookup_filter_self {σ} (l : List (Nat × σ)) (b : Nat) :
    List.lookup b (l.filter (fun p => p.1 ≠ b)) = none := by
  rw [List.lookup_eq_none_iff]
  intro p hp; simp at hp; simp; exact fun e => hp.2 e.symm

theorem lookup_map_ne {σ} (l : List (Nat × σ)) (a b : Nat) (s' : σ) (h : a ≠ b) :
    List.lookup a (l.map (fun p => if p.1 = b then (p.1, s') else p)) = List.lookup a l := by
  induction l with
  | nil => rfl
  | cons p ps ih =>
    obtain ⟨k, v⟩ := p
    by_cases hp : k = b
    · subst hp
      have h1 : (a == k) = false := by simpa using h
      simpa [List.lookup_cons, h1] using ih
    · by_cases ha : a = k
      · subst ha; simp [hp, List.lookup_cons]
      · have h1 : (a == k) = false := by simpa using ha
        simpa [hp, List.lookup_cons, h1] using ih

theorem inv_apply {σ ρ} (r : Reg σ) (id : Int) (f : σ → σ × ρ) (bad : ρ) (h : r.Inv) :
    (r.apply id f bad).1.Inv := by
  unfold Reg.apply
  split
  · constructor
    · intro p hp
      simp at hp
      obtain ⟨a, b, hab, rfl⟩ := hp
      split <;> simpa using h.below _ hab
    · simp only
      rw [map_fst_update]; exact h.nodup
  · exact h

theorem inv_step {σ} (fresh : Nat → σ) (r : Reg σ) (op : Op σ) (h : r.Inv) : (r.step fresh op).Inv := by
  cases op with
  | create => exact inv_create r fresh h
  | destroy id => exact inv_destroy r id h
  | call id f => exact inv_apply r id _ _ h

theorem inv_run {σ} (fresh : Nat → σ) (ops : List (Op σ)) (r : Reg σ) (h : r.Inv) : (r.run fresh ops).Inv := by
  induction ops generalizing r with
  | nil => simpa [Reg.run]
  | cons op ops ih => exact ih _ (inv_step fresh r op h)

theorem next_mono_step {σ} (fresh : Nat → σ) (r : Reg σ) (op : Op σ) : r.next ≤ (r.step fresh op).next := by
  cases op with
  | create => simp [Reg.step, Reg.create]
  | destroy id => simp only [Reg.step, Reg.destroy]; split <;> simp
  | call id f => simp only [Reg.step, Reg.apply]; split <;> simp

/-- ids handed out by any history (any interleaving of creates, destroys and calls) are all ≥ the counter at
the start, strictly increasing — hence pairwise distinct and never reused, whatever was destroyed meanwhile -/
theorem issued_increasing {σ} (fresh : Nat → σ) (ops : List (Op σ)) (r : Reg σ) :
    (∀ i ∈ issued fresh r ops, r.next ≤ i) ∧ (issued fresh r ops).Pairwise (· < ·) := by
  induction ops generalizing r with
  | nil => simp [issued]
  | cons op ops ih =>
    cases op with
    | create =>
      obtain ⟨h1, h2⟩ := ih (r.create fresh).1
      simp only [issued]
      constructor
      · intro i hi; simp at hi; rcases hi with rfl | hi
        · exact Nat.le_refl _
        · have := h1 i hi; simp [Reg.create] at this; omega
      · simp only [List.pairwise_cons]; refine ⟨?_, h2⟩
        intro i hi; have := h1 i hi; simp [Reg.create] at this; omega
    | destroy id =>
      obtain ⟨h1, h2⟩ := ih (r.step fresh (.destroy id))
      simp only [issued]
      exact ⟨fun i hi => Nat.le_trans (next_mono_step fresh r _) (h1 i hi), h2⟩
    | call id f =>
      obtain ⟨h1, h2⟩ := ih (r.step fresh (.call id f))
      simp only [issued]
      exact ⟨fun i hi => Nat.le_trans (next_mono_step fresh r _) (h1 i hi), h2⟩

theorem ids_unique {σ} (fresh : Nat → σ) (ops : List (Op σ)) : (issued fresh Reg.init ops).Nodup := by
  have := (issued_increasing fresh ops (Reg.init : Reg σ)).2
  exact this.imp (fun h => Nat.ne_of_lt h)

/-- a call with an id that is not live changes nothing and returns the invalid-instance result -/
theorem apply_dead {σ ρ} (r : Reg σ) (id : Int) (f : σ → σ × ρ) (bad : ρ) (h : r.lookup id = none) :
    r.apply id f bad = (r, bad) := by
  simp [Reg.apply, h]

/-- a negative id is never live -/
theorem lookup_neg {σ} (r : Reg σ) (id : Int) (h : id < 0) : r.lookup id = none := by
  simp [Reg.lookup, h]

/-- an id that was never issued is not live -/
theorem lookup_unissued {σ} (r : Reg σ) (h : r.Inv) (id : Int) (hid : (r.next : Int) ≤ id) :
    r.lookup id = none := by
  unfold Reg.lookup
  split
  · rfl
  · rw [List.lookup_eq_none_iff]
    intro p hp
    have := h.below p hp
    simp; omega

/-- after `destroy id` the id is not live (so a second destroy, or any call, gets the invalid-instance result) -/
theorem destroy_not_live {σ} (r : Reg σ) (id : Int) : (r.destroy id).1.lookup id = none := by
  unfold Reg.destroy
  split
  · unfold Reg.lookup
    split
    · rfl
    · exact lookup_filter_self _ _
  · rename_i hn; exact hn

/-- double destroy: the second destroy of the same id reports IPQ_BADINSTANCE and changes nothing -/
theorem destroy_idempotent {σ} (r : Reg σ) (id : Int) :
    ((r.destroy id).1.destroy id) = ((r.destroy id).1, -6) := by
  have key := destroy_not_live r id
  generalize (r.destroy id).1 = r' at key
  simp [Reg.destroy, key]

/-- isolation: an operation on instance `id` leaves every other instance's state unchanged -/
theorem apply_other {σ ρ} (r : Reg σ) (id j : Int) (f : σ → σ × ρ) (bad : ρ) (hj : j ≠ id) :
    (r.apply id f bad).1.lookup j = r.lookup j := by
  unfold Reg.apply
  split
  · rename_i s hs
    unfold Reg.lookup at hs ⊢
    split
    · rfl
    · rename_i hj0
      have hid0 : ¬ id < 0 := by intro h0; simp [h0] at hs
      have hne : j.toNat ≠ id.toNat := by omega
      exact lookup_map_ne _ _ _ _ hne
  · rfl

/-- destroying an instance does not change the state of any other instance -/
theorem destroy_other {σ} (r : Reg σ) (id j : Int) (hj : j ≠ id) (hj0 : 0 ≤ j) (hid0 : 0 ≤ id) :
    (r.destroy id).1.lookup j = r.lookup j := by
  unfold Reg.destroy
  split
  · unfold Reg.lookup
    have : ¬ j < 0 := by omega
    simp only [this, if_false]
    have hne : j.toNat ≠ id.toNat := by omega
    exact lookup_filter_ne _ _ _ hne
  · rfl

/-- creating an instance does not change the state of any live instance -/
theorem create_other {σ} (r : Reg σ) (h : r.Inv) (fresh : Nat → σ) (j : Int) (hj : r.lookup j ≠ none) :
    (r.create fresh).1.lookup j = r.lookup j := by
  unfold Reg.lookup at hj ⊢
  split
  · rfl
  · simp only [Reg.create, List.lookup_cons]
    have : (j.toNat == r.next) = false := by
      simp
      intro he
      apply hj
      rename_i hj0
      simp only [hj0, if_false]
      rw [List.lookup_eq_none_iff]
      intro p hp
      have := h.below p hp
      simp; omega
    simp [this]

/-- **projection / isolation**: the state of instance `j` after any interleaved history equals its state after
the sub-history of operations addressed to `j` alone (operations on other ids, creations of other instances
and destructions of other ids are invisible to it) — stated stepwise: any step not addressed to `j` keeps `j` -/
theorem step_other {σ} (fresh : Nat → σ) (r : Reg σ) (h : r.Inv) (j : Int) (hj0 : 0 ≤ j)
    (hlive : r.lookup j ≠ none) (op : Op σ)
    (hop : match op with | .create => True | .destroy id => id ≠ j | .call id _ => id ≠ j) :
    (r.step fresh op).lookup j = r.lookup j := by
  cases op with
  | create => exact create_other r h fresh j hlive
  | destroy id =>
    by_cases hid : 0 ≤ id
    · exact destroy_other r id j (Ne.symm hop) hj0 hid
    · simp [Reg.step, Reg.destroy, lookup_neg r id (by omega)]
  | call id f => exact apply_other r id j _ _ (Ne.symm hop)

/-- non-vacuity: create, create, destroy 0, create gives ids 0, 1, 2 and only 1, 2 live -/
example :
    let ops : List (Op Nat) := [.create, .create, .destroy 0, .create, .destroy 0, .destroy (-1)]
    issued (fun i => i * 10) Reg.init ops = [0, 1, 2] ∧
    ((Reg.init.run (fun i => i * 10) ops).live.map (·.1)) = [2, 1] := by decide

end PhreeqcVerif.Registry
