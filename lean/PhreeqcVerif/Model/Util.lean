/-! Shared helpers for the line-protocol drivers (hex transport of strings and doubles). -/
namespace PhreeqcVerif.Util

def hexDigit (n : Nat) : Char :=
  if n < 10 then Char.ofNat (48 + n) else Char.ofNat (87 + n)

def hexVal (c : Char) : Option Nat :=
  if '0' ≤ c ∧ c ≤ '9' then some (c.toNat - 48)
  else if 'a' ≤ c ∧ c ≤ 'f' then some (c.toNat - 87)
  else if 'A' ≤ c ∧ c ≤ 'F' then some (c.toNat - 55)
  else none

/-- hex string (even length) → bytes -/
def unhexBytes (s : String) : Option ByteArray :=
  let rec go (cs : List Char) (acc : ByteArray) : Option ByteArray :=
    match cs with
    | [] => some acc
    | a :: b :: rest =>
      match hexVal a, hexVal b with
      | some x, some y => go rest (acc.push (UInt8.ofNat (x * 16 + y)))
      | _, _ => none
    | _ => none
  go s.toList ByteArray.empty

/-- "-" encodes the empty string; otherwise hex of the UTF-8 bytes -/
def unhexStr (s : String) : Option String :=
  if s = "-" then some "" else
  match unhexBytes s with
  | some b => String.fromUTF8? b
  | none => none

def hexBytes (b : ByteArray) : String :=
  String.ofList (b.toList.flatMap fun x => [hexDigit (x.toNat / 16), hexDigit (x.toNat % 16)])

def hexStr (s : String) : String :=
  if s.isEmpty then "-" else hexBytes s.toUTF8

def hex64 (n : UInt64) : String :=
  String.ofList ((List.range 16).map fun i => hexDigit ((n.toNat >>> (4 * (15 - i))) % 16))

def unhex64 (s : String) : Option UInt64 :=
  if s.length ≠ 16 then none else
  s.toList.foldl (fun acc c => match acc, hexVal c with
    | some a, some d => some (a * 16 + UInt64.ofNat d)
    | _, _ => none) (some 0)

def floatOfHex (s : String) : Option Float := (unhex64 s).map Float.ofBits
def hexOfFloat (f : Float) : String := hex64 f.toBits

def words (line : String) : List String :=
  (line.trimAscii.toString.splitOn " ").filter (· ≠ "")

/-- read all lines of stdin -/
partial def readLines (h : IO.FS.Stream) (acc : Array String := #[]) : IO (Array String) := do
  let line ← h.getLine
  if line.isEmpty then return acc
  readLines h (acc.push (if line.endsWith "\n" then (line.dropEnd 1).toString else line))

end PhreeqcVerif.Util
