/-! `pmodel gamma`: line-protocol driver (stub — replaced by the owner of this model). -/
namespace Driver.Gamma

def run : IO Unit := IO.eprintln "pmodel gamma: not implemented"

end Driver.Gamma
