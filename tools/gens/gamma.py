"""Seeded generators for C16 (activity coefficients): solutions for the ion-association databases, composition
paths for the Pitzer/SIT databases, number vectors for the in-process evaluation of pitzer()/sit().
All randomness comes from the `rng` passed in (= ctx.rng)."""
import math

# USER_PUNCH program shared by all cases: values computed by the BASIC interpreter itself (R:), the species
# dump (S:) and the Pitzer/SIT working arrays (P:)
PUNCH = """SELECTED_OUTPUT 1
 -reset false
 -high_precision true
USER_PUNCH 1
 -headings n
 10 x = CALLBACK(MU, OSMOTIC, "R:mu_osm")
 20 x = CALLBACK(DH_A, DH_B, "R:dh")
 30 x = CALLBACK(ACT("H2O"), TC, "R:aw_tc")
 40 x = CALLBACK(CHARGE_BALANCE, TOT("water"), "R:cb_w")
 50 x = CALLBACK(SIM_NO, SOLN, "S:s")
 %s
 70 PUNCH SOLN
"""

# salts over the property's ions: (cation element, n_cation, anion element, n_anion, |z+ z-| weight for I)
SALTS = [
    ("Na", 1, "Cl", 1), ("K", 1, "Cl", 1), ("Mg", 1, "Cl", 2), ("Ca", 1, "Cl", 2),
    ("Na", 2, "S6", 1), ("K", 2, "S6", 1), ("Mg", 1, "S6", 1),
    ("Na", 1, "HCO3", 1), ("Na", 2, "CO3", 1), ("K", 1, "HCO3", 1), ("K", 2, "CO3", 1),
    ("Na", 1, "Br", 1), ("K", 1, "Br", 1), ("Mg", 1, "Br", 2), ("Ca", 1, "Br", 2),
]
CHARGE = {"Na": 1, "K": 1, "Mg": 2, "Ca": 2, "Cl": -1, "S6": -2, "HCO3": -1, "CO3": -2, "Br": -1}
# solubility-motivated upper bounds of the salt molality (keeps the sweeps inside 1e-4 .. 6 molal)
MAXM = {("Na", "Cl"): 6.0, ("K", "Cl"): 4.5, ("Mg", "Cl"): 5.0, ("Ca", "Cl"): 6.0, ("Na", "S6"): 1.8, ("K", "S6"): 0.65,
        ("Mg", "S6"): 3.0, ("Na", "HCO3"): 1.0, ("Na", "CO3"): 2.5, ("K", "HCO3"): 3.0, ("K", "CO3"): 6.0,
        ("Na", "Br"): 6.0, ("K", "Br"): 5.0, ("Mg", "Br"): 5.0, ("Ca", "Br"): 6.0}


def salt_totals(mix):
    """mix: list of (salt index, molality) -> dict element-key -> mol/kgw (HCO3 and CO3 both count as carbon)"""
    tot = {}
    alk = 0.0
    for si, m in mix:
        c, nc, a, na = SALTS[si]
        tot[c] = tot.get(c, 0.0) + nc * m
        key = "C4" if a in ("HCO3", "CO3") else a
        tot[key] = tot.get(key, 0.0) + na * m
    return tot


def random_mix(rng, allowed, lo=1e-4, hi=6.0, kmax=3):
    """1..kmax salts out of `allowed` (indices into SALTS), total molality log-uniform in [lo, hi], capped per salt"""
    k = rng.choice([1, 1, 2, 2, 3][:max(1, kmax + 2)])
    k = min(k, kmax, len(allowed))
    idx = rng.sample(allowed, k)
    total = 10 ** rng.uniform(math.log10(lo), math.log10(hi))
    w = [rng.uniform(0.05, 1.0) for _ in idx]
    s = sum(w)
    mix = []
    for si, wi in zip(idx, w):
        c, nc, a, na = SALTS[si]
        m = min(total * wi / s, MAXM[(c, a)])
        mix.append((si, m))
    return cap_total(mix)


def cap_total(mix, cap=6.0):
    """keep the sum of the salt molalities inside the property's range (<= 6 molal)"""
    tot = sum(m for _, m in mix)
    if tot > cap:
        mix = [(si, m * cap / tot) for si, m in mix]
    return mix


def elem_line(name, val):
    return f" {name} {val:.12g}\n"


def solution_text(num, temp, totals, names, extras=(), ph=7.0, charge_ph=True, pe=4.0):
    """names: element-key -> name in this database (e.g. S6 -> 'S(6)')"""
    t = f"SOLUTION {num}\n -units mol/kgw\n -temp {temp:.6g}\n pH {ph:.4g}{' charge' if charge_ph else ''}\n pe {pe:.4g}\n"
    for k, v in totals.items():
        if k in names and v > 0:
            t += elem_line(names[k], v)
    for nm, v in extras:
        t += elem_line(nm, v)
    return t


def ia_case(rng, names, others, temp_lo=0.0, temp_hi=100.0, forced=()):
    """one solution for an ion-association database: 1-3 salts (I from 1e-4 to several molal) plus trace elements"""
    allowed = [i for i, s in enumerate(SALTS) if s[0] in names and (("C4" if s[2] in ("HCO3", "CO3") else s[2]) in names)]
    mix = random_mix(rng, allowed)
    temp = rng.choice([temp_lo, 25.0, temp_hi]) if rng.random() < 0.2 else rng.uniform(temp_lo, temp_hi)
    extras = []
    pool = list(forced) + rng.sample(others, min(len(others), rng.randint(0, 6)))
    seen = set()
    for e in pool:
        if e in seen:
            continue
        seen.add(e)
        extras.append((e, 10 ** rng.uniform(-8, -4)))
    ph = rng.uniform(3.5, 10.5)
    pe = rng.uniform(-2, 10)
    desc = {"salts": [(SALTS[i][0] + SALTS[i][2], round(m, 6)) for i, m in mix], "temp": round(temp, 3), "extras": [e for e, _ in extras]}
    return solution_text(1, temp, salt_totals(mix), names, extras, ph, False, pe), desc


def gd_path(rng, names, kmax=3, long_prob=0.25):
    """composition path A -> B (linear in a parameter u in [0,1], t = u^2 when A is dilute) at one temperature"""
    allowed = [i for i, s in enumerate(SALTS) if s[0] in names and (("C4" if s[2] in ("HCO3", "CO3") else s[2]) in names)]
    a = random_mix(rng, allowed, 1e-4, 6.0, kmax)
    kind = rng.random()
    if kind < 0.5:
        f = rng.uniform(1.3, 3.0) if rng.random() > long_prob else rng.uniform(3.0, 30.0)
        b = []
        for si, m in a:
            c, _, an, _ = SALTS[si]
            b.append((si, min(m * f, MAXM[(c, an)])))
        b = cap_total(b)
        if sum(m for _, m in b) < 1.25 * sum(m for _, m in a):      # already at the cap: go down instead of up
            b = [(si, m / f) for si, m in a]
        label = "scale"
    else:
        b = random_mix(rng, allowed, 1e-3, 6.0, kmax)
        label = "mix"
    temp = rng.choice([0.0, 25.0, 100.0]) if rng.random() < 0.25 else rng.uniform(0.0, 100.0)
    ta, tb = salt_totals(a), salt_totals(b)
    keys = sorted(set(ta) | set(tb))
    # every element of either end is present along the whole path (same species set at every point): each end gets
    # 1e-6 of the other end's salts, which keeps both ends electroneutral
    A = {k: ta.get(k, 0.0) + 1e-6 * tb.get(k, 0.0) for k in keys}
    B = {k: tb.get(k, 0.0) + 1e-6 * ta.get(k, 0.0) for k in keys}
    return {"A": A, "B": B, "temp": round(temp, 4), "label": label,
            "salts": [SALTS[i][0] + SALTS[i][2] for i, _ in a] + ["->"] + [SALTS[i][0] + SALTS[i][2] for i, _ in b]}


def path_point(path, u):
    sa, sb = sum(path["A"].values()), sum(path["B"].values())
    t = u * u if min(sa, sb) < 0.05 * max(sa, sb) and sa < sb else (1 - (1 - u) ** 2 if min(sa, sb) < 0.05 * max(sa, sb) else u)
    return {k: (1 - t) * path["A"][k] + t * path["B"][k] for k in path["A"]}


def rand_vector(rng, n=97):
    """numbers consumed by the harness op `pzrand`: [0] mu, [1] TK, [2] patm, then (cyclically) log-molalities / parameters"""
    v = [10 ** rng.uniform(-3, 0.9), rng.choice([298.15, 298.15, rng.uniform(273.15, 373.15), rng.uniform(255.0, 273.0)]),
         rng.choice([1.0, 1.0, 10 ** rng.uniform(0.01, 3.2)])]          # [2]: pressure, atm (branch patm_x > 1 of pitzer())
    for _ in range(n):
        r = rng.random()
        if r < 0.5:
            v.append(rng.uniform(-3.0, 0.6))       # as log molality: 1e-3 .. 4 molal ; as parameter: O(1)
        elif r < 0.8:
            v.append(rng.uniform(-0.5, 0.5))
        elif r < 0.9:
            v.append(0.0)
        else:
            v.append(rng.uniform(-30.0, -3.0))     # trace / absent species (IPRSNT false below 1e-25 ... )
    return v
