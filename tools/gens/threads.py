"""Seeded job generators for the C06 (determinism / isolation / threads) check: small inputs of every calculation
family the property names (speciation, kinetics, transport, inverse, BASIC). Every choice comes from `rng`."""
from gens import inputs as gi

SEL = "SELECTED_OUTPUT 1\n -reset false\n -pH true\n -pe true\n -totals Na Cl Ca C\n -high_precision true\n"


def speciation(rng):
    t = gi.solution(rng, 1) + SEL + "USER_PUNCH 1\n -headings mu cb\n 10 PUNCH MU, CHARGE_BALANCE\nEND\n"
    t += "USE solution 1\nEQUILIBRIUM_PHASES 1\n %s 0 %s\n %s 0 0\nSAVE solution 2\nEND\n" % (
        rng.choice(gi.MINERALS[:4]), rng.choice(["1", "0.1"]), rng.choice(gi.MINERALS[4:8]))
    t += "MIX 1\n 1 %.2f\n 2 %.2f\nEND\n" % (rng.uniform(0.1, 0.9), rng.uniform(0.1, 0.9))
    return "phreeqc.dat", t


def exchange_surface(rng):
    t = "SOLUTION 1\n pH %.2f\n Na %.3g\n Cl %.3g charge\n Ca %.3g\n Zn %.3g\n" % (
        rng.uniform(5, 9), rng.uniform(1, 100), rng.uniform(1, 100), rng.uniform(0.1, 5), 10 ** rng.uniform(-4, -2))
    t += "EXCHANGE 1\n X %.3g\n -equilibrate 1\nSURFACE 1\n Hfo_w %.3g 600 %.3g\n Hfo_s %.3g\n -equilibrate 1\n" % (
        rng.uniform(0.01, 0.2), rng.uniform(1e-4, 1e-2), rng.uniform(0.1, 2), rng.uniform(1e-6, 1e-4))
    t += SEL + " -molalities CaX2 NaX Hfo_wOZn+\nEND\nUSE solution 1\nUSE exchange 1\nUSE surface 1\nREACTION 1\n HCl 1\n %.3g in %d steps\nEND\n" % (
        rng.uniform(1e-4, 1e-3), rng.randint(1, 3))
    return "phreeqc.dat", t


def gas(rng):
    t = "SOLUTION 1\n pH 7\n C(4) %.3g\n Ca %.3g\nGAS_PHASE 1\n %s\n -pressure %.3g\n -volume %.3g\n CO2(g) %.3g\n N2(g) %.3g\n" % (
        rng.uniform(0.5, 5), rng.uniform(0.5, 3), rng.choice(["-fixed_pressure", "-fixed_volume"]), rng.uniform(0.5, 20),
        rng.uniform(0.5, 3), rng.uniform(0.01, 1), rng.uniform(0.1, 1))
    t += SEL + " -gases CO2(g) N2(g)\nEND\n"
    return "phreeqc.dat", t


def kinetics(rng, cvode=False):
    k = 10 ** rng.uniform(-5, -3)
    t = "RATES\n decay\n -start\n 10 rate = %.4g * M\n 20 SAVE rate * TIME\n -end\n" % k
    t += "SOLUTION 1\n pH 7\n Na 1\n Cl 1\nKINETICS 1\n decay\n -formula NaCl 1\n -m0 %.3g\n -tol 1e-8\n -steps %s\n" % (
        rng.uniform(0.001, 0.1), " ".join(str(rng.randint(50, 2000)) for _ in range(rng.randint(1, 4))))
    if cvode:
        t += " -cvode true\n -cvode_steps %d\n" % rng.choice([50, 100, 200])
    else:
        t += " -runge_kutta %d\n" % rng.choice([1, 2, 3, 6])
    t += "INCREMENTAL_REACTIONS %s\n" % rng.choice(["true", "false"])
    t += SEL + " -kinetic_reactants decay\n -time true\nEND\n"
    return "phreeqc.dat", t


def transport(rng, multi_d=False):
    n = rng.randint(3, 8)
    t = "SOLUTION 0\n pH 7\n Na %.3g\n Cl %.3g\n K 0.1\n N(5) 0.1\n" % ((rng.uniform(1, 10),) * 2)
    t += "SOLUTION 1-%d\n pH 7\n K %.3g\n N(5) %.3g\n" % ((n,) + (rng.uniform(0.5, 5),) * 2)
    if rng.random() < 0.5 and not multi_d:
        t += "EXCHANGE 1-%d\n X %.3g\n -equilibrate 1\n" % (n, rng.uniform(0.001, 0.01))
    t += "TRANSPORT\n -cells %d\n -shifts %d\n -lengths %.3g\n -time_step %d\n -flow_direction %s\n -boundary_conditions %s %s\n -dispersivities %.3g\n -diffusion_coefficient %.2g\n -punch_cells 1-%d\n" % (
        n, rng.randint(2, 6), rng.uniform(0.01, 0.2), rng.randint(100, 5000), rng.choice(["forward", "back", "diffusion_only"]),
        rng.choice(["flux", "constant", "closed"]), rng.choice(["flux", "constant", "closed"]), rng.uniform(0, 0.02), 10 ** rng.uniform(-10, -9), n)
    if multi_d:
        t += " -multi_d true 1e-9 0.3 0.05 1.0\n"
    t += SEL + " -totals Na Cl K\n -distance true\n -step true\nEND\n"
    return "phreeqc.dat", t


def advection(rng):
    n = rng.randint(2, 6)
    t = "SOLUTION 0\n pH 7\n Ca %.3g\n Cl %.3g\nSOLUTION 1-%d\n pH 7\n Na 1\n Cl 1\nEXCHANGE 1-%d\n X 0.001\n -equilibrate 1\n" % (
        rng.uniform(0.2, 2), rng.uniform(0.4, 4), n, n)
    t += "ADVECTION\n -cells %d\n -shifts %d\n -punch_cells %d\n" % (n, rng.randint(2, 8), n) + SEL + " -step true\nEND\n"
    return "phreeqc.dat", t


def inverse(rng):
    # solution 2 is produced from solution 1 by a forward reaction, so an exact inverse model exists
    t = "SOLUTION 1\n pH 7 charge\n Ca 0.1\n C 0.3\n Cl 0.1\n Na 0.1\nEND\n"
    t += "USE solution 1\nREACTION 1\n Calcite %.3g\n Gypsum %.3g\n NaCl %.3g\n CO2 %.3g\n 0.001 moles\nSAVE solution 2\nEND\n" % (
        rng.uniform(0.2, 1), rng.uniform(0.2, 1), rng.uniform(0.2, 1), rng.uniform(0.1, 0.5))
    t += "INVERSE_MODELING 1\n -solutions 1 2\n -uncertainty %.3g\n -phases\n  Calcite\n  Gypsum\n  Halite\n  CO2(g)\n -range %s\n -minimal %s\n" % (
        rng.choice([0.02, 0.05, 0.1]), rng.choice(["true", "false"]), rng.choice(["true", "false"]))
    t += "SELECTED_OUTPUT 1\n -reset false\n -inverse_modeling true\nEND\n"
    return "phreeqc.dat", t


def basic(rng):
    n = rng.randint(5, 60)
    t = "SOLUTION 1\n pH 7\n Na 1\n Cl 1\n Ca 0.5\n S(6) 0.5\nSELECTED_OUTPUT 1\n -reset false\nUSER_PUNCH 1\n -headings a b c d e\n"
    t += " 10 DIM v(%d)\n 20 FOR i = 1 TO %d\n 30 v(i) = SIN(i * %.3f) + i ^ 2 / %d\n 40 NEXT i\n 50 s = 0\n 60 FOR i = %d TO 1 STEP -1\n 70 s = s + v(i) * (i MOD 3)\n 80 NEXT i\n" % (
        n, n, rng.uniform(0.1, 2), rng.randint(2, 9), n)
    t += ' 90 a$ = "x" + STR$(%d) + CHR$(65)\n 100 t = SYS("aq", cnt, n$, ty$, mo)\n 110 GOSUB 200\n 120 PUNCH s, LEN(a$), t, cnt, q\n 130 END\n 200 q = 0\n 210 WHILE q < %d\n 220 q = q + 1.5\n 230 WEND\n 240 RETURN\n' % (
        rng.randint(1, 999), rng.randint(1, 30))
    t += "USER_PRINT\n 10 PRINT \"mu\", MU\nEND\n"
    return rng.choice(["phreeqc.dat", "wateq4f.dat"]), t


def pitzer(rng):
    t = "SOLUTION 1\n pH 7\n Na %.3g\n Cl %.3g\n Mg %.3g\n S(6) %.3g\n" % ((rng.uniform(100, 3000),) * 2 + (rng.uniform(10, 500),) * 2)
    t += " units mmol/kgw\n" + SEL + " -saturation_indices Halite Gypsum\n -activities H2O\nEND\n"
    return "pitzer.dat", t


FAMILIES = [("speciation", speciation), ("exchange_surface", exchange_surface), ("gas", gas),
            ("kinetics_rk", lambda r: kinetics(r, False)), ("kinetics_cvode", lambda r: kinetics(r, True)),
            ("transport", lambda r: transport(r, False)), ("advection", advection), ("inverse", inverse), ("basic", basic),
            ("pitzer", pitzer)]


def jobs(rng, n):
    out = []
    for i in range(n):
        name, f = FAMILIES[i % len(FAMILIES)] if i < len(FAMILIES) else rng.choice(FAMILIES)
        db, text = f(rng)
        out.append((name, db, text))
    return out


def multi_d_jobs(rng, n):
    return [("transport_multi_d",) + transport(rng, True) for _ in range(n)]
