// C13 correspondence harness: every op is executed through the C API; getters are additionally read through the
// C++ object behind the id (friend access to IPhreeqc::Instances) and through the Fortran glue (…F functions), and
// the three results are printed side by side. First token of each output line is the C result (model-comparable).
#include "friend.hpp"
#include "hx.hpp"
#include "IPhreeqc.h"
#include "IPhreeqc_interface_F.h"
static std::string fstr(const char* buf, int cap, int len){ // Fortran buffer: cap characters, reported length len
  std::string s(buf, cap); return hx::hex(s)+":"+std::to_string(len); }
#define FBUF 48
int main(){
  std::string line;
  while(std::getline(std::cin,line)){
    auto w = hx::words(line); if(w.empty()) continue;
    const std::string& op=w[0];
    if(op=="create"){ int id=CreateIPhreeqc(); std::cout<<"I "<<id<<"\n"; }
    else if(op=="createcpp"){ IPhreeqc* q=new IPhreeqc(); std::cout<<"I "<<q->GetId()<<"\n"; }
    else if(op=="destroycpp"){ int id=std::stoi(w[1]); IPhreeqc* q=TestIPhreeqc::instance(id); if(q){ delete q; std::cout<<"I 0\n"; } else std::cout<<"I -6\n"; }
    else if(op=="createf"){ int id=CreateIPhreeqcF(); std::cout<<"I "<<id<<"\n"; }
    else if(op=="destroy"){ int id=std::stoi(w[1]); std::cout<<"I "<<(int)DestroyIPhreeqc(id)<<"\n"; }
    else if(op=="setsw"){
      int id=std::stoi(w[2]), v=std::stoi(w[3]); int r=-99; const std::string& k=w[1];
      if(k=="outfile") r=SetOutputFileOn(id,v); else if(k=="outstr") r=SetOutputStringOn(id,v);
      else if(k=="errfile") r=SetErrorFileOn(id,v); else if(k=="errstr") r=SetErrorStringOn(id,v);
      else if(k=="erron") r=SetErrorOn(id,v); else if(k=="logfile") r=SetLogFileOn(id,v);
      else if(k=="logstr") r=SetLogStringOn(id,v); else if(k=="dumpfile") r=SetDumpFileOn(id,v);
      else if(k=="dumpstr") r=SetDumpStringOn(id,v); else if(k=="selfile") r=SetSelectedOutputFileOn(id,v);
      else if(k=="selstr") r=SetSelectedOutputStringOn(id,v);
      std::cout<<"I "<<r<<"\n";
    }
    else if(op=="getsw"){
      int id=std::stoi(w[2]); const std::string& k=w[1]; int c=-99, f=-99; IPhreeqc* p=TestIPhreeqc::instance(id); int cpp=-77;
      if(k=="outfile"){c=GetOutputFileOn(id); f=GetOutputFileOnF(&id); if(p)cpp=p->GetOutputFileOn();}
      else if(k=="outstr"){c=GetOutputStringOn(id); f=GetOutputStringOnF(&id); if(p)cpp=p->GetOutputStringOn();}
      else if(k=="errfile"){c=GetErrorFileOn(id); f=GetErrorFileOnF(&id); if(p)cpp=p->GetErrorFileOn();}
      else if(k=="errstr"){c=GetErrorStringOn(id); f=GetErrorStringOnF(&id); if(p)cpp=p->GetErrorStringOn();}
      else if(k=="erron"){c=GetErrorOn(id); f=GetErrorOnF(&id); if(p)cpp=p->GetErrorOn();}
      else if(k=="logfile"){c=GetLogFileOn(id); f=GetLogFileOnF(&id); if(p)cpp=p->GetLogFileOn();}
      else if(k=="logstr"){c=GetLogStringOn(id); f=GetLogStringOnF(&id); if(p)cpp=p->GetLogStringOn();}
      else if(k=="dumpfile"){c=GetDumpFileOn(id); f=GetDumpFileOnF(&id); if(p)cpp=p->GetDumpFileOn();}
      else if(k=="dumpstr"){c=GetDumpStringOn(id); f=GetDumpStringOnF(&id); if(p)cpp=p->GetDumpStringOn();}
      else if(k=="selfile"){c=GetSelectedOutputFileOn(id); f=GetSelectedOutputFileOnF(&id); if(p)cpp=p->GetSelectedOutputFileOn();}
      else if(k=="selstr"){c=GetSelectedOutputStringOn(id); f=GetSelectedOutputStringOnF(&id); if(p)cpp=p->GetSelectedOutputStringOn();}
      std::cout<<"I "<<c<<" | cpp "<<cpp<<" | f "<<f<<"\n";
    }
    else if(op=="setname"){
      int id=std::stoi(w[2]); const std::string& k=w[1]; std::string s; const char* a=0;
      if(w[3]!="NULL"){ s=hx::unhex(w[3]); a=s.c_str(); }
      int r=-99;
      if(k=="out") r=SetOutputFileName(id,a); else if(k=="err") r=SetErrorFileName(id,a);
      else if(k=="log") r=SetLogFileName(id,a); else if(k=="dump") r=SetDumpFileName(id,a);
      else if(k=="sel") r=SetSelectedOutputFileName(id,a);
      std::cout<<"I "<<r<<"\n";
    }
    else if(op=="getname"){
      int id=std::stoi(w[2]); const std::string& k=w[1]; const char* c=0; IPhreeqc* p=TestIPhreeqc::instance(id); const char* cpp=0;
      char buf[FBUF]; int len=FBUF;
      if(k=="out"){c=GetOutputFileName(id); GetOutputFileNameF(&id,buf,&len); if(p)cpp=p->GetOutputFileName();}
      else if(k=="err"){c=GetErrorFileName(id); GetErrorFileNameF(&id,buf,&len); if(p)cpp=p->GetErrorFileName();}
      else if(k=="log"){c=GetLogFileName(id); GetLogFileNameF(&id,buf,&len); if(p)cpp=p->GetLogFileName();}
      else if(k=="dump"){c=GetDumpFileName(id); GetDumpFileNameF(&id,buf,&len); if(p)cpp=p->GetDumpFileName();}
      else if(k=="sel"){c=GetSelectedOutputFileName(id); GetSelectedOutputFileNameF(&id,buf,&len); if(p)cpp=p->GetSelectedOutputFileName();}
      std::cout<<"S "<<hx::hex(c?c:"(null)")<<" | cpp "<<(cpp?hx::hex(cpp):std::string("dead"))<<" | f "<<fstr(buf,FBUF,len)<<"\n";
    }
    else if(op=="setcur"){ int id=std::stoi(w[1]); std::cout<<"I "<<(int)SetCurrentSelectedOutputUserNumber(id,std::stoi(w[2]))<<"\n"; }
    else if(op=="getcur"){ int id=std::stoi(w[1]); IPhreeqc* p=TestIPhreeqc::instance(id);
      std::cout<<"I "<<GetCurrentSelectedOutputUserNumber(id)<<" | cpp "<<(p?p->GetCurrentSelectedOutputUserNumber():-77)<<" | f "<<GetCurrentSelectedOutputUserNumberF(&id)<<"\n"; }
    else if(op=="load"){ int id=std::stoi(w[1]); std::cout<<"I "<<LoadDatabase(id,hx::unhex(w[2]).c_str())<<"\n"; }
    else if(op=="run"){ int id=std::stoi(w[1]); std::cout<<"I "<<RunString(id,hx::unhex(w[2]).c_str())<<"\n"; }
    else if(op=="runf"){ int id=std::stoi(w[1]); std::string s=hx::unhex(w[2]); std::cout<<"I "<<RunStringF(&id,(char*)s.c_str())<<"\n"; }
    else if(op=="counts"){ // row / column / line counts through the three bindings
      int id=std::stoi(w[1]); IPhreeqc* p=TestIPhreeqc::instance(id);
      std::cout<<"K rows "<<GetSelectedOutputRowCount(id)<<" "<<(p?p->GetSelectedOutputRowCount():-77)<<" "<<GetSelectedOutputRowCountF(&id)
               <<" cols "<<GetSelectedOutputColumnCount(id)<<" "<<(p?p->GetSelectedOutputColumnCount():-77)<<" "<<GetSelectedOutputColumnCountF(&id)
               <<" sellines "<<GetSelectedOutputStringLineCount(id)<<" "<<(p?p->GetSelectedOutputStringLineCount():-77)<<" "<<GetSelectedOutputStringLineCountF(&id)
               <<" outlines "<<GetOutputStringLineCount(id)<<" "<<(p?p->GetOutputStringLineCount():-77)<<" "<<GetOutputStringLineCountF(&id)
               <<" errlines "<<GetErrorStringLineCount(id)<<" "<<(p?p->GetErrorStringLineCount():-77)<<" "<<GetErrorStringLineCountF(&id)
               <<" comps "<<GetComponentCount(id)<<" "<<(p?(int)p->GetComponentCount():-77)<<" "<<GetComponentCountF(&id)
               <<" selcount "<<GetSelectedOutputCount(id)<<" "<<(p?p->GetSelectedOutputCount():-77)<<" "<<GetSelectedOutputCountF(&id)<<"\n";
    }
    else if(op=="cell"){ // cell id row col : C (0-based col), C++, Value2, F (1-based col)
      int id=std::stoi(w[1]), r=std::stoi(w[2]), c=std::stoi(w[3]); IPhreeqc* p=TestIPhreeqc::instance(id);
      auto show=[&](const VAR& v){ switch(v.type){case TT_EMPTY:return std::string("E");case TT_ERROR:return "X"+std::to_string((int)v.vresult);
        case TT_LONG:return "L"+std::to_string(v.lVal);case TT_DOUBLE:return "D"+hx::hexd(v.dVal);case TT_STRING:return "S"+hx::hex(v.sVal?v.sVal:"");} return std::string("?");};
      VAR v1; VarInit(&v1); int rc=GetSelectedOutputValue(id,r,c,&v1); std::string s1=show(v1); VarClear(&v1);
      std::string s2="dead"; int rcpp=-77; if(p){ VAR v2; VarInit(&v2); rcpp=p->GetSelectedOutputValue(r,c,&v2); s2=show(v2); VarClear(&v2);}
      int vt=-1; double d=0; char sv[FBUF]; memset(sv,'#',FBUF); int r2=GetSelectedOutputValue2(id,r,c,&vt,&d,sv,FBUF); 
      int vtf=-1; double df=0; char svf[FBUF]; memset(svf,'#',FBUF); int lenf=FBUF; int cf=c+1; int rf=GetSelectedOutputValueF(&id,&r,&cf,&vtf,&df,svf,&lenf);
      std::cout<<"C "<<rc<<" "<<s1<<" | cpp "<<rcpp<<" "<<s2<<" | v2 "<<r2<<" "<<vt<<" "<<hx::hexd(d)<<" "<<hx::hex(std::string(sv,strnlen(sv,FBUF)))
               <<" | f "<<rf<<" "<<vtf<<" "<<hx::hexd(df)<<" "<<fstr(svf,FBUF,lenf)<<"\n";
    }
    else if(op=="line"){ // line id which n : 0-based C, C++, 1-based F
      int id=std::stoi(w[1]); const std::string& k=w[2]; int n=std::stoi(w[3]); int nf=n+1; IPhreeqc* p=TestIPhreeqc::instance(id);
      const char* c=0; const char* cpp=0; char buf[256]; int len=256;
      if(k=="sel"){c=GetSelectedOutputStringLine(id,n); GetSelectedOutputStringLineF(&id,&nf,buf,&len); if(p)cpp=p->GetSelectedOutputStringLine(n);}
      else if(k=="out"){c=GetOutputStringLine(id,n); GetOutputStringLineF(&id,&nf,buf,&len); if(p)cpp=p->GetOutputStringLine(n);}
      else if(k=="err"){c=GetErrorStringLine(id,n); GetErrorStringLineF(&id,&nf,buf,&len); if(p)cpp=p->GetErrorStringLine(n);}
      else if(k=="comp"){c=GetComponent(id,n); GetComponentF(&id,&nf,buf,&len); if(p)cpp=p->GetComponent(n);}
      std::cout<<"S "<<hx::hex(c?c:"(null)")<<" | cpp "<<(cpp?hx::hex(cpp):std::string("dead"))<<" | f "<<fstr(buf,256,len)<<"\n";
    }
    else std::cout<<"bad-op\n";
    std::cout.flush();
  }
  return 0;
}
