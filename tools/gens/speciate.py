"""Seeded generators of PHREEQC solution inputs for C01 (all randomness from the `rng` passed in).

gen_run(rng, db, kind=None) -> (input_text, meta)   one RunString text: SOLUTION block(s) [+ REACTION / MIX /
                                                    REACTION_TEMPERATURE step] + the fixed SELECTED_OUTPUT / USER_PUNCH tail
The compositions are drawn from the database's own element list (db = dbparse.DB)."""
import math

TAIL = """SELECTED_OUTPUT 1
 -reset false
 -pH true
 -pe true
 -temperature true
 -alkalinity true
 -ionic_strength true
 -charge_balance true
 -water true
USER_PUNCH 1
 -headings cb
 10 PUNCH CALLBACK(CELL_NO, SIM_NO, "dump")
END
"""

SKIP_ELEMENTS = {"H", "O", "E", "e", "Alkalinity"}
UNITS = ["mol/kgw", "mmol/kgw", "umol/kgw", "mol/L", "mmol/L", "umol/L", "mg/kgw", "ug/kgw", "g/kgw", "mg/L", "ug/L",
         "ppm", "ppb", "ppt", "Mol/kgw", "MMOL/KGW", "millimol/kgw", "micromol/L"]
SCALE = {"mol": 1.0, "mmol": 1e3, "umol": 1e6, "millimol": 1e3, "micromol": 1e6}


def elements_of(db):
    """primary elements usable in a SOLUTION, with their valence-state names"""
    prim = [m.element for m in db.masters if m.primary and m.element not in SKIP_ELEMENTS]
    val = {}
    for m in db.masters:
        if not m.primary:
            base = m.element.split("(")[0]
            val.setdefault(base, []).append(m.element)
    return prim, val


_POLY = {}


def polyatomic_redox(db):
    """elements that have a valence-state master species containing more than one atom of the element"""
    key = id(db)
    if key not in _POLY:
        out = []
        for m in db.masters:
            if not m.primary:
                base = m.element.split("(")[0]
                sp = db.species.get(m.species)
                if sp and abs(sp.elements.get(base, 1.0) - 1.0) > 1e-9 and base not in SKIP_ELEMENTS and base not in out:
                    out.append(base)
        _POLY[key] = out
    return _POLY[key]


def log_uniform(rng, lo, hi):
    return 10 ** rng.uniform(math.log10(lo), math.log10(hi))


def fmt(x):
    return ("%.6g" % x)


def conc_in_units(rng, molal, units, gfw):
    u = units.lower()
    num = u.split("/")[0] if "/" in u else u
    if num in SCALE:
        return molal * SCALE[num]
    g = gfw if gfw and gfw > 0 else 50.0
    mass_g = molal * g                 # g per kgw (roughly per L)
    if num == "g":
        return mass_g
    if num in ("mg", "ppm"):
        return mass_g * 1e3
    if num in ("ug", "ppb"):
        return mass_g * 1e6
    if num == "ppt":
        return mass_g
    return molal


def gen_solution(rng, db, number=1, hard=False):
    prim, val = elements_of(db)
    meta = {"elements": [], "features": []}
    lines = [f"SOLUTION {number}"]
    temp = rng.choice([25.0, rng.uniform(0, 100), rng.uniform(0, 100), rng.choice([0.0, 0.01, 5, 10, 50, 60, 75, 99, 100])])
    lines.append(f" temp {fmt(temp)}")
    ph = rng.uniform(2, 12)
    pe = rng.uniform(-4, 14) if rng.random() < 0.6 else rng.choice([4.0, 0.0, 8.0, 12.0])
    units = rng.choice(UNITS) if rng.random() < 0.6 else "mmol/kgw"
    lines.append(f" units {units}")
    nel = rng.randint(1, 8)
    chosen = rng.sample(prim, min(nel, len(prim)))
    redox = [e for e in prim if e in val]
    poly = polyatomic_redox(db)
    if poly and rng.random() < 0.2:              # a valence master with several atoms of the element (N2, S2O3-2 …)
        e = rng.choice(poly)
        if e not in chosen:
            chosen[rng.randrange(len(chosen))] = e
        meta["features"].append("polyatomic-valence-master")
    if redox and rng.random() < 0.6:          # favour elements with several valence states (rewriting, basis switches)
        for e in rng.sample(redox, min(len(redox), rng.randint(1, 2))):
            if e not in chosen:
                chosen[rng.randrange(len(chosen))] = e
    charge_on = None
    r = rng.random()
    if r < 0.2:
        charge_on = "pH"
    elif r < 0.32 and chosen:
        charge_on = rng.choice(chosen)
    lines.append(f" pH {fmt(ph)}" + (" charge" if charge_on == "pH" else ""))
    lines.append(f" pe {fmt(pe)}")
    if rng.random() < 0.15:
        w = log_uniform(rng, 0.05, 20)
        lines.append(f" -water {fmt(w)}")
        meta["features"].append("water")
    hi = 3.0 if not hard else 6.0
    used_o0 = False
    for e in chosen:
        molal = log_uniform(rng, 1e-9, hi)
        if rng.random() < 0.7:
            molal = log_uniform(rng, 1e-7, 0.05)
        m = db.master_of_element(e)
        gfw = m.gfw if (m and m.gfw) else (m.elt_gfw if m else None)
        names = [e]
        vs = val.get(e, [])
        if vs and rng.random() < 0.35:
            k = rng.randint(1, min(2, len(vs)))
            names = rng.sample(vs, k)
            meta["features"].append("valence")
        for nm in names:
            v = conc_in_units(rng, molal, units, gfw)
            own_units = ""
            if rng.random() < 0.15:
                u2 = rng.choice(UNITS)
                if ("/l" in u2.lower()) == ("/l" in units.lower()) or not ("/" in u2 and "/" in units):
                    pass
                # per-element units must share the denominator of the default units
                den = units.split("/")[1] if "/" in units else None
                if den and "/" in u2 and u2.split("/")[1].lower() == den.lower():
                    own_units = " " + u2
                    v = conc_in_units(rng, molal, u2, gfw)
                    meta["features"].append("own-units")
            tail = ""
            if charge_on == nm or (charge_on == e and nm == names[0]):
                tail = " charge"
                meta["features"].append("charge-element")
            elif rng.random() < 0.05:
                have = set(x.split("(")[0] for x in chosen) | {"H", "O"}
                ph_names = [p for p, ph_ in db.phases.items() if e in ph_.elements and set(ph_.elements) <= have]
                if ph_names:
                    tail = f" {rng.choice(ph_names)} {fmt(rng.uniform(-1, 0.5))}"
                    meta["features"].append("phase-adjusted")
            lines.append(f" {nm} {fmt(v)}{own_units}{tail}")
            meta["elements"].append(nm)
            if nm == "O(0)":
                used_o0 = True
        meta.setdefault("molal", []).append(molal)
    if rng.random() < 0.12 and not any(x.startswith("Alkalinity") for x in meta["elements"]) and db.master_of_element("Alkalinity"):
        v = conc_in_units(rng, log_uniform(rng, 1e-5, 0.05), units, 50.0)
        lines.append(f" Alkalinity {fmt(v)}")
        meta["features"].append("alkalinity")
    if rng.random() < 0.12 and db.master_of_element("O(0)") and not used_o0 and "O(0)" not in meta["elements"]:
        lines.append(f" O(0) {fmt(conc_in_units(rng, log_uniform(rng, 1e-6, 1e-3), units, 16.0))}")
        if rng.random() < 0.7:
            lines.append(" redox O(0)/O(-2)")
            meta["features"].append("redox-couple")
    meta["temp"], meta["pH"], meta["pe"], meta["units"] = temp, ph, pe, units
    return "\n".join(lines) + "\n", meta


def gen_run(rng, db, kind=None):
    kind = kind or rng.choice(["solution"] * 6 + ["reaction", "mix", "temperature"])
    text, meta = gen_solution(rng, db, 1)
    meta["kind"] = kind
    if kind == "solution":
        return text + TAIL, meta
    if kind == "reaction":
        prim, _ = elements_of(db)
        salts = [s for s in ("NaCl", "CaCl2", "HCl", "NaOH", "KCl", "MgSO4", "CO2", "Na2SO4", "H2O") if all(
            e in prim or e in ("H", "O") for e in _elts(s))]
        salt = rng.choice(salts) if salts else "H2O"
        steps = " ".join(fmt(log_uniform(rng, 1e-6, 0.5)) for _ in range(rng.randint(1, 3)))
        return text + TAIL + f"USE solution 1\nREACTION 1\n {salt} 1\n {steps} moles\nEND\n", meta
    if kind == "mix":
        t2, m2 = gen_solution(rng, db, 2)
        meta["elements"] += m2["elements"]
        return text + t2 + TAIL + f"MIX 1\n 1 {fmt(rng.uniform(0.05, 2))}\n 2 {fmt(rng.uniform(0.05, 2))}\nEND\n", meta
    if kind == "temperature":
        ts = " ".join(fmt(rng.uniform(0, 100)) for _ in range(rng.randint(1, 3)))
        return text + TAIL + f"USE solution 1\nREACTION_TEMPERATURE 1\n {ts}\nEND\n", meta
    return text + TAIL, meta


def _elts(formula):
    import re
    return re.findall(r"[A-Z][a-z]*", formula)


def gen_sweep(db):
    """deterministic coverage sweep: every primary element of the database once per (temperature, pH, pe) corner,
    together with a simple background electrolyte, so that every aqueous species of the database enters a model"""
    prim, val = elements_of(db)
    have = set(prim)
    texts = []
    corners = [(5.0, 4.0, 12.0), (25.0, 7.0, 4.0), (70.0, 10.0, -2.0), (95.0, 6.0, 0.0)]
    for e in prim:
        for k, (t, ph, pe) in enumerate(corners):
            lines = [f"SOLUTION 1", f" temp {fmt(t)}", " units mmol/kgw", f" pH {fmt(ph)}", f" pe {fmt(pe)}", f" {e} 0.1"]
            for bg, c in (("Na", 5), ("Cl", 5), ("C", 1), ("S", 0.5), ("Ca", 0.5)):
                if bg in have and bg != e and (k % 2 == 0 or bg in ("Na", "Cl")):
                    lines.append(f" {bg} {c}")
            texts.append("\n".join(lines) + "\n" + TAIL)
    return texts
