"""Translator (C17): the BASIC token enumeration (src/phreeqcpp/PBasic.h, enum BASIC_TOKEN) and the keyword table
(src/phreeqcpp/PBasic.cpp, temp_tokens[]) → lean/PhreeqcVerif/Gen/BasicTokens.lean.

The Lean tokenizer (Model/BasicLex.lean) looks every identifier up in the *generated* keyword table, and
Properties/C17.lean proves over the generated data that (a) the documented keywords denote the documented tokens,
(b) the enumeration order makes the bit masks used by term/sexpr/relexpr/expr/cmdprint select exactly the intended
operator tokens (the C code tests `kind < 32` and `1L << kind` against masks built from the enumerators).
Fails closed when the code shape is not the recognised one."""
import re
from pathlib import Path

import vlib


def strip_comments(src):
    src = re.sub(r"/\*.*?\*/", "", src, flags=re.S)
    src = re.sub(r"//[^\n]*", "", src)
    return src


def lean_str(s):
    return '"' + s.replace("\\", "\\\\").replace('"', '\\"') + '"'


CAST = re.compile(r"\(\s*(?:const\s+)?(?:unsigned\s+|signed\s+)?(?:long\s+long|long\s+int|long|int|short|char|size_t|bool|LDBLE|double)\s*\)")


def resolve_constants(src, hdr=""):
    """substitute file-level integer constants (`static const T N = 32;`, `const T N = 32;`, `constexpr`, `#define N 32`,
    `enum { N = 32 }`) by their values"""
    consts = {}
    for text in (hdr, src):
        for m in re.finditer(r"^[ \t]*(?:static\s+)?(?:constexpr|const)\s+[\w \t]+?\b(\w+)\s*=\s*(\d+)[uUlL]*\s*;", text, re.M):
            consts[m.group(1)] = m.group(2)
        for m in re.finditer(r"^[ \t]*#\s*define\s+(\w+)\s+\(?(\d+)[uUlL]*\)?\s*$", text, re.M):
            consts.setdefault(m.group(1), m.group(2))
        for m in re.finditer(r"\b(\w+)\s*=\s*(\d+)\s*[,}]", text):
            if not m.group(1).startswith("tok"):
                consts.setdefault(m.group(1), m.group(2))
    for name, val in consts.items():
        src = re.sub(r"(?<![\w.>])" + re.escape(name) + r"\b(?!\s*=[^=])", val, src)
    return src


def normalise(src):
    src = src.replace("nullptr", "NULL")
    prev = None
    while prev != src:                       # nested casts
        prev = src
        src = CAST.sub("", src)
    src = re.sub(r"\bstatic_cast\s*<[^<>]*>\s*", "", src)
    return re.sub(r"\s+", "", src.replace("this->", ""))


def balanced(text, start, open_ch="(", close_ch=")"):
    """text[start] == open_ch → index just behind the matching close_ch"""
    depth = 0
    for k in range(start, len(text)):
        if text[k] == open_ch:
            depth += 1
        elif text[k] == close_ch:
            depth -= 1
            if depth == 0:
                return k + 1
    raise RuntimeError("gen_basic: unbalanced parentheses")


def function_body(norm, name):
    m = re.search(r"PBasic::" + name + r"\((?:struct)?LOC_exec\*\w*\)(?:const)?\{", norm)
    if not m:
        m = re.search(r"\b" + name + r"\([^;{}()]*\)(?:const)?\{", norm)
    if not m:
        return None
    b = m.end() - 1
    return norm[b + 1:balanced(norm, b, "{", "}") - 1]


def loop_condition(norm, fn):
    body = function_body(norm, fn)
    if body is None:
        raise RuntimeError(f"gen_basic: function {fn} not found")
    m = re.search(r"\bwhile\(|\bfor\(", body)
    if not m:
        raise RuntimeError(f"gen_basic: no loop in {fn}")
    cond = body[m.end() - 1:balanced(body, m.end() - 1)]
    if body[m.start():m.end()].startswith("for"):
        parts = cond[1:-1].split(";")
        cond = "(" + (parts[1] if len(parts) > 1 else "") + ")"
    return cond


def expand_helpers(cond, norm, depth=1):
    """replace calls of small private helpers (`isTermOp(LINK->t)`) by what they return, one level"""
    if depth <= 0:
        return cond
    out = cond
    for name in set(re.findall(r"\b([A-Za-z_]\w*)\(", cond)):
        if name in ("while", "for", "if", "sizeof", "strcmp"):
            continue
        body = function_body(norm, name)
        if body is not None and len(body) < 1500 and "return" in body:
            rets = re.findall(r"return([^;]*);", body)
            out = out.replace(name + "(", "(" + "||".join("(" + r + ")" for r in rets) + ")&&(")
    return out


def mask_of(cond, norm):
    e = expand_helpers(cond, norm)
    toks = re.findall(r"1L<<\(*(tok\w+)\)*", e)
    seen, res = set(), []
    for t in toks:
        if t not in seen:
            seen.add(t)
            res.append(t)
    return res, set(int(x) for x in re.findall(r"kind<(\d+)", e))


def extract():
    h = strip_comments((vlib.REPO / "src" / "phreeqcpp" / "PBasic.h").read_text(errors="replace"))
    c = (vlib.REPO / "src" / "phreeqcpp" / "PBasic.cpp").read_text(errors="replace")
    m = re.search(r"enum\s+BASIC_TOKEN\s*\{(.*?)\}\s*;", h, re.S)
    if not m:
        raise RuntimeError("gen_basic: enum BASIC_TOKEN not found in PBasic.h")
    enum = []
    for item in m.group(1).split(","):
        item = item.strip()
        if not item:
            continue
        if not re.fullmatch(r"tok\w+", item):
            raise RuntimeError(f"gen_basic: enumerator with unexpected shape: {item!r}")
        enum.append(item)
    m = re.search(r"temp_tokens\[\]\s*=\s*\{(.*?)\n\};", c, re.S)
    if not m:
        raise RuntimeError("gen_basic: temp_tokens[] not found in PBasic.cpp")
    body = strip_comments(m.group(1))
    kws = re.findall(r'value_type\(\s*"((?:[^"\\]|\\.)*)"\s*,\s*PBasic::(tok\w+)\s*\)', body)
    n_entries = len(re.findall(r"value_type\(", body))
    if n_entries != len(kws) or len(kws) < 200 or len(enum) < 200:
        raise RuntimeError(f"gen_basic: token table not recognised ({len(kws)}/{n_entries} entries, {len(enum)} enumerators)")
    for _, t in kws:
        if t not in enum:
            raise RuntimeError(f"gen_basic: keyword maps to unknown enumerator {t}")
    # std::map keeps the first inserted value for a duplicated key (range constructor uses insert)
    seen, table = set(), []
    for k, t in kws:
        if k not in seen:
            seen.add(k)
            table.append((k, t))
    # masks in the evaluator, read by structure (not by layout): constants resolved, casts / whitespace / nullptr
    # normalised, the loop condition found by parenthesis matching, a private helper followed one level
    norm = normalise(resolve_constants(strip_comments(c), strip_comments(h)))
    masks, bounds = {}, set()
    for fn in ("term", "sexpr", "expr"):
        cond = loop_condition(norm, fn)
        toks, bound = mask_of(cond, norm)
        if not toks:
            raise RuntimeError(f"gen_basic: operator mask of {fn} not recognised in `{cond[:120]}`")
        masks[fn] = toks
        bounds |= bound
    cond = loop_condition(norm, "relexpr")
    w = re.search(r"\(1L<<\((tok\w+)\+1\)\)-\(1L<<\(?(tok\w+)\)?\)", expand_helpers(cond, norm))
    if not w:
        raise RuntimeError(f"gen_basic: relexpr mask range not recognised in `{cond[:160]}`")
    rel_range = (w.group(2), w.group(1))     # (low, high) inclusive
    bounds |= set(int(x) for x in re.findall(r"kind<(\d+)", expand_helpers(cond, norm)))
    if not bounds:
        raise RuntimeError("gen_basic: no `kind < N` guard found in the operator loops")
    # the smallest guard is the binding one: `loop_masks` proves that no operator lies at or above it
    extract.mask_bits = min(bounds)
    return enum, table, masks, rel_range


def generate(ctx=None):
    enum, table, masks, rel = extract()
    L = ["/- GENERATED by tools/gen_basic.py from src/phreeqcpp/PBasic.h (enum BASIC_TOKEN) and",
         "   src/phreeqcpp/PBasic.cpp (temp_tokens[], loop masks of term/sexpr/relexpr/expr) — do not edit. -/",
         "namespace PhreeqcVerif.Gen.BasicTokens", "",
         "/-- enumerators of `PBasic::BASIC_TOKEN` in declaration order (index = numeric value of `kind`) -/",
         "def tokEnum : List String := ["]
    L.append(",\n".join("  " + ", ".join(lean_str(t) for t in enum[i:i + 8]) for i in range(0, len(enum), 8)))
    L.append("]\n")
    L.append("/-- `command_tokens`: lower-cased identifier → enumerator (first entry wins for a duplicated key) -/")
    L.append("def keywords : List (String × String) := [")
    L.append(",\n".join("  " + ", ".join(f"({lean_str(k)}, {lean_str(t)})" for k, t in table[i:i + 4])
                        for i in range(0, len(table), 4)))
    L.append("]\n")
    for fn in ("term", "sexpr", "expr"):
        L.append(f"/-- enumerators named by the operator mask of `{fn}` -/")
        L.append(f"def mask_{fn} : List String := [" + ", ".join(lean_str(t) for t in masks[fn]) + "]\n")
    L.append("/-- the `kind < N` guard in front of every `1L << kind` test -/")
    L.append(f"def maskBits : Nat := {extract.mask_bits}\n")
    L.append("/-- `relexpr` accepts kinds in the inclusive enumerator range (low, high) -/")
    L.append(f"def relRange : String × String := ({lean_str(rel[0])}, {lean_str(rel[1])})\n")
    L.append("end PhreeqcVerif.Gen.BasicTokens")
    text = "\n".join(L) + "\n"
    out = vlib.LEAN / "PhreeqcVerif" / "Gen" / "BasicTokens.lean"
    if not out.exists() or out.read_text() != text:
        out.write_text(text)
    if ctx is not None:
        ctx.cov["translator_basic"] = {"enumerators": len(enum), "keywords": len(table), "masks": masks, "relRange": rel, "maskBits": extract.mask_bits}
    return enum, table


if __name__ == "__main__":
    e, t = generate()
    print(len(e), "enumerators,", len(t), "keywords")
