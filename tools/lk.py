#!/usr/bin/env python3
"""`lake` under the same file lock the checks use (never run bare `lake build` in /verif/lean while checks may run).
usage: lk.py build [targets...] | lk.py lean <file.lean> | lk.py env <cmd...>"""
import subprocess
import sys
from pathlib import Path

sys.path.insert(0, str(Path(__file__).resolve().parent))
import vlib

args = sys.argv[1:]
if args and args[0] == "lean":
    cmd = ["lake", "env", "lean"] + [str(Path(a).resolve()) if a.endswith(".lean") else a for a in args[1:]]
    sys.exit(subprocess.run(cmd, cwd=vlib.LEAN).returncode)        # read-only: no lock needed
with vlib.Lock("lake"):
    if args and args[0] == "env":
        sys.exit(subprocess.run(["lake", "env"] + args[1:], cwd=vlib.LEAN).returncode)
    sys.exit(subprocess.run(["lake"] + args, cwd=vlib.LEAN).returncode)
