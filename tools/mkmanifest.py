#!/usr/bin/env python3
"""Writes /verif/MANIFEST.json from the table below (one entry per claimed property)."""
import json
from pathlib import Path

ROOT = Path(__file__).resolve().parent.parent

CHECKS = {
 "C05": dict(
  technique="Lean 4 theorems on models of CSelectedOutput and of the punch routing; op-sequence and PHRQ_io event-trace correspondence with the real code",
  text="Theorems (Properties/C05.lean, Properties/Route.lean): table invariant for every op sequence, Get contract incl. out-of-range, late-column padding, last-write-wins, file=string for every event trace, disabled sink empty, tables switch-independent, getline line model. Tie: random op sequences on the real CSelectedOutput and recorded PHRQ_io event traces of real runs replayed through the model; direct oracle on the object's own views.",
  note="Trusted: Lean kernel, harness/ph_selout.cpp, harness/ph_trace.cpp (event recording through virtual PHRQ_io methods), tools/tracelib.py. Rendering of values (printf formats) is a parameter of the model, re-rendered by vsnprintf in the harness. Known findings: switch of current user number; SELECTED_OUTPUT redefinition within a call."),
 "C13": dict(
  technique="Lean 4: decide over wrapper tables regenerated from the C/Fortran glue sources, registry and settings-store theorems; op-sequence correspondence through the three bindings",
  text="Theorems (Properties/C13.lean, C13Store.lean): all 73 C wrappers and 68 Fortran glue functions regenerated from the current source have the documented forwarding shape (method, argument order, bool conversion, result-code translation, invalid-instance result, 1-based shifts, padding, heading-row subtraction); bind(C) names/arity of the .F90 module match; padfstring contract; ids strictly increasing and never reused for every history; dead/negative/unissued ids change nothing; double destroy; per-instance isolation; set/get store laws and defaults. Tie: translator re-run every check + random (quick) and exhaustive length<=4 (thorough) call sequences through C API, C++ object and F functions vs pmodel api; cell-by-cell accessor agreement after a real run.",
  note="Trusted: gen_api.py regex extraction (fails closed on unrecognised functions; callback setters are outside the table), harness/ph_api.cpp. No Fortran compiler: the .F90 module is checked textually; the F functions are called from C++."),
 "C09": dict(
  technique="Lean 4 theorems on the message-routing model (file = string, disabled sink empty, getline lines, error file contains error string); event-trace correspondence over switch configurations",
  text="Theorems (Properties/Route.lean) hold for every event trace and switch state. Tie: every call's recorded PHRQ_io event stream replayed through the model, all views (strings, line accessors incl. out-of-range, files read back from disk) compared, over sampled (quick) or all (thorough) switch combinations with switch changes between consecutive calls; paired runs compare value tables across configurations.",
  note="Trusted: as C05. Dump stream has no PHRQ_io events: dump file vs dump string is a direct oracle only. 'Switches never change computed results' is exploration (paired runs), not a theorem."),
}

def entry(pid, c):
    return {
        "property_id": pid,
        "quick_cmd": f"python3 tools/vcheck.py --prop {pid} --tier quick",
        "thorough_cmd": f"python3 tools/vcheck.py --prop {pid} --tier thorough",
        "evidence_file": f"evidence/{pid}.json",
        "replay_cmd_template": f"python3 tools/vcheck.py --prop {pid} --replay {{path}}",
        "engine": "lean",
        "technique": c["technique"],
        "level_claimed": {"category": c.get("category", "proof"), "text": c["text"], "design_ref": f"DESIGN.md section 5 {pid}"},
        "level_note": c["note"],
    }

NOT_APPLICABLE = {
}
ALL = [f"C{i:02d}" for i in range(1, 21)]

def main():
    na = [{"property_id": p, "reason": NOT_APPLICABLE.get(p, "check not built yet in this tree (planned, see DESIGN.md section 5); not claimed until its quick command exists and passes on the unchanged tree")}
          for p in ALL if p not in CHECKS]
    m = {
        "version": 1,
        "setup_cmd": "python3 tools/vcheck.py --setup",
        "hooks": {
            "guard": "IPHREEQC_VERIF",
            "enable": "checks build /repo's working tree out of tree (cmake -S /repo -B /verif/build/lib) with -DIPHREEQC_VERIF in CMAKE_CXX_FLAGS; no source hook exists in /repo: observation uses `friend class TestIPhreeqc`, the virtual PHRQ_io interface and the BASIC callback",
            "baseline_off_cmd": "cmake -G Ninja -S /repo -B /verif/build/baseline -DBUILD_TESTING=ON -DCMAKE_BUILD_TYPE=RelWithDebInfo -DCMAKE_CXX_FLAGS=-Wno-error && cmake --build /verif/build/baseline -j16 && ctest --test-dir /verif/build/baseline -j1 --timeout 900",
            "source_commits": [],
            "add_only": True,
        },
        "engines": [
            {"name": "lean", "path": "lean", "serves_properties": sorted(CHECKS), "kind_free_text": "Lean 4.33 Lake project PhreeqcVerif: executable models (core only), generated data (Gen/), property theorems, pmodel line-protocol driver"},
            {"name": "harness", "path": "harness", "serves_properties": sorted(CHECKS), "kind_free_text": "C++ correspondence drivers linked against libIPhreeqc.a built from /repo's working tree; tools/*.py translators and comparison"},
        ],
        "checks": [entry(p, CHECKS[p]) for p in sorted(CHECKS)],
        "not_applicable": na,
        "notes": "All checks: python3 tools/vcheck.py --prop Cxx --tier quick|thorough. Proof obligations are re-checked by lake build + #print axioms audit on every run; correspondence runs the models and the library built from /repo's working tree on the same inputs. See DESIGN.md.",
    }
    (ROOT / "MANIFEST.json").write_text(json.dumps(m, indent=1) + "\n")
    try:
        import jsonschema
        jsonschema.validate(m, json.load(open("/root/.vp/MANIFEST.schema.json")))
    except ImportError:
        pass
    print("MANIFEST.json written:", len(m["checks"]), "checks,", len(na), "not yet claimed")

if __name__ == "__main__":
    main()
