import PhreeqcVerif.Model.Settings
import PhreeqcVerif.Properties.C13
/-!
# C13 — setters and getters behave as a simple store; invalid ids and arguments change nothing
-/
namespace PhreeqcVerif.Settings
open PhreeqcVerif.Registry

/-- what was set is what is read -/
theorem setSw_getSw (i : Inst) (s : Sw) (v : Bool) : (i.setSw s v).getSw s = v := by
  simp [Inst.setSw, Inst.getSw]

/-- different switches are independent -/
theorem setSw_other (i : Inst) (s t : Sw) (v : Bool) (h : t ≠ s) : (i.setSw s v).getSw t = i.getSw t := by
  simp [Inst.setSw, Inst.getSw, h]

/-- a switch setter changes no name, no selected-output setting and not the current user number -/
theorem setSw_frame (i : Inst) (s : Sw) (v : Bool) :
    (i.setSw s v).name = i.name ∧ (i.setSw s v).cur = i.cur ∧ (i.setSw s v).selFileOn = i.selFileOn ∧
    (i.setSw s v).selStrOn = i.selStrOn ∧ (i.setSw s v).selFileName = i.selFileName ∧ (i.setSw s v).id = i.id := by
  simp [Inst.setSw]

theorem setName_getName (i : Inst) (n : Nm) (s : String) (h : s.isEmpty = false) :
    (i.setName n (some s)).getName n = s := by
  simp [Inst.setName, Inst.getName, h]

theorem setName_other (i : Inst) (n m : Nm) (v : Option String) (h : m ≠ n) :
    (i.setName n v).getName m = i.getName m := by
  unfold Inst.setName Inst.getName
  cases v with
  | none => rfl
  | some s => by_cases he : s.isEmpty <;> simp [he, h]

/-- NULL and the empty string are rejected and change nothing -/
theorem setName_invalid (i : Inst) (n : Nm) : i.setName n none = i ∧ i.setName n (some "") = i := by
  constructor <;> simp [Inst.setName]

/-- a negative user number is rejected with VR_INVALIDARG and changes nothing -/
theorem setCur_invalid (i : Inst) (n : Int) (h : n < 0) : i.setCur n = (i, -3) := by
  have : ¬ 0 ≤ n := by omega
  simp [Inst.setCur, this]

theorem setCur_valid (i : Inst) (n : Int) (h : 0 ≤ n) : (i.setCur n).1.cur = n ∧ (i.setCur n).2 = 0 := by
  simp [Inst.setCur, h]

theorem lookup_setAssoc {β} (m : List (Int × β)) (k : Int) (v : β) :
    (setAssoc m k v).lookup k = some v := by simp [setAssoc, List.lookup_cons]

theorem lookup_setAssoc_ne {β} (m : List (Int × β)) (k j : Int) (v : β) (h : j ≠ k) :
    (setAssoc m k v).lookup j = m.lookup j := by
  have h1 : (j == k) = false := by simpa using h
  simp only [setAssoc, List.lookup_cons, h1]
  induction m with
  | nil => rfl
  | cons p ps ih =>
    obtain ⟨a, b⟩ := p
    by_cases hp : a = k
    · subst hp
      have h2 : (j == a) = false := by simpa using h
      simpa [List.filter_cons, List.lookup_cons, h2] using ih
    · by_cases ha : j = a
      · subst ha; simp [List.filter_cons, hp, List.lookup_cons]
      · have h2 : (j == a) = false := by simpa using ha
        simpa [List.filter_cons, hp, List.lookup_cons, h2] using ih

/-- per-user-number selected-output switch: set then get under the same current number -/
theorem setSelStrOn_get (i : Inst) (v : Bool) : (i.setSelStrOn v).getSelStrOn = v := by
  simp [Inst.setSelStrOn, Inst.getSelStrOn, lookup_setAssoc]

theorem setSelFileOn_get (i : Inst) (v : Bool) (h : 0 ≤ i.cur) : (i.setSelFileOn v).getSelFileOn = v := by
  simp [Inst.setSelFileOn, Inst.getSelFileOn, h, lookup_setAssoc]

/-- switches of different user numbers are independent -/
theorem setSelStrOn_other_number (i : Inst) (v : Bool) (j : Int) (h : j ≠ i.cur) :
    (i.setSelStrOn v).selStrOn.lookup j = i.selStrOn.lookup j := by
  simp [Inst.setSelStrOn, lookup_setAssoc_ne _ _ _ _ h]

/-- documented defaults: all file sinks and string sinks off except error string, names embed the id -/
theorem defaults (id : Nat) :
    (fresh id).getSw .outFile = false ∧ (fresh id).getSw .outStr = false ∧ (fresh id).getSw .errFile = false ∧
    (fresh id).getSw .errStr = true ∧ (fresh id).getSw .logFile = false ∧ (fresh id).getSw .logStr = false ∧
    (fresh id).getSw .dumpFile = false ∧ (fresh id).getSw .dumpStr = false ∧ (fresh id).getSelFileOn = false ∧
    (fresh id).getSelStrOn = false ∧ (fresh id).cur = 1 ∧
    (fresh id).getName .out = s!"phreeqc.{id}.out" ∧ (fresh id).getName .dump = s!"dump.{id}.out" ∧
    (fresh id).getSelName = selName 1 id := by
  simp [fresh, Inst.getSw, Inst.getName, Inst.getSelFileOn, Inst.getSelStrOn, Inst.getSelName]

/-- a well-formed wrapper on a live id returns what the method returns -/
theorem capi_live (r : Reg Inst) (id : Int) (c : Call) (i : Inst) (h : r.lookup id = some i) :
    (capi r id c).2 = (i.call c).2 := by
  simp [capi, Reg.apply, h]

/-- a call with an id that is not live changes no instance and returns the invalid-instance result -/
theorem capi_dead (r : Reg Inst) (id : Int) (c : Call) (h : r.lookup id = none) :
    capi r id c = (r, badResult c) := by
  simp [capi, Reg.apply, h]

/-- a call on one instance never changes another instance's settings -/
theorem capi_other (r : Reg Inst) (id j : Int) (c : Call) (hj : j ≠ id) :
    (capi r id c).1.lookup j = r.lookup j := apply_other r id j _ _ hj

/-- getters do not change the store -/
theorem getters_pure (i : Inst) :
    (∀ s, (i.call (.getSw s)).1 = i) ∧ (∀ n, (i.call (.getName n)).1 = i) ∧ (i.call .getCur).1 = i ∧
    (i.call .getSelFileOn).1 = i ∧ (i.call .getSelStrOn).1 = i ∧ (i.call .getSelName).1 = i := by
  simp [Inst.call]

end PhreeqcVerif.Settings
