"""Translator for C01: constants and code shapes of the speciation path → Lean (`Gen/SpeciationSrc.lean`).

Read from /repo on every run:
  global_structures.h : R_KJ_DEG_MOL, JOULES_PER_CALORIE, PASCAL_PER_ATM, REF_PRES_PASCAL, MAX_ADD_EQUATIONS, MAX_LM, MAX_M
  prep.cpp k_calc     : the whole expression (term order, the two 298.15 of the van 't Hoff term, the 1E-9 of the volume term,
                        the `delta_p > 0` switch) — recognised as a shape, the literals extracted
  read.cpp read_delta_h_only : `/= 1000.` for non-kilo units, `*= JOULES_PER_CALORIE` for calories
  read.cpp read_named_logk   : ln_alpha1000 scales `i = T_A1; i < T_A6` (the sixth term is not scaled) by `1000. * LOG_10`
  utilities.cpp calc_alk     : which master of a reaction token is looked up first (`secondary`, then `primary`)
  utilities.cpp under        : the cut-offs (-40, MAX_LM → MAX_M)
  structures.cpp trxn_combine: `equal(coef, 0.0, 1e-5)` (both occurrences must agree)
  tidy.cpp select_log_k_expression / add_other_logk : shape "analytic terms win" (loops over T_A1..T_A6, `!= 0.0`)
  Phreeqc.cpp init    : convergence_tolerance, MIN_TOTAL
`Properties/C01.lean` proves (`source_constants`, `alk_lookup_order`) that the models use exactly these; when the source changes,
or its shape is no longer recognised (`recognised = false`), that obligation breaks (protocol P of DESIGN §3)."""
import re
from fractions import Fraction

import vlib

OUT = "SpeciationSrc"


def _flat(txt):
    txt = re.sub(r"/\*.*?\*/", " ", txt, flags=re.S)
    txt = "\n".join(re.sub(r"//.*", "", ln) for ln in txt.splitlines())
    return re.sub(r"\s+", " ", txt)


def _func(txt, name):
    """body of `name(...) {` up to the matching brace (definitions start at column 0 in this code base)"""
    m = re.search(r"^%s\([^;{]*\)\s*(?:/\*.*?\*/\s*)*\{" % re.escape(name), txt, re.M | re.S)
    if not m:
        return None
    i, depth = m.end(), 1
    while i < len(txt) and depth:
        depth += {"{": 1, "}": -1}.get(txt[i], 0)
        i += 1
    return txt[m.end():i]


def extract():
    src = vlib.REPO / "src" / "phreeqcpp"
    gs = (src / "global_structures.h").read_text()
    out, where, bad = {}, [], []

    def define(name):
        m = re.search(r"^#define\s+%s\s+([0-9.eE+-]+)" % name, gs, re.M)
        if not m:
            bad.append(name)
            out[name] = Fraction(0)
            return
        out[name] = Fraction(m.group(1))
        where.append(f"global_structures.h:{gs[:m.start()].count(chr(10)) + 1} {name}")

    for n in ("R_KJ_DEG_MOL", "JOULES_PER_CALORIE", "PASCAL_PER_ATM", "REF_PRES_PASCAL", "MAX_ADD_EQUATIONS", "MAX_LM", "MAX_M"):
        define(n)
    # ---- k_calc
    prep = (src / "prep.cpp").read_text()
    body = _func(prep, "k_calc")
    shape = (r"LDBLE me = tempk \* R_KJ_DEG_MOL; LDBLE delta_p = presPa - REF_PRES_PASCAL; LDBLE lk = l_logk\[logK_T0\] "
             r"- l_logk\[delta_h\] \* \(([0-9.]+) - tempk\) / \(LOG_10 \* me \* ([0-9.]+)\) \+ l_logk\[T_A1\] \+ l_logk\[T_A2\] \* tempk "
             r"\+ l_logk\[T_A3\] / tempk \+ l_logk\[T_A4\] \* log10\(tempk\) \+ l_logk\[T_A5\] / \(tempk \* tempk\) "
             r"\+ l_logk\[T_A6\] \* tempk \* tempk; if \(delta_p > 0\) lk -= l_logk\[delta_v\] \* ([0-9.eE+-]+) \* delta_p / "
             r"\(LOG_10 \* me\); return lk;")
    m = re.search(shape, _flat(body)) if body else None
    if not m or m.group(1) != m.group(2):
        bad.append("k_calc")
        out["KCALC_TREF"], out["KCALC_VFACTOR"] = Fraction(0), Fraction(0)
    else:
        out["KCALC_TREF"], out["KCALC_VFACTOR"] = Fraction(m.group(1)), Fraction(m.group(3))
        where.append(f"prep.cpp:{prep[:prep.find(body)].count(chr(10)) + 1} k_calc")
    # ---- delta_h units
    read = (src / "read.cpp").read_text()
    body = _func(read, "read_delta_h_only")
    fb = _flat(body) if body else ""
    m1 = re.search(r'if \(strstr\(token, "k"\) != token\) \{ kilo = FALSE; \*delta_h /= ([0-9.]+); \}', fb)
    m2 = re.search(r'if \(strstr\(token, "c"\) != NULL\) \{ \*delta_h \*= JOULES_PER_CALORIE; joul = FALSE; \}', fb)
    if not (m1 and m2 and fb.find(m1.group(0)) < fb.find(m2.group(0))):
        bad.append("read_delta_h_only")
        out["DH_KILO"] = Fraction(0)
    else:
        out["DH_KILO"] = Fraction(m1.group(1))
        where.append("read.cpp read_delta_h_only")
    # ---- ln_alpha1000
    body = _func(read, "read_named_logk")
    fb = _flat(body) if body else ""
    m = re.search(r"for \(i = T_A1; i (<=?) T_A6; i\+\+\) \{ logk_ptr->log_k\[i\] /= ([0-9.]+) \* LOG_10; \}", fb)
    if not m:
        bad.append("ln_alpha1000")
        out["LN_ALPHA_DIV"], out["LN_ALPHA_SIXTH"] = Fraction(0), False
    else:
        out["LN_ALPHA_DIV"], out["LN_ALPHA_SIXTH"] = Fraction(m.group(2)), m.group(1) == "<="
        where.append("read.cpp read_named_logk ln_alpha1000")
    # ---- calc_alk lookup order
    util = (src / "utilities.cpp").read_text()
    body = _func(util, "calc_alk")
    fb = _flat(body) if body else ""
    m = re.search(r"master_ptr = r_token->s->(secondary|primary); if \(master_ptr == NULL\) \{ master_ptr = r_token->s->(secondary|primary); \}"
                  r".*return_value \+= r_token->coef \* master_ptr->alk;", fb)
    if not m or m.group(1) == m.group(2):
        bad.append("calc_alk")
        out["ALK_SECONDARY_FIRST"] = False
    else:
        out["ALK_SECONDARY_FIRST"] = m.group(1) == "secondary"
        where.append(f"utilities.cpp:{util[:util.find(body)].count(chr(10)) + 1} calc_alk")
    # ---- under
    body = _func(util, "under")
    fb = _flat(body) if body else ""
    m = re.search(r"if \(xval < (-?[0-9.]+)\) \{ return \(0\.0\); \} if \(xval > MAX_LM\) \{ return \( ?MAX_M ?\); \} "
                  r"return \(pow ?\(\(LDBLE\) 10\.0, xval\)\);", fb)
    if not m:
        bad.append("under")
        out["UNDER_MIN"] = Fraction(0)
    else:
        out["UNDER_MIN"] = Fraction(m.group(1))
        where.append("utilities.cpp under")
    # ---- trxn_combine
    st = (src / "structures.cpp").read_text()
    body = _func(st, "trxn_combine")
    occ = re.findall(r"equal\(trxn\.token\[j\]\.coef, 0\.0, ([0-9.eE+-]+)\)", _flat(body) if body else "")
    if len(occ) != 2 or len(set(occ)) != 1:
        bad.append("trxn_combine")
        out["COMBINE_TOL"] = Fraction(0)
    else:
        out["COMBINE_TOL"] = Fraction(occ[0])
        where.append("structures.cpp trxn_combine")
    # ---- select_log_k_expression / add_other_logk: "analytic terms win"
    tidy = (src / "tidy.cpp").read_text()
    b1, b2 = _func(tidy, "select_log_k_expression"), _func(tidy, "add_other_logk")
    f1, f2 = (_flat(b1) if b1 else ""), (_flat(b2) if b2 else "")
    ok1 = re.search(r"for \(j = T_A1; j <= T_A6; j\+\+\) \{ if \(source_k\[j\] != 0\.0\) \{ analytic = true; break; \} \} if \(analytic\) "
                    r"\{ target_k\[logK_T0\] = 0\.0; target_k\[delta_h\] = 0\.0; for \(j = T_A1; j <= T_A6; j\+\+\) \{ target_k\[j\] = "
                    r"source_k\[j\]; \} \} else \{ target_k\[logK_T0\] = source_k\[logK_T0\]; target_k\[delta_h\] = source_k\[delta_h\]; "
                    r"for \(j = T_A1; j <= T_A6; j\+\+\) \{ target_k\[j\] = 0\.0; \} \}", f1)
    ok2 = re.search(r"if \(analytic\) \{ for \(j = T_A1; j <= T_A6; j\+\+\) \{ source_k\[j\] \+= logk_ptr->log_k\[j\] \* coef; \} \} else "
                    r"\{ source_k\[logK_T0\] \+= logk_ptr->log_k\[logK_T0\] \* coef; source_k\[delta_h\] \+= logk_ptr->log_k\[delta_h\] \* coef; \}",
                    f2)
    out["SELECT_SHAPE"] = bool(ok1 and ok2)
    if not (ok1 and ok2):
        bad.append("select_log_k_expression/add_other_logk")
    else:
        where.append("tidy.cpp select_log_k_expression, add_other_logk")
    # ---- defaults
    ph = (src / "Phreeqc.cpp").read_text()
    m1 = re.search(r"^\s*convergence_tolerance\s*=\s*([0-9.eE+-]+);", ph, re.M)
    m2 = re.search(r"^\s*MIN_TOTAL\s*=\s*([0-9.eE+-]+);", ph, re.M)
    out["CONV_TOL"] = Fraction(m1.group(1)) if m1 else Fraction(0)
    out["MIN_TOTAL"] = Fraction(m2.group(1)) if m2 else Fraction(0)
    if not (m1 and m2):
        bad.append("defaults")
    else:
        where.append("Phreeqc.cpp init convergence_tolerance, MIN_TOTAL")
    return out, where, bad


def lean_val(v):
    if isinstance(v, bool):
        return "Bool", "true" if v else "false"
    if v >= 0:
        return "Rat", f"({v.numerator} / {v.denominator} : Rat)"
    return "Rat", f"(-{-v.numerator} / {v.denominator} : Rat)"


def generate(ctx=None):
    out, where, bad = extract()
    lines = ["/-! GENERATED by tools/gen_speciation.py from /repo/src/phreeqcpp — do not edit.",
             "Sources: " + "; ".join(where) + (" | NOT RECOGNISED: " + ", ".join(bad) if bad else "") + " -/",
             f"namespace PhreeqcVerif.Gen.{OUT}", ""]
    for k in sorted(out):
        t, v = lean_val(out[k])
        lines.append(f"def {k} : {t} := {v}")
    lines += ["/-- every code shape the translator looks for was found -/",
              f"def recognised : Bool := {'false' if bad else 'true'}", "", f"end PhreeqcVerif.Gen.{OUT}", ""]
    text = "\n".join(lines)
    p = vlib.LEAN / "PhreeqcVerif" / "Gen" / f"{OUT}.lean"
    if not p.exists() or p.read_text() != text:
        p.write_text(text)
    if ctx is not None:
        ctx.cov["translator_speciation"] = {"recognised": not bad, "not_recognised": bad, "sources": where}
    return out, bad


if __name__ == "__main__":
    o, b = generate()
    for k in sorted(o):
        print(k, o[k])
    print("not recognised:", b)
