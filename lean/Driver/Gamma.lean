import PhreeqcVerif.Model.Util
import PhreeqcVerif.Model.NumOps
import PhreeqcVerif.Model.Gamma
import PhreeqcVerif.Model.Pitzer
/-! `pmodel gamma`: line-protocol driver of the activity-coefficient models (C16).  Doubles are 16 hex digits.

* `interp <tc> <n> t1..tn v1..vn`                         → `I <hex>` | `I none`   (LLNL grid interpolation)
* `co2 c0 c1 c2 c3 c4 tk mu`                              → `C <hex>`              (value of `log_g_co2`)
* `lg <gflag> z dha dhb mu a b <hasLlnl> aL bL bdotL lgco2 laH2O gfw` → `L <hex>` | `L none`
* `sel <zIsZero> <n|e|w> opt…`  (`g:a:b`, `l:a`, `c`, `w`; `-` = not scanned) → `A <gflag> <dha> <dhb>`
* `pz n mu a0 minTotal icon ic useEtheta mcb0 mcb1 mcc0 tk patm` / `s z M`×n / `p type i0 i1 i2 alpha etheta ethetap a0..a5`… / `end`
                                                          → `PC k ln0 ln1 ln2 os p`…, `PL k <LGAMMA>`×n, `PO cosmot aw`
* `sit n mu a0 tk` / `s z M`×n / `e <13|14> i0 i1 a0..a4`… / `end` → `PL k <sit_LGAMMA>`×n, `PO cosmot aw` -/
namespace Driver.Gamma
open PhreeqcVerif PhreeqcVerif.Util

def fx (s : String) : Float := (floatOfHex s).getD 0.0
def hx (f : Float) : String := hexOfFloat f
def optF (s : String) : Option Float := if s = "-" then none else floatOfHex s

def parseOpt (s : String) : Option (Gamma.GOpt Float) :=
  match s.splitOn ":" with
  | ["g", a, b] => some (.gamma (optF a) (optF b))
  | ["l", a] => some (.llnlGamma (optF a))
  | ["c"] => some .co2Llnl
  | ["w"] => some .actWater
  | _ => none

def arr (l : List Float) : Nat → Float := let a := l.toArray; fun k => a.getD k 0.0

structure Blk where
  kind : String := ""
  head : List String := []
  sp : Array (Float × Float) := #[]
  ps : Array (List String) := #[]

def finishPz (b : Blk) (out : IO.FS.Stream) : IO Unit := do
  match b.head with
  | [n, mu, a0, minT, icon, ic, ue, m0, m1, c0, tk, patm] =>
    let n := n.toNat!
    let z := arr (b.sp.toList.map (·.1))
    let m := arr (b.sp.toList.map (·.2))
    let mu := fx mu
    let tk := fx tk
    let di := Float.sqrt mu
    let mut ps : Array (Pitzer.PParam Float) := #[]
    let mut k := 0
    for w in b.ps do
      match w with
      | ty :: i0 :: i1 :: i2 :: al :: et :: etp :: a0' :: a1 :: a2 :: a3 :: a4 :: a5 :: _ =>
        match Pitzer.PType.ofCode ty.toNat! with
        | some t =>
          let i0 := i0.toNat!
          let i1 := i1.toNat!
          let i2 := i2.toNat!
          let p := Pitzer.calcParam (fx a0') (fx a1) (fx a2) (fx a3) (fx a4) (fx a5) tk
          let al := fx al
          let nz := fun i => Pitzer.isZero (z i)
          let (l0, l1, l2, os) : Float × Float × Float × Float :=
            match t with
            | .lambda => let c := Pitzer.lambdaCoefs (α := Float) i0 i1; (c.1, c.2.1, 0.0, c.2.2)
            | .mu => (Pitzer.muLn i0 i1 i2 i0 (nz i0), Pitzer.muLn i0 i1 i2 i1 (nz i1), Pitzer.muLn i0 i1 i2 i2 (nz i2),
                      Pitzer.muOs i0 i1 i2 (nz i0) (nz i1) (nz i2))
            | _ => (0.0, 0.0, 0.0, 0.0)
          let pp : Pitzer.PParam Float :=
            { type := t, i0 := i0, i1 := i1, i2 := i2, p := p,
              c0den := 2.0 * Float.sqrt (Pitzer.absv (z i0 * z i1)),
              ln0 := l0, ln1 := l1, ln2 := l2, os := os,
              g := Pitzer.G (al * di), gp := Pitzer.GP (al * di), ex := Float.exp (-al * di),
              etheta := fx et, ethetap := fx etp }
          out.putStrLn s!"PC {k} {hx l0} {hx l1} {hx l2} {hx os} {hx p}"
          ps := ps.push pp
        | none => out.putStrLn s!"PC {k} bad-type"
      | _ => out.putStrLn s!"PC {k} bad-line"
      k := k + 1
    let x : Pitzer.PzIn Float :=
      { n := n, m := m, z := z, mu := mu, a0 := fx a0, minTotal := fx minT, icon := icon == "1", ic := ic.toNat!,
        useEtheta := ue == "1", mcb0 := optF m0, mcb1 := optF m1, mcc0 := optF c0, ps := ps.toList }
    let r := Pitzer.pitzerP x (Pitzer.pcorrOf tk (fx patm))
    for i in [0:n] do
      out.putStrLn s!"PL {i} {hx (r.lgamma i)}"
    out.putStrLn s!"PO {hx r.cosmot} {hx r.aw}"
  | _ => out.putStrLn "bad-op"

def finishSit (b : Blk) (out : IO.FS.Stream) : IO Unit := do
  match b.head with
  | [n, mu, a0, tk] =>
    let n := n.toNat!
    let z := arr (b.sp.toList.map (·.1))
    let m := arr (b.sp.toList.map (·.2))
    let tk := fx tk
    let mut ps : Array (Pitzer.SParam Float) := #[]
    for w in b.ps do
      match w with
      | ty :: i0 :: i1 :: a0' :: a1 :: a2 :: a3 :: a4 :: _ =>
        ps := ps.push { eps1 := ty == "14", i0 := i0.toNat!, i1 := i1.toNat!,
                        p := Pitzer.calcSitParam (fx a0') (fx a1) (fx a2) (fx a3) (fx a4) tk }
      | _ => out.putStrLn "bad-line"
    let r := Pitzer.sit { n := n, m := m, z := z, mu := fx mu, a0 := fx a0, ps := ps.toList }
    for i in [0:n] do
      out.putStrLn s!"PL {i} {hx (r.lgamma i)}"
    out.putStrLn s!"PO {hx r.cosmot} {hx r.aw}"
  | _ => out.putStrLn "bad-op"

def oneLine (w : List String) : String :=
  match w with
  | "interp" :: tc :: n :: rest =>
    let n := n.toNat!
    let ts := (rest.take n).map fx
    let vs := ((rest.drop n).take n).map fx
    match Gamma.interp ts vs (fx tc) with
    | some v => s!"I {hx v}"
    | none => "I none"
  | ["co2", c0, c1, c2, c3, c4, tk, mu] =>
    s!"C {hx (Gamma.co2Poly (fx c0) (fx c1) (fx c2) (fx c3) (fx c4) (fx tk) (Gamma.clampMu (fx mu)))}"
  | ["lg", fl, z, dha, dhb, mu, a, b, hl, aL, bL, bd, lgc, la, gfw] =>
    match Gamma.GModel.ofFlag fl.toNat! with
    | some m =>
      let e : Gamma.Env Float :=
        { mu := Gamma.clampMu (fx mu), a := fx a, b := fx b, hasLlnl := hl == "1", aL := fx aL, bL := fx bL,
          bdotL := fx bd, lgCO2 := fx lgc, laH2O := fx la, gfwWater := fx gfw }
      match Gamma.lgOf e m (fx z) (fx dha) (fx dhb) with
      | some v => s!"L {hx v}"
      | none => "L none"
    | none => "L none"
  | "sel" :: zz :: sp :: opts =>
    let d : Gamma.Decl Float :=
      { zIsZero := zz == "1", special := (if sp == "e" then .eminus else if sp == "w" then .h2o else .none),
        opts := opts.filterMap parseOpt }
    let a := Gamma.assign d
    s!"A {a.model.flag} {hx a.dha} {hx a.dhb}"
  | _ => "bad-op"

def run : IO Unit := do
  let lines ← readLines (← IO.getStdin)
  let out ← IO.getStdout
  let mut blk : Option Blk := none
  for l in lines do
    let w := words l
    match blk, w with
    | _, [] => pure ()
    | none, "pz" :: rest => blk := some { kind := "pz", head := rest }
    | none, "sit" :: rest => blk := some { kind := "sit", head := rest }
    | some b, ["s", z, m] => blk := some { b with sp := b.sp.push (fx z, fx m) }
    | some b, "p" :: rest => blk := some { b with ps := b.ps.push rest }
    | some b, "e" :: rest => blk := some { b with ps := b.ps.push rest }
    | some b, ["end"] =>
      if b.kind == "pz" then finishPz b out else finishSit b out
      blk := none
    | some _, _ => out.putStrLn "bad-op"
    | none, _ => out.putStrLn (oneLine w)

end Driver.Gamma
