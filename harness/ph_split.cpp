// C04 harness: delivers input text to real IPhreeqc objects through the three run entry points and prints what the
// property compares (value tables per user number after every call, component list, dump string, return values),
// plus the accumulate-buffer operations for the wrapper correspondence (`pmodel wrapper`).
// Protocol: one op per line, strings as hex ("-" = empty). See tools/props/c04.py.
// own access shim (Phreeqc.h / IPhreeqc.hpp declare `friend class TestIPhreeqc`); harness/friend.hpp is not included here
#ifndef CPPUNIT
#define CPPUNIT 1
#endif
#include "IPhreeqc.hpp"
#include "Phreeqc.h"
#include "CSelectedOutput.hxx"
#include "SelectedOutput.h"
#include "hx.hpp"
class TestIPhreeqc {
public:
  static Phreeqc* engine(IPhreeqc* p) { return p->PhreeqcPtr; }
  static std::map<int, CSelectedOutput*>& tables(IPhreeqc* p) { return p->SelectedOutputMap; }
  static int get_input_errors(IPhreeqc* p) { return p->PhreeqcPtr->get_input_errors(); }
  static int simulation(IPhreeqc* p) { return p->PhreeqcPtr->simulation; }
  static int first_read_input(IPhreeqc* p) { return p->PhreeqcPtr->first_read_input; }
  static bool clear_accumulated(IPhreeqc* p) { return p->ClearAccumulated; }
  static bool update_components(IPhreeqc* p) { return p->UpdateComponents; }
  static bool database_loaded(IPhreeqc* p) { return p->DatabaseLoaded; }
};
#include "IPhreeqc.h"
#include <fstream>
#include <unistd.h>

static std::string showVar(const VAR& v){
  switch(v.type){
    case TT_EMPTY: return "E";
    case TT_ERROR: return "X"+std::to_string((int)v.vresult);
    case TT_LONG: return "L"+std::to_string(v.lVal);
    case TT_DOUBLE: return "D"+hx::hexd(v.dVal);
    case TT_STRING: return "S"+hx::hex(v.sVal?v.sVal:"");
  }
  return "?";
}
// all tables of the object: "T <n> <rows> <cols> | cell;cell | cell;cell ..." (row 0 = headings)
static void tables(IPhreeqc* p){
  auto& tabs = TestIPhreeqc::tables(p);
  for(auto& kv : tabs){
    const CSelectedOutput* t = kv.second;
    size_t nr=t->GetRowCount(), nc=t->GetColCount();
    std::cout<<"T "<<kv.first<<" "<<nr<<" "<<nc;
    for(size_t r=0;r<nr;r++){ std::cout<<" | "; for(size_t c=0;c<nc;c++){ if(c) std::cout<<";"; CVar v; t->Get((int)r,(int)c,&v); std::cout<<showVar(v);} }
    std::cout<<"\n";
  }
}
static void after_run(IPhreeqc* p, int r){
  std::cout<<"R run "<<r<<" ierr "<<TestIPhreeqc::get_input_errors(p)<<" sim "<<TestIPhreeqc::simulation(p)
           <<" nwarn "<<p->GetWarningStringLineCount()<<"\n";
  tables(p);
}

int main(int argc, char** argv){
  std::vector<IPhreeqc*> inst;
  IPhreeqc* p = 0;
  std::string line;
  while(std::getline(std::cin,line)){
    auto w = hx::words(line);
    if(w.empty()) continue;
    const std::string& op = w[0];
    try {
    if(op=="new"){ p = new IPhreeqc(); inst.push_back(p); std::cout<<"R new "<<inst.size()-1<<"\n"; }
    else if(op=="use"){ p = inst.at(std::stoi(w[1])); }
    else if(op=="destroy"){ delete p; for(auto& q: inst) if(q==p) q=0; p=0; std::cout<<"R destroy\n"; }
    else if(op=="mark"){ std::cout<<"M "<<(w.size()>1?w[1]:"")<<"\n"; }
    else if(!p){ std::cout<<"R noinst\n"; }
    else if(op=="load"){ int r=p->LoadDatabase(hx::unhex(w[1]).c_str()); std::cout<<"R load "<<r<<"\n"; }
    else if(op=="run"){ int r=p->RunString(hx::unhex(w[1]).c_str()); after_run(p,r); }
    else if(op=="runfile"){ int r=p->RunFile(hx::unhex(w[1]).c_str()); after_run(p,r); }
    else if(op=="acc"){ int r=p->AccumulateLine(hx::unhex(w[1]).c_str()); std::cout<<"R acc "<<r<<"\n"; }
    else if(op=="runacc"){ int r=p->RunAccumulated(); after_run(p,r); }
    else if(op=="clearacc"){ p->ClearAccumulatedLines(); std::cout<<"R clearacc\n"; }
    else if(op=="getacc"){ std::cout<<"R getacc "<<hx::hex(p->GetAccumulatedLines())<<"\n"; }
    else if(op=="unload"){ // LoadDatabase of a missing file: UnLoadDatabase + failure
      int r=p->LoadDatabase("/nonexistent/verif-c04.dat"); std::cout<<"R unload "<<(r!=0)<<"\n"; }
    else if(op=="dumpstr"){ p->SetDumpStringOn(w[1]=="1"); }
    else if(op=="outstr"){ p->SetOutputStringOn(w[1]=="1"); }
    else if(op=="selstr"){ p->SetSelectedOutputStringOn(w[1]=="1"); }
    else if(op=="cur"){ p->SetCurrentSelectedOutputUserNumber(std::stoi(w[1])); }
    else if(op=="comp"){
      size_t nc = p->GetComponentCount();
      std::cout<<"C "<<nc; for(size_t i=0;i<nc;i++) std::cout<<" "<<hx::hex(p->GetComponent((int)i)); std::cout<<"\n"; }
    else if(op=="dump"){ std::cout<<"D "<<hx::hex(p->GetDumpString())<<"\n"; }
    else if(op=="out"){ std::cout<<"O "<<hx::hex(p->GetOutputString())<<"\n"; }
    else if(op=="selstrget"){ std::cout<<"SS "<<hx::hex(p->GetSelectedOutputString())<<"\n"; }
    else if(op=="err"){ std::cout<<"E "<<hx::hex(p->GetErrorString())<<"\n"; }
    else if(op=="warn"){ std::cout<<"W "<<hx::hex(p->GetWarningString())<<"\n"; }
    else if(op=="state"){ // wrapper/engine fields the wrapper model tracks
      std::cout<<"S sim "<<TestIPhreeqc::simulation(p)<<" first "<<TestIPhreeqc::first_read_input(p)
               <<" clr "<<TestIPhreeqc::clear_accumulated(p)<<" upd "<<TestIPhreeqc::update_components(p)
               <<" db "<<TestIPhreeqc::database_loaded(p)
               <<" errrep "<<(std::string(p->GetErrorString()).empty()?0:1)<<" errlines "<<(p->GetErrorStringLineCount()?1:0)
               <<" acc "<<hx::hex(p->GetAccumulatedLines())<<"\n"; }
    else std::cout<<"bad-op "<<op<<"\n";
    } catch (const std::exception& e) {
      std::cout<<"R exception "<<hx::hex(e.what())<<"\n";
    } catch (...) {
      std::cout<<"R exception -\n";
    }
    std::cout.flush();
  }
  for(auto q: inst) delete q;
  return 0;
}
