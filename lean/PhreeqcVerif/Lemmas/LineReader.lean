import PhreeqcVerif.Model.LineReader
/-! Lemmas about the reader model (C04): append behaviour of every layer, link between the per-call function and the
fused line list, termination of the caller's loop. Core Lean only. -/
namespace PhreeqcVerif.LineReader

/-! ### getc layer -/

theorem decodeAux_append (a b : Bytes) : ∀ p, pendAfter p a = false →
    decodeAux p (a ++ b) = decodeAux p a ++ decodeAux false b := by
  induction a with
  | nil => intro p h; simp [pendAfter] at h; subst h; simp [decodeAux]
  | cons c r ih =>
    intro p h
    have hnc : Gen.Keywords.c_nl ≠ Gen.Keywords.c_cr := by decide
    simp only [pendAfter] at h
    by_cases hc : c = Gen.Keywords.c_cr
    · subst hc
      have h' : pendAfter true r = false := by simpa using h
      cases p <;> simp [decodeAux, ih true h', Ne.symm hnc]
    · have h' : pendAfter false r = false := by simpa [hc] using h
      by_cases hn : c = Gen.Keywords.c_nl
      · subst hn; cases p <;> simp [decodeAux, ih false h', hnc]
      · cases p <;> simp [decodeAux, ih false h', hc, hn]

theorem decode_append (a b : Bytes) (h : pendAfter false a = false) : decode (a ++ b) = decode a ++ decode b :=
  decodeAux_append a b false h

/-! ### get_logical_line -/

theorem step_some_init {st : RS} {c : UInt8} {l : Bytes} (h : (step st c).1 = some l) : (step st c).2 = RS.init := by
  unfold step at h ⊢
  split <;> (repeat' split at h) <;> simp_all

theorem linesFrom_init_nil : linesFrom RS.init [] = [] := by
  simp [linesFrom, flushLine, RS.init]

theorem endState_cons (st : RS) (c : UInt8) (r : Bytes) : endState st (c :: r) = endState (step st c).2 r := rfl

theorem linesFrom_append (a b : Bytes) : ∀ st, endState st a = RS.init →
    linesFrom st (a ++ b) = linesFrom st a ++ linesFrom RS.init b := by
  induction a with
  | nil => intro st h; simp [endState] at h; subst h; simp [linesFrom_init_nil]
  | cons c r ih =>
    intro st h
    rw [endState_cons] at h
    simp only [List.cons_append, linesFrom]
    cases hs : (step st c).1 with
    | none => simpa using ih _ h
    | some l => simpa using ih _ h

/-- one `get_logical_line` call followed by the rest of the loop is the fused list -/
theorem scan_iterates (s : Bytes) : ∀ st, linesFrom st s =
    (if (scanFrom st s).eof then (if (scanFrom st s).line.isEmpty then [] else [(scanFrom st s).line])
     else (scanFrom st s).line :: linesFrom RS.init (scanFrom st s).rest) := by
  induction s with
  | nil => intro st; simp [linesFrom, scanFrom]
  | cons c r ih =>
    intro st
    obtain hs | ⟨l, hs⟩ : (step st c).1 = none ∨ ∃ l, (step st c).1 = some l := by
      cases (step st c).1 <;> simp
    · simp only [linesFrom, scanFrom, hs]; exact ih _
    · simp [linesFrom, scanFrom, hs, step_some_init hs]

theorem scanFrom_rest (s : Bytes) : ∀ st, ((scanFrom st s).eof = true → (scanFrom st s).rest = []) ∧
    ((scanFrom st s).eof = false → (scanFrom st s).rest.length < s.length) := by
  induction s with
  | nil => intro st; simp [scanFrom]
  | cons c r ih =>
    intro st
    simp only [scanFrom]
    cases hs : (step st c).1 with
    | none =>
      have := ih (step st c).2
      constructor
      · intro h; exact this.1 h
      · intro h; have := this.2 h; simp; omega
    | some l => simp

theorem iterLines_nil (n : Nat) : iterLines (n + 1) [] = some [] := by
  simp [iterLines, scan, scanFrom, flushLine, RS.init, LL.isEOF]

theorem iterLines_eq : ∀ (n : Nat) (s : Bytes), s.length < n → iterLines n s = some (linesFrom RS.init s) := by
  intro n
  induction n with
  | zero => intro s h; omega
  | succ n ih =>
    intro s h
    rw [scan_iterates s RS.init]
    simp only [iterLines, scan, LL.isEOF]
    have hr := scanFrom_rest s RS.init
    by_cases he : (scanFrom RS.init s).eof = true
    · have hrest := hr.1 he
      by_cases hl : (scanFrom RS.init s).line.isEmpty = true
      · simp [he, hl]
      · cases s with
        | nil => simp [scanFrom, flushLine, RS.init] at hl
        | cons c r =>
          have hn : n = (n - 1) + 1 := by simp at h; omega
          rw [hrest, hn, iterLines_nil]
          simp [he, hl]
    · have he' : (scanFrom RS.init s).eof = false := by simpa using he
      have hlt := hr.2 he'
      have := ih (scanFrom RS.init s).rest (by omega)
      simp [he', this]

/-! ### logical lines of raw bytes -/

theorem closed_iff (a : Bytes) : closed a = true ↔ pendAfter false a = false ∧ endState RS.init (decode a) = RS.init := by
  simp [closed]

theorem logicalLines_append' (a b : Bytes) (h : closed a = true) :
    logicalLines (a ++ b) = logicalLines a ++ logicalLines b := by
  have ⟨h1, h2⟩ := (closed_iff a).1 h
  simp only [logicalLines, decode_append a b h1]
  exact linesFrom_append (decode a) (decode b) RS.init h2

theorem readLines_append' (a b : Bytes) (h : closed a = true) : readLines (a ++ b) = readLines a ++ readLines b := by
  simp [readLines, logicalLines_append' a b h]

/-! ### simulations -/

theorem simsAux_append (la lb : List CLine) : ∀ cur, openAfter cur la = [] →
    simsAux cur (la ++ lb) = simsAux cur la ++ simsAux [] lb := by
  induction la with
  | nil => intro cur h; simp [openAfter] at h; subst h; simp [simsAux]
  | cons l r ih =>
    intro cur h
    simp only [openAfter] at h
    simp only [List.cons_append, simsAux]
    by_cases he : l.isEnd
    · simp only [he, if_true] at h ⊢
      simp [ih [] h]
    · simp only [he] at h ⊢
      simpa using ih (cur ++ [l]) h

theorem sims_append' (la lb : List CLine) (h : openAfter [] la = []) : sims (la ++ lb) = sims la ++ sims lb :=
  simsAux_append la lb [] h

theorem endBoundary_iff (a : Bytes) : endBoundary a = true ↔ closed a = true ∧ openAfter [] (readLines a) = [] := by
  simp [endBoundary, List.isEmpty_iff]

theorem simulations_append' (a b : Bytes) (h : endBoundary a = true) :
    simulations (a ++ b) = simulations a ++ simulations b := by
  have ⟨h1, h2⟩ := (endBoundary_iff a).1 h
  simp only [simulations, readLines_append' a b h1]
  exact sims_append' _ _ h2

/-! ### include files -/

theorem readLinesFS_append (fs : Bytes → Option Bytes) (d : Nat) (a b : Bytes) (h : closed a = true) :
    readLinesFS fs d (a ++ b) = readLinesFS fs d a ++ readLinesFS fs d b := by
  cases d <;> simp [readLinesFS, readLines_append' a b h]

theorem linesFS_append (fs : Bytes → Option Bytes) (d : Nat) (a b : Bytes) (h : closed a = true) :
    linesFS fs d (a ++ b) = linesFS fs d a ++ linesFS fs d b := by
  simp [linesFS, readLinesFS_append fs d a b h]

theorem endBoundaryFS_iff (fs : Bytes → Option Bytes) (d : Nat) (a : Bytes) :
    endBoundaryFS fs d a = true ↔ closed a = true ∧ openAfter [] (linesFS fs d a) = [] := by
  simp [endBoundaryFS, List.isEmpty_iff]

theorem simulationsFS_append' (fs : Bytes → Option Bytes) (d : Nat) (a b : Bytes) (h : endBoundaryFS fs d a = true) :
    simulationsFS fs d (a ++ b) = simulationsFS fs d a ++ simulationsFS fs d b := by
  have ⟨h1, h2⟩ := (endBoundaryFS_iff fs d a).1 h
  simp only [simulationsFS, linesFS_append fs d a b h1]
  exact sims_append' _ _ h2

/-- without include directives the file system is never consulted -/
theorem readLinesFS_noInclude (fs : Bytes → Option Bytes) (d : Nat) (s : Bytes) (h : ∀ l ∈ readLines s, l.incl = none) :
    readLinesFS fs d s = (readLines s).map Item.line := by
  cases d with
  | zero =>
    simp only [readLinesFS]
    apply List.map_congr_left
    intro l hl; simp [h l hl]
  | succ d =>
    simp only [readLinesFS]
    generalize readLines s = ls at h
    induction ls with
    | nil => rfl
    | cons l r ih =>
      have hl := h l (by simp)
      have hr : ∀ x ∈ r, x.incl = none := fun x hx => h x (by simp [hx])
      simp only [List.flatMap_cons, List.map_cons, hl]
      simpa using ih hr

end PhreeqcVerif.LineReader
