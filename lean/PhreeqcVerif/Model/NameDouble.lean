/-! Model of `cxxNameDouble` (NameDouble.cxx): a map name → number kept as an association list sorted by key
(`std::map` iteration order).  `get` is defined as the sum of the values stored under a key, so that it is also the
"amount of element e" of a plain contribution list; on the maps built by `add` each key occurs once. -/
namespace PhreeqcVerif.NameDouble

abbrev ND := List (String × Rat)

/-- `cxxNameDouble::add(key, v)`: accumulate under an existing key or insert in key order -/
def add : ND → String → Rat → ND
  | [], k, v => [(k, v)]
  | (k', v') :: t, k, v =>
    if k = k' then (k', v' + v) :: t
    else if k < k' then (k, v) :: (k', v') :: t
    else (k', v') :: add t k v

/-- amount stored under key `k` (0 when absent) -/
def get : ND → String → Rat
  | [], _ => 0
  | (k', v) :: t, k => (if k' = k then v else 0) + get t k

/-- `add_extensive(addee, factor)`: `this += factor * addee` (nothing happens for factor 0) -/
def addExtensive (m a : ND) (f : Rat) : ND :=
  if f = 0 then m else a.foldl (fun acc p => add acc p.1 (p.2 * f)) m

/-- `multiply(f)` -/
def multiply (m : ND) (f : Rat) : ND := m.map fun p => (p.1, p.2 * f)

/-- `elt_list_NameDouble` / `elt_list_combine`: the map of an element list (equal names summed, key order) -/
def ofList (l : List (String × Rat)) : ND := l.foldl (fun acc p => add acc p.1 p.2) []

/-- element a redox-state name belongs to: text before the first '(' ("C(4)" → "C"), as `master_bsearch_primary` does -/
def baseName (s : String) : String := String.ofList (s.toList.takeWhile (fun c => c != '('))

/-- merge redox-state keys into their element (what `add_solution` does with solution totals) -/
def mergeBase (m : ND) : ND := ofList (m.map fun p => (baseName p.1, p.2))

def keys (m : ND) : List String := m.map (·.1)

/-- decimal text of a dump (`-1.25e-3`, `12`, `.5`, `1E+05`) → exact rational; `none` when not a number -/
def parseDec (s : String) : Option Rat :=
  let cs := s.toList
  let (neg, cs) := match cs with
    | '-' :: t => (true, t)
    | '+' :: t => (false, t)
    | _ => (false, cs)
  let mant := cs.takeWhile (fun c => c != 'e' && c != 'E')
  let ex := (cs.dropWhile (fun c => c != 'e' && c != 'E')).drop 1
  let ip := mant.takeWhile (· != '.')
  let fp := (mant.dropWhile (· != '.')).drop 1
  if (ip ++ fp).isEmpty || !(ip ++ fp).all Char.isDigit then none else
  let dv (l : List Char) : Nat := l.foldl (fun a c => a * 10 + (c.toNat - 48)) 0
  let m : Rat := ((dv (ip ++ fp) : Nat) : Rat) / ((10 ^ fp.length : Nat) : Rat)
  let (eneg, ed) := match ex with
    | '-' :: t => (true, t)
    | '+' :: t => (false, t)
    | _ => (false, ex)
  if !ed.all Char.isDigit then none else
  if ed.isEmpty && mant.length != cs.length then none else
  let e := dv ed
  let v := if eneg then m / ((10 ^ e : Nat) : Rat) else m * ((10 ^ e : Nat) : Rat)
  some (if neg then -v else v)

end PhreeqcVerif.NameDouble
