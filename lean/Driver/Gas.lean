/-! `pmodel gas`: line-protocol driver (stub — replaced by the owner of this model). -/
namespace Driver.Gas

def run : IO Unit := IO.eprintln "pmodel gas: not implemented"

end Driver.Gas
