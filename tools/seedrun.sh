#!/bin/sh
# usage: tools/seedrun.sh C15 [props...] — confirm the seeded change in /tmp/mut/<id>, then run the checks against it (isolated)
id=$1; shift
[ $# -eq 0 ] && set -- $(echo $id | cut -c1-3)
cd "$(dirname "$0")/.."
python3 tools/seedtest.py confirm /tmp/mut/$id $id > /tmp/seedconfirm_$id.log 2>&1
python3 tools/seedtest.py check $id "$@" > /tmp/seed_$id.log 2>&1
git -C /repo worktree remove --force /tmp/mut/$id 2>/dev/null
