"""C17 — BASIC programs compute standard arithmetic, string and control-flow semantics.

(1) translator: tools/gen_basic.py regenerates Gen/BasicTokens.lean (token enumeration, keyword table, operator
    masks) from PBasic.h / PBasic.cpp; the Lean tokenizer uses that table and Properties/C17.lean proves the
    documented keywords and the mask/enumeration facts over it;
(2) proof obligations: Properties/C17.lean on the executable reference evaluator Model/Basic*.lean;
(3) correspondence: generated programs (valid + malformed mutants) run under USER_PUNCH, USER_PRINT, RATES and
    CALCULATE_VALUES on the real engine (each case in a forked child) and in `pmodel basic`; values at 1e-12
    relative, strings exact, error-vs-value must agree, a signal/exception is a crash;
(4) direct oracle on the implementation's own outputs: the four hosts agree with each other.
"""
import concurrent.futures as cf
import math
import re
import struct

import gen_basic
import vlib
from gens import basic as G
from vlib import shrink_list

HOSTS = ["punch", "print", "rates", "calc"]
FUEL = 20000
TIMEOUT = 20
MAX_PUNCH = 4000          # programs that punch more cells than this are not sent to the real engine

# fixed cases: the defects repaired during construction (fixed: lines of known_findings.txt) and quirks of DESIGN §6.5
CORPUS = [
    '10 PUNCH STR$(1e300), STR$(-1e255), STR$(1e254)\n20 PRINT 1e300, -1e256\n30 SAVE LEN(STR$(1e300))',
    '10 PUNCH MID$("abc", 5), MID$("abc", 4) + "|", MID$("abc", 9, 2) + "|", MID$("abcdef", 2, 3), MID$("abc", 0, 2), MID$("abc", 2, -1)\n20 SAVE 1',
    'READ x\n10 DATA 5\n20 SAVE 1',
    'PUNCH 1/0\n10 PUNCH 2\n20 SAVE 2',
    '10 PUNCH LEN(NO_NEWLINE$)\n20 PUNCH 3, NO_NEWLINE$ + "x", 4\n30 a$ = NO_NEWLINE$ : PUNCH a$ + "y", LEN(a$)\n40 PRINT "q", NO_NEWLINE$\n50 PRINT "r"\n60 SAVE 6',
    '10 PUNCH 2^3^2, -2^2, 2^-2, 0^-1, 0^0, 7 MOD 3, -7 MOD 3, 7.5 MOD 2, 1/0, 5 MOD 0\n20 SAVE -2^2',
    '10 PUNCH 1 AND 3, 5 OR 2, 7 XOR 2, NOT 0, NOT 1.6, 2.9 AND 3.9, -2.9 OR 0, 1 = 1 = 1, 3 > 2 > 1\n20 SAVE NOT 5',
    '10 FOR i = 1 TO 2 : FOR j = 1 TO 2 : PUNCH i*10+j : NEXT : NEXT\n20 FOR i = 1 TO 2 : FOR j = 1 TO 2 : PUNCH i*10+j : NEXT i\n30 PUNCH i, j\n40 SAVE i',
    '10 GOSUB 100 : PUNCH 2\n20 SAVE 3 : END\n100 PUNCH 1 : GOSUB 200 : RETURN\n200 PUNCH 1.5 : RETURN',
    '10 STOP',
    '10 DIM a(5) : k = 0\n20 FOR a(3) = 1 TO 3\n30 k = k + 1 : IF k = 1 THEN ERASE a\n40 PUNCH k, a\n50 NEXT\n60 PUNCH a : SAVE a',   # ERASE in a loop on an element: scalar cell
    '10 b(2) = 9 : FOR b(1) = 1 TO 2 : x = b(2) : NEXT : PUNCH b(1), b(2)\n20 FOR b(4) = 3 TO 1 STEP -1 : FOR j = 1 TO 2 : b(5) = b(5) + b(4) : NEXT j : NEXT b(1)\n30 PUNCH b(4), b(5) : SAVE b(5)',
    # element-to-element traffic inside one array: LET / READ / FOR keep their target although findvar re-points the
    # per-variable cell pointer at every reference (seeded C17b: string LET lost its save/restore)
    '10 DIM s$(5) : s$(1) = "a" : s$(2) = "b" : s$(3) = "c"\n20 s$(3) = s$(1) + s$(2) : s$(1) = s$(3) + s$(1) + s$(2)\n30 t$(4) = "x" : t$(5) = "y" : t$(6) = t$(4) + t$(5) : t$(4) = t$(4) + t$(6)\n40 PUNCH s$(1), s$(2), s$(3), t$(4), t$(5), t$(6)\n50 SAVE LEN(s$(1))',
    '10 DIM a(5), g(2, 2), w$(2, 2) : a(1) = 1 : a(2) = 2 : a(3) = 3\n20 a(3) = a(1) * 0.5 + a(2) : a(1) = a(3) - a(1) * a(2)\n30 g(1, 1) = 5 : g(2, 2) = 7 : g(1, 2) = g(1, 1) + g(2, 2) : w$(1, 1) = "p" : w$(2, 2) = "q" : w$(1, 2) = w$(1, 1) + w$(2, 2)\n40 PUNCH a(1), a(2), a(3), g(1, 2), g(2, 2), g(1, 1), w$(1, 2), w$(2, 2), w$(1, 1)\n50 SAVE a(1)',
    '10 DIM s$(5), a(5) : s$(1) = "a" : s$(2) = "b" : s$(3) = "c" : a(1) = 1 : a(2) = 2 : a(3) = 3\n20 READ s$(3), s$(1), a(3), a(1)\n30 DATA s$(1) + s$(2), s$(1) + "z" + s$(3), a(1) + a(2), a(1) * 10 + a(3)\n40 PUNCH s$(1), s$(2), s$(3), a(1), a(2), a(3)\n50 SAVE a(1)',
    '10 DIM a(5) : a(1) = 1 : a(2) = 4 : a(3) = 3\n20 FOR a(3) = a(1) TO a(2) : PUNCH a(1), a(2), a(3) : NEXT a(3)\n30 PUNCH a(1), a(2), a(3) : SAVE a(3)',
    '10 PUNCH LEN(NO_NEWLINE$) + 1\n20 a$ = NO_NEWLINE$ : PUNCH 1, 2\n30 PRINT NO_NEWLINE$, 5 : PRINT 6\n40 SAVE 1',   # 20e99f4a
    '10 PUNCH STR_F$(3.14159, 10, 3), STR_F$(2.5, -10, 0) + "|", STR_E$(-12345.678, 12, 4), STR_E$(0, 0, 0), STR_F$(0.5, 0, -1), STR_F$(1e300, 5, 2), STR_F$(1/3, 300, 20)\n20 SAVE LEN(STR_F$(1e300, 5, 2))',
    '10 PUNCH 0x10, 0x1A + 1, 0x.8, 0x1.8p3, 0x, 0xg, 0x1p, 0XfF, 0x1p-2\n20 SAVE 0x10',
    '10 DIM g(0, 4)\n20 PUNCH g(1)',
    '10 DIM g(3, 4)\n20 PUNCH g(1, 2, 3)',
    '922337203685477580 PUNCH 1\n922337203685477581 SAVE 1',
    '9999999999999999999 PUNCH 1',                       # 19+ digits: BASIC error (6d974611), never a hang
    '10 PUNCH (-2)^(-3), (-2)^(-2), (-1.5)^(-1), (-2)^3, (-2)^(-1) * (-3)^(-5)\n20 FOR k = -5 TO 5 : PUNCH (-1.5)^k : NEXT k\n30 SAVE (-2)^(-3)',
    '10 ON 0 GOSUB 100\n20 ON 5 GOTO 100, 200\n30 ON 2.5 GOTO 100, 200, 300\n40 PUNCH 40\n100 PUNCH 100\n200 PUNCH 200\n300 PUNCH 300 : RETURN',
    '10 DATA 1, 2 : DATA 3\n20 READ a : RESTORE 40 : READ b : RESTORE : READ c, d, e\n30 PUNCH a, b, c, d, e\n40 REM x : DATA 9\n50 DATA 4, "s"\n60 READ f, g$ : PUNCH f, g$ : READ h',
    '10 PUT$(PAD("x", 300), 1)\n20 a$ = GET$(1)\n30 PUNCH LEN(a$), a$\n40 PUT$(PAD("y", 256), 2) : SAVE LEN(GET$(2))',
    '10 PUNCH 1\n20 PUNCH "a" + 1',
]
# documented ("standard") values, independent of the model and of the generated tables: the failing-input search
# of protocol P (e.g. a keyword bound to the wrong token makes model and code agree with each other)
GOLDEN = [
    # FOR on an array element runs on the designated cell whatever body / limit / step reference (af19d591)
    ('10 DIM a(5) : a(1) = 10\n20 FOR a(3) = 1 TO 2 : PUNCH a(3), a(1) : NEXT\n30 PUNCH a(1), a(3)', [1, 10, 2, 10, 10, 3]),
    ('10 DIM a(5) : a(2) = 0\n20 FOR a(3) = 1 TO a(2) : PUNCH a(3) : NEXT a(3)\n30 PUNCH a(2), a(3)', [0, 1]),
    ('10 DIM a(5) : a(2) = 5\n20 FOR a(3) = 1 TO 3 STEP a(2) - 4 : PUNCH a(3) : NEXT a(3)\n30 PUNCH a(2), a(3)', [1, 2, 3, 5, 4]),
    ('10 DIM s$(5), a(5) : s$(1) = "a" : s$(2) = "b" : s$(3) = "c" : a(1) = 1 : a(2) = 2\n20 s$(3) = s$(1) + s$(2) : a(3) = a(1) * 0.5 + a(2)\n30 t$(6) = "x" : t$(4) = t$(6) + t$(6) : t$(5) = t$(4) + t$(6)\n40 READ s$(1), a(1) : PUNCH s$(1), s$(2), s$(3), a(1), a(2), a(3), t$(4), t$(5), t$(6)\n50 DATA s$(3) + s$(2), a(3) + a(2)',
     ["abb", "b", "ab", 4.5, 2, 2.5, "xx", "xxx", "x"]),
    ('10 PUNCH 7 XOR 2, 6 AND 3, 6 OR 3, NOT 0, 1 < 2, 2 <= 2, 3 <> 3, 2 >= 3, 1 = 1, 5 > 4', [5, 2, 7, -1, 1, 1, 0, 0, 1, 1]),
    ('10 PUNCH (-2)^(-3), (-2)^3, (-2)^(-2), (-3)^(-1), 2^(-1), (-1)^(-5)', [-0.125, -8, 0.25, -1/3, 0.5, -1]),
    ('10 PUNCH STR_F$(3.14159, 8, 2), STR_E$(1234.5, 10, 2), STR_F$(2.5, 0, 0), 0x10 + 0x.8', ["    3.14", "  1.23e+03", "2", 16.5]),
    ('10 PUNCH 1 + 2 * 3, (1 + 2) * 3, 8 / 4 / 2, 2 - 3 - 4, 10 - 2 * 3 + 1, 1 < 2 AND 2 < 3, 1 OR 0 AND 0', [7, 9, 1, -5, 5, 1, 1]),
    ('10 PUNCH ABS(-3), SGN(-2), SGN(0), FLOOR(2.7), CEIL(2.1), FLOOR(-2.5), SQRT(16), EXP(0), LOG(1), LOG10(1000), SIN(0), COS(0), ARCTAN(0)',
     [3, -1, 0, 2, 3, -3, 4, 1, 0, 3, 0, 1, 0]),
    ('10 PUNCH LEN("hello"), ASC("A"), INSTR("hello", "ll"), INSTR("hello", "z"), VAL("12.5"), LEN(TRIM("  a b  ")), LEN(LTRIM("  a ")), LEN(RTRIM(" a  ")), LEN(PAD("ab", 5))',
     [5, 65, 3, 0, 12.5, 3, 2, 2, 5]),
    ('10 PUNCH CHR$(65) + "b", MID$("abcdef", 2, 3), MID$("abcdef", 4), "a" + "b" = "ab", "a" < "b", "b" < "a"', ["Ab", "bcd", "def", 1, 1, 0]),
    ('10 FOR i = 1 TO 3 : PUNCH i : NEXT i\n20 FOR i = 3 TO 1 STEP -1 : PUNCH i : NEXT i\n30 FOR i = 1 TO 2 STEP 0.5 : PUNCH i : NEXT i\n40 PUNCH i',
     [1, 2, 3, 3, 2, 1, 1, 1.5, 2, 2.5]),
    ('10 i = 0\n20 WHILE i < 3\n30 i = i + 1 : PUNCH i\n40 WEND\n50 IF i = 3 THEN PUNCH 10 ELSE PUNCH 20\n60 IF i = 4 THEN PUNCH 30 ELSE PUNCH 40\n70 IF i THEN 90\n80 PUNCH 80\n90 PUNCH 90',
     [1, 2, 3, 10, 40, 90]),
    ('10 GOSUB 100 : PUNCH 2\n20 ON 2 GOTO 40, 50, 60\n40 PUNCH 40\n50 PUNCH 50\n60 ON 1 GOSUB 200 : PUNCH 61\n70 END\n100 PUNCH 1 : GOSUB 200 : RETURN\n200 PUNCH 200 : RETURN',
     [1, 200, 2, 50, 200, 61]),
    ('10 DATA 1, "two", 3\n20 READ a, b$, c : PUNCH a, b$, c\n30 RESTORE : READ d : PUNCH d\n40 DATA 4\n50 READ e$, f, g : PUNCH e$, f, g', [1, "two", 3, 1, "two", 3, 4]),
    ('10 DIM a(3), b$(2) : a(1) = 5 : a(3) = 7 : b$(2) = "x" : PUNCH a(0), a(1), a(3), b$(2), c(10)\n20 PUT(2.5, 1, 2) : PUT$("s", 3) : PUNCH GET(1, 2), GET(2, 1), GET$(3)',
     [0, 5, 7, "x", 0, 2.5, 0, "s"]),
]
PEEKPOKE = ['10 PUNCH PEEK(8)', '10 POKE 8, 1']



def unhex(h):
    return "" if h == "-" else bytes.fromhex(h).decode("latin1")


def dec_item(it):
    if it[0] == "D":
        return struct.unpack(">d", bytes.fromhex(it[1:]))[0]
    if it[0] in "ST":
        return unhex(it[1:])
    return ("?", it)


def run_model(ctx, cases):
    """cases: list of (key, hp, text) → {key: dict}"""
    def parse(out, cs):
        res = {}
        for line in out:
            parts = line.split(" | ")
            w = parts[0].split()
            if len(parts) < 4:
                raise RuntimeError("pmodel basic: bad line " + line[:200])
            res[cs[int(w[1])][0]] = dict(status=w[2], kind=w[3], ub=w[4] == "ub=1", warn=int(w[5].split("=")[1]),
                                         punch=[dec_item(x) for x in parts[1].split()], text=dec_item(parts[2]),
                                         save=None if parts[3].strip() == "none" else dec_item(parts[3].strip()))
        return res

    def chunk(cs):
        inp = "".join(f"{i} {hp} {FUEL} {(t.encode('latin1').hex() or '-')}\n" for i, (_, hp, t) in enumerate(cs))
        try:
            return parse(ctx.pmodel("basic", inp, timeout=900 if len(cs) > 1 else 90), cs)
        except Exception:
            if len(cs) == 1:
                # the reference evaluator itself gave up on this program (memory / time): counted, not judged
                ctx.cov["model_gave_up"] = ctx.cov.get("model_gave_up", 0) + 1
                return {cs[0][0]: dict(status="fuel", kind="modelcrash", ub=False, warn=0, punch=[], text="", save=None)}
            res = {}
            for c in cs:
                res.update(chunk([c]))
            return res
    CH = max(1, min(200, len(cases) // vlib.NCPU + 1))
    out = {}
    with cf.ThreadPoolExecutor(vlib.NCPU) as ex:
        for r in ex.map(chunk, [cases[i:i + CH] for i in range(0, len(cases), CH)]):
            out.update(r)
    return out


def run_model_hist(ctx, cases):
    """cases: list of (key, textA, textB[, textC…]) → {key: [m1, m2, …]} (each program runs in the engine state the
    previous one left: `carryOver`)"""
    out = {}
    if not cases:
        return out

    def chunk(cs):
        inp = "".join(f"H {i} 0 {FUEL} " + " ".join((t.encode('latin1').hex() or '-') for t in c[1:]) + "\n"
                      for i, c in enumerate(cs))
        res = {}
        try:
            lines = ctx.pmodel("basic", inp, timeout=900)
        except Exception:
            return {c[0]: None for c in cs}
        for line in lines:
            parts = line.split(" | ")
            w = parts[0].split()
            if len(parts) < 4:
                continue
            idx, part = w[1].split(".")
            m = dict(status=w[2], kind=w[3], ub=w[4] == "ub=1", punch=[dec_item(x) for x in parts[1].split()])
            res.setdefault(cs[int(idx)][0], []).append(m)
        return res
    CH = max(1, min(100, len(cases) // vlib.NCPU + 1))
    with cf.ThreadPoolExecutor(vlib.NCPU) as ex:
        for r in ex.map(chunk, [cases[i:i + CH] for i in range(0, len(cases), CH)]):
            out.update(r)
    return out


def judge_hist(ms, real):
    """two simulations in one engine: USER_PUNCH A (row 1), then USER_PUNCH redefined as B (row 2)"""
    st = real["status"]
    if not ms:
        return None
    if any(m["kind"] in ("resource", "modelcrash") for m in ms):
        return None
    if st.startswith("sig") or st in ("exc", "lost") or st.startswith("exit"):
        return f"crash: real engine ended with {st} in a two-simulation history"
    if any(m["status"] == "fuel" or m["kind"].startswith("unsupported") or m["kind"] == "valdepth" for m in ms):
        return None
    if st == "timeout":
        return "hang: real engine exceeded the time limit in a two-simulation history, reference evaluation terminates"
    ref_err = any(m["status"] == "err" for m in ms)
    if ref_err:
        return None if st != "ok" else "history: reference gives a BASIC error, real engine delivers values"
    if st != "ok":
        return "history: real engine reports an error, reference evaluation delivers values: " + real["err"][:200]
    rows, cur = [], []
    for x in real["items"]:
        if isinstance(x, tuple):
            rows.append(cur)
            cur = []
        else:
            cur.append(x)
    want = [m["punch"] for m in ms]
    if len(rows) != len(want):
        return f"history: {len(rows)} rows punched, reference {len(want)}"
    for r, (a, b) in enumerate(zip(rows, want)):
        if len(a) != len(b):
            return f"history row {r + 1}: PUNCH count differs: real {len(a)} reference {len(b)}"
        for i, (x, y) in enumerate(zip(a, b)):
            if not close(x, y):
                return f"history row {r + 1}: PUNCH value {i + 1} differs: real {x!r} reference {y!r} (variables / store / DATA pointer across programs)"
    return None


def run_real(ctx, exe, cases, tmo=None):
    """cases: list of (key, host, text) → {key: dict(status, items, err)}"""
    db = str(vlib.REPO / "database" / "phreeqc.dat")
    tmo = tmo or TIMEOUT

    def chunk(cs):
        inp = "".join(f"{i} {h} {(t.encode('latin1').hex() or '-')}\n" for i, (_, h, t) in enumerate(cs))
        r = ctx.run_harness(exe, inp, args=[db, str(tmo)], timeout=tmo * len(cs) + 600)
        res = {}
        for line in r.stdout.splitlines():
            if not line.startswith("R "):
                if line.startswith("FATAL"):
                    raise RuntimeError(line)
                continue
            parts = line.split(" | ")
            w = parts[0].split()
            res[cs[int(w[1])][0]] = dict(status=w[3], items=[dec_item(x) for x in w[4:]],
                                         err=unhex(parts[1]) if len(parts) > 1 else "")
        for k, _, _ in cs:
            res.setdefault(k, dict(status="lost", items=[], err=r.stderr[-300:]))
        return res
    CH = max(1, min(100, len(cases) // vlib.NCPU + 1))
    out = {}
    with cf.ThreadPoolExecutor(vlib.NCPU) as ex:
        for r in ex.map(chunk, [cases[i:i + CH] for i in range(0, len(cases), CH)]):
            out.update(r)
    return out


def close(a, b, tol=1e-12):
    if isinstance(a, str) and isinstance(b, str):
        # the sign printf gives a NaN is not part of the value (the model carries one canonical NaN)
        return a == b or a.replace("-nan", " nan") == b.replace("-nan", " nan")
    if isinstance(a, str) or isinstance(b, str):
        return False
    if isinstance(a, tuple) or isinstance(b, tuple):
        return False
    if a != a or b != b:
        return a != a and b != b
    if a == b:
        return True
    if math.isinf(a) or math.isinf(b):
        return False
    return abs(a - b) <= tol * max(abs(a), abs(b)) or abs(a - b) <= 1e-300


def text_close(a, b, hp=False):
    """PRINT text: equal, or equal up to the sign of NaN and one unit in the last printed digit"""
    a = a.replace("-nan", " nan")
    b = b.replace("-nan", " nan")
    if a == b:
        return True
    ta, tb = a.split(" "), b.split(" ")
    if len(ta) != len(tb):
        return False
    for x, y in zip(ta, tb):
        if x == y:
            continue
        try:
            if not close(float(x), float(y), 2e-12 if hp else 2e-4):
                return False
        except ValueError:
            return False
    return True


ERR_CLASS = [("Type mismatch", "type"), ("Syntax_error", "syntax"), ("Bad subscript", "subscript"), ("Undefined line", "undefline"),
             ("FOR without NEXT", "for-wo-next"), ("NEXT without FOR", "next-wo-for"), ("WHILE without WEND", "while-wo-wend"),
             ("WEND without WHILE", "wend-wo-while"), ("RETURN without GOSUB", "return-wo-gosub"), ("Out of Data", "out-of-data"),
             ("Extra information", "extra"), ("already dimensioned", "array-already"), ("Illegal command", "illegal"),
             ("missing \" or '", "lex-quote"), ("missing ) or ]", "lex-rp"), ("missing ( or [", "lex-lp"), ("not SAVEed", "not-saved"), ("line number is too large", "line-too-large")]


def err_class(text):
    for pat, c in ERR_CLASS:
        if pat in text:
            return c
    return "stop" if "in BASIC line" in text else "other"


def judge(m, real, host, hp=False):
    """compare the model result m with the real result for one host; None = agree / not judged, else text"""
    st = real["status"]
    if m["kind"] in ("resource", "modelcrash"):
        return None          # strings / arrays beyond the size the model builds: memory exhaustion is not judged
    if st.startswith("sig") or st in ("exc", "lost") or st.startswith("exit"):
        return f"crash: real engine ended with {st} under {host}"
    unjudged = m["status"] == "fuel" or m["kind"].startswith("unsupported") or m["kind"] in ("resource", "valdepth")
    if unjudged:
        return None
    if st == "timeout":
        return f"hang: real engine exceeded {TIMEOUT}s under {host}, reference evaluation terminates"
    if m["status"] == "err":
        if st == "ok":
            return f"malformed program: reference gives BASIC error ({m['kind']}), real engine delivers values under {host}"
        return None
    # reference evaluation delivers values
    if host in ("punch", "punchhp"):
        if st != "ok":
            return f"real engine reports an error under {host}, reference evaluation delivers values: {real['err'][:200]}"
        if "!events" in [x[1] if isinstance(x, tuple) else None for x in real["items"]]:
            return "selected-output table differs from the PUNCH call sequence"
        if len(real["items"]) != len(m["punch"]):
            return f"PUNCH count differs under {host}: real {len(real['items'])} reference {len(m['punch'])}"
        for i, (a, b) in enumerate(zip(real["items"], m["punch"])):
            if not close(a, b):
                return f"PUNCH value {i + 1} differs under {host}: real {a!r} reference {b!r}"
        return None
    if host == "print":
        if st != "ok":
            return f"real engine reports an error under USER_PRINT, reference evaluation delivers values: {real['err'][:200]}"
        got = real["items"][0] if real["items"] else ""
        if not text_close(got, m["text"], hp):
            return f"PRINT text differs: real {got[:200]!r} reference {m['text'][:200]!r}"
        return None
    # rates / calc: the last SAVE value; no (or NaN) SAVE is an error of the host
    sv = m["save"]
    if sv is None or sv != sv:
        if st == "ok":
            return f"{host}: nothing SAVEd in the reference evaluation, real engine delivers {real['items']!r}"
        return None
    if st != "ok":
        return f"real engine reports an error under {host}, reference evaluation SAVEs {sv!r}: {real['err'][:200]}"
    vals = [x for x in real["items"] if not isinstance(x, tuple)]
    if len(vals) != 1 or not close(vals[0], sv):
        return f"SAVE value differs under {host}: real {real['items']!r} reference {sv!r}"
    return None


def hosts_oracle(reals):
    """property statement on the implementation's own outputs: the hosts agree with each other"""
    if any(r["status"] not in ("ok", "err") for r in reals.values()):
        return None
    ep, eq, er, ec = (reals[h]["status"] == "err" for h in HOSTS)
    if ep != eq:
        return f"USER_PUNCH {'fails' if ep else 'succeeds'} but USER_PRINT {'fails' if eq else 'succeeds'} on the same program"
    if er != ec:
        return f"RATES {'fails' if er else 'succeeds'} but CALCULATE_VALUES {'fails' if ec else 'succeeds'}"
    if ep and not er:
        return "USER_PUNCH fails but RATES delivers a value"
    if not er:
        a = [x for x in reals["rates"]["items"] if not isinstance(x, tuple)]
        b = [x for x in reals["calc"]["items"] if not isinstance(x, tuple)]
        if len(a) != 1 or len(b) != 1 or not close(a[0], b[0]):
            return f"SAVE value differs between RATES {a!r} and CALCULATE_VALUES {b!r}"
    return None


def ub_excused(m, problem):
    """a difference after a C conversion with undefined behaviour ((long) of NaN / out of range) is not judged;
    a crash or hang always is"""
    return bool(m["ub"]) and not problem.startswith(("crash", "hang"))


def check_program(ctx, exe, text, hosts=HOSTS, with_hp=False):
    """full comparison of one program; returns list of problems"""
    mcases = [("m0", 0, text)] + ([("m1", 1, text)] if with_hp else [])
    ms = run_model(ctx, mcases)
    rcases = [(h, h, text) for h in hosts] + ([("punchhp", "punchhp", text)] if with_hp else [])
    rs = run_real(ctx, exe, rcases)
    probs = []
    for h in hosts:
        p = judge(ms["m0"], rs[h], h)
        if p and not ub_excused(ms["m0"], p):
            probs.append(p)
    if with_hp:
        p = judge(ms["m1"], rs["punchhp"], "punchhp", True)
        if p and not ub_excused(ms["m1"], p):
            probs.append(p)
    if set(hosts) == set(HOSTS) and ms["m0"]["status"] != "fuel":
        p = hosts_oracle({h: rs[h] for h in HOSTS})
        if p:
            probs.append("hosts disagree: " + p)
    return probs, ms, rs


def setup_generator():
    enum, table = gen_basic.extract()[:2]
    G.set_keywords([k for k, _ in table])


def make_programs(ctx, n):
    rng = ctx.rng
    progs = []
    sizes = [3, 6, 10, 15, 25, 40, 60]
    for i in range(n):
        size = rng.choice(sizes)
        if rng.random() < (0.02 if ctx.tier == "quick" else 0.01):
            size = rng.choice([120, 200, 300])
        deep = ctx.tier == "thorough" and rng.random() < 0.12
        if deep:
            size = rng.choice([80, 150, 250, 400])
        lines, hist = G.gen_program(rng, size, max_depth=6 if deep else 3)
        if deep:
            hist = dict(hist, **{"deep-program": 1})
        kind = "valid"
        if rng.random() < 0.3:
            lines, kind = G.mutate(rng, lines)
            kind = "mutant:" + kind
        progs.append(dict(text="\n".join(lines), kind=kind, hist=hist, nlines=len(lines)))
    return progs


def run(ctx):
    gen_basic.generate(ctx)
    ok = ctx.prove(["PhreeqcVerif.Properties.C17"])
    ctx.build_lib()
    exe = ctx.build_harness("ph_basic")
    setup_generator()
    import os
    n = int(os.environ.get("VERIF_C17_N", ctx.n(300, 30000)))
    if not ok:
        n = max(n, 6000)
    # ---- known finding: PEEK / POKE dereference their argument (excluded from every generated program)
    for text in PEEKPOKE:
        rs = run_real(ctx, exe, [("p", "punch", text)])
        if rs["p"]["status"].startswith("sig"):
            ctx.finding("basic-peek-poke", f"BASIC PEEK/POKE dereference an arbitrary address: {text!r} ends with {rs['p']['status']}",
                        {"program": text, "hosts": ["punch"]})
    # ---- documented values on the real engine (and on the model)
    gm = run_model(ctx, [(i, 0, t) for i, (t, _) in enumerate(GOLDEN)])
    gr = run_real(ctx, exe, [(i, "punch", t) for i, (t, _) in enumerate(GOLDEN)])
    for i, (t, want) in enumerate(GOLDEN):
        got = gr[i]["items"]
        okr = gr[i]["status"] == "ok" and len(got) == len(want) and all(close(a, float(b) if not isinstance(b, str) else b, 1e-9) for a, b in zip(got, want))
        gotm = gm[i]["punch"]
        okm = gm[i]["status"] == "ok" and len(gotm) == len(want) and all(close(a, float(b) if not isinstance(b, str) else b, 1e-9) for a, b in zip(gotm, want))
        if not okr:
            ctx.violation("documented value: the real engine does not deliver the standard result",
                          {"program": t, "hosts": ["punch"], "expected": [repr(x) for x in want], "real": [repr(x) for x in got],
                           "real_status": gr[i]["status"], "real_err": gr[i]["err"][:300]})
            break
        if not okm:
            ctx.violation("documented value: the reference evaluator (model) does not deliver the standard result",
                          {"program": t, "expected": [repr(x) for x in want], "model": [repr(x) for x in gotm]}, found_input=False)
            break
    ctx.cov["golden_programs"] = len(GOLDEN)
    # ---- fixed two-simulation histories: variables cleared, DATA pointer restored, PUT store and punch flags kept
    HIST = [('10 PUT(5, 1) : PUT$("s", 2) : x = 3 : DIM q(4) : q(2) = 8 : PUNCH x, GET(1), q(2)\n20 DATA 7, 8\n30 READ d : PUNCH d',
             '10 PUNCH x, GET(1), GET$(2), q(2), 9\n20 READ e : PUNCH e\n30 DATA 6'),
            ('10 FOR i = 1 TO 3 : GOSUB 100 : NEXT i\n20 PUT(i, 7) : END\n100 PUNCH i : RETURN', '10 PUNCH GET(7), i\n20 NEXT i'),
            ('10 a$ = NO_NEWLINE$ : b$ = EOL_NOTAB$ : PUNCH 1, 2', '10 PUNCH 2, 3'),
            ('10 PUNCH 1 : c$ = NO_NEWLINE$', '10 PUNCH 2.5, 3'),
            ('10 b$ = EOL_NOTAB$ : PUNCH 1 : c$ = NO_NEWLINE$', '10 PUNCH "skipped too", 3')]
    hm = run_model_hist(ctx, [(i, a, b) for i, (a, b) in enumerate(HIST)])
    hr = run_real(ctx, exe, [(i, "hist", a + "\n@@\n" + b) for i, (a, b) in enumerate(HIST)])
    for i, (a, b) in enumerate(HIST):
        pr = judge_hist(hm.get(i), hr[i])
        if pr and not ctx.violations:
            ctx.violation(pr, {"program": a, "program_b": b, "hosts": ["hist"]})
    # ---- fixed multi-program simulations: same line numbers, jump targets and variable names in every program
    MULTI = [
        ['10 s = 0 : i = 0\n20 i = i + 1 : s = s + i\n40 IF i < 3 THEN GOTO 20\n50 PUNCH s, i',
         '10 s = 100 : i = 0\n20 i = i + 1 : s = s + 10 * i\n30 q = s\n40 IF i < 4 THEN GOTO 20\n50 PUNCH s, i, q'],
        ['10 t = 1 : GOSUB 100 : PUNCH t\n20 END\n100 t = t * 2 : RETURN',
         '10 t = 5 : GOSUB 100 : PUNCH t, 7\n20 END\n90 t = -1\n100 t = t + 1 : RETURN',
         '10 ON 2 GOTO 90, 100\n20 PUNCH 20\n90 PUNCH 90\n100 PUNCH 100'],
        ['10 RESTORE 40 : READ a : PUNCH a\n30 DATA 1\n40 DATA 2',
         '10 RESTORE 40 : READ a, b : PUNCH a, b\n40 DATA 7, 8\n50 FOR k = 1 TO 2 : PUNCH k : NEXT k'],
    ]
    mm = run_model_hist(ctx, [(i,) + tuple(c) for i, c in enumerate(MULTI)])
    mr = run_real(ctx, exe, [(i, "multi", "\n@@\n".join(c)) for i, c in enumerate(MULTI)])
    for i, c in enumerate(MULTI):
        pr = judge_hist(mm.get(i), mr[i])
        if pr and not ctx.violations:
            ctx.violation(pr.replace("history", "programs of one simulation"), {"program": c[0], "programs": c, "hosts": ["multi"]})
    progs = [dict(text=t, kind="corpus", hist={}, nlines=t.count("\n") + 1) for t in CORPUS] + make_programs(ctx, n)
    stats = dict(programs=len(progs), judged_pairs=0, value_cells=0, ref_ok=0, ref_err=0, ref_fuel=0, ref_unsupported=0, ref_ub=0,
                 skipped_large=0, real_timeouts=0, histories=0, multi_program_runs=0, multi_family_runs=0, ub_differences_not_judged=0, error_class_same=0, error_class_other=0, hp_programs=0)
    construct = {}
    kinds = {}
    lines_hist = {}
    errk = {}
    distinct = set()
    class_diffs = []
    BATCH = 1500
    for b0 in range(0, len(progs), BATCH):
        batch = progs[b0:b0 + BATCH]
        hp_flags = [ctx.rng.random() < 0.15 for _ in batch]
        mcases = [((i, 0), 0, p["text"]) for i, p in enumerate(batch)] + \
                 [((i, 1), 1, p["text"]) for i, p in enumerate(batch) if hp_flags[i]]
        ms = run_model(ctx, mcases)
        ctx.log(f"batch {b0}: reference evaluation of {len(mcases)} runs done")
        rcases, slow = [], []
        for i, p in enumerate(batch):
            m = ms[(i, 0)]
            if len(m["punch"]) > MAX_PUNCH:
                stats["skipped_large"] += 1
                continue
            # reference out of fuel (probably an endless loop): only "no crash" is checked, with a short time limit
            dest = slow if m["status"] == "fuel" else rcases
            for h in HOSTS:
                dest.append(((i, h), h, p["text"]))
            if hp_flags[i]:
                dest.append(((i, "punchhp"), "punchhp", p["text"]))
        rs = run_real(ctx, exe, rcases)
        if slow:
            rs.update(run_real(ctx, exe, slow, tmo=2))
        # histories: program i, then (USER_PUNCH redefined in the next simulation of the same engine) program j
        hist = []
        for i, p in enumerate(batch):
            m = ms[(i, 0)]
            if m["status"] == "ok" and len(m["punch"]) < 400 and ctx.rng.random() < 0.2:
                j = i if ctx.rng.random() < 0.4 else ctx.rng.randrange(len(batch))
                if len(ms[(j, 0)]["punch"]) < 400 and ms[(j, 0)]["status"] != "fuel":
                    hist.append(((i, j), p["text"], batch[j]["text"]))
        hm = run_model_hist(ctx, hist)
        hr = run_real(ctx, exe, [(k, "hist", a + "\n@@\n" + b) for k, a, b in hist]) if hist else {}
        # several programs in ONE simulation (USER_PUNCH 1..k): the engine has a single interpreter and swaps the line
        # list / variables per program; lines, variables, loop stack, DATA pointer must be per program
        multi = []
        for i, p in enumerate(batch):
            m = ms[(i, 0)]
            if m["status"] == "ok" and len(m["punch"]) < 400 and ctx.rng.random() < 0.12:
                others = [i if ctx.rng.random() < 0.35 else ctx.rng.randrange(len(batch)) for _ in range(ctx.rng.choice([1, 1, 2]))]
                if all(len(ms[(j, 0)]["punch"]) < 400 and ms[(j, 0)]["status"] != "fuel" for j in others):
                    multi.append((("m", i) + tuple(others), p["text"]) + tuple(batch[j]["text"] for j in others))
        for f in range(max(4, len(batch) // 12)):             # families sharing line numbers, jump targets, variable names
            fam = G.gen_jump_family(ctx.rng, ctx.rng.choice([2, 2, 3, 4]))
            multi.append((("f", b0, f),) + tuple(fam))
        mm = run_model_hist(ctx, multi)
        mr = run_real(ctx, exe, [(c[0], "multi", "\n@@\n".join(c[1:])) for c in multi]) if multi else {}
        for c in multi:
            stats["multi_program_runs"] += 1
            stats["multi_family_runs"] += c[0][0] == "f"
            pr = judge_hist(mm.get(c[0]), mr[c[0]])
            if pr and any(m["ub"] for m in mm[c[0]]) and not pr.startswith(("crash", "hang")):
                stats["ub_differences_not_judged"] += 1
            elif pr and not ctx.violations:
                ctx.violation(pr.replace("history", "programs of one simulation"),
                              {"program": c[1], "programs": list(c[1:]), "hosts": ["multi"],
                               "reference": [{"status": m["status"], "kind": m["kind"], "punch": [repr(x) for x in m["punch"][:40]]} for m in mm[c[0]]],
                               "real": {"status": mr[c[0]]["status"], "items": [repr(x) for x in mr[c[0]]["items"][:80]], "err": mr[c[0]]["err"][:300]}})
        for k, a, b in hist:
            stats["histories"] += 1
            pr = judge_hist(hm.get(k), hr[k])
            if pr and any(m["ub"] for m in hm[k]) and not pr.startswith(("crash", "hang")):
                stats["ub_differences_not_judged"] += 1
            elif pr and not ctx.violations:
                ctx.violation(pr, {"program": a, "program_b": b, "hosts": ["hist"],
                                   "reference": [{"status": m["status"], "kind": m["kind"], "punch": [repr(x) for x in m["punch"][:40]]} for m in hm[k]],
                                   "real": {"status": hr[k]["status"], "items": [repr(x) for x in hr[k]["items"][:80]], "err": hr[k]["err"][:300]}})
        ctx.log(f"batch {b0}: {len(rcases)} real-engine runs done")
        for i, p in enumerate(batch):
            m = ms[(i, 0)]
            kinds[p["kind"].split("/")[0]] = kinds.get(p["kind"].split("/")[0], 0) + 1
            lb = "≤5" if p["nlines"] <= 5 else "≤20" if p["nlines"] <= 20 else "≤60" if p["nlines"] <= 60 else "≤150" if p["nlines"] <= 150 else ">150"
            lines_hist[lb] = lines_hist.get(lb, 0) + 1
            for k, v in p["hist"].items():
                construct[k] = construct.get(k, 0) + v
            if (i, "punch") not in rs:
                continue
            if m["status"] == "fuel":
                stats["ref_fuel"] += 1
            elif m["kind"].startswith("unsupported") or m["kind"] in ("resource", "valdepth"):
                stats["ref_unsupported"] += 1
            elif m["status"] == "err":
                stats["ref_err"] += 1
                errk[m["kind"]] = errk.get(m["kind"], 0) + 1
                rc = err_class(rs[(i, "punch")]["err"])
                stats["error_class_same" if rc == m["kind"] else "error_class_other"] += 1
                if rc != m["kind"] and len(class_diffs) < 12:
                    class_diffs.append({"program": p["text"][-700:], "reference": m["kind"], "real": rc,
                                        "real_text": rs[(i, "punch")]["err"][:300]})
            else:
                stats["ref_ok"] += 1
                stats["ref_ub"] += m["ub"]
                stats["value_cells"] += len(m["punch"]) + (m["save"] is not None)
            problems = []
            for h in HOSTS:
                r = rs[(i, h)]
                stats["real_timeouts"] += r["status"] == "timeout"
                pr = judge(m, r, h)
                stats["judged_pairs"] += 1
                if pr and ub_excused(m, pr):
                    stats["ub_differences_not_judged"] += 1
                elif pr:
                    problems.append(pr)
            if hp_flags[i]:
                stats["hp_programs"] += 1
                pr = judge(ms[(i, 1)], rs[(i, "punchhp")], "punchhp", True)
                stats["judged_pairs"] += 1
                if pr and ub_excused(ms[(i, 1)], pr):
                    stats["ub_differences_not_judged"] += 1
                elif pr:
                    problems.append(pr)
            if m["status"] != "fuel":
                pr = hosts_oracle({h: rs[(i, h)] for h in HOSTS})
                if pr:
                    problems.append("hosts disagree: " + pr)
            if m["status"] in ("ok", "err") and not m["kind"].startswith("unsupported"):
                distinct.add(hash(p["text"]))
            if problems and not ctx.violations:
                report(ctx, exe, p, problems)
            if len(ctx.cov["samples"]) < 3 and m["status"] == "ok" and 1 <= len(m["punch"]) <= 6 and p["kind"] == "valid":
                ctx.sample({"program": p["text"][:600], "punch_real": [repr(x) for x in rs[(i, "punch")]["items"]],
                            "save_real": [repr(x) for x in rs[(i, "rates")]["items"]]})
        if ctx.violations:
            break
    ctx.cov["evaluations"] = stats["judged_pairs"]
    ctx.cov["distinct_nontrivial"] = len(distinct)
    ctx.cov["stats"] = stats
    ctx.cov["program_kinds"] = dict(sorted(kinds.items()))
    ctx.cov["program_lines_histogram"] = lines_hist
    ctx.cov["construct_histogram"] = dict(sorted(construct.items()))
    ctx.cov["reference_error_kinds"] = dict(sorted(errk.items()))
    ctx.cov["error_class_differences"] = class_diffs
    ctx.cov["rule"] = ("programs generated from the documented grammar by tools/gens/basic.py (all seven expression levels with minimal and "
                       "redundant parentheses, literal spellings and edge values, string functions, scalars/arrays, IF/THEN/ELSE, FOR/NEXT/STEP "
                       "with computed bounds, WHILE/WEND, forward GOTO, ON..GOTO/GOSUB, nested GOSUB/RETURN, DATA/READ/RESTORE, PUT/GET, "
                       "PUNCH/PRINT/SAVE; up to ~300 lines); 30% get one malformed-program mutation. Every program runs under USER_PUNCH "
                       "(GetSelectedOutputValue), USER_PRINT, RATES (calc_kinetic_reaction) and CALCULATE_VALUES on the real engine in a "
                       "forked child and once in `pmodel basic`; 15% also with -high_precision. evaluations = (program, host) pairs judged; "
                       "distinct_nontrivial = distinct programs whose reference evaluation ends with values or a BASIC error (not fuel/"
                       "unsupported). Not judged (counted): reference out of fuel, constructs outside the model, values after a C "
                       "conversion with undefined behaviour ((long) of NaN/huge).")
    if not ok and not ctx.violations:
        ctx.violation("proof obligation / translator of C17 no longer checks and no failing program was found",
                      {"broken": ctx.proof_broken}, found_input=False)


def report(ctx, exe, p, problems):
    """shrink the program (line-wise) while some disagreement persists, then record the violation"""
    lines = p["text"].split("\n")

    def fails(sub):
        pr, _, _ = check_program(ctx, exe, "\n".join(sub))
        return bool(pr)
    small = lines
    try:
        if fails(lines):
            small = shrink_list(lines, fails, max_iter=80)
    except Exception as e:                                     # shrinking is best effort
        ctx.log("shrink failed:", e)
    text = "\n".join(small)
    pr, ms, rs = check_program(ctx, exe, text)
    if not pr:
        text, pr = p["text"], problems
        _, ms, rs = check_program(ctx, exe, text)
    ctx.violation(pr[0], {"program": text, "hosts": HOSTS, "problems": pr, "kind": p["kind"],
                          "reference": {"status": ms["m0"]["status"], "kind": ms["m0"]["kind"],
                                        "punch": [repr(x) for x in ms["m0"]["punch"][:40]], "save": repr(ms["m0"]["save"]),
                                        "print": ms["m0"]["text"][:400]},
                          "real": {h: {"status": rs[h]["status"], "items": [repr(x) for x in rs[h]["items"][:40]],
                                       "err": rs[h]["err"][:300]} for h in rs}})


def replay(ctx, data):
    gen_basic.generate(ctx)
    ctx.prove(["PhreeqcVerif.Properties.C17"])
    ctx.build_lib()
    exe = ctx.build_harness("ph_basic")
    if "program" not in data:
        print("replay: no program in the replay file (proof/translator obligation):", data.get("broken"))
        if ctx.proof_broken:
            ctx.violation("proof obligation / translator of C17 still broken", {"broken": ctx.proof_broken}, found_input=False)
        return
    text = data["program"]
    if "programs" in data:
        mm = run_model_hist(ctx, [("h",) + tuple(data["programs"])])
        mr = run_real(ctx, exe, [("h", "multi", "\n@@\n".join(data["programs"]))])
        pr = judge_hist(mm.get("h"), mr["h"])
        print("reference:", [(m["status"], m["kind"], [repr(x) for x in m["punch"][:20]]) for m in (mm.get("h") or [])])
        print("real:", mr["h"]["status"], [repr(x) for x in mr["h"]["items"][:40]], mr["h"]["err"][:200])
        print("replay result:", pr or "agree")
        if pr:
            ctx.violation(pr, dict(data, problems=[pr]))
        return
    if "program_b" in data:
        hm = run_model_hist(ctx, [("h", text, data["program_b"])])
        hr = run_real(ctx, exe, [("h", "hist", text + "\n@@\n" + data["program_b"])])
        pr = judge_hist(hm.get("h"), hr["h"])
        print("reference:", [(m["status"], m["kind"], [repr(x) for x in m["punch"][:20]]) for m in (hm.get("h") or [])])
        print("real:", hr["h"]["status"], [repr(x) for x in hr["h"]["items"][:40]], hr["h"]["err"][:200])
        print("replay result:", pr or "agree")
        if pr:
            ctx.violation(pr, dict(data, problems=[pr]))
        return
    if any(text == t for t in PEEKPOKE):
        rs = run_real(ctx, exe, [("p", "punch", text)])
        print("replay result:", rs["p"]["status"])
        if rs["p"]["status"].startswith("sig"):
            ctx.finding("basic-peek-poke", f"{text!r} ends with {rs['p']['status']}", {"program": text, "hosts": ["punch"]})
        return
    pr, ms, rs = check_program(ctx, exe, text, with_hp=True)
    print("reference:", ms["m0"]["status"], ms["m0"]["kind"], [repr(x) for x in ms["m0"]["punch"][:20]], "save", ms["m0"]["save"])
    for h in rs:
        print("real", h, rs[h]["status"], [repr(x) for x in rs[h]["items"][:20]], rs[h]["err"][:200].replace("\n", " / "))
    print("replay result:", pr or "agree")
    if pr:
        ctx.violation(pr[0], dict(data, problems=pr))


MANIFEST = dict(
    technique="Lean 4 reference evaluator of PBasic (tokenizer incl. strtod decimal/hexadecimal, level-indexed 7-level parser, evaluator, token-driven statement machine, basic_compile/basic_run, numtostr and printf %f/%e in exact arithmetic) with theorems for all expressions/programs/states; translator for the token enumeration, keyword table and operator masks; differential testing against the real engine under four hosts, one forked child per case",
    text="Theorems (Properties/C17.lean, 48): parse_print_roundtrip / parse_level_roundtrip / parse_args_roundtrip (for every well-formed derivation of the documented expression grammar - 15 binary operators on 6 levels, prefix operators/functions, subscripted variables, GET/GET$ argument lists, MID$/PAD/INSTR/TRIM/STR_F$/STR_E$ forms, redundant parentheses; one derivation constructor per expression constructor - the model's parser returns exactly the tree the derivation denotes: left fold per level, ^ to the right, unary tighter than binary), eval_compositional(+_un), run_fuel_mono + exec_total, hosts_agree, gosub_return_stack + return_without_gosub + popTo_gosub, read_data_order + scanToks_first, for_iterations / for_iterations_down / for_count_closed_form (exact rationals, uninterpreted libm), next_uses_nextContinues + for_cell_ignores_pointer + erase_repoints_for_cell (the loop runs on the cell FOR designated, independent of where findvar left the variable's pointer; af19d591), if_then_else + skipToElse_prefix/_matching/_nested/_no_else + else_skips_rest, while_statement + wend_statement + wend_without_while + whileSkip_prefix + while_skips_to_matching_wend + while_skips_nested, PUT/GET keyed store: store_get_put_same / store_get_put_other / find_map_same / find_map_other / get_reads_store / put_writes_store / put_then_get / store_survives_redefinition, let_stores_in_designated_cell + setNum_designated (LET writes the element its left-hand side designates although findvar re-points the per-variable cell pointer at every reference) (a program defined later in the same engine starts with fresh lines, variables, loops, DATA pointer and finds the store unchanged). compileAndRun_eq_from + program_isolation + run_after_equals_run_alone (a program run after another in the same engine sees of it only the PUT/GET store and the output flags; with those at rest it evaluates as if alone). Obligations over generated data (decide): keywords_documented, functions_documented, rel_mask_is_the_six_relations, loop_masks on Gen/BasicTokens.lean regenerated from PBasic.h/PBasic.cpp each run. Correspondence: 300 (quick) / 30000 (thorough, a quarter of them 80-400 lines with nesting depth up to 6) generated programs, 30% with one malformed-program mutation, plus fixed corpus and documented-value (golden) programs that are independent of model and tables; USER_PUNCH via GetSelectedOutputValue, USER_PRINT text, RATES via calc_kinetic_reaction, CALCULATE_VALUES via -calculate_values; numbers at 1e-12 relative, strings exact, error-vs-value must agree (error class compared and reported), signal/exception/hang = violation; hosts also compared with each other; on 20% of the programs a two-simulation history (USER_PUNCH A, then USER_PUNCH redefined as B in the next simulation of the same engine) is compared row by row with the model's carryOver relation, and 2-4 programs run as USER_PUNCH 1..k of ONE simulation (random picks, the same program twice, and generated families sharing line numbers, jump targets and variable names) are compared row by row the same way.",
    note="Trusted: Lean kernel; tools/gen_basic.py (regex extraction); harness/ph_basic.cpp (fork per case, friend access to calc_kinetic_reaction); tools/gens/basic.py; comparison logic in tools/props/c17.py; platform libm shared by both sides (strtod and printf formatting are re-implemented exactly in Model/BasicNum.lean / BasicLex.lean and compared). Partial / not judged (all counted in the evidence): PUT argument lists are parsed while evaluated (statement level) and are outside the derivation type; expressions are parsed, then evaluated, so when a line holds both a syntax error and an earlier run-time error the error class can differ (outcome 'error' agrees; 2 of 1366 error programs in a 6000-program run); chemistry functions, PEEK/POKE (known finding basic-peek-poke), editor commands (LIST/RUN/NEW/LOAD/MERGE/DEL/RENUM), INPUT, GOTOXY are outside the model ('unsupported', never generated); values after a C conversion with undefined behaviour ((long)/(int) of NaN/out of range) or after formatting a NaN (printf shows its sign bit) are compared but a difference is not a violation; programs that exhaust the model's budget (20000 statements) are only checked for 'no crash'; 4M-character strings / 2M-cell arrays (memory exhaustion) are not judged.",
)
