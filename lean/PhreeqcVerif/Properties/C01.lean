import PhreeqcVerif.Lemmas.Thermo
namespace PhreeqcVerif.C01
open PhreeqcVerif PhreeqcVerif.Thermo PhreeqcVerif.Speciation

theorem kCalc_addScaled (f : TransFns Rat) (p q : LogK Rat) (c T P : Rat) :
    letI := ratOps f
    kCalc (p.addScaled c q) T P = kCalc p T P + c * kCalc q T P := by
  simp only [kCalc, LogK.addScaled, NumOps.lit, NumOps.ofRat, NumOps.log10, NumOps.ln, id]
  grind

theorem kCalc_linear (f : TransFns Rat) (p q : LogK Rat) (a b T P : Rat) :
    letI := ratOps f
    kCalc ((LogK.smul a p).add (LogK.smul b q)) T P = a * kCalc p T P + b * kCalc q T P := by
  simp only [kCalc, LogK.add, LogK.smul, NumOps.lit, NumOps.ofRat, NumOps.log10, NumOps.ln, id]
  grind

theorem kCalc_pressure_off (f : TransFns Rat) (p : LogK Rat) (T P : Rat) (hP : P ≤ pRef) :
    letI := ratOps f
    kCalc p T P = kCalc1atm p T := by
  simp only [kCalc, kCalc1atm, NumOps.lit, NumOps.ofRat, NumOps.log10, NumOps.ln, id]
  grind

theorem kCalc_reference (f : TransFns Rat) (k0 dh dv P : Rat) (hP : P ≤ pRef) :
    letI := ratOps f
    kCalc ⟨k0, dh, 0, 0, 0, 0, 0, 0, dv⟩ tRef P = k0 := by
  simp only [kCalc, NumOps.lit, NumOps.ofRat, NumOps.log10, NumOps.ln, id]
  grind

theorem vant_hoff (f : TransFns Rat) (k0 dh dv T : Rat) :
    letI := ratOps f
    kCalc1atm ⟨k0, dh, 0, 0, 0, 0, 0, 0, dv⟩ T = k0 - dh * (tRef - T) / (f.ln 10 * (T * rKJ) * tRef) := by
  simp only [kCalc1atm, NumOps.lit, NumOps.ofRat, NumOps.log10, NumOps.ln, id]
  grind

theorem dhToKJ_linear (f : TransFns Rat) (u : DHUnit) (a x : Rat) :
    letI := ratOps f
    dhToKJ u (a * x) = a * dhToKJ u x := by
  cases u <;> simp only [dhToKJ, NumOps.lit, NumOps.ofRat, id] <;> grind

theorem dhToKJ_kcal (f : TransFns Rat) (x : Rat) :
    letI := ratOps f
    dhToKJ .kcal x = x * (4184 / 1000) := by
  simp only [dhToKJ, NumOps.lit, NumOps.ofRat, id]

theorem dhToKJ_cal (f : TransFns Rat) (x : Rat) :
    letI := ratOps f
    dhToKJ .cal x = x * (4184 / 1000000) := by
  simp only [dhToKJ, NumOps.lit, NumOps.ofRat, id]; grind

theorem dhToKJ_J (f : TransFns Rat) (x : Rat) :
    letI := ratOps f
    dhToKJ .J x = x / 1000 := by
  simp only [dhToKJ, NumOps.lit, NumOps.ofRat, id]

theorem speciate_mass_action (f : TransFns Rat) (lk lg : Rat) (la : String → Rat) (body : List (String × Rat)) :
    letI := ratOps f
    speciateLm lk lg la body + lg = lk + evalBody la body := by
  simp only [speciateLm]; grind

theorem speciate_residual (f : TransFns Rat) (K : LogK Rat → Rat) (lg : Rat) (la : String → Rat) (e : Eqn Rat) :
    letI := ratOps f
    la e.head = speciateLm (K e.k) lg la e.body + lg → residual la K e = 0 := by
  simp only [speciateLm, residual]; grind

theorem iterate_sound (f : TransFns Rat) {σ : Type} (view : σ → GateCtx Rat × List (Unknown Rat)) (step : σ → σ)
    (fuel : Nat) (s s' : σ) :
    letI := ratOps f
    iterate view step fuel s = some s' → converged (view s').1 (view s').2 = true := by
  intro h
  induction fuel generalizing s with
  | zero =>
    simp only [iterate] at h
    split at h
    · cases h; assumption
    · cases h
  | succ n ih =>
    simp only [iterate] at h
    split at h
    · cases h; assumption
    · exact ih _ h

theorem gate_sound (f : TransFns Rat) {σ : Type} (view : σ → GateCtx Rat × List (Unknown Rat)) (step : σ → σ)
    (again : σ → Option σ) (itmax passes : Nat) (s s' : σ) :
    letI := ratOps f
    runModel view step again itmax passes s = .ok s' →
      converged (view s').1 (view s').2 = true ∧ checkResiduals (view s').1 (view s').2 = true := by
  intro h
  induction passes generalizing s with
  | zero => simp only [runModel] at h; cases h
  | succ n ih =>
    simp only [runModel] at h
    split at h
    · cases h
    · rename_i s1 hit
      split at h
      · rename_i hc
        split at h
        · cases h
          exact ⟨iterate_sound f view step itmax s _ hit, hc⟩
        · exact ih _ h
      · cases h

end PhreeqcVerif.C01
