import PhreeqcVerif.Lemmas.Formula
import PhreeqcVerif.Lemmas.Inventory
/-! # C02 — closed-system conservation of elements and charge in reaction steps

Theorems about the executable models `Model/Formula` (the parser `get_elts_in_species`), `Model/NameDouble` and
`Model/Inventory` (what `step()` assembles, what `saver()` writes back, the step amounts of `add_reaction`).  The tie to
the C++ is the correspondence check of `tools/props/c02.py` (parser on every database formula, step amounts, and
inventories of real runs computed by these very functions through `pmodel inventory`). -/
namespace PhreeqcVerif.C02
open PhreeqcVerif.Formula PhreeqcVerif.NameDouble PhreeqcVerif.Inventory

/-! ## the formula parser -/

/-- Parsing the printed text of any well-formed formula body (nested parentheses with multipliers, decimal numbers,
`[iso]` names), optionally followed by a charge, yields its denotation; `coef` multiplies every entry. -/
theorem parseFormula_print_roundtrip (q : Seq) (hq : q.WF) (coef : Rat) :
    parseChars coef q.print = some (q.denote coef) := by
  have h := elts_seq q hq coef [] 0 (some ([], [], 0)) trivial (elts_nil coef) (q.print.length + 1)
    (by simp)
  simp only [List.append_nil] at h
  simp [parseChars, h, prep]

/-- the charge is left unread: the element list of `body ++ "+…"` is that of the body -/
theorem parseFormula_charge (q : Seq) (hq : q.WF) (coef : Rat) (z : List Char) :
    parseChars coef (q.print ++ '+' :: z) = some (q.denote coef) ∧
    parseChars coef (q.print ++ '-' :: z) = some (q.denote coef) := by
  have stop : ∀ (c : Char), (isCh c 43 || isCh c 45) = true → isLow c = false → isNumCh c = false →
      parseChars coef (q.print ++ c :: z) = some (q.denote coef) := by
    intro c hc h1 h2
    have hR : ∀ fuel, (c :: z).length < fuel → elts fuel coef (c :: z) 0 = some ([], c :: z, 0) := by
      intro fuel hf
      cases fuel with
      | zero => simp at hf
      | succ f => simp [elts, hc]
    have h := elts_seq q hq coef (c :: z) 0 (some ([], c :: z, 0)) ⟨h1, h2⟩ hR ((q.print ++ c :: z).length + 1)
      (Nat.lt_succ_self _)
    simp only [parseChars, h, prep, List.append_nil]
  exact ⟨stop '+' (by decide) (by decide) (by decide), stop '-' (by decide) (by decide) (by decide)⟩

/-- concatenation of formulas = concatenation of element lists -/
theorem parseFormula_append (a b : Seq) (ha : a.WF) (hb : b.WF) (coef : Rat) :
    parseChars coef (a.print ++ b.print) = some (a.denote coef ++ b.denote coef) := by
  have h := parseFormula_print_roundtrip (a.append b) (wf_append a b ha hb) coef
  rwa [print_append, denote_append] at h

/-- a parenthesised group followed by a number: every entry of the group is multiplied by the number -/
theorem parseFormula_paren (a : Seq) (ha : a.WF) (k : List Char) (hk : Seq.validNum k) (coef : Rat) :
    parseChars coef ('(' :: (a.print ++ (')' :: k))) = some (scale (numOr1 k) (a.denote coef)) := by
  have h := parseFormula_print_roundtrip (Seq.paren a k Seq.nil) ⟨ha, hk, trivial⟩ coef
  simpa [Seq.print, Seq.denote] using h

/-- `:n` hydrate tail: everything after the colon is multiplied by `n` -/
theorem parseFormula_hydrate (a b : Seq) (ha : a.WF) (hb : b.WF) (k : List Char) (hk : Seq.validNum k) (coef : Rat) :
    parseChars coef (a.print ++ ':' :: (k ++ b.print)) = some (a.denote coef ++ scale (numOr1 k) (b.denote coef)) := by
  have hsafe : SafeStart (b.print ++ []) := safe_print b hb trivial
  have hR : ∀ fuel, (':' :: (k ++ b.print)).length < fuel →
      elts fuel coef (':' :: (k ++ b.print)) 0 = some (scale (numOr1 k) (b.denote coef), [], 0) := by
    intro fuel hf
    cases fuel with
    | zero => simp at hf
    | succ f =>
      have hb' := elts_seq b hb coef [] 0 (some ([], [], 0)) trivial (elts_nil coef) f
        (by simp only [List.length_cons, List.length_append, List.append_nil] at hf ⊢; omega)
      have hn : elts f coef [] 0 = some ([], [], 0) :=
        elts_nil coef f (by simp only [List.length_cons, List.length_append] at hf; simp only [List.length_nil]; omega)
      have hg := getNum_append hk hsafe
      simp only [List.append_nil] at hb' hg
      have h1 : (isCh ':' 43 || isCh ':' 45) = false := by decide
      have h2 : isCh ':' 41 = false := by decide
      have h3 : ∀ x, startsElt ':' x = false := by
        intro x
        have a1 : isUp ':' = false := by decide
        have a2 : isCh ':' 101 = false := by decide
        have a3 : isCh ':' 91 = false := by decide
        simp [startsElt, a1, a2, a3]
      have h4 : isCh ':' 40 = false := by decide
      have h5 : isCh ':' 58 = true := by decide
      simp [elts, h1, h2, h3, h4, h5, hg, hb', prep, hn]
  have h := elts_seq a ha coef (':' :: (k ++ b.print)) 0 _ ⟨by decide, by decide⟩ hR
    ((a.print ++ ':' :: (k ++ b.print)).length + 1) (Nat.lt_succ_self _)
  simp only [parseChars, h, prep]

/-- the element list is linear in the coefficient passed to the parser (`reaction_calc`, `calc_final_kinetic_reaction`) -/
theorem denote_coef (q : Seq) (coef : Rat) : q.denote coef = scale coef (q.denote 1) := by
  induction q with
  | nil => rfl
  | elt n k r ih =>
    simp only [Seq.denote, scale, List.map_cons, List.cons.injEq, Prod.mk.injEq, true_and]
    exact ⟨by grind, by simpa [scale] using ih⟩
  | paren b k r ihb ihr =>
    simp only [Seq.denote, ihb, ihr, scale, List.map_append, List.map_map]
    congr 1
    apply List.map_congr_left
    intro p _
    simp only [Function.comp, Prod.mk.injEq, true_and]
    grind

/-! ## inventory -/

/-- the amount of an element in the inventory map is the sum of all contributions -/
theorem inventory_get (c : Cell) (e : String) : get (inventory c) e = get (contribs c) e := get_ofList _ e

/-- the inventory is the sum of the parts: solution(s), exchanger, surface (+ diffuse layer), gas, pure phases, solid
solutions, kinetic reactants -/
theorem inventory_parts (c : Cell) (e : String) :
    get (inventory c) e =
      get (c.sols.flatMap fun fs => solContribs fs.1 fs.2) e + get (optContribs exchContribs c.exch) e +
      get (optContribs surfContribs c.surf) e + get (c.gas.flatMap amountContribs) e +
      get (c.pp.flatMap amountContribs) e + get (c.ss.flatMap amountContribs) e + get (c.kin.flatMap kinCompContribs) e := by
  simp only [inventory_get, contribs, get_append]

/-- two cells put together (at most one of them with an exchanger / a surface) -/
def join (c1 c2 : Cell) : Cell :=
  { sols := c1.sols ++ c2.sols, exch := c1.exch.orElse fun _ => c2.exch, surf := c1.surf.orElse fun _ => c2.surf,
    gas := c1.gas ++ c2.gas, pp := c1.pp ++ c2.pp, ss := c1.ss ++ c2.ss, kin := c1.kin ++ c2.kin }

/-- inventory is additive over parts -/
theorem inventory_add (c1 c2 : Cell) (hx : c1.exch = none ∨ c2.exch = none) (hs : c1.surf = none ∨ c2.surf = none)
    (e : String) : get (inventory (join c1 c2)) e = get (inventory c1) e + get (inventory c2) e := by
  have ex : get (optContribs exchContribs (c1.exch.orElse fun _ => c2.exch)) e =
      get (optContribs exchContribs c1.exch) e + get (optContribs exchContribs c2.exch) e := by
    rcases hx with h | h
    · simp only [h, Option.orElse, optContribs, get_nil]; grind
    · cases h1 : c1.exch <;> simp only [h, Option.orElse, optContribs, get_nil] <;> grind
  have su : get (optContribs surfContribs (c1.surf.orElse fun _ => c2.surf)) e =
      get (optContribs surfContribs c1.surf) e + get (optContribs surfContribs c2.surf) e := by
    rcases hs with h | h
    · simp only [h, Option.orElse, optContribs, get_nil]; grind
    · cases h1 : c1.surf <;> simp only [h, Option.orElse, optContribs, get_nil] <;> grind
  simp only [inventory_parts, join, get_flatMap_append, ex, su]
  grind

/-- inventory is linear in the amounts: the contribution of a phase / gas component / solid-solution component is
its formula times its moles -/
theorem amount_linear (f : Inventory.Formula) (m1 m2 x : Rat) (e : String) :
    get (amountContribs { formula := f, moles := m1 + x * m2 }) e =
      get (amountContribs { formula := f, moles := m1 }) e + x * get (amountContribs { formula := f, moles := m2 }) e := by
  simp only [get_amountContribs]
  grind

/-- a solution taken `ext` times contributes `ext` times its content -/
theorem solution_linear (ext : Rat) (s : Solution) (e : String) :
    get (solContribs ext s) e = ext * get (solContribs 1 s) e := by
  have hfm : ∀ (l : ND), get (l.filterMap fun p => if isHO (baseName p.1) then none else some (baseName p.1, p.2 * ext)) e =
      ext * get (l.filterMap fun p => if isHO (baseName p.1) then none else some (baseName p.1, p.2 * 1)) e := by
    intro l
    induction l with
    | nil => simp only [List.filterMap_nil, get_nil]; grind
    | cons p t ih =>
      by_cases h : isHO (baseName p.1) = true
      · simp only [List.filterMap_cons, h, if_true, ih]
      · simp only [List.filterMap_cons, h, Bool.false_eq_true, if_false, get_cons, ih]; grind
  simp only [solContribs, get_append, get_cons, get_nil, hfm]
  grind

/-- mixing: the totals of a MIX are Σ fⱼ · totalsⱼ -/
theorem mix_linear (l : List (Rat × Solution)) (e : String) :
    get (l.flatMap fun fs => solContribs fs.1 fs.2) e = (l.map fun fs => fs.1 * get (solContribs 1 fs.2) e).sum := by
  induction l with
  | nil => simp [get_nil]
  | cons p t ih => simp only [get_flatMap_cons, List.map_cons, List.sum_cons, ih, solution_linear p.1 p.2 e]

/-- … and do not depend on the order of the MIX lines -/
theorem mix_perm (l1 l2 : List (Rat × Solution)) (h : l1.Perm l2) (c : Cell) (e : String) :
    get (inventory { c with sols := l1 }) e = get (inventory { c with sols := l2 }) e := by
  simp only [inventory_parts]
  rw [get_flatMap_perm _ h e]

/-! ## step amounts -/

def sumSteps (inc : Bool) (r : Reaction) : Nat → Rat
  | 0 => 0
  | n + 1 => sumSteps inc r n + stepAmount inc r (n + 1)

/-- equal increments: the incremental amounts of steps 1..n add up to the cumulative amount of step n -/
theorem stepAmount_incremental_sum (r : Reaction) (heq : r.equal = true) (hs : r.steps.length ≠ 0) (hc : r.count ≠ 0)
    (n : Nat) (hn : n ≤ r.count) : sumSteps true r n = stepAmount false r n := by
  have hcq : (r.count : Rat) ≠ 0 := by
    intro h; exact hc (by exact_mod_cast h)
  have key : ∀ m, m ≤ r.count → sumSteps true r m = r.steps.getD 0 0 * (m : Rat) / (r.count : Rat) * r.unitFactor := by
    intro m
    induction m with
    | zero => intro _; simp only [sumSteps]; grind
    | succ k ih =>
      intro hk
      have hk' : ¬ (k + 1 > r.count) := by omega
      simp only [sumSteps, ih (by omega), stepAmount, Reaction.reactionSteps, heq, hs, if_false, if_true, hk',
        Bool.not_true, Bool.false_eq_true]
      have : ((k + 1 : Nat) : Rat) = (k : Rat) + 1 := by push_cast; rfl
      rw [this]
      grind
  have hn' : ¬ (n > r.count) := by omega
  rw [key n hn]
  simp only [stepAmount, Reaction.reactionSteps, heq, hs, if_false, if_true, hn', Bool.not_false, Bool.not_true,
    Bool.false_eq_true]

/-- list of amounts: incremental mode adds entry k at step k, so after n steps the sum of the first n entries has
been added; cumulative mode with the list of partial sums adds the same at step n (documented semantics) -/
theorem stepAmount_list_prefix (r : Reaction) (heq : r.equal = false) (n : Nat) (hn : n ≤ r.steps.length) :
    sumSteps true r n = ((r.steps.take n).sum) * r.unitFactor := by
  induction n with
  | zero => simp only [sumSteps, List.take_zero, List.sum_nil]; grind
  | succ k ih =>
    have hk : ¬ (k + 1 > r.steps.length) := by omega
    have hl : r.steps.length ≠ 0 := by omega
    have hget : r.steps.getD k 0 = r.steps[k]'(by omega) := by
      simp [List.getD, List.getElem?_eq_getElem (show k < r.steps.length by omega)]
    have htake : (r.steps.take (k + 1)).sum = (r.steps.take k).sum + r.steps[k]'(by omega) := by
      rw [List.take_add_one, List.getElem?_eq_getElem (show k < r.steps.length by omega)]
      simp only [Option.toList_some, List.sum_append, List.sum_cons, List.sum_nil]
      grind
    simp only [sumSteps, ih (by omega), stepAmount, Reaction.reactionSteps, heq, hl, if_false, hk, Bool.not_false,
      Bool.not_true, Bool.false_eq_true, if_true, Nat.add_sub_cancel, hget, htake]
    grind

/-- cumulative amounts that give the same states as the increments `l` -/
def prefixSums (l : List Rat) : List Rat := (List.range l.length).map fun i => (l.take (i + 1)).sum

theorem stepAmount_list_cumulative (r : Reaction) (heq : r.equal = false) (n : Nat) (h1 : 1 ≤ n) (hn : n ≤ r.steps.length) :
    sumSteps true r n = stepAmount false { r with steps := prefixSums r.steps } n := by
  rw [stepAmount_list_prefix r heq n hn]
  have hlen : (prefixSums r.steps).length = r.steps.length := by simp [prefixSums]
  have hk : ¬ (n > r.steps.length) := by omega
  have hl : r.steps.length ≠ 0 := by omega
  have hget : (prefixSums r.steps).getD (n - 1) 0 = (r.steps.take n).sum := by
    have : n - 1 < r.steps.length := by omega
    simp [prefixSums, List.getD, this, Nat.sub_add_cancel h1]
  simp only [stepAmount, heq, hlen, hl, hk, if_false, Bool.not_false, Bool.not_true, Bool.false_eq_true, if_true, hget]

/-! ## what `step()` hands to the solver -/

/-- totals handed to the solver + what stays in pure phases and solid solutions = inventory(solution or mix) +
Σ stoich·stepAmount·fraction + kinetic increment + inventory of every present reactant — for every element, H, O and
the charge -/
theorem assemble_total (c : Cell) (r : Option Reaction) (inc : Bool) (n : Nat) (fraction : Rat) (kinTotals : ND) (e : String) :
    (assemble c r inc n fraction kinTotals).totals.get e +
      get ((assemble c r inc n fraction kinTotals).pp.flatMap amountContribs) e +
      get ((assemble c r inc n fraction kinTotals).ss.flatMap amountContribs) e =
    get (inventory { c with kin := [] }) e + get (optContribs (fun r => reactionContribs inc r n fraction) r) e +
      get kinTotals e := by
  simp only [assemble, inventory_parts, List.flatMap_nil, get_nil]
  generalize hT : (((((({} : Totals).addList (c.sols.flatMap fun fs => solContribs fs.1 fs.2)).addList
    (optContribs (fun r => reactionContribs inc r n fraction) r)).addList kinTotals).addList
    (optContribs exchContribs c.exch)).addList (optContribs surfContribs c.surf)).addList (c.gas.flatMap amountContribs) = t6
  have h6 : t6.get e = get (c.sols.flatMap fun fs => solContribs fs.1 fs.2) e +
      get (optContribs (fun r => reactionContribs inc r n fraction) r) e + get kinTotals e +
      get (optContribs exchContribs c.exch) e + get (optContribs surfContribs c.surf) e +
      get (c.gas.flatMap amountContribs) e := by
    rw [← hT]; simp only [Totals.get_addList, Totals.get_empty]; grind
  by_cases hp : ppAllPresent t6 c.pp = true
  · simp only [hp, if_true]
    have hs := transferAll_conserves MIN_TOTAL_SS c.ss t6 e
    grind
  · simp only [hp, Bool.false_eq_true, if_false]
    have hpp := transferAll_conserves MIN_TOTAL c.pp t6 e
    have hs := transferAll_conserves MIN_TOTAL_SS c.ss (transferAll MIN_TOTAL t6 c.pp).1 e
    grind

/-- `solution_check` leaves H, O and the charge alone, keeps every key, and moves each master total by at most
MIN_TOTAL (a total is either kept or was within ±MIN_TOTAL and becomes 0) -/
theorem solutionCheck_small (t : Totals) :
    (solutionCheck t).1.h = t.h ∧ (solutionCheck t).1.o = t.o ∧ (solutionCheck t).1.cb = t.cb ∧
    (solutionCheck t).1.masters.map (·.1) = t.masters.map (·.1) ∧
    ∀ i (h : i < t.masters.length),
      absR (((solutionCheck t).1.masters[i]'(by simp [solutionCheck]; exact h)).2 - (t.masters[i]).2) ≤ MIN_TOTAL := by
  refine ⟨rfl, rfl, rfl, ?_, ?_⟩
  · simp only [solutionCheck, List.map_map]
    apply List.map_congr_left
    intro p _
    by_cases hp : absR p.2 ≤ MIN_TOTAL <;> simp [hp]
  · intro i h
    simp only [solutionCheck, List.getElem_map]
    by_cases hp : absR (t.masters[i]).2 ≤ MIN_TOTAL
    · simp only [hp, if_true]
      unfold absR at hp ⊢
      have hm : (0 : Rat) ≤ MIN_TOTAL := by decide +kernel
      split at hp <;> split <;> grind
    · simp only [hp, if_false]
      unfold absR
      have hm : (0 : Rat) ≤ MIN_TOTAL := by decide +kernel
      split <;> grind

/-- `step()` reports MASS_BALANCE exactly when some master total is below −MIN_TOTAL -/
theorem solutionCheck_flag (t : Totals) :
    (solutionCheck t).2 = true ↔ ∃ p ∈ t.masters, p.2 < -MIN_TOTAL := by
  simp [solutionCheck, List.any_eq_true]

example : (solutionCheck { masters := [("Ca", 1/10^30), ("Cl", 2/1000), ("Na", -(1/10^26))] }).1.masters =
    [("Ca", 0), ("Cl", 2/1000), ("Na", 0)] ∧
    (solutionCheck { masters := [("Ca", -(1/1000))] }).2 = true := by decide +kernel

/-! ## what `saver()` writes back -/

/-- Exact bookkeeping identity: inventory(after) − inventory(before) − reaction = residual of the balance row of the
element, provided the kinetic reactants lost exactly what the integrator handed to the solution (`hkin`). -/
theorem partition_residual (c : Cell) (r : Option Reaction) (inc : Bool) (n : Nat) (fraction : Rat) (kinTotals : ND)
    (o : SolverOut) (kinAfter : List KinComp) (e : String)
    (hkin : get (kinAfter.flatMap kinCompContribs) e + get kinTotals e = get (c.kin.flatMap kinCompContribs) e) :
    get (inventory (partition c (assemble c r inc n fraction kinTotals) o kinAfter)) e -
      (get (inventory c) e + get (optContribs (fun r => reactionContribs inc r n fraction) r) e) =
    residual c (assemble c r inc n fraction kinTotals) o e := by
  have hA := assemble_total c r inc n fraction kinTotals e
  have h1 : get (inventory (partition c (assemble c r inc n fraction kinTotals) o kinAfter)) e =
      get (contribs (partition c (assemble c r inc n fraction kinTotals) o [])) e + get (kinAfter.flatMap kinCompContribs) e := by
    simp only [inventory_get, contribs, partition, get_append, List.flatMap_nil, get_nil]; grind
  have h2 : get (inventory c) e = get (inventory { c with kin := [] }) e + get (c.kin.flatMap kinCompContribs) e := by
    simp only [inventory_parts, List.flatMap_nil, get_nil]; grind
  unfold residual
  grind

/-- **Conservation.** For any solver output that passes the gate on the MB / MH / MH2O / CB rows (residual of every
element within its tolerance), the inventory written back by `saver()` equals the inventory before the step plus what
the REACTION adds, within that tolerance — every element, H, O and charge, summed over solution, exchanger, surface +
diffuse layer, gas phase, pure phases, solid solutions and kinetic reactants. -/
theorem partition_conserves (c : Cell) (r : Option Reaction) (inc : Bool) (n : Nat) (fraction : Rat) (kinTotals : ND)
    (o : SolverOut) (kinAfter : List KinComp) (tol : String → Rat)
    (hkin : ∀ e, get (kinAfter.flatMap kinCompContribs) e + get kinTotals e = get (c.kin.flatMap kinCompContribs) e)
    (hgate : Gate c (assemble c r inc n fraction kinTotals) o tol) (e : String) :
    absR (get (inventory (partition c (assemble c r inc n fraction kinTotals) o kinAfter)) e -
      (get (inventory c) e + get (optContribs (fun r => reactionContribs inc r n fraction) r) e)) ≤ tol e := by
  rw [partition_residual c r inc n fraction kinTotals o kinAfter e (hkin e)]
  exact hgate e

/-- what the engine's own `cxxSystem::totalize` reports for an element (other than H, O, charge) of a cell with
plain pure phases and no diffuse layer / kinetic reactants is the inventory, when solution totals carry plain element
names -/
theorem sysTotalize_pp_gas (c : Cell) (e : String) (hsol : c.sols = []) (hx : c.exch = none) (hs : c.surf = none)
    (hk : c.kin = []) (halt : ∀ a ∈ c.pp, a.alt = false) :
    get (sysTotalize c) e = get (inventory c) e := by
  have hf : c.pp.filter (fun a => !a.alt) = c.pp := by
    apply List.filter_eq_self.mpr
    intro a ha; simp [halt a ha]
  simp only [sysTotalize, inventory_get, contribs, get_ofList, hsol, hx, hs, hk, hf, optContribs, List.flatMap_nil,
    get_append, get_nil]
  grind

/-! ## non-vacuity -/

section Examples

def s (x : String) : List Char := x.toList

/-- Ca(OH)2 -/
def caoh2 : Seq := Seq.elt (s "Ca") [] (Seq.paren (Seq.elt (s "O") [] (Seq.elt (s "H") [] Seq.nil)) (s "2") Seq.nil)

example : String.ofList caoh2.print = "Ca(OH)2" := by decide
example : parseFormula "Ca(OH)2" = some [("Ca", 1), ("O", 2), ("H", 2)] := by decide +kernel
example : parseFormula "CaSO4:2H2O" = some [("Ca", 1), ("S", 1), ("O", 4), ("H", 4), ("O", 2)] := by decide +kernel
example : parseFormula "[13C]O2Ca0.5" = some [("[13C]", 1), ("O", 2), ("Ca", 1/2)] := by decide +kernel
example : parseFormula "Fe+2" = some [("Fe", 1)] := by decide +kernel
/-- the quirk of the colon inside parentheses: the tail call eats the right parenthesis, the multiplier is an error -/
example : parseFormula "(A:2B)3" = none := by decide +kernel
example : parseFormula "Ca(OH" = none := by decide +kernel
example : ofList [("O", 4), ("H", 4), ("O", 2)] = [("H", 4), ("O", 6)] := by decide +kernel

def rEq : Reaction := { reactants := [([("Na", 1), ("Cl", 1)], 1)], steps := [3/1000], equal := true, count := 3 }
def rList : Reaction := { reactants := [([("Na", 1), ("Cl", 1)], 2)], steps := [1, 2, 4], equal := false, count := 0,
                          unitFactor := 1/1000 }
example : stepAmount true rEq 2 = 1/1000 ∧ stepAmount false rEq 2 = 2/1000 ∧ stepAmount false rEq 5 = 3/1000 ∧
    stepAmount true rEq 5 = 0 := by decide +kernel
example : stepAmount true rList 2 = 2/1000 ∧ stepAmount false rList 5 = 4/1000 ∧ sumSteps true rList 3 = 7/1000 := by
  decide +kernel
example : reactionContribs false rList 3 1 = [("Na", 8/1000), ("Cl", 8/1000)] := by decide +kernel

def water : Solution := { totalH := 111, totalO := 111/2, cb := 1/1000000, totals := [("C(4)", 1/1000), ("Ca", 2/1000), ("H(0)", 1/10^20)] }
def cell1 : Cell :=
  { sols := [(1, water)], gas := [{ formula := [("C", 1), ("O", 2)], moles := 1/10 }],
    pp := [{ formula := [("Ca", 1), ("C", 1), ("O", 3)], moles := 1 }, { formula := [("Sr", 1), ("S", 1), ("O", 4)], moles := 1/2 }],
    kin := [{ m := 2, parts := [([("Si", 1), ("O", 2)], 1)] }] }

example : get (inventory cell1) "O" = 111/2 + 2/10 + 3 + 2 + 4 ∧ get (inventory cell1) "C" = 1/1000 + 1/10 + 1 ∧
    get (inventory cell1) "Charge" = 1/1000000 ∧ get (inventory cell1) "H" = 111 := by decide +kernel

/-- Sr is absent from the solution: `add_pp_assemblage` moves 1e-10 mol of the Sr phase into the totals -/
example : ((assemble cell1 (some rList) false 1 1 []).totals.get "Sr" = 1/10^10) ∧
    ((assemble cell1 (some rList) false 1 1 []).totals.get "Na" = 2/1000) := by decide +kernel

/-- a solver output that puts everything back where it was passes the gate with tolerance 0 and conserves exactly -/
example : residual { sols := [(1, water)] } (assemble { sols := [(1, water)] } none false 1 1 [])
    { sol := { water with totals := [("C", 1/1000), ("Ca", 2/1000)] }, exch := [], surfComps := [], surfCharges := [], gas := [], pp := [], ss := [] }
    "Ca" = 0 := by decide +kernel

end Examples

end PhreeqcVerif.C02
