"""Seeded generators of PHREEQC solution inputs for C01 (all randomness from the `rng` passed in).

gen_run(rng, db, kind=None) -> (input_text, meta)   one RunString text: SOLUTION block(s) [+ REACTION / MIX /
                                                    REACTION_TEMPERATURE step] + the fixed SELECTED_OUTPUT / USER_PUNCH tail
The compositions are drawn from the database's own element list (db = dbparse.DB)."""
import math
import re

TAIL = """SELECTED_OUTPUT 1
 -reset false
 -pH true
 -pe true
 -temperature true
 -alkalinity true
 -ionic_strength true
 -charge_balance true
 -water true
USER_PUNCH 1
 -headings cb
 10 PUNCH CALLBACK(CELL_NO, SIM_NO, "dump")
END
"""

SKIP_ELEMENTS = {"H", "O", "E", "e", "Alkalinity"}
UNITS = ["mol/kgw", "mmol/kgw", "umol/kgw", "mol/L", "mmol/L", "umol/L", "mg/kgw", "ug/kgw", "g/kgw", "mg/L", "ug/L",
         "ppm", "ppb", "ppt", "Mol/kgw", "MMOL/KGW", "millimol/kgw", "micromol/L"]
SCALE = {"mol": 1.0, "mmol": 1e3, "umol": 1e6, "millimol": 1e3, "micromol": 1e6}


def elements_of(db):
    """primary elements usable in a SOLUTION, with their valence-state names"""
    prim = [m.element for m in db.masters if m.primary and m.element not in SKIP_ELEMENTS]
    val = {}
    for m in db.masters:
        if not m.primary:
            base = m.element.split("(")[0]
            val.setdefault(base, []).append(m.element)
    return prim, val


_POLY = {}


def polyatomic_redox(db):
    """elements that have a valence-state master species containing more than one atom of the element"""
    key = id(db)
    if key not in _POLY:
        out = []
        for m in db.masters:
            if not m.primary:
                base = m.element.split("(")[0]
                sp = db.species.get(m.species)
                if sp and abs(sp.elements.get(base, 1.0) - 1.0) > 1e-9 and base not in SKIP_ELEMENTS and base not in out:
                    out.append(base)
        _POLY[key] = out
    return _POLY[key]


def log_uniform(rng, lo, hi):
    return 10 ** rng.uniform(math.log10(lo), math.log10(hi))


def fmt(x):
    return ("%.6g" % x)


def conc_in_units(rng, molal, units, gfw):
    u = units.lower()
    num = u.split("/")[0] if "/" in u else u
    if num in SCALE:
        return molal * SCALE[num]
    g = gfw if gfw and gfw > 0 else 50.0
    mass_g = molal * g                 # g per kgw (roughly per L)
    if num == "g":
        return mass_g
    if num in ("mg", "ppm"):
        return mass_g * 1e3
    if num in ("ug", "ppb"):
        return mass_g * 1e6
    if num == "ppt":
        return mass_g
    return molal


def gen_solution(rng, db, number=1, hard=False, focus=None):
    prim, val = elements_of(db)
    meta = {"elements": [], "features": []}
    lines = [f"SOLUTION {number}"]
    temp = rng.choice([25.0, rng.uniform(0, 100), rng.uniform(0, 100), rng.choice([0.0, 0.01, 5, 10, 50, 60, 75, 99, 100])])
    lines.append(f" temp {fmt(temp)}")
    ph = rng.uniform(2, 12)
    pe = rng.uniform(-4, 14) if rng.random() < 0.6 else rng.choice([4.0, 0.0, 8.0, 12.0])
    units = rng.choice(UNITS) if rng.random() < 0.6 else "mmol/kgw"
    lines.append(f" units {units}")
    nel = rng.randint(1, 8)
    chosen = rng.sample(prim, min(nel, len(prim)))
    if focus:                                   # elements that carry the generated species of a synthetic database
        fs = [e for e in focus if e in prim]
        chosen = rng.sample(fs, min(len(fs), rng.randint(2, 6)))
    redox = [e for e in prim if e in val]
    poly = polyatomic_redox(db)
    if poly and rng.random() < 0.2:              # a valence master with several atoms of the element (N2, S2O3-2 …)
        e = rng.choice(poly)
        if e not in chosen:
            chosen[rng.randrange(len(chosen))] = e
        meta["features"].append("polyatomic-valence-master")
    if redox and rng.random() < 0.6:          # favour elements with several valence states (rewriting, basis switches)
        for e in rng.sample(redox, min(len(redox), rng.randint(1, 2))):
            if e not in chosen:
                chosen[rng.randrange(len(chosen))] = e
    charge_on = None
    r = rng.random()
    if r < 0.2:
        charge_on = "pH"
    elif r < 0.32 and chosen:
        charge_on = rng.choice(chosen)
    lines.append(f" pH {fmt(ph)}" + (" charge" if charge_on == "pH" else ""))
    lines.append(f" pe {fmt(pe)}")
    if rng.random() < 0.15:
        w = log_uniform(rng, 0.05, 20)
        lines.append(f" -water {fmt(w)}")
        meta["features"].append("water")
    hi = 3.0 if not hard else 6.0
    used_o0 = False
    for e in chosen:
        molal = log_uniform(rng, 1e-9, hi)
        if rng.random() < 0.7:
            molal = log_uniform(rng, 1e-7, 0.05)
        m = db.master_of_element(e)
        gfw = m.gfw if (m and m.gfw) else (m.elt_gfw if m else None)
        names = [e]
        vs = val.get(e, [])
        if vs and rng.random() < 0.35:
            k = min(2, len(vs)) if rng.random() < 0.6 else 1
            names = rng.sample(vs, k)
            meta["features"].append("valence")
        for nm in names:
            v = conc_in_units(rng, molal, units, gfw)
            own_units = ""
            if rng.random() < 0.15:
                u2 = rng.choice(UNITS)
                if ("/l" in u2.lower()) == ("/l" in units.lower()) or not ("/" in u2 and "/" in units):
                    pass
                # per-element units must share the denominator of the default units
                den = units.split("/")[1] if "/" in units else None
                if den and "/" in u2 and u2.split("/")[1].lower() == den.lower():
                    own_units = " " + u2
                    v = conc_in_units(rng, molal, u2, gfw)
                    meta["features"].append("own-units")
            tail = ""
            if charge_on == nm or (charge_on == e and nm == names[0]):
                tail = " charge"
                meta["features"].append("charge-element")
            elif rng.random() < 0.05:
                have = set(x.split("(")[0] for x in chosen) | {"H", "O"}
                ph_names = [p for p, ph_ in db.phases.items() if e in ph_.elements and set(ph_.elements) <= have]
                if ph_names:
                    tail = f" {rng.choice(ph_names)} {fmt(rng.uniform(-1, 0.5))}"
                    meta["features"].append("phase-adjusted")
            lines.append(f" {nm} {fmt(v)}{own_units}{tail}")
            meta["elements"].append(nm)
            if nm == "O(0)":
                used_o0 = True
        meta.setdefault("molal", []).append(molal)
    if rng.random() < 0.12 and not any(x.startswith("Alkalinity") for x in meta["elements"]) and db.master_of_element("Alkalinity"):
        v = conc_in_units(rng, log_uniform(rng, 1e-5, 0.05), units, 50.0)
        lines.append(f" Alkalinity {fmt(v)}")
        meta["features"].append("alkalinity")
    if rng.random() < 0.12 and db.master_of_element("O(0)") and not used_o0 and "O(0)" not in meta["elements"]:
        lines.append(f" O(0) {fmt(conc_in_units(rng, log_uniform(rng, 1e-6, 1e-3), units, 16.0))}")
        if rng.random() < 0.7:
            lines.append(" redox O(0)/O(-2)")
            meta["features"].append("redox-couple")
    # a redox couple of another element as the electron activity of one element's total (both valence states must be given)
    given = set(meta["elements"])
    for base, vs in val.items():
        have_v = [v for v in vs if v in given]
        if len(have_v) >= 2 and rng.random() < 0.7:
            others = [e for e in meta["elements"] if e in val and e != base and "(" not in e]
            couple = f"{have_v[0]}/{have_v[1]}"
            if others:
                tgt = rng.choice(others)
                for k, ln in enumerate(lines):
                    w = ln.split()
                    if w and w[0] == tgt and len(w) >= 2 and "charge" not in w and not any(t in db.phases for t in w[2:]):
                        lines[k] = ln + " " + couple
                        meta["features"].append("element-redox-couple")
                        break
            elif rng.random() < 0.5:
                lines.append(f" redox {couple}")
                meta["features"].append("redox-couple-other")
            break
    meta["temp"], meta["pH"], meta["pe"], meta["units"] = temp, ph, pe, units
    return "\n".join(lines) + "\n", meta


def gen_run(rng, db, kind=None, focus=None):
    kind = kind or rng.choice(["solution"] * 6 + ["reaction", "mix", "temperature", "extra", "extra"])
    if kind == "extra":
        return gen_run_extra(rng, db)
    text, meta = gen_solution(rng, db, 1, focus=focus)
    meta["kind"] = kind
    if kind == "solution":
        return text + TAIL, meta
    if kind == "reaction":
        prim, _ = elements_of(db)
        salts = [s for s in ("NaCl", "CaCl2", "HCl", "NaOH", "KCl", "MgSO4", "CO2", "Na2SO4", "H2O") if all(
            e in prim or e in ("H", "O") for e in _elts(s))]
        salt = rng.choice(salts) if salts else "H2O"
        steps = " ".join(fmt(log_uniform(rng, 1e-6, 0.5)) for _ in range(rng.randint(1, 3)))
        return text + TAIL + f"USE solution 1\nREACTION 1\n {salt} 1\n {steps} moles\nEND\n", meta
    if kind == "mix":
        t2, m2 = gen_solution(rng, db, 2)
        meta["elements"] += m2["elements"]
        return text + t2 + TAIL + f"MIX 1\n 1 {fmt(rng.uniform(0.05, 2))}\n 2 {fmt(rng.uniform(0.05, 2))}\nEND\n", meta
    if kind == "temperature":
        ts = " ".join(fmt(rng.uniform(0, 100)) for _ in range(rng.randint(1, 3)))
        return text + TAIL + f"USE solution 1\nREACTION_TEMPERATURE 1\n {ts}\nEND\n", meta
    return text + TAIL, meta


def _elts(formula):
    import re
    return re.findall(r"[A-Z][a-z]*", formula)


def gen_sweep(db):
    """deterministic coverage sweep: every primary element of the database once per (temperature, pH, pe) corner,
    together with a simple background electrolyte, so that every aqueous species of the database enters a model"""
    prim, val = elements_of(db)
    have = set(prim)
    texts = []
    corners = [(5.0, 4.0, 12.0), (25.0, 7.0, 4.0), (70.0, 10.0, -2.0), (95.0, 6.0, 0.0)]
    for e in prim:
        for k, (t, ph, pe) in enumerate(corners):
            lines = [f"SOLUTION 1", f" temp {fmt(t)}", " units mmol/kgw", f" pH {fmt(ph)}", f" pe {fmt(pe)}", f" {e} 0.1"]
            for bg, c in (("Na", 5), ("Cl", 5), ("C", 1), ("S", 0.5), ("Ca", 0.5)):
                if bg in have and bg != e and (k % 2 == 0 or bg in ("Na", "Cl")):
                    lines.append(f" {bg} {c}")
            texts.append("\n".join(lines) + "\n" + TAIL)
    return texts


# ----------------------------------------------------------------------------- synthetic database
CATIONS = [("Na", "Na+", 1), ("K", "K+", 1), ("Li", "Li+", 1), ("Ca", "Ca+2", 2), ("Mg", "Mg+2", 2), ("Ba", "Ba+2", 2),
           ("Sr", "Sr+2", 2), ("Mn", "Mn+2", 2), ("Zn", "Zn+2", 2), ("Cd", "Cd+2", 2), ("Cu", "Cu+2", 2), ("Al", "Al+3", 3)]
ANIONS = [("Cl", "Cl-", -1), ("Br", "Br-", -1), ("F", "F-", -1), ("NO3", "NO3-", -1), ("SO4", "SO4-2", -2)]
DH_UNITS = ["", "kJ/mol", "kj", "kJ", "kcal/mol", "kcal", "KCAL", "cal/mol", "cal", "J/mol", "joules", "Joules/mol", "j",
            "kjoules"]
LOGK_SPELL = ["log_k", "-log_k", "logk", "-logk", "log_k =", "-lo"]
DH_SPELL = ["delta_h", "-delta_h", "deltah", "-deltah", "-delta_H", "-d"]
AN_SPELL = ["-analytic", "-analytical_expression", "analytical_expression", "-a_e", "a_e", "-ae", "ae", "-a", "-an", "-Analytic"]


def _charge(z):
    return "" if z == 0 else ("+" if z == 1 else "-" if z == -1 else "%+d" % z)


def _logk_options(rng, named, feats, const=True):
    """random thermodynamic option lines for one reaction (species, phase or named expression)"""
    L = []
    r = rng.random()
    if r < 0.8:
        L.append(f"  {rng.choice(LOGK_SPELL)} {fmt(rng.uniform(-3, 3))}")
    if rng.random() < 0.7:
        u = rng.choice(DH_UNITS)
        scale = 1.0
        lu = u.lower()
        if "c" in lu:
            scale /= 4.184
        if lu and not lu.startswith("k"):
            scale *= 1000.0
        L.append(f"  {rng.choice(DH_SPELL)} {fmt(rng.uniform(-60, 60) * scale)} {u}")
        feats.append("dh:" + (u or "default"))
    if rng.random() < 0.45:
        n = rng.randint(1, 6)
        mags = [30, 0.02, 3000, 10, 2e5, 1e-5]
        vals = [fmt(rng.uniform(-m, m)) for m in mags[:n]]
        L.append(f"  {rng.choice(AN_SPELL)} " + " ".join(vals))
        feats.append(f"analytic:{n}")
    if named and rng.random() < 0.5:
        for _ in range(rng.randint(1, 3)):
            nm = rng.choice(named)
            form = rng.random()
            if form < 0.25:
                L.append(f"  -add_logk {nm}")                       # coefficient defaults to 1
                feats.append("add_logk:default")
            else:
                c = rng.choice([0, 0.0, -1, -0.5, 2, 1.5, -2.25, 1])
                L.append(f"  {rng.choice(['-add_logk', '-add_log_k', 'add_logk'])} {nm} {c}")
                feats.append("add_logk:" + ("zero" if c == 0 else "neg" if c < 0 else "pos"))
    if const and rng.random() < 0.2:
        L.append(f"  -add_constant {fmt(rng.uniform(-1, 1))}")
        feats.append("add_constant")
    rng.shuffle(L)
    return L


def gen_synth_db(rng, base_text, db):
    """phreeqc.dat-like text + NAMED_EXPRESSIONS (chained), extra SOLUTION_SPECIES and PHASES whose log K options use every
    spelling (delta_h units, analytic prefixes, add_logk with negative/zero/default coefficients, add_constant, ln_alpha1000)"""
    feats = []
    cut = base_text.rfind("\nEND")
    head = base_text[:cut] if cut > 0 else base_text
    out = [head, "", "NAMED_EXPRESSIONS"]
    names = [rng.choice(["Syn_", "syn_", "SYN_K"]) + str(i) for i in range(rng.randint(3, 7))]
    forward = rng.random() < 0.4                 # references point to later expressions (resolved recursively by tidy)
    named = names
    for i, nm in enumerate(names):
        out.append(nm)
        opts = _logk_options(rng, [], feats, const=False)
        if not opts:
            opts = ["  log_k 0.5"]
        out += opts
        pool = names[i + 1:] if forward else names[:i]
        if pool and rng.random() < 0.6:           # chained named expressions (acyclic)
            for _ in range(rng.randint(1, 2)):
                c = rng.choice([0, -1, 0.5, 2, -0.25])
                out.append(f"  -add_logk {rng.choice(pool)} {c}")
            feats.append("named-forward" if forward else "named-chain")
        if rng.random() < 0.25:
            vals = " ".join(fmt(rng.uniform(-40, 40)) for _ in range(rng.randint(1, 6)))
            out.append(f"  -ln_alpha1000 {vals}")
            feats.append("ln_alpha1000")
    out.append("SOLUTION_SPECIES")
    pairs = [(c, a) for c in CATIONS for a in ANIONS]
    rng.shuffle(pairs)
    made = []
    for (ce, cs, cz), (ae, as_, az) in pairs:
        if len(made) >= rng.randint(8, 16):
            break
        name = f"{ce}{ae}{_charge(cz + az)}"
        if name in db.species or name in made or not db.master_of_element(ce) or not db.master_of_element(ae.rstrip("0123456789")):
            continue
        out.append(f"{cs} + {as_} = {name}")
        opts = _logk_options(rng, [n if rng.random() < 0.5 else n.upper() for n in named], feats)
        out += opts or ["  log_k 0.1"]
        if rng.random() < 0.3:
            out.append(f"  -gamma {fmt(rng.uniform(3, 6))} {fmt(rng.uniform(0, 0.1))}")
        made.append(name)
    out.append("PHASES")
    nph = 0
    for (ce, cs, cz), (ae, as_, az) in pairs[::-1]:
        if nph >= 5:
            break
        if abs(az) == 0 or cz % abs(az) not in (0,) and abs(az) % cz != 0:
            continue
        na, nc = (cz // abs(az), 1) if cz % abs(az) == 0 else (1, abs(az) // cz)
        formula = f"{ce}{nc if nc > 1 else ''}" + (f"({ae}){na}" if na > 1 else ae)
        out.append(f"Syn_{ce}{ae}")
        out.append(f"  {formula} = {nc if nc > 1 else ''}{cs} + {na if na > 1 else ''}{as_}")
        out += _logk_options(rng, named, feats) or ["  log_k -1"]
        nph += 1
    if rng.random() < 0.8:                       # entries of the base database defined AGAIN later in the same text
        block, _ = redefinition_block(rng, db, feats)
        out.append(block.rstrip("\n"))
        feats.append("redef:in-database-text")
    out.append("END")
    return "\n".join(out) + "\n", {"species": made, "named": named, "features": feats}


# ----------------------------------------------------------------------------- further kinds of runs (phreeqc.dat-like databases)
def gen_run_extra(rng, db):
    """exchange / surface / equilibrium-phase / advection histories: the aqueous mass action must hold in every punched state"""
    kind = rng.choice(["exchange", "surface", "equilibrium_phases", "advection", "transport", "two-calls"])
    text, meta = gen_solution(rng, db, 1)
    meta["kind"] = kind
    have = set(m.element for m in db.masters)
    if kind == "exchange" and getattr(db, "exchange_masters", None):
        x = db.exchange_masters[0][0]
        return text + TAIL + f"USE solution 1\nEXCHANGE 1\n {x} {fmt(log_uniform(rng, 1e-4, 0.1))}\n -equilibrate 1\nEND\n" + \
            f"USE exchange 1\nUSE solution 1\nREACTION 1\n NaCl 1\n {fmt(log_uniform(rng, 1e-5, 0.05))}\nEND\n", meta
    if kind == "surface" and getattr(db, "surface_masters", None):
        names = [m[0] for m in db.surface_masters if "psi" not in m[0].lower()]
        if names:
            lines = "".join(f" {n} {fmt(log_uniform(rng, 1e-5, 1e-3))} 600 {fmt(rng.uniform(0.1, 5))}\n" if k == 0 else
                            f" {n} {fmt(log_uniform(rng, 1e-5, 1e-3))}\n" for k, n in enumerate(names[:2]))
            edl = rng.choice(["", " -no_edl\n"])
            return text + TAIL + f"USE solution 1\nSURFACE 1\n{lines} -equilibrate 1\n{edl}END\n", meta
    if kind == "equilibrium_phases" and db.phases:
        cand = [p for p, ph in db.phases.items() if "(g)" not in p and set(ph.elements) <= (have | {"H", "O"}) and len(ph.elements) <= 4]
        if cand:
            ps = rng.sample(cand, min(len(cand), rng.randint(1, 2)))
            lines = "".join(f" {p} {fmt(rng.uniform(-0.5, 0.5))} {fmt(log_uniform(rng, 1e-4, 0.1))}\n" for p in ps)
            return text + TAIL + f"USE solution 1\nEQUILIBRIUM_PHASES 1\n{lines}END\n", meta
    if kind in ("advection", "transport"):
        t2, m2 = gen_solution(rng, db, 0)
        meta["elements"] += m2["elements"]
        cells = rng.randint(2, 4)
        body = text.replace("SOLUTION 1", f"SOLUTION 1-{cells}", 1) + t2
        if kind == "advection":
            step = f"ADVECTION\n -cells {cells}\n -shifts {rng.randint(1, 3)}\n -punch_cells 1-{cells}\nEND\n"
        else:
            step = (f"TRANSPORT\n -cells {cells}\n -shifts {rng.randint(1, 3)}\n -lengths {fmt(rng.uniform(0.1, 2))}\n"
                    f" -dispersivities {fmt(rng.uniform(0, 0.2))}\n -time_step {fmt(log_uniform(rng, 10, 1e5))}\n"
                    f" -punch_cells 1-{cells}\nEND\n")
        return body + TAIL + step, meta
    # two-calls: the solution is redefined in a later simulation of the same text and reacted again
    t2, m2 = gen_solution(rng, db, 1)
    meta["elements"] += m2["elements"]
    meta["kind"] = "redefinition"
    return text + TAIL + t2 + "END\nUSE solution 1\nREACTION_TEMPERATURE 1\n " + fmt(rng.uniform(0, 100)) + "\nEND\n", meta


# ----------------------------------------------------------------------------- redefinitions of database entries
def equation_text(sp, phase=False):
    """the reaction of a dbparse Species / Phase written back as PHREEQC text (coefficients round-trip exactly)"""
    def term(c, n):
        return n if c == 1 else f"{c!r} {n}"
    if phase:
        lhs = [term(sp.head_coef, sp.formula)] + [term(-c, n) for n, c in sp.rxn if c < 0]
        rhs = [term(c, n) for n, c in sp.rxn if c > 0]
    else:
        lhs = [term(c, n) for n, c in sp.rxn if c > 0]
        rhs = [term(sp.head_coef, sp.name)] + [term(-c, n) for n, c in sp.rxn if c < 0]
    return " + ".join(lhs) + " = " + " + ".join(rhs)


def _k25(obj):
    v = obj.logk.vector()
    t = 298.15
    return v[0] + v[2] + v[3] * t + v[4] / t + v[5] * math.log10(t) + v[6] / t / t + v[7] * t * t


def redefinition_block(rng, db, feats, n=None):
    """SOLUTION_SPECIES / PHASES / NAMED_EXPRESSIONS blocks that define entries of `db` AGAIN with a (mostly smaller) option set:
    the later definition replaces the earlier one as a whole. Returns (text, elements involved)"""
    rich = [sp for sp in db.species.values() if sp.rxn and not (len(sp.rxn) == 1 and sp.rxn[0][0] == sp.name)
            and (any(a != 0 for a in sp.logk.analytic) or sp.logk.delta_h != 0) and not sp.mole_balance
            and not any(m.species == sp.name for m in db.masters)]
    out, elems = [], set()
    if rich:
        out.append(rng.choice(["SOLUTION_SPECIES", "solution_species", "Solution_Species"]))
        for sp in rng.sample(rich, min(len(rich), n or rng.randint(1, 4))):
            out.append(equation_text(sp))
            k25 = _k25(sp)
            form = rng.random()
            if form < 0.45:
                out.append(f"  log_k {fmt(k25 + rng.uniform(-0.3, 0.3))}")                 # every temperature option dropped
                feats.append("redef:logk-only")
            elif form < 0.7:
                out.append(f"  log_k {fmt(k25 + rng.uniform(-0.3, 0.3))}")
                out.append(f"  delta_h {fmt(rng.uniform(-40, 40))} {rng.choice(['kJ', 'kcal', ''])}")   # analytic dropped
                feats.append("redef:logk+dh")
            elif form < 0.85:
                out.append(f"  -analytic {fmt(k25 + rng.uniform(-0.3, 0.3))} {fmt(rng.uniform(-1e-3, 1e-3))}")   # log_k/delta_h dropped
                feats.append("redef:analytic-only")
            else:
                feats.append("redef:no-options")                                         # log K = 0 at every temperature
            if sp.no_check:
                out.append("  -no_check")
            g = rng.random()
            if g < 0.3 and sp.z != 0:
                out.append(f"  -gamma {fmt(rng.uniform(3, 6))} {fmt(rng.uniform(0, 0.1))}")
            elif g < 0.4 and sp.z != 0 and db.has_llnl_model:
                out.append(f"  -llnl_gamma {fmt(rng.uniform(3, 6))}")
            elems |= {e for e in sp.elements if e not in ("H", "O", "e")}
    if db.phases and rng.random() < 0.6:
        cand = [ph for ph in db.phases.values() if "(g)" not in ph.name and (any(a != 0 for a in ph.logk.analytic) or ph.logk.delta_h != 0)
                and ph.head_coef == 1 and not ph.no_check]
        if cand:
            out.append("PHASES")
            for ph in rng.sample(cand, min(len(cand), rng.randint(1, 3))):
                out.append(ph.name)
                out.append("  " + equation_text(ph, phase=True))
                if rng.random() < 0.8:
                    out.append(f"  log_k {fmt(_k25(ph) + rng.uniform(-0.3, 0.3))}")
                if rng.random() < 0.3:
                    out.append(f"  delta_h {fmt(rng.uniform(-40, 40))}")
                feats.append("redef:phase")
                elems |= {e for e in ph.elements if e not in ("H", "O", "e")}
    if db.named and rng.random() < 0.5:
        out.append("NAMED_EXPRESSIONS")
        for k in rng.sample(sorted(db.named), min(len(db.named), 2)):
            out.append(db.named[k].name)
            out.append(f"  log_k {fmt(rng.uniform(-1, 1))}")
            feats.append("redef:named")
    return "\n".join(out) + "\n", sorted(elems)


def _named_users(db):
    """{lower named expression: set of elements of the species/phases whose log K uses it through -add_logk (chains followed)}"""
    direct = {}
    for o in list(db.species.values()) + list(db.phases.values()):
        for nm, _ in o.add_logk:
            direct.setdefault(nm.lower(), set()).update(e for e in o.elements if e not in ("H", "O", "e"))
    users = {k: set(v) for k, v in direct.items()}
    for _ in range(4):                       # expression k is also "used" by the users of every expression that adds k
        for k, nd in db.named.items():
            for nm, _c in nd.add_logk:
                if k in users:
                    users.setdefault(nm.lower(), set()).update(users[k])
    return {k: v for k, v in users.items() if k in db.named and v}


def gen_redefinition_history(rng, db):
    """calls on ONE instance. Variants: (together) all redefining blocks in one call, alone or in front of a calculation;
    (alone) each redefining block in a call of its own; (named-only) a calculation first, then a NAMED_EXPRESSIONS block ALONE that
    changes an expression species/phases use through -add_logk, then calculations. Returns (list of texts, meta)"""
    feats = []
    prim, _ = elements_of(db)
    users = _named_users(db)
    variant = rng.choice(["together", "alone", "named-only", "named-only"]) if users else rng.choice(["together", "alone"])
    texts = []
    focus = None

    def sol(temp=None):
        t, m = gen_solution(rng, db, 1, focus=focus)
        if temp is not None:
            t = re.sub(r"(?m)^ temp .*$", f" temp {fmt(temp)}", t, count=1)
        return t
    if variant == "named-only":
        key = rng.choice(sorted(users))
        focus = [e for e in users[key] if e in prim] or None
        texts.append(sol(rng.choice([25.0, rng.uniform(0, 100)])) + TAIL)          # the model is built with the old expression
        for _ in range(rng.randint(1, 2)):
            lines = ["NAMED_EXPRESSIONS", db.named[key].name]
            f = rng.random()
            if f < 0.5:
                lines.append(f"  log_k {fmt(rng.uniform(-2, 2))}")
            elif f < 0.8:
                lines += [f"  log_k {fmt(rng.uniform(-2, 2))}", f"  delta_h {fmt(rng.uniform(-30, 30))}"]
            else:
                lines.append(f"  -analytic {fmt(rng.uniform(-2, 2))} {fmt(rng.uniform(-1e-3, 1e-3))}")
            texts.append("\n".join(lines) + "\nEND\n")                                # NAMED_EXPRESSIONS alone in its call
            texts.append(sol(25.0) + TAIL)
            texts.append(sol(rng.choice([5.0, 60.0, 90.0, rng.uniform(0, 100)])) + TAIL)
        feats.append("redef:named-expression-alone")
        return texts, {"kind": "redefinition-history", "features": feats}
    block, elems = redefinition_block(rng, db, feats)
    focus = [e for e in elems if e in prim] or None
    if variant == "alone":
        # each redefining block alone in a call of its own
        parts, cur = [], []
        for ln in block.splitlines():
            if ln.split() and ln.split()[0].lower() in ("solution_species", "phases", "named_expressions") and cur:
                parts.append(cur)
                cur = []
            cur.append(ln)
        if cur:
            parts.append(cur)
        rng.shuffle(parts)
        texts.append(sol() + TAIL)
        for pt in parts:
            texts.append("\n".join(pt) + "\nEND\n")
            if rng.random() < 0.5:
                texts.append(sol(rng.uniform(0, 100)) + TAIL)
        feats.append("redef:each-block-alone")
    elif rng.random() < 0.7:
        texts.append(block + "END\n")                       # definitions in a call of their own
    else:
        texts.append(block + sol() + TAIL)                   # definitions in front of the first calculation of the same call
    texts.append(sol(25.0) + TAIL)
    for _ in range(rng.randint(1, 2)):
        texts.append(sol(rng.choice([rng.uniform(0, 100), 5.0, 60.0, 90.0])) + TAIL)
    if rng.random() < 0.3:
        block2, _ = redefinition_block(rng, db, feats, n=1)
        texts.append(block2 + sol(rng.uniform(0, 100)) + TAIL)
        feats.append("redef:second-redefinition")
    return texts, {"kind": "redefinition-history", "features": feats}
