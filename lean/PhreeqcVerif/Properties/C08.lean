import PhreeqcVerif.Lemmas.ErrAcct
/-!
# C08 — bad input is reported as errors (the part a model can carry)

The statements quantify over *every* program of engine steps (`Program`: any number of simulations, each a reading phase of
arbitrary steps, the `tidy_model` gate, a running phase, then the last `read_input` that meets the end of the input), every
switch configuration and every prior wrapper state.  Crash-freedom, absence of undefined behaviour and the engine half of the
reload are *not* theorems: they are sanitizer-backed exploration (tools/props/c08.py).
-/
namespace PhreeqcVerif.ErrAcct
open PhreeqcVerif.Route

/-! ## return value ⇔ ERROR events -/

/-- `RunString` / `RunFile` / `RunAccumulated`: the return value is non-zero exactly when at least one ERROR event was routed
in that call — for every program, every wrapper state (database loaded or not), every switch setting. -/
theorem retval_nonzero_iff_error (cfg : ErrCfg) (on : Bool) (w : Wrapper) (p : Program) :
    (runCall cfg on w p).ret ≠ 0 ↔ errCount (runCall cfg on w p).events > 0 := by
  unfold runCall
  by_cases h : w.dbLoaded = true
  · simp only [h, if_true]
    exact good_count (good_prog good_start p)
  · simp only [h]
    constructor
    · intro _
      simp [Acct.engineErr, Acct.count, Acct.ioErr, errCount]
    · intro _
      simp [Acct.engineErr, Acct.count, Acct.ioErr]

/-- the same for `LoadDatabase` / `LoadDatabaseString` (events of reading the database followed by those of the self test) -/
theorem load_retval_nonzero_iff_error (cfg : ErrCfg) (on : Bool) (w : Wrapper) (db : Sim) (test : Program) :
    (loadCall cfg on w db test).ret ≠ 0 ↔ errCount (loadCall cfg on w db test).events > 0 := by
  have g : Good (Acct.start.sim { db with running := [] }) := good_sim good_start.weak _
  unfold loadCall
  by_cases h : (Acct.start.sim { db with running := [] }).count = 0
  · simp only [h, if_true]
    have h0 : errCount (Acct.start.sim { db with running := [] }).events = 0 := by
      have hg := good_count g
      cases hz : errCount (Acct.start.sim { db with running := [] }).events with
      | zero => rfl
      | succ n => exact absurd h (hg.2 (by omega))
    rw [errCount_append, h0, Nat.zero_add]
    exact retval_nonzero_iff_error cfg on _ test
  · simp only [h, if_false]
    exact good_count g

/-- without any assumption on the shape of the call (steps in any order, increments of `input_error` anywhere): an ERROR event
makes the return value non-zero -/
theorem retval_nonzero_of_error_any_steps (l : List ReadStep) (h : errCount (l.foldl Acct.read Acct.start).events > 0) :
    (l.foldl Acct.read Acct.start).count ≠ 0 :=
  count_pos_of_K (weak_foldl_read l good_start.weak).1 h

/-- the converse is false without the gate of `tidy_model`: a reader that increments `input_error` next to a *warning*
(tidy.cpp `tidy_isotopes`, readtr.cpp `-multi_d`) gives a non-zero count with no ERROR event -/
theorem bump_without_gate_breaks_converse :
    ([ReadStep.bump, .warn true "w".toList].foldl Acct.read Acct.start).count ≠ 0 ∧
    errCount ([ReadStep.bump, .warn true "w".toList].foldl Acct.read Acct.start).events = 0 := by
  decide

/-! ## the strings describe this call only -/

/-- error and warning strings (and, for `Run*`, the line vectors) after the call are functions of *this call's* events and the
switches: nothing of the wrapper's earlier reporter content, strings or lines survives -/
theorem errors_this_call_only (cfg : ErrCfg) (on : Bool) (w : Wrapper) (p : Program) :
    let r := runCall cfg on w p
    r.w.errorString = (errStrChunks cfg r.events).flatten ∧
    r.w.warningString = (warnStrChunks cfg r.events).flatten ∧
    r.w.errLines = splitLines r.w.errorString ∧
    r.w.warnLines = splitLines r.w.warningString := by
  simp [runCall, Wrapper.errorString, Wrapper.warningString]

/-- two wrappers with arbitrary different error histories give the same strings and lines for the same call -/
theorem run_strings_independent_of_history (cfg : ErrCfg) (on : Bool) (w w' : Wrapper) (p : Program)
    (h : w.dbLoaded = true) (h' : w'.dbLoaded = true) :
    (runCall cfg on w p).w.errorString = (runCall cfg on w' p).w.errorString ∧
    (runCall cfg on w p).w.warningString = (runCall cfg on w' p).w.warningString ∧
    (runCall cfg on w p).w.errLines = (runCall cfg on w' p).w.errLines ∧
    (runCall cfg on w p).w.warnLines = (runCall cfg on w' p).w.warnLines ∧
    (runCall cfg on w p).ret = (runCall cfg on w' p).ret := by
  simp [runCall, h, h', Wrapper.errorString, Wrapper.warningString]

/-- `LoadDatabase`: the strings hold the text of a *suffix* of this call's events (the events of reading the database when that
failed, else those of the self test, whose `check_database` clears the reporters) -/
theorem load_errors_this_call_only (cfg : ErrCfg) (on : Bool) (w : Wrapper) (db : Sim) (test : Program) :
    let r := loadCall cfg on w db test
    r.w.errorString = (errStrChunks cfg r.reported).flatten ∧
    r.w.warningString = (warnStrChunks cfg r.reported).flatten ∧
    ∃ pre, r.events = pre ++ r.reported := by
  unfold loadCall
  by_cases h : (Acct.start.sim { db with running := [] }).count = 0
  · simp only [h, if_true]
    refine ⟨?_, ?_, ⟨_, rfl⟩⟩ <;> simp [runCall, Wrapper.errorString, Wrapper.warningString]
  · simp only [h, if_false]
    exact ⟨rfl, rfl, ⟨[], rfl⟩⟩

/-- full statement for the line accessors of `LoadDatabase` — FALSE of the code that exists (see `failed_load_keeps_stale_lines`):
`(loadCall cfg on w db test).w.errLines = splitLines (loadCall cfg on w db test).w.errorString`.
What holds: the lines are refreshed when the self test ran, i.e. when reading the database recorded no error. -/
theorem load_lines_this_call_only_partial (cfg : ErrCfg) (on : Bool) (w : Wrapper) (db : Sim) (test : Program)
    (h : (Acct.start.sim { db with running := [] }).count = 0) :
    let r := loadCall cfg on w db test
    r.w.errLines = splitLines r.w.errorString ∧ r.w.warnLines = splitLines r.w.warningString := by
  unfold loadCall
  simp only [h, if_true]
  simp [runCall, Wrapper.errorString, Wrapper.warningString]

/-- the exact missing hypothesis: when reading the database fails, `update_errors` is never called and the line vectors keep
what the previous call left — witness: a wrapper whose last call left two warning lines, then `LoadDatabase` of a missing file -/
theorem failed_load_keeps_stale_lines :
    let cfg : ErrCfg := ⟨true, true, false⟩
    let w : Wrapper := { Wrapper.fresh with dbLoaded := true, warnLines := ["WARNING: old".toList, "second".toList] }
    let db : Sim := ⟨[.engineErr true true "ERROR: LoadDatabase: Unable to open:\"x\".\n".toList], false, true, []⟩
    let r := loadCall cfg true w db ⟨[], []⟩
    r.ret = 1 ∧ r.w.warningString = [] ∧ r.w.warnLines = ["WARNING: old".toList, "second".toList] ∧
    r.w.errLines = [] ∧ r.w.errorString ≠ [] := by
  decide

/-! ## STOP unwinds to the API boundary -/

/-- a STOP error event ends the event stream of the call: it is the last ERROR/WARNING event, no event of any kind was routed
after it (`stopAt = routed`), and without a STOP event the stream contains none -/
theorem stop_unwinds_to_api (p : Program) :
    let a := Acct.start.prog p
    (a.stopped = true → ∃ pre e, a.events = pre ++ [e] ∧ isStop e = true ∧ NoStop pre ∧ a.stopAt = some a.routed) ∧
    (a.stopped = false → NoStop a.events ∧ a.stopAt = none) := by
  have h := stopInv_prog stopInv_start p
  exact ⟨h.2, h.1⟩

/-- nothing the engine would have done after the throw is executed: appending arbitrary further simulations and steps to a
program that stopped changes no observable of the call -/
theorem steps_after_stop_have_no_effect (p : Program) (more : List Sim) (tail' : List TailStep)
    (h : (p.sims.foldl Acct.sim Acct.start).stopped = true) :
    Acct.start.prog ⟨p.sims ++ more, tail'⟩ = Acct.start.prog p := by
  have e1 : (p.sims ++ more).foldl Acct.sim Acct.start = p.sims.foldl Acct.sim Acct.start := by
    rw [List.foldl_append, sims_stopped h]
  have hr : (p.sims.foldl Acct.sim Acct.start).readInput = p.sims.foldl Acct.sim Acct.start := by
    simp [Acct.readInput, h]
  simp only [Acct.prog, e1, hr, tail_stopped h]

/-- the API call inherits it: the events a trace records for `Run*` end with the STOP event -/
theorem run_stop_is_last (cfg : ErrCfg) (on : Bool) (w : Wrapper) (p : Program) (h : w.dbLoaded = true) :
    let r := runCall cfg on w p
    ∀ pre e post, r.events = pre ++ e :: post → isStop e = true → post = [] := by
  intro r pre e post he hs
  have hr : r.events = (Acct.start.prog p).events := by simp [r, runCall, h]
  rw [hr] at he
  have inv := stopInv_prog stopInv_start p
  cases hst : (Acct.start.prog p).stopped with
  | false =>
    have := (inv.1 hst).1 e (by rw [he]; simp)
    rw [hs] at this; cases this
  | true =>
    obtain ⟨pre', e', hev, _, hno, _⟩ := inv.2 hst
    rw [hev] at he
    -- pre' ++ [e'] = pre ++ e :: post with no STOP in pre'
    cases post with
    | nil => rfl
    | cons x xs =>
      exfalso
      have hlen : (pre' ++ [e']).length = (pre ++ e :: x :: xs).length := by rw [he]
      have hmem : e ∈ pre' := by
        have hpre : pre.length < pre'.length := by simp at hlen; omega
        have h1 : (pre' ++ [e'])[pre.length]? = some e := by rw [he]; simp
        rw [List.getElem?_append_left hpre] at h1
        exact List.mem_of_getElem? h1
      have := hno e hmem
      rw [hs] at this; cases this

/-! ## after a failed call a successful LoadDatabase returns the wrapper's error state to fresh values -/

/-- the wrapper fields of this model after a `LoadDatabase` that returns 0 do not depend on the wrapper state before it -/
theorem load_result_independent_of_wrapper (cfg : ErrCfg) (on : Bool) (w w' : Wrapper) (db : Sim) (test : Program)
    (h : (loadCall cfg on w db test).ret = 0) :
    (loadCall cfg on w db test).w = (loadCall cfg on w' db test).w ∧ (loadCall cfg on w' db test).ret = 0 := by
  unfold loadCall at h ⊢
  by_cases hc : (Acct.start.sim { db with running := [] }).count = 0
  · simp only [hc, if_true] at h ⊢
    simp [runCall] at h ⊢
    exact h
  · simp only [hc, if_false] at h

/-- for every history of calls — successful or failing, ending in a failed call or not — a `LoadDatabase` that returns 0 leaves
the wrapper's error state (database flag, both counters, both reporters, both line vectors) exactly as the same load leaves a
new instance -/
theorem failed_then_load_fresh (cfg : ErrCfg) (on : Bool) (hist : List Call) (db : Sim) (test : Program)
    (h : (loadCall cfg on (history cfg on Wrapper.fresh hist) db test).ret = 0) :
    (loadCall cfg on (history cfg on Wrapper.fresh hist) db test).w = (loadCall cfg on Wrapper.fresh db test).w ∧
    (loadCall cfg on Wrapper.fresh db test).ret = 0 :=
  load_result_independent_of_wrapper cfg on _ _ db test h

/-- and the calls after it behave as on the new instance -/
theorem failed_then_load_then_calls_eq_fresh (cfg : ErrCfg) (on : Bool) (hist later : List Call) (db : Sim) (test : Program)
    (h : (loadCall cfg on (history cfg on Wrapper.fresh hist) db test).ret = 0) :
    history cfg on (loadCall cfg on (history cfg on Wrapper.fresh hist) db test).w later =
    history cfg on (loadCall cfg on Wrapper.fresh db test).w later := by
  rw [(failed_then_load_fresh cfg on hist db test h).1]

/-! ## non-vacuity: concrete calls -/

private def cfgOn : ErrCfg := ⟨true, true, false⟩
private def loaded : Wrapper := { Wrapper.fresh with dbLoaded := true }

/-- `SOLUTION 1; -bogus 1` : two reader errors (increment + message each), then the gate stops the call: return 2, 3 ERROR events,
the third with STOP, error string = their concatenation -/
example :
    let p : Program := ⟨[⟨[.bump, .engineErr true false "ERROR: Unknown option.\n".toList,
                            .bump, .engineErr true false "ERROR: -bogus 1\n".toList], false, true, [.other]⟩], [.other]⟩
    let r := runCall cfgOn true loaded p
    r.ret = 2 ∧ errCount r.events = 3 ∧ r.stopAt = some 3 ∧ r.routed = 3 ∧
    r.w.errLines.length = 3 := by decide

/-- a clean call returns 0 with warnings only; the next call's strings do not contain them -/
example :
    let p1 : Program := ⟨[⟨[.warn true "WARNING: x".toList], false, true, [.other, .other]⟩], []⟩
    let p2 : Program := ⟨[⟨[], false, true, [.engineErr true true "ERROR: boom\n".toList]⟩], []⟩
    let r1 := runCall cfgOn true loaded p1
    let r2 := runCall cfgOn true r1.w p2
    r1.ret = 0 ∧ r1.w.warnLines = ["WARNING: x".toList] ∧ r2.ret = 1 ∧ r2.w.warningString = [] ∧ r2.w.warnLines = [] ∧
    r2.w.errLines = ["ERROR: boom".toList] := by decide

/-- a run-phase error without STOP in simulation 1 is caught by the gate of simulation 2 (`io_error_count` survives `read_input`) -/
example :
    let p : Program := ⟨[⟨[], false, true, [.engineErr true false "ERROR: a\n".toList]⟩, ⟨[], false, true, [.other]⟩], []⟩
    let r := runCall cfgOn true loaded p
    r.ret = 2 ∧ errCount r.events = 2 := by decide

/-- no database: return 1, one STOP event, the earlier counters do not leak into the answer -/
example : (runCall cfgOn true { Wrapper.fresh with ioErrors := 7 } ⟨[], []⟩).ret = 1 ∧
    errCount (runCall cfgOn true { Wrapper.fresh with ioErrors := 7 } ⟨[], []⟩).events = 1 := by decide

/-- failed run, then a successful load: wrapper state as on a new instance -/
example :
    let bad : Program := ⟨[⟨[.bump, .engineErr true false "ERROR: e\n".toList], false, true, []⟩], []⟩
    let db : Sim := ⟨[.warn true "WARNING: db".toList], false, true, []⟩
    let test : Program := ⟨[⟨[], false, true, [.other]⟩], []⟩
    let w1 := history cfgOn true loaded [.run bad]
    w1.errLines ≠ [] ∧ (loadCall cfgOn true w1 db test).ret = 0 ∧
    (loadCall cfgOn true w1 db test).w.errLines = [] ∧
    (loadCall cfgOn true w1 db test).w = (loadCall cfgOn true Wrapper.fresh db test).w := by
  refine ⟨by decide, by decide, by decide, ?_⟩
  exact (load_result_independent_of_wrapper cfgOn true _ _ _ _ (by decide)).1

end PhreeqcVerif.ErrAcct
