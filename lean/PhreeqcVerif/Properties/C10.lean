import PhreeqcVerif.Lemmas.Raw
import PhreeqcVerif.Gen.RawTables
/-!
# C10 — captured reaction state (DUMP RAW text) can be re-instated without changing behaviour

Part carried by proof: the writer/reader tables of every entity class, regenerated from the current C++ source by
`tools/gen_raw.py` (`Gen/RawTables.lean`), satisfy the obligations of DESIGN §5 C10 — every written key reaches a case
of its reader through `find_option` (case-folded PREFIX match, first hit wins), no value lands in a member the key did
not print, every key outside the "workspace variables" sections is restored, nested blocks are handed over and handed
back symmetrically, the flags demanded under `check` are set — and these obligations imply, for EVERY record, that
dump → read → dump is a fixed point after at most one cycle (`raw_fixed_point`, proved for all systems in
`Lemmas/Raw.lean`). Tables in `Gen.Raw.exempt` fail an obligation on the current source; they are proved defective
here and reported by the check (finding / violation), never silently skipped.

What print/parse does to a single value (`norm`) enters as the hypothesis `Sys.ValOk`: identity on names and flags,
and identity on doubles under the assumption that a double printed with 17 significant digits
(`s_oss.precision(DBL_DIG + 2)`, checked by the translator in every `dump_raw`) is read back bit-exactly (IEEE-754
round trip). It is exercised on the real code by the correspondence part of the check (the normal restore and the
harness's own exact 17-digit restore must coincide), not proved.
-/
namespace PhreeqcVerif.Raw
open PhreeqcVerif.Gen.Raw

/-! ## `find_option`: for all items and all option lists -/

theorem findFrom_spec (p : String → Bool) :
    ∀ (l : List String) (i j : Nat), findFrom p l i = some j →
      ∃ n, j = i + n ∧ n < l.length ∧ p (l.getD n "") = true ∧ ∀ m, m < n → p (l.getD m "") = false := by
  intro l
  induction l with
  | nil => intro i j h; simp [findFrom] at h
  | cons o os ih =>
    intro i j h
    by_cases hp : p o = true
    · simp [findFrom, hp] at h
      exact ⟨0, by omega, by simp, by simpa using hp, by intro m hm; omega⟩
    · simp [findFrom, hp] at h
      obtain ⟨n, hj, hn, hpn, hmin⟩ := ih (i + 1) j h
      refine ⟨n + 1, by omega, by simp; omega, by simpa using hpn, ?_⟩
      intro m hm
      cases m with
      | zero => simpa using hp
      | succ m => simpa using hmin m (by omega)

/-- the option selected for an item is the FIRST one that starts with the case-folded item -/
theorem findOption_first (item : String) (l : List String) (j : Nat) (h : findOption item l = some j) :
    j < l.length ∧ (lower item).isPrefixOf (l.getD j "").toList = true ∧
    ∀ m, m < j → (lower item).isPrefixOf (l.getD m "").toList = false := by
  obtain ⟨n, hj, hn, hp, hmin⟩ := findFrom_spec _ l 0 j h
  have : j = n := by omega
  subst this
  exact ⟨hn, hp, hmin⟩

/-- shadowing: an earlier option that merely starts with the item takes it away from a later option, even from
the one that equals the item -/
theorem findOption_shadowed (item : String) (l : List String) (i j : Nat) (hij : i < j)
    (hi : (lower item).isPrefixOf (l.getD i "").toList = true) : findOption item l ≠ some j := by
  intro h
  have := (findOption_first item l j h).2.2 i hij
  rw [hi] at this
  cases this

theorem findFrom_none (p : String → Bool) : ∀ (l : List String) (i : Nat),
    findFrom p l i = none → ∀ o ∈ l, p o = false := by
  intro l
  induction l with
  | nil => intro i _ o ho; cases ho
  | cons a as ih =>
    intro i h o ho
    by_cases hp : p a = true
    · simp [findFrom, hp] at h
    · simp [findFrom, hp] at h
      rcases List.mem_cons.mp ho with rfl | ho'
      · simpa using hp
      · exact ih (i + 1) h o ho'

/-- an item is unknown exactly when no option starts with it -/
theorem findOption_none (item : String) (l : List String) (h : findOption item l = none) :
    ∀ o ∈ l, (lower item).isPrefixOf o.toList = false :=
  findFrom_none _ l 0 h

/-- non-vacuity: the prefix quirk on the two tables DESIGN §6 items 9/10 are about -/
example : findOption "ratio_uncertainty"
    ["isotope_number", "elt_name", "total", "ratio", "ratio_uncertainty_defined", "ratio_uncertainty"] = some 4 := by decide
example : findOption (String.ofList "-p".toList.tail) ["phase_name", "name", "p_read", "moles", "initial_moles", "p"] = some 0 := by decide
example : findOption "pH" ["totals", "ph", "pe"] = some 1 := by decide
example : findOptionExact "p" ["phase_name", "p"] = some 1 := by decide
example : lineOption "-temp" ["totals", "temp", "temperature"] = some 1 ∧ lineOption "Ca" ["totals", "temp"] = none ∧
    lineOption "Tc" ["tc"] = some 0 := by decide

/-! ## obligations over the complete regenerated tables -/

/-- the tables that are judged: all regenerated tables except those the translator reports as defective -/
def judged : List ClassTab := allTables.filter fun t => !exempt.contains t.name

/-- all obligations at once, over every judged table (one kernel evaluation of the complete generated tables) -/
theorem tables_ok : judged.all (tableOk allTables) = true := by decide +kernel

theorem tableOk_parts (all : List ClassTab) (t : ClassTab) (h : tableOk all t = true) :
    keysKnown t = true ∧ noCrossWiring t = true ∧ stateRestored t = true ∧ headerSymmetric all t = true ∧
    requiredDefined t = true ∧ guardsOk t = true ∧ fieldsDistinct t = true ∧ continuationOk t = true ∧
    singleField t = true := by
  simp only [tableOk, Bool.and_eq_true] at h
  obtain ⟨⟨⟨⟨⟨⟨⟨⟨h1, h2⟩, h3⟩, h4⟩, h5⟩, h6⟩, h7⟩, h8⟩, h9⟩ := h
  exact ⟨h1, h2, h3, h4, h5, h6, h7, h8, h9⟩

/-- every written key is recognised by its reader and never dispatched to an error case -/
theorem keys_known : judged.all keysKnown = true :=
  List.all_eq_true.mpr fun t ht => (tableOk_parts _ t (List.all_eq_true.mp tables_ok t ht)).1

/-- `no_cross_wiring`: the case selected for a written key assigns the member the key printed, or nothing -/
theorem no_cross_wiring : judged.all noCrossWiring = true :=
  List.all_eq_true.mpr fun t ht => (tableOk_parts _ t (List.all_eq_true.mp tables_ok t ht)).2.1

/-- `state_restored`: every key outside the "workspace variables" sections is read back into the member it printed,
by a case of the matching kind -/
theorem state_restored : judged.all stateRestored = true :=
  List.all_eq_true.mpr fun t ht => (tableOk_parts _ t (List.all_eq_true.mp tables_ok t ht)).2.2.1

/-- `header_symmetric`: nested blocks — same header tokens, same sub-class, the sub-reader returns on the first line
it does not know, the parent re-examines that line, no following key is swallowed by a sub-reader -/
theorem header_symmetric : judged.all (headerSymmetric allTables) = true :=
  List.all_eq_true.mpr fun t ht => (tableOk_parts _ t (List.all_eq_true.mp tables_ok t ht)).2.2.2.1

/-- the flags a reader demands under `check` are set by keys that are always written ("reading raises no errors") -/
theorem required_defined : judged.all requiredDefined = true :=
  List.all_eq_true.mpr fun t ht => (tableOk_parts _ t (List.all_eq_true.mp tables_ok t ht)).2.2.2.2.1

theorem guards_ok : judged.all guardsOk = true :=
  List.all_eq_true.mpr fun t ht => (tableOk_parts _ t (List.all_eq_true.mp tables_ok t ht)).2.2.2.2.2.1

theorem fields_distinct : judged.all fieldsDistinct = true :=
  List.all_eq_true.mpr fun t ht => (tableOk_parts _ t (List.all_eq_true.mp tables_ok t ht)).2.2.2.2.2.2.1

/-- multi-line blocks of the state sections are read by a case that takes their continuation lines -/
theorem continuation_ok : judged.all continuationOk = true :=
  List.all_eq_true.mpr fun t ht => (tableOk_parts _ t (List.all_eq_true.mp tables_ok t ht)).2.2.2.2.2.2.2.1

theorem single_field : judged.all singleField = true :=
  List.all_eq_true.mpr fun t ht => (tableOk_parts _ t (List.all_eq_true.mp tables_ok t ht)).2.2.2.2.2.2.2.2

/-- exemption is never used to hide a table that passes: every exempt table fails an obligation (concrete witness of
the defect on the current source), and every exempt name is a real table -/
theorem exempt_are_defective :
    exempt.all (fun n => match lookupTab allTables n with
      | some t => !tableOk allTables t
      | none => false) = true := by decide +kernel

/-- the nested sub-dumps only refer to regenerated tables -/
theorem children_known :
    allTables.all (fun t => t.written.all fun k => k.kind != .nested || (lookupTab allTables k.child).isSome) = true := by
  decide +kernel

/-- the abstract entries of every judged table satisfy the structural hypotheses of the generic theorem -/
theorem entries_struct_ok : judged.all (fun t => structOk (entriesOf t)) = true := by decide +kernel

/-! ## lifting: fixed point for every record -/

/-- the abstract system of a table, for any value domain -/
def sysOf {V : Type} (t : ClassTab) (fresh : String → V) (norm : String → V → V) (test : String → V → Bool) :
    Sys String V := ⟨entriesOf t, fresh, norm, test⟩

/-- **C10, text level**: for every judged entity class, every value domain whose print/parse is idempotent
(`ValOk`) and EVERY record `r`: dump∘read∘dump∘read∘dump = dump∘read∘dump. -/
theorem raw_fixed_point_tables {V : Type} (t : ClassTab) (ht : t ∈ judged)
    (fresh : String → V) (norm : String → V → V) (test : String → V → Bool)
    (hv : (sysOf t fresh norm test).ValOk) (r : String → V) :
    (sysOf t fresh norm test).print ((sysOf t fresh norm test).cycle ((sysOf t fresh norm test).cycle r)) =
    (sysOf t fresh norm test).print ((sysOf t fresh norm test).cycle r) :=
  raw_fixed_point _ (List.all_eq_true.mp entries_struct_ok t ht) hv r

/-- **C10, record level**: the re-instated object itself is a fixed point of a further cycle -/
theorem raw_cycle_idem_tables {V : Type} (t : ClassTab) (ht : t ∈ judged)
    (fresh : String → V) (norm : String → V → V) (test : String → V → Bool)
    (hv : (sysOf t fresh norm test).ValOk) (r : String → V) :
    (sysOf t fresh norm test).cycle ((sysOf t fresh norm test).cycle r) = (sysOf t fresh norm test).cycle r :=
  cycle_idem _ (List.all_eq_true.mp entries_struct_ok t ht) hv r

/-- every always-written key whose case feeds the printed member restores that member (up to print/parse) -/
theorem state_member_restored {V : Type} (t : ClassTab) (ht : t ∈ judged)
    (fresh : String → V) (norm : String → V → V) (test : String → V → Bool) (r : String → V)
    (e : Entry String) (he : e ∈ entriesOf t) (hr : e.route = some e.field) (hg : e.guard = none) :
    (sysOf t fresh norm test).cycle r e.field = norm e.field (r e.field) :=
  restored_of_routed (sysOf t fresh norm test) (List.all_eq_true.mp entries_struct_ok t ht) r e he hr hg

/-- in every judged table every state key that prints a member has such an entry, unless it is guarded on its own
non-emptiness -/
theorem state_keys_routed :
    judged.all (fun t => t.written.all fun k => k.sect == .work || (fieldOf k).isNone ||
      (entriesOf t).any (fun e => some e.field == fieldOf k && e.route == some e.field)) = true := by decide +kernel

/-! ## flags that clear each other in the reader (`-dissolve_only` / `-precipitate_only`) -/

/-- wherever a reader case clears another member after reading a true value, the clearing is mutual and both flags are written -/
theorem clobbers_mutual : allTables.all clobbersMutual = true := by decide +kernel

/-- two mutually exclusive flags survive the reader's mutual clearing exactly when they are not both set — which the clearing itself
guarantees for every state that came through the reader -/
theorem exclusive_flags_restored (a b : Bool) (h : (a && b) = false) : readExclusive a b = (a, b) := by
  cases a <;> cases b <;> simp_all [readExclusive]

/-- the excluded state is really not restored (the writer prints both, the second line clears the first) -/
example : readExclusive true true = (false, true) := by decide

/-- non-vacuity: the pure-phase component table has such a pair -/
example : clobberPairs tabPPassemblageComp = [("dissolve_only", "precipitate_only"), ("precipitate_only", "dissolve_only")] := by
  decide +kernel

/-! ## binary serialisation: `Serialize` / `Deserialize` of every class -/

/-- over the push/pop sequences regenerated from the current source of all 20 serialised classes: `Deserialize` pops exactly
what `Serialize` pushed — same stream, same order, same member, same loop structure -/
theorem serialize_symmetric : serTabs.all serSymmetric = true := by decide +kernel

/-- counted loops are properly bracketed in every sequence -/
theorem serialize_brackets : serTabs.all (fun t => bracketsBalanced t.ser 0) = true := by decide +kernel

/-- a reader that pops with the op list the writer pushed with restores every field exactly (bracket-free programs, any
record, any trailing stream content) -/
theorem serializer_round_trip {F V : Type} [DecidableEq F] (ops : List (FOp F)) (hnd : (ops.map (·.field)).Nodup)
    (r : F → V) (ri rd : List V) (acc : F → V) (f : F) (hf : f ∈ ops.map (·.field)) :
    deserFlat ops ((serFlat ops r).1 ++ ri, (serFlat ops r).2 ++ rd) acc f = r f :=
  deser_ser_flat ops hnd r ri rd acc f hf

/-- negation on a witness: a reader whose two pops are swapped (the mutation `grams` ↔ `specific_area`) exchanges the fields -/
example :
    let w : List (FOp Nat) := [⟨.dbl, 0⟩, ⟨.dbl, 1⟩]
    let rd : List (FOp Nat) := [⟨.dbl, 1⟩, ⟨.dbl, 0⟩]
    let r : Nat → Nat := fun f => if f = 0 then 600 else 2
    deserFlat rd (serFlat w r) (fun _ => 0) 0 = 2 ∧ deserFlat w (serFlat w r) (fun _ => 0) 0 = 600 := by decide


/-- non-vacuity: the tables are there and not trivial -/
example : serTabs.length = 20 ∧ (serTabs.map (·.ser.length)).sum ≥ 250 := by decide +kernel

/-! ## restoring element totals through `SOLUTION_MODIFY -totals` (`cxxNameDouble::merge_redox`) -/

/-- after merging a plain element total no valence-state entry of that element remains, the element holds the merged value and
entries of other elements are untouched — for every map and every name -/
theorem merge_plain_total {V : Type} (m : NameDouble V) (n : String) (v : V) (hn : isRedox n = false) :
    (∀ x ∈ mergeOne m (n, v), startsWith (n ++ "(") x.1 = false) ∧ ndGet (mergeOne m (n, v)) n = some v ∧
    (∀ k, k ≠ n → startsWith (n ++ "(") k = false → ndGet (mergeOne m (n, v)) k = ndGet m k) :=
  mergeOne_plain m n v hn

/-- merging a valence-state total removes the plain entry of its element -/
theorem merge_valence_total {V : Type} (m : NameDouble V) (n : String) (v : V) (hn : isRedox n = true) :
    ndGet (mergeOne m (n, v)) (eltName n) = none ∧ ndGet (mergeOne m (n, v)) n = some v :=
  mergeOne_redox m n v hn

/-- a whole `-totals` block of plain element names: every listed element ends with exactly the listed total and without any
valence-state entry, whatever valence distribution the solution held before -/
theorem modify_element_totals {V : Type} (src : NameDouble V) (hplain : ∀ e ∈ src, isRedox e.1 = false)
    (hnd : (src.map (·.1)).Nodup) (m : NameDouble V) :
    ∀ e ∈ src, ndGet (mergeRedox m src) e.1 = some e.2 ∧ ∀ x ∈ mergeRedox m src, startsWith (e.1 ++ "(") x.1 = false :=
  mergeRedox_plain src hplain hnd m

/-- non-vacuity and the defect the seeded change introduces: with Fe(2) and Fe(3) stored, merging the plain total `Fe`
leaves exactly the element total; a variant that erases only the FIRST valence state leaves `Fe(3)` behind -/
example : mergeRedox [("Fe(2)", 2), ("Fe(3)", 3), ("Na", 5)] [("Fe", (7 : Nat))] = [("Na", 5), ("Fe", 7)] := by decide
example : mergeRedox [("Fe", 7), ("F", 1)] [("Fe(2)", (2 : Nat))] = [("F", 1), ("Fe(2)", 2)] := by decide
example : mergeRedox [("F", 1), ("Fe(2)", 2)] [("F", (9 : Nat))] = [("Fe(2)", 2), ("F", 9)] := by decide

/-- negation on a witness: a reader that erased only the FIRST valence state (the seeded change of /verif/seeded/C10) would
double count the element — `Fe(3)` stays next to the new `Fe` -/
example :
    let firstOnly (m : NameDouble Nat) (n : String) (v : Nat) : NameDouble Nat :=
      match m.find? (fun x => startsWith (n ++ "(") x.1) with
      | some hit => ndSet (m.filter (· != hit)) n v
      | none => ndSet m n v
    firstOnly [("Fe(2)", 2), ("Fe(3)", 3)] "Fe" 7 = [("Fe(3)", 3), ("Fe", 7)] ∧
    mergeOne [("Fe(2)", 2), ("Fe(3)", 3)] ("Fe", 7) = [("Fe", 7)] := by decide

/-! ## non-vacuity -/

/-- every regenerated table is either judged or exempt (and proved defective above); there are 20 of them -/
example : judged.length + exempt.length = allTables.length ∧ allTables.length = 20 := by
  decide +kernel

/-- a concrete record of the GasComp table: `p` (workspace, shadowed by `phase_name`) is lost in the first cycle,
`moles` survives, and the second cycle changes nothing -/
example :
    let S := sysOf tabGasComp (fun _ => (0 : Nat)) (fun _ v => v) (fun _ v => v != 0)
    let r : String → Nat := fun f => if f = "moles" then 7 else if f = "p" then 3 else 0
    S.cycle r "moles" = 7 ∧ S.cycle r "p" = 0 ∧ r "p" = 3 ∧ S.cycle (S.cycle r) "p" = S.cycle r "p" := by
  decide

/-- negation on a concrete witness: a cross-wired system (the value of field 0 is routed into field 1) is NOT a fixed
point after one cycle — the obligations are what makes the theorem true -/
example :
    let S : Sys Nat Nat := ⟨[⟨0, some 1, none⟩], fun _ => 0, fun _ v => v, fun _ _ => true⟩
    structOk S.entries = false ∧ S.cycle (S.cycle (fun _ => 5)) 1 ≠ S.cycle (fun _ => 5) 1 := by
  decide

/-- the isotope table of the source as shipped (vopts order `ratio_uncertainty_defined` before `ratio_uncertainty`)
is cross-wired; with the two options in the other order it is not -/
example :
    let t (v : List String) : ClassTab :=
      { name := "iso", keyword := "", vopts := v,
        written := [⟨"ratio_uncertainty", ["ratio_uncertainty"], .scalar, .state, .always, "", 0⟩],
        cases := [⟨[4], ["ratio_uncertainty_defined"], .value, "", 0, [], false, false, []⟩,
                  ⟨[5], ["ratio_uncertainty"], .value, "", 0, [], false, false, []⟩],
        unknownReturns := true, usesLastLine := false, required := [] }
    noCrossWiring (t ["a", "b", "c", "ratio", "ratio_uncertainty_defined", "ratio_uncertainty"]) = false ∧
    noCrossWiring (t ["a", "b", "c", "ratio", "x_defined", "ratio_uncertainty"]) = true := by
  decide

end PhreeqcVerif.Raw
