/- helper lemmas for Properties/C07 (core Lean only) -/
import PhreeqcVerif.Model.Reset

namespace PhreeqcVerif.Reset

variable {E : Type}

/-- with `EngineReset`, what `loadDb` produces depends on the instance only through id, switches, names and the per-call members -/
theorem loadDb_eq (eng : Engine E) (hE : EngineReset eng) (w : W E) (db : String) :
    loadDb eng w db =
      ({ id := w.id, sw := w.sw, names := w.names, pc := w.pc, engine := (eng.readDb eng.fresh db).1,
         c := { dbLoaded := ((eng.readDb eng.fresh db).2 == 0) } }, (eng.readDb eng.fresh db).2) := by
  simp [loadDb, unloadDatabase, hE w.engine]

/-- a run on a loaded instance does not look at the per-call members -/
theorem runString_loaded_pc (eng : Engine E) (w : W E) (pc' : PerCall) (input : String) (h : w.c.dbLoaded = true) :
    runString eng { w with pc := pc' } input = runString eng w input := by
  simp [runString, runCore, h, runEnv]

theorem runOps_append (eng : Engine E) (w : W E) (a b : List Op) : runOps eng w (a ++ b) = runOps eng (runOps eng w a) b := by
  simp [runOps, List.foldl_append]

end PhreeqcVerif.Reset
