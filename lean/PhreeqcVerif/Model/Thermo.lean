import PhreeqcVerif.Model.NumOps
/-! Temperature dependence of equilibrium constants (C01), generic over `NumOps`.

Models `Phreeqc::k_calc` (prep.cpp), the unit conversion of `read_delta_h_only` (read.cpp), the selection rule
`select_log_k_expression` and the combination rules `add_other_logk` / `add_logks` / `trxn_add` (tidy.cpp,
structures.cpp).  `Float` executes it in `pmodel speciate`; `ratOps f` (uninterpreted `log10`, `ln`) carries the
theorems of `Properties/C01.lean`. -/
namespace PhreeqcVerif.Thermo
open PhreeqcVerif

/-- the first nine entries of the engine's `logk[]` vector: `logK_T0, delta_h (kJ/mol), T_A1..T_A6, delta_v` -/
structure LogK (α : Type) where
  k0 : α
  dh : α
  a1 : α
  a2 : α
  a3 : α
  a4 : α
  a5 : α
  a6 : α
  dv : α

variable {α : Type} [NumOps α]

def LogK.zero : LogK α :=
  let z : α := NumOps.lit 0
  ⟨z, z, z, z, z, z, z, z, z⟩

def LogK.add (p q : LogK α) : LogK α :=
  ⟨p.k0 + q.k0, p.dh + q.dh, p.a1 + q.a1, p.a2 + q.a2, p.a3 + q.a3, p.a4 + q.a4, p.a5 + q.a5, p.a6 + q.a6, p.dv + q.dv⟩

def LogK.smul (c : α) (p : LogK α) : LogK α :=
  ⟨c * p.k0, c * p.dh, c * p.a1, c * p.a2, c * p.a3, c * p.a4, c * p.a5, c * p.a6, c * p.dv⟩

/-- `trxn.logk[i] += coef * r.logk[i]` (trxn_add) -/
def LogK.addScaled (p : LogK α) (c : α) (q : LogK α) : LogK α :=
  ⟨p.k0 + c * q.k0, p.dh + c * q.dh, p.a1 + c * q.a1, p.a2 + c * q.a2, p.a3 + c * q.a3, p.a4 + c * q.a4,
   p.a5 + c * q.a5, p.a6 + c * q.a6, p.dv + c * q.dv⟩

/-- unit of a `delta_h` option as written in the database text -/
inductive DHUnit where
  | kJ | J | kcal | cal
  deriving Repr, DecidableEq, Inhabited

def DHUnit.ofCode : Nat → DHUnit
  | 1 => .J | 2 => .kcal | 3 => .cal | _ => .kJ

/-- `read_delta_h_only`: not kilo ⇒ `/1000`; calories ⇒ `* JOULES_PER_CALORIE` (4.184), in this order -/
def dhToKJ (u : DHUnit) (x : α) : α :=
  match u with
  | .kJ => x
  | .J => x / NumOps.lit 1000
  | .kcal => x * NumOps.lit (4184 / 1000)
  | .cal => x / NumOps.lit 1000 * NumOps.lit (4184 / 1000)

/-- non-zero test as the source writes it (`!= 0.0`), through the order of the number type -/
def nz [DecidableLT α] (x : α) : Bool := decide (x < NumOps.lit 0) || decide (NumOps.lit 0 < x)

def LogK.analytic [DecidableLT α] (p : LogK α) : Bool :=
  nz p.a1 || nz p.a2 || nz p.a3 || nz p.a4 || nz p.a5 || nz p.a6

/-- `select_log_k_expression`: an analytic expression switches `log_k`/`delta_h` off, otherwise the analytic terms are zero -/
def selectExpr [DecidableLT α] (p : LogK α) : LogK α :=
  let z : α := NumOps.lit 0
  if p.analytic then ⟨z, z, p.a1, p.a2, p.a3, p.a4, p.a5, p.a6, p.dv⟩
  else ⟨p.k0, p.dh, z, z, z, z, z, z, p.dv⟩

/-- one step of `add_other_logk`: a named expression with analytic terms contributes only those, otherwise only
`log_k`/`delta_h`; the volume entry always -/
def addOther [DecidableLT α] (src : LogK α) (named : LogK α) (c : α) : LogK α :=
  if named.analytic then
    { src with a1 := src.a1 + named.a1 * c, a2 := src.a2 + named.a2 * c, a3 := src.a3 + named.a3 * c,
               a4 := src.a4 + named.a4 * c, a5 := src.a5 + named.a5 * c, a6 := src.a6 + named.a6 * c,
               dv := src.dv + named.dv * c }
  else
    { src with k0 := src.k0 + named.k0 * c, dh := src.dh + named.dh * c, dv := src.dv + named.dv * c }

/-- log K vector of a species/phase as tidy builds it: own expression selected, then `-add_logk` expressions added -/
def combineLogK [DecidableLT α] (own : LogK α) (adds : List (LogK α × α)) : LogK α :=
  adds.foldl (fun acc nc => addOther acc nc.1 nc.2) (selectExpr own)

/-- `add_logks`: a named expression that refers to other (already resolved) named expressions adds ALL entries -/
def combineNamed [DecidableLT α] (own : LogK α) (adds : List (LogK α × α)) : LogK α :=
  adds.foldl (fun acc nc => acc.addScaled nc.2 nc.1) (selectExpr own)

/-- `R_KJ_DEG_MOL` -/
def rKJ : Rat := 831470 / 100000000
/-- reference temperature of the van 't Hoff term -/
def tRef : Rat := 29815 / 100
/-- `REF_PRES_PASCAL` = `PASCAL_PER_ATM` -/
def pRef : Rat := 101325

/-- `k_calc(l_logk, tempk, presPa)`; `LOG_10` is `log(10.0)` of the run-time library -/
def kCalc [DecidableLT α] (p : LogK α) (T P : α) : α :=
  let me : α := T * NumOps.lit rKJ
  let dp : α := P - NumOps.lit pRef
  let ln10 : α := NumOps.ln (NumOps.lit 10)
  let lk : α := p.k0 - p.dh * (NumOps.lit tRef - T) / (ln10 * me * NumOps.lit tRef)
      + p.a1 + p.a2 * T + p.a3 / T + p.a4 * NumOps.log10 T + p.a5 / (T * T) + p.a6 * T * T
  if NumOps.lit 0 < dp then lk - p.dv * NumOps.lit (1 / 1000000000) * dp / (ln10 * me) else lk

/-- the pressure-free part (what the 1 atm scope of C01 uses) -/
def kCalc1atm (p : LogK α) (T : α) : α :=
  let me : α := T * NumOps.lit rKJ
  let ln10 : α := NumOps.ln (NumOps.lit 10)
  p.k0 - p.dh * (NumOps.lit tRef - T) / (ln10 * me * NumOps.lit tRef)
      + p.a1 + p.a2 * T + p.a3 / T + p.a4 * NumOps.log10 T + p.a5 / (T * T) + p.a6 * T * T

end PhreeqcVerif.Thermo
