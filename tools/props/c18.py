"""C18 — every reported inverse model is a genuine, admissible mole-balance model.

(1) proof obligations: Properties/C18.lean (checkModel_sound, matrix_encodes_admissible, minimal_antichain,
    range_contains_value, ...) about Model/Inverse.lean;
(2) tie A (set-up): after the real setup_inverse the harness dumps the parsed problem and my_array / delta / names;
    `pmodel inverse` rebuilds the matrix with `setupMatrix` from the parsed problem; compared entry by entry at 1e-12;
(3) tie B (models): at every reported model the internal vectors (inv_delta1, min_delta, max_delta) are read by friend
    access and run through the proved `checkModel` with element totals taken from an independent speciation
    (SELECTED_OUTPUT of TOT()/ALK of the same solutions in the same run); the punched selected-output values are compared
    with the internal ones at print precision; a direct, existential oracle per chemical element (formula
    stoichiometry, redox states summed) is evaluated on the punched values;
(4) tie C (search): the feasibility oracle (solve_with_mask for every mask) is tabulated in-process and the Lean `search`
    must reproduce the sequence of reported models and the counters good/bad/minimal/calls of the real run;
    -minimal: reported models must form an antichain (direct oracle).
"""
import json
import math
import re
import struct
import concurrent.futures as cf

import vlib
from gens import inverse as gen


# ----------------------------------------------------------------------------------------------- helpers
def d2h(x):
    return struct.pack(">d", float(x)).hex()


def h2d(h):
    return struct.unpack(">d", bytes.fromhex(h))[0]


def unhex(h):
    return "" if h == "-" else bytes.fromhex(h).decode("utf-8", "replace")


def kv(words, start=0):
    return {words[i]: words[i + 1] for i in range(start, len(words) - 1, 2)}


def parse_harness(text):
    """harness stdout of one run → dict"""
    res = {"setups": [], "seltabs": {}, "rc": None, "final": {}, "err": "", "warn": "", "out": "", "load": None,
           "exception": False, "complete": False}
    cur = None
    model = None
    for line in text.splitlines():
        w = line.split()
        if not w:
            continue
        t = w[0]
        if t == "SETUP":
            cur = {"n_user": int(w[3]), "solns": [], "elts": [], "phases": [], "redox": [], "colnames": [], "rows": [],
                   "models": [], "oracle": None, "oracle_aborted": False}
            res["setups"].append(cur)
        elif t == "DIMS":
            cur["dims"] = {k: int(v) for k, v in kv(w, 1).items()}
        elif t == "OPTS":
            o = kv(w, 1)
            cur["opts"] = {k: (h2d(v) if len(v) == 16 else int(v)) for k, v in o.items()}
        elif t == "SOLN":
            if "missing" in w:
                cur["solns"].append(None)
                continue
            i = w.index("totals")
            o = kv(w[:i], 3)
            tot = []
            for j in range(i + 1, len(w) - 2, 3):
                tot.append((unhex(w[j]), int(w[j + 1]), h2d(w[j + 2])))
            cur["solns"].append({"n": int(w[2]), "force": int(o["force"]), "mass_water": h2d(o["mass_water"]),
                                 "alk": h2d(o["alk"]), "ph": h2d(o["ph"]), "ph_unc": h2d(o["ph_unc"]),
                                 "dalk_dph": h2d(o["dalk_dph"]), "dalk_dc": h2d(o["dalk_dc"]), "totals": tot})
        elif t == "ELT":
            i = w.index("unc")
            o = kv(w[:i], 3)
            cur["elts"].append({"name": unhex(w[2]), "prim": unhex(o["prim"]), "isE": int(o["isE"]), "isAlk": int(o["isAlk"]),
                                "alkName": int(o["alkName"]), "zalk": h2d(o["zalk"]), "isC4": int(o["isC4"]),
                                "unc": [h2d(x) for x in w[i + 1:]]})
        elif t == "PHASE":
            i = w.index("tokens")
            j = w.index("elts")
            o = kv(w[:i], 3)
            toks = [(w[k], w[k + 1], h2d(w[k + 2])) for k in range(i + 1, j - 2, 3)]
            els = [(unhex(w[k]), h2d(w[k + 1])) for k in range(j + 1, len(w) - 1, 2)]
            cur["phases"].append({"name": unhex(w[2]), "constraint": int(o["constraint"]), "force": int(o["force"]),
                                  "alk": h2d(o["alk"]), "formula": unhex(o["formula"]), "tokens": toks, "elts": els})
        elif t == "REDOX":
            i = w.index("tokens")
            o = kv(w[:i], 3)
            toks = [(w[k], w[k + 1], h2d(w[k + 2])) for k in range(i + 1, len(w) - 2, 3)]
            cur["redox"].append({"name": unhex(w[2]), "elt": int(o["elt"]), "coef": h2d(o["coef"]), "alk": h2d(o["alk"]),
                                 "salk": h2d(o["salk"]), "tokens": toks})
        elif t in ("ISOELT", "ISOUNK", "SOLISO", "PHISO"):
            cur.setdefault(t.lower(), []).append(w[1:])
        elif t == "MASTER":
            cur.setdefault("masters", []).append((w[1], h2d(w[2]), int(w[3]), int(w[4])))
        elif t == "COLNAME":
            cur["colnames"].append(unhex(w[2]))
        elif t == "ROW":
            cells = {}
            for c in w[3:]:
                a, b = c.split(":")
                cells[int(a)] = h2d(b)
            cur["rows"].append((unhex(w[2]), cells))
        elif t == "DELTA":
            cur["delta"] = [h2d(x) for x in w[2:]]
        elif t == "ORACLE":
            ent = w[2:]
            if ent and ent[-1] == "ABORTED":
                cur["oracle_aborted"] = True
                ent = ent[:-1]
            cur["oracle"] = ent
            cur["oracle_nbits"] = int(w[1])
        elif t == "MODEL":
            o = kv(w, 1)
            model = {"count_good": int(o["count_good"]), "count_bad": int(o["count_bad"]), "count_minimal": int(o["count_minimal"]),
                     "count_calls": int(o["count_calls"]), "bits": int(o["bits"]), "error": h2d(o["error"]),
                     "scaled_error": h2d(o["scaled_error"]), "max_pct": h2d(o["max_pct"]), "punch": [],
                     "selfcheck": int(o.get("selfcheck", 1)), "kode": int(o.get("kode", 0))}
            cur["models"].append(model)
        elif t in ("X", "MIN", "MAX", "DSAVE"):
            model[t] = [h2d(x) for x in w[2:]]
        elif t == "MINIMAL":
            model["minimal"] = [int(x) for x in w[1:]]
        elif t == "GOOD":
            model["good"] = [int(x) for x in w[1:]]
        elif t == "PUNCH":
            if model is not None:
                model["punch"].append((unhex(w[1]), h2d(w[2]), unhex(w[3])))
        elif t == "LOAD":
            res["load"] = int(w[1])
        elif t == "RUN":
            res["rc"] = int(w[1])
        elif t == "EXCEPTION":
            res["exception"] = True
        elif t == "FINAL":
            res["final"] = {k: int(v) for k, v in kv(w, 1).items()}
        elif t == "ERRSTR":
            res["err"] = unhex(w[1])
        elif t == "WARNSTR":
            res["warn"] = unhex(w[1])
        elif t == "OUTSTR":
            res["out"] = unhex(w[1])
        elif t == "SELSTR":
            res["seltabs"][int(w[1])] = unhex(w[2])
        elif t == "END":
            res["complete"] = True
    return res


def harness_text(db, inp, oracle_bits, output=0, tag="c"):
    return "db %s\noracle %d\noutput %d\ninput %s\nrun %s\n" % (db.encode().hex(), oracle_bits, output, inp.encode().hex(), tag)



# ----------------------------------------------------------------------------------------------- independent reading of the input
INV_OPTS = ["solutions", "uncertainty", "uncertainties", "balances", "phase_data", "range", "minimal", "minimum", "balance", "bal",
            "sol", "phases", "ranges", "tolerance", "u_water", "uncertainty_water", "force", "force_solution", "force_solutions",
            "isotopes", "mineral_water", "phase", "multiple_precision", "mp_tolerance", "censor_mp", "lon_netpath", "pat_netpath"]


def _numbers(words):
    out = []
    for w in words:
        try:
            out.append(float(w))
        except ValueError:
            break
    return out


def read_declared(text):
    """what the INPUT TEXT declares (first INVERSE_MODELING block): solution numbers, global uncertainties, -balances entries
    in order (name, list), pH uncertainties. Pure text reading, nothing from the engine."""
    lines = []
    for raw in text.split("\n"):
        raw = raw.split("#")[0]
        for part in raw.split(";"):
            if part.strip():
                lines.append(part.strip())
    try:
        i0 = next(i for i, l in enumerate(lines) if l.split()[0].upper().startswith("INVERSE_MODELING"))
    except StopIteration:
        return None
    d = {"solns": [], "unc": [], "entries": [], "ph": None, "phases": [], "range": 0, "range_max": 1000.0, "minimal": 0,
         "tolerance": 1e-10, "mineral_water": 1, "mp": 0, "mp_tolerance": 1e-12, "u_water": 0.0, "force_solns": []}

    def tf(rest, default=True):
        if not rest:
            return default
        return rest[0][0] in "tT" if rest[0][0] in "tTfF" else default
    cur = None
    keywords = ("END", "SOLUTION", "PHASES", "SELECTED_OUTPUT", "USER_PUNCH", "EXCHANGE_SPECIES", "TITLE", "REACTION", "MIX", "USE",
                "SAVE", "INVERSE_MODELING", "SOLUTION_SPREAD", "KNOBS", "PRINT")
    for l in lines[i0 + 1:]:
        w = l.split()
        if w[0].upper() in keywords or w[0].upper().split("_")[0] in ("SOLUTION",):
            break
        if w[0].startswith("-"):
            tok = w[0][1:].lower()
            opt = next((o for o in INV_OPTS if o.startswith(tok)), None)
            rest = w[1:]
            cur = None
            if opt in ("solutions", "sol"):
                d["solns"] = [int(x) for x in _numbers(rest)]
            elif opt in ("uncertainty", "uncertainties"):
                d["unc"] = _numbers(rest)
            elif opt in ("balances", "balance", "bal"):
                cur = "bal"
                w = rest
                if not w:
                    continue
            elif opt in ("phases", "phase", "phase_data"):
                cur = "phase"
                w = rest
                if not w:
                    continue
            elif opt == "isotopes":
                cur = "iso"
                continue
            else:
                nums = _numbers(rest)
                if opt in ("range", "ranges"):
                    d["range"] = 1
                    if nums:
                        d["range_max"] = nums[0]
                elif opt in ("minimal", "minimum"):
                    d["minimal"] = 1
                elif opt == "tolerance" and nums:
                    d["tolerance"] = nums[0]
                elif opt in ("u_water", "uncertainty_water") and nums:
                    d["u_water"] = nums[0]
                elif opt == "mineral_water":
                    d["mineral_water"] = 1 if tf(rest) else 0
                elif opt == "multiple_precision":
                    d["mp"] = 1 if tf(rest) else 0
                elif opt == "mp_tolerance" and nums:
                    d["mp_tolerance"] = abs(nums[0])
                elif opt in ("force", "force_solution", "force_solutions"):
                    d["force_solns"] = [1 if x[0] in "tT" else 0 for x in rest if x[0] in "tTfF"]
                continue
        if cur == "phase" and w:
            con, force, k = 0, 0, 1
            while k < len(w):
                tk = w[k]
                if tk[0].lower() == "p":
                    con = -1
                elif tk[0].lower() == "d":
                    con = 1
                elif tk[0] == "f":
                    force = 1
                elif tk[0].isdigit() or (tk[0] in "+-." and len(tk) > 1 and (tk[1].isdigit() or tk[1] == ".")):
                    k += 2                      # isotope name, ratio, uncertainty
                k += 1
            d["phases"].append((w[0], con, force))
            continue
        if cur == "bal" and w:
            name = w[0].replace("(+", "(")
            vals = _numbers(w[1:])
            if name.lower() == "ph":
                d["ph"] = vals
            else:
                d["entries"].append((name, vals))
    if not d["solns"]:
        d["solns"] = [1, 2]
    return d


def read_isotope_decl(text):
    """-isotopes entries of the first INVERSE_MODELING block [(number, name, [unc…])] and the -i / -isotope lines of every
    SOLUTION n block {n: {"13C": unc or None}} — pure text reading"""
    ents, sols = [], {}
    sect, cur, sol = None, None, None
    for raw in text.split("\n"):
        l = raw.split("#")[0].strip()
        if not l:
            continue
        w = l.split()
        up = w[0].upper()
        if up == "SOLUTION":
            sect, sol = "SOL", int(re.match(r"-?\d+", w[1]).group(0)) if len(w) > 1 and re.match(r"-?\d+", w[1]) else 1
            sols.setdefault(sol, {})
            continue
        if up.startswith("INVERSE_MODELING"):
            if sect == "INVDONE":
                break
            sect, cur = "INV", None
            continue
        if up in ("END", "PHASES", "EXCHANGE_SPECIES", "TITLE", "SELECTED_OUTPUT", "USER_PUNCH", "REACTION", "MIX", "USE", "SAVE", "SOLUTION_SPREAD"):
            sect = "INVDONE" if sect == "INV" else None
            continue
        if sect == "SOL" and w[0].lower() in ("-i", "-isotope") and len(w) >= 3:
            sols[sol][w[1]] = float(w[3]) if len(w) > 3 else None
        elif sect == "INV":
            if w[0].startswith("-"):
                opt = next((o for o in INV_OPTS if o.startswith(w[0][1:].lower())), None)
                cur = "iso" if opt == "isotopes" else None
                w = w[1:] if cur == "iso" else []
            if cur == "iso" and w:
                m = re.match(r"(\d+(?:\.\d+)?)(.+)", w[0])
                if m:
                    ents.append((float(m.group(1)), m.group(2), _numbers(w[1:])))
    return ents, sols


def declared_iso_unc(text, su):
    """expected x_ratio_uncertainty of every solution isotope datum the inverse model uses (check_isotopes semantics)"""
    ents, sols = read_isotope_decl(text)
    out = []
    for w in su.get("soliso", []):
        q, master, prim, num = int(w[0]), unhex(w[1]), unhex(w[2]), h2d(w[3])
        got = h2d(w[6])
        pick = None
        for nmb, name, lst in ents:                       # a valence-state entry wins, else the (last) element-wide one
            if name.lower() == master.lower():
                pick = lst
                break
            if name.lower() == prim.lower():
                pick = lst
        if pick is None:
            continue                                      # datum not used by the inverse model
        if q < len(pick):
            exp = pick[q]
        elif pick:
            exp = pick[-1]
        else:
            sn = su["solns"][q]["n"]
            dd = sols.get(sn, {})
            key = next((k for k in ("%g%s" % (num, master), "%g%s" % (num, prim)) if k in dd), None)
            exp = dd.get(key) if key else None
        if exp is not None:
            out.append((q, master, num, got, exp))
    return out


def pad(vals, ns, default):
    if not vals:
        return list(default)
    return (list(vals) + [vals[-1]] * ns)[:ns] if len(vals) < ns else list(vals[:ns])


def declared_uncertainties(text, su):
    """declared uncertainty of every (element row, solution) and of pH from the input text; row names and the element each
    valence-state row belongs to come from the database structure (ELT lines), never from inv_ptr->elts[..].uncertainties.
    Returns (unc[e][q], ph[q], lean_command) or None"""
    d = read_declared(text)
    if d is None:
        return None
    ns = len(su["solns"])
    if len(d["solns"]) != ns:
        return None
    glob = pad(d["unc"], ns, [0.05] * ns)
    ph = pad(d["ph"], ns, [0.05] * ns) if d["ph"] is not None else [0.05] * ns
    elts = su["elts"]
    names = [e["name"] for e in elts]
    low = {n.lower(): n for n in names}
    prims = sorted({e["prim"] for e in elts})
    unc = [list(glob) for _ in elts]
    ents = []
    for name, vals in d["entries"]:
        lst = pad(vals, ns, glob)
        redox_element = "(" not in name and any(e["prim"].lower() == name.lower() and e["name"].lower() != name.lower() for e in elts)
        ents.append((name, lst, redox_element))
    for name, lst, redox_element in ents:                      # an element name covers all its valence states
        if redox_element:
            for k, e in enumerate(elts):
                if e["prim"].lower() == name.lower():
                    unc[k] = list(lst)
    for name, lst, redox_element in ents:                      # valence states / other masters: that row only
        if not redox_element and name.lower() in low:
            unc[names.index(low[name.lower()])] = list(lst)
    cmd = ["unc", "ROWS"]
    for k, e in enumerate(elts):
        cmd += [str(k), str(prims.index(e["prim"]))]
    cmd += ["DFLT"] + [d2h(v) for v in glob]
    for name, lst, redox_element in ents:
        if redox_element:
            hit = [pp for pp in prims if pp.lower() == name.lower()]
            if hit:
                cmd += ["ENT", "e", str(prims.index(hit[0])), str(len(lst))] + [d2h(v) for v in lst]
        elif name.lower() in low:
            cmd += ["ENT", "r", str(names.index(low[name.lower()])), str(len(lst))] + [d2h(v) for v in lst]
    return unc, ph, " ".join(cmd)

# ----------------------------------------------------------------------------------------------- pmodel input
def problem_lines(su, totals_override=None, unc_override=None, ph_override=None, con_override=None):
    """parsed problem of one set-up → lines for `pmodel inverse`.
    totals_override: per solution a dict elt-name → moles (independent speciation) and "Alkalinity" """
    o = su["opts"]
    elts = su["elts"]
    ne = len(elts)
    ialk = next((i for i, e in enumerate(elts) if e["isAlk"]), 0)
    icarb = next((i for i, e in enumerate(elts) if e["isC4"]), -1)
    lines = ["problem",
             "opts %s %d %s %d %d %d %d" % (d2h(o["toler"]), o["mineral_water"], d2h(o["water_unc"]), o["carbon"], ialk, icarb, o["range"])]
    for nm, coef, ish, isw in su.get("masters", []):
        lines.append("master %s %s %d %d" % (nm, d2h(coef), ish, isw))
    for w in su.get("isoelt", []):
        lines.append("isoelt %s %s %s %s" % (w[1], w[2], w[3], w[4]))
    for w in su.get("isounk", []):
        lines.append("isounk %s %s" % (w[1], w[2]))
    for w in su.get("soliso", []):
        lines.append("soliso %s %s %s %s %s %s %s" % tuple(w[:7]))
    for w in su.get("phiso", []):
        lines.append("phiso %s %s %s %s %s %s %s" % tuple(w[:7]))
    for q, s in enumerate(su["solns"]):
        T = [0.0] * ne
        if totals_override is not None:
            for e, el in enumerate(elts):
                T[e] = totals_override[q].get(el["name"], 0.0)
        else:
            for name, row, val in s["totals"]:
                if row >= 0:
                    T[row] += val
            T[ialk] = s["alk"]
        lines.append("soln %s %s %s %s %s" % (d2h(s["mass_water"] / o["gfw_water"]), d2h(ph_override[q] if ph_override else s["ph_unc"]), d2h(s["dalk_dph"]),
                                              d2h(s["dalk_dc"]), " ".join(d2h(t) for t in T)))
    for k, e in enumerate(elts):
        uu = unc_override[k] if unc_override is not None else e["unc"]
        lines.append("elt %s %d %d %d %s %s" % (e["name"].encode().hex() or "-", e["isE"], e["isAlk"], e["alkName"], d2h(e["zalk"]), " ".join(d2h(u) for u in uu)))
    for ip, p in enumerate(su["phases"]):
        lines.append("phase %d %d %s %s" % (con_override[ip][0] if con_override else p["constraint"],
                                            con_override[ip][1] if con_override else p["force"], d2h(p["alk"]),
                                            " ".join("%s %s %s" % (a, b, d2h(c)) for a, b, c in p["tokens"])))
    for r in su["redox"]:
        lines.append("redox %s %s %s %s" % (d2h(r["coef"]), d2h(r["alk"]), d2h(r["salk"]),
                                            " ".join("%s %s %s" % (a, b, d2h(c)) for a, b, c in r["tokens"])))
    return lines


def close(a, b, rel=1e-12, absol=1e-16):
    if a == b:
        return True
    if math.isnan(a) or math.isnan(b) or math.isinf(a) or math.isinf(b):
        return False
    return abs(a - b) <= rel * max(abs(a), abs(b)) + absol


def compare_matrix(su, mlines):
    """my_array / delta of the real code vs setupMatrix / signOf of the model. Returns list of differences."""
    d = su["dims"]
    diffs = []
    mrows = [l.split() for l in mlines if l.startswith("ROW ")]
    mdelta = next((l.split()[1:] for l in mlines if l.startswith("DELTA")), None)
    nunk = d["count_unknowns"]
    if len(mrows) != len(su["rows"]):
        diffs.append(("row-count", len(su["rows"]), len(mrows)))
    for r, ((name, cells), mw) in enumerate(zip(su["rows"], mrows)):
        kind = "opt" if r < d["row_mb"] else ("eq" if r < d["row_epsilon"] else "le")
        if mw[1] != kind:
            diffs.append(("row-kind", r, name, kind, mw[1]))
            continue
        mc = {}
        for c in mw[3:]:
            a, b = c.split(":")
            mc[int(a)] = h2d(b)
        rhs = h2d(mw[2])
        real = dict(cells)
        real_rhs = real.pop(nunk, 0.0)
        if not close(rhs, real_rhs):
            diffs.append(("rhs", r, name, real_rhs, rhs))
        for c in sorted(set(real) | set(mc)):
            if not close(real.get(c, 0.0), mc.get(c, 0.0)):
                diffs.append(("cell", r, name, c, su["colnames"][c] if c < len(su["colnames"]) else "?", real.get(c, 0.0), mc.get(c, 0.0)))
    if mdelta is None or len(mdelta) != len(su["delta"]):
        diffs.append(("delta-length", len(su["delta"]), None if mdelta is None else len(mdelta)))
    else:
        for c, (a, b) in enumerate(zip(su["delta"], mdelta)):
            if (a > 0) - (a < 0) != int(b):
                diffs.append(("delta", c, su["colnames"][c], a, int(b)))
    return diffs


# ----------------------------------------------------------------------------------------------- evaluation of one case
MIN_TOTAL_INVERSE = 1e-14


def indep_totals(res, su):
    """totals (moles) of every solution of the inverse problem from the speciation simulations (USER_PUNCH 2)"""
    rows = res.get("selrows", {}).get(2)
    if not rows or len(rows) != len(su["solns"]) + 1:
        return None
    head = rows[0]
    out = []
    for r in rows[1:]:
        d = {}
        for h, v in zip(head, r):
            if isinstance(v, float):
                d[h] = v
        out.append(d)
    return out


def parse_selrows(text):
    rows = {}
    for line in text.splitlines():
        if line.startswith("SELROW "):
            w = line.split()
            cells = []
            for c in w[3:]:
                if c[0] == "D":
                    cells.append(h2d(c[1:]))
                elif c[0] == "S":
                    cells.append(unhex(c[1:]))
                elif c[0] == "L":
                    cells.append(float(c[1:]))
                else:
                    cells.append(None)
            rows.setdefault(int(w[1]), []).append(cells)
    return rows


def bound_of(T, u, toler):
    c = -u if u <= 0 else abs(T * u)
    return 0.0 if c < toler else c


def direct_oracle(su, model, totals, tol_print, unc=None, con=None):
    """the property evaluated on the punched values only (fractions, transfers, min, max) with independent totals and
    formula stoichiometry: per chemical element an adjustment within the declared uncertainties must exist"""
    bad = []
    o = su["opts"]
    ns, np_ = len(su["solns"]), len(su["phases"])
    vals = [p[1] for p in model["punch"]]
    if len(vals) != 3 + 3 * (ns + np_):
        return ["punch-count %d" % len(vals)]
    alpha = [vals[3 + 3 * q] for q in range(ns)]
    amin = [vals[3 + 3 * q + 1] for q in range(ns)]
    amax = [vals[3 + 3 * q + 2] for q in range(ns)]
    x = [vals[3 + 3 * ns + 3 * i] for i in range(np_)]
    xmin = [vals[3 + 3 * ns + 3 * i + 1] for i in range(np_)]
    xmax = [vals[3 + 3 * ns + 3 * i + 2] for i in range(np_)]
    toler = o["toler"]
    slack = lambda v: tol_print * abs(v) + 100 * toler + 1e-12
    for q in range(ns - 1):
        if alpha[q] < -slack(alpha[q]):
            bad.append("fraction<0 soln %d %g" % (q, alpha[q]))
    if abs(alpha[ns - 1] - 1) > slack(1):
        bad.append("final fraction %g" % alpha[ns - 1])
    for i, ph in enumerate(su["phases"]):
        cc = con[i][0] if con is not None else ph["constraint"]
        if cc > 0 and x[i] < -slack(x[i]):
            bad.append("dissolve-only %s %g" % (ph["name"], x[i]))
        if cc < 0 and x[i] > slack(x[i]):
            bad.append("precipitate-only %s %g" % (ph["name"], x[i]))
    if o["range"]:
        for nm, v, lo, hi in [("soln%d" % q, alpha[q], amin[q], amax[q]) for q in range(ns)] + \
                             [(su["phases"][i]["name"], x[i], xmin[i], xmax[i]) for i in range(np_)]:
            if abs(v) >= abs(o["range_max"]):
                continue
            s = 1e-6 * max(abs(v), abs(lo), abs(hi)) + tol_print * max(abs(v), abs(lo), abs(hi)) + 1000 * toler
            if v < lo - s or v > hi + s:
                bad.append("range %s %g not in [%g, %g]" % (nm, v, lo, hi))
    if totals is not None:
        prims = {}
        for e, el in enumerate(su["elts"]):
            if el["isE"] or el["isAlk"] or el["prim"] in ("H", "O", "E", "Alkalinity"):
                continue
            prims.setdefault(el["prim"], []).append(e)
        for E, rows in prims.items():
            resid, mag, allow = 0.0, 0.0, 0.0
            for q in range(ns):
                sg = -1.0 if q == ns - 1 else 1.0
                for e in rows:
                    T = totals[q].get(su["elts"][e]["name"], 0.0)
                    resid += sg * alpha[q] * T
                    mag += abs(alpha[q] * T)
                    b = bound_of(T, (unc[e][q] if unc is not None else su["elts"][e]["unc"][q]), toler)
                    allow += abs(alpha[q]) * (b + toler)
            for i, ph in enumerate(su["phases"]):
                c = sum(cf for nm, cf in ph["elts"] if nm == E)
                resid += c * x[i]
                mag += abs(c * x[i])
            if abs(resid) > allow + tol_print * mag + 1000 * toler + 1e-12:
                bad.append("element %s residual %.3e allowed %.3e" % (E, resid, allow))
    return bad


def pmodel_retry(ctx, text, tries=30):
    """pmodel is relinked whenever anybody rebuilds a driver: wait for it instead of failing"""
    import time
    for k in range(tries):
        try:
            return ctx.pmodel("inverse", text)
        except (FileNotFoundError, PermissionError, OSError):
            time.sleep(2)
        except RuntimeError as ex:
            if "not implemented" in str(ex) or k == tries - 1:
                raise
            time.sleep(2)
    return ctx.pmodel("inverse", text)


def range_errors_per_model(outtext, nmodels):
    """number of 'Error in subroutine range' messages printed while the ranges of model k were computed"""
    ends = [m.start() for m in re.finditer(r"Solution fractions:", outtext)]
    starts = [m.start() for m in re.finditer(r"Sum of residuals \(epsilons", outtext)]
    res = []
    for k in range(nmodels):
        if k >= len(ends):
            res.append(None)
            continue
        lo = starts[k - 1] if k > 0 and k - 1 < len(starts) else 0
        res.append(len(re.findall(r"Error in subroutine range", outtext[lo:ends[k]])))
    return res


def eval_case(ctx, exe, case, oracle_bits=11):
    """run one problem on the real code and through the model; returns a result dict
    viol: list of dicts {kind, model, text}; corr: list of correspondence differences"""
    r = ctx.run_harness(exe, harness_text(str(vlib.REPO / "database" / case["db"]), case["input"], oracle_bits, 1), timeout=900)
    out = {"status": "ok", "corr": [], "viol": [], "findings": [], "nmodels": 0, "stats": {}}
    if r.returncode != 0:
        out["status"] = "crash"
        out["viol"].append({"kind": "crash", "model": -1, "text": "harness exit code %s: %s" % (r.returncode, r.stderr[-300:])})
        return out
    res = parse_harness(r.stdout)
    res["selrows"] = parse_selrows(r.stdout)
    out["rc"] = res["rc"]
    out["err"] = res["err"][-400:]
    if not res["complete"]:
        out["status"] = "crash"
        out["viol"].append({"kind": "crash", "model": -1, "text": "harness output incomplete"})
        return out
    if not res["setups"]:
        out["status"] = "no-setup"
        return out
    su = res["setups"][0]
    o = su["opts"]
    out["stats"].update(nsol=o["nsol"], nelt=o["nelt"], nphase=o["nphase"], nredox=o["nredox"], minimal=o["minimal"], range=o["range"],
                        mp=o["mp"], nmodels=len(su["models"]), rc=res["rc"], oracle=su["oracle"] is not None, toler=o["toler"],
                        cl1mp=o.get("cl1mp", 0))
    out["stats"]["isotopes"] = o["nisotopes"]
    if res["rc"] != 0:
        out["status"] = "run-error"          # outside "completes without error": set-up is still compared
    # ---- tie A: matrix
    base = problem_lines(su)
    totals = indep_totals(res, su)
    cmds = list(base) + ["matrix"]
    sat_cmds = []
    toler = o["toler"]
    t1 = max(1e-8, 1e4 * toler)
    t2 = max(1e-6, 1e4 * toler)
    decl = declared_uncertainties(case["input"], su)
    out["stats"]["declared_read"] = decl is not None
    dunc = dph = None
    if decl is not None:
        dunc, dph, unc_cmd = decl
        cmds.append(unc_cmd)
        # tie: what tidy_inverse stored = what the input text declares (per row and solution; pH)
        bad = [(su["elts"][k]["name"], q, su["elts"][k]["unc"][q], dunc[k][q]) for k in range(len(su["elts"])) for q in range(o["nsol"])
               if not su["elts"][k]["isE"] and su["elts"][k]["unc"][q] != dunc[k][q]]
        badph = [(q, s["ph_unc"], dph[q]) for q, s in enumerate(su["solns"]) if s and s["ph_unc"] != dph[q]]
        if bad or badph:
            out["corr"].append({"what": "uncertainties stored by tidy_inverse differ from the limits declared in the input text",
                                "rows": [list(map(str, b)) for b in bad[:8]], "ph": badph[:4]})
    if o["nisotopes"]:
        badi = [x for x in declared_iso_unc(case["input"], su) if x[3] != x[4]]
        out["stats"]["iso_unc_read"] = True
        if badi:
            out["corr"].append({"what": "isotope-ratio uncertainties set by check_isotopes differ from what the input text declares",
                                "rows": [list(map(str, b)) for b in badi[:6]]})
    dcon = None
    dd = read_declared(case["input"])
    if dd is not None and len(dd["phases"]) == len(su["phases"]):
        dcon = [(c, f) for _, c, f in dd["phases"]]
        badp = [(ph["name"], ph["constraint"], ph["force"], dp) for ph, dp in zip(su["phases"], dd["phases"])
                if ph["name"].lower() != dp[0].lower() or ph["constraint"] != dp[1] or ph["force"] != dp[2]]
        eff_tol = dd["mp_tolerance"] if dd["mp"] else dd["tolerance"]
        fs = (dd["force_solns"] + [0] * o["nsol"])[:o["nsol"]]
        bado = [(k, o[k], v) for k, v in (("range", dd["range"]), ("minimal", dd["minimal"]), ("mineral_water", dd["mineral_water"]),
                                           ("mp", dd["mp"]), ("range_max", dd["range_max"]), ("water_unc", dd["u_water"]), ("toler", eff_tol))
                if o[k] != v]
        badf = [(q, sq["force"], fs[q]) for q, sq in enumerate(su["solns"]) if sq and sq["force"] != fs[q]]
        if badp or bado or badf:
            out["corr"].append({"what": "phase constraints / options stored by read_inverse differ from what the input text declares",
                                "phases": [list(map(str, b)) for b in badp[:6]], "options": [list(map(str, b)) for b in bado], "force_solns": badf})
    elif dd is not None:
        out["stats"]["declared_phases_unread"] = True
    if totals is not None or dunc is not None or dcon is not None:
        cmds += problem_lines(su, totals, dunc, dph, dcon)
    capped = {}
    for k, m in enumerate(su["models"]):
        mn, mx = list(m["MIN"]), list(m["MAX"])
        if o["range"]:
            # documented limit of -range: the LPs minimise |x -/+ range_max|, so a value beyond range_max is not bracketed
            for c in list(range(o["nsol"])) + [su["dims"]["col_phases"] + i for i in range(o["nphase"])]:
                v = m["X"][c]
                if abs(v) > abs(o["range_max"]):
                    if not (mn[c] <= v <= mx[c]):
                        capped.setdefault(k, []).append("%s %.6g not in [%.6g, %.6g], range_max %g" % (su["colnames"][c], v, mn[c], mx[c], o["range_max"]))
                    mn[c] = mx[c] = v
        vec = "X %s MIN %s MAX %s" % (" ".join(map(d2h, m["X"])), " ".join(map(d2h, mn)), " ".join(map(d2h, mx)))
        cmds.append("check %s %s" % (d2h(t1), vec))
        cmds.append("check %s %s" % (d2h(t2), vec))
        mask = m["bits"]
        for i, ph in enumerate(su["phases"]):
            if ph["force"]:
                mask |= 1 << i
        for q, sq in enumerate(su["solns"]):
            if sq and sq["force"]:
                mask |= 1 << (o["nphase"] + q)
        # feasibility of the reported vector for the LP of (its set ∪ forced): Lean satB / zeroOutsideB on the ENGINE's problem
        sat_cmds.append("sat %s %d X %s" % (d2h(max(10 * toler, 1e-13)), mask, " ".join(map(d2h, m["X"]))))
    forced = 0
    for i, ph in enumerate(su["phases"]):
        if ph["force"]:
            forced |= 1 << i
    for q, s in enumerate(su["solns"]):
        if s and s["force"]:
            forced |= 1 << (o["nphase"] + q)
    if su["oracle"] is not None and not su["oracle_aborted"]:
        cmds.append("search %d %d %d %d %d %s" % (o["nphase"], o["nsol"], o["minimal"], o["range"], forced, " ".join(su["oracle"])))
    k0 = cmds.index("matrix") + 1
    cmds = cmds[:k0] + sat_cmds + cmds[k0:]
    mout = pmodel_retry(ctx, "\n".join(cmds) + "\n")
    sats = [l.split() for l in mout if l.startswith("SAT")]
    diffs = compare_matrix(su, mout)
    ul = next((l for l in mout if l.startswith("UNC")), None)
    if decl is not None and ul is not None:
        lean_unc = [[h2d(x) for x in cell.split(",")] if cell else [] for cell in ul.split()[1:]]
        engine = [e["unc"] for e in su["elts"]]
        if len(lean_unc) != len(engine) or any(a != b for k, (a, b) in enumerate(zip(lean_unc, engine)) if not su["elts"][k]["isE"]):
            out["corr"].append({"what": "tidy_inverse uncertainties differ from propagateUnc (Lean) on the declared entries"})
    out["stats"]["matrix_cells"] = sum(len(c) for _, c in su["rows"])
    if diffs:
        out["corr"].append({"what": "setup_inverse matrix differs from setupMatrix", "diffs": [list(map(str, d)) for d in diffs[:8]],
                            "ndiffs": len(diffs)})
    # ---- independent totals vs the totals the code used
    if totals is not None:
        worst = 0.0
        for q, s in enumerate(su["solns"]):
            T = {}
            for name, row, val in s["totals"]:
                if row >= 0:
                    nm = su["elts"][row]["name"]
                    T[nm] = T.get(nm, 0.0) + val
            T["Alkalinity"] = s["alk"]
            for el in su["elts"]:
                if el["isE"] or el["name"] in ("O(0)", "H(0)"):
                    continue
                a, b = T.get(el["name"], 0.0), totals[q].get(el["name"], 0.0)
                if max(abs(a), abs(b)) > 1e-12:
                    worst = max(worst, abs(a - b) / max(abs(a), abs(b)))
        out["stats"]["totals_reldiff"] = worst
        if worst > 1e-6:
            out["corr"].append({"what": "totals used by setup_inverse differ from independent speciation", "rel": worst})
    # ---- tie B: every reported model
    checks = [l for l in mout if l.startswith("CHECK")]
    hp = any("e" in p[2] and len(p[2].strip().split("e")[0]) > 9 for m in su["models"] for p in m["punch"][:1])
    tol_print = 2e-11 if hp else 1e-4
    rerr = range_errors_per_model(res["out"], len(su["models"])) if o["range"] else [0] * len(su["models"])
    out["stats"]["range_lp_errors"] = sum(x or 0 for x in rerr)
    ns, np_ = o["nsol"], o["nphase"]
    for k, m in enumerate(su["models"]):
        out["nmodels"] += 1
        mv = []
        l1 = checks[2 * k].split() if 2 * k < len(checks) else ["CHECK", "missing"]
        l2 = checks[2 * k + 1].split() if 2 * k + 1 < len(checks) else ["CHECK", "missing"]
        if len(l1) > 7:
            out["stats"]["worst_mb"] = max(out["stats"].get("worst_mb", 0.0), h2d(l1[3]))
            out["stats"]["worst_charge"] = max(out["stats"].get("worst_charge", 0.0), h2d(l1[5]))
        if l1[1] == "missing" or l2[1] == "missing":
            out["corr"].append({"what": "pmodel gave no CHECK line", "model": k})
        for cl in l1[8:]:
            if not cl.startswith("range"):
                kind = "sign" if cl.startswith("sign") else ("iso" if cl.startswith("iso") else cl.split(":")[0])
                mv.append({"kind": kind, "model": k, "text": "checkModel clause " + cl})
        for cl in l2[8:]:
            if cl.startswith("range"):
                mv.append({"kind": "range", "model": k, "text": "checkModel clause " + cl})
        # punched values = internal values
        exp = [m["error"] / 0.0009765625, m["scaled_error"], m["max_pct"]]
        for q in range(ns):
            exp += [m["X"][q], m["MIN"][q], m["MAX"][q]]
        for i in range(np_):
            c = su["dims"]["col_phases"] + i
            exp += [m["X"][c], m["MIN"][c], m["MAX"][c]]
        exp = exp[:3] + [0.0 if abs(v) <= MIN_TOTAL_INVERSE else v for v in exp[3:]]
        got = [p[1] for p in m["punch"]]
        if len(got) != len(exp) or any(not (a == b or (math.isnan(a) and math.isnan(b))) for a, b in zip(got, exp)):
            out["corr"].append({"what": "punched values differ from inv_delta1/min_delta/max_delta", "model": k,
                                "got": got[:12], "exp": exp[:12]})
        for name, dval, sval in m["punch"]:
            try:
                pv = float(sval)
            except ValueError:
                pv = float("nan")
            if not (pv == dval or abs(pv - dval) <= 1e-4 * abs(dval) + 1e-300) and not (math.isnan(pv) and math.isnan(dval)):
                out["corr"].append({"what": "rendered selected-output cell differs from the value", "cell": name, "text": sval, "value": dval})
        nz = 0
        for q in range(ns):
            if abs(m["X"][q]) > 1e-9:
                nz |= 1 << (np_ + q)
        for i in range(np_):
            if abs(m["X"][su["dims"]["col_phases"] + i]) > 1e-9:
                nz |= 1 << i
        if nz != m["bits"]:
            out["corr"].append({"what": "saved model bits differ from the non-zero pattern of the reported vector", "bits": m["bits"], "nz": nz})
        mcorr = any(c.get("model") == k for c in out["corr"]) or any("cell" in c for c in out["corr"])
        for b in direct_oracle(su, m, totals, tol_print, dunc, dcon):
            kind = "range" if b.startswith("range") else ("sign" if "-only" in b else ("alpha" if "fraction" in b else "element"))
            mv.append({"kind": kind, "model": k, "text": b})
        lean_ok = k < len(sats) and sats[k][1:] == ["1", "1"]
        out["stats"]["selfcheck_agree"] = out["stats"].get("selfcheck_agree", 0) + (1 if bool(m["selfcheck"]) == lean_ok else 0)
        if not lean_ok and not diffs and not mcorr:
            # the vector handed to print_model is not feasible for the LP of its own set (Lean satB / zeroOutsideB at 10*toler on
            # the set-up matrix, which agrees with my_array); the engine's never-called test_cl1_solution is recorded alongside
            if mv:
                out["findings"].append({"key": "cl1-unverified", "model": k, "bits": m["bits"], "kode_last_lp": m["kode"],
                                        "text": "; ".join(v["text"] for v in mv)[:300]})
            out["stats"]["unverified_models"] = out["stats"].get("unverified_models", 0) + 1
            mv = []
        if k in capped:
            out["findings"].append({"key": "range-cap", "model": k, "bits": m["bits"], "text": "; ".join(capped[k])[:300]})
        # known class: the range LP failed (cl1 kode != 0 inside range())
        if rerr[k] is None and any(v["kind"] == "range" for v in mv):
            out["corr"].append({"what": "printed output has no table for this model; range errors cannot be attributed", "model": k})
        if o["range"] and not rerr[k] and rerr[k] is not None and lean_ok and k not in capped:
            out["stats"]["range_judged"] = out["stats"].get("range_judged", 0) + 1
        # theorem range_silent_criterion: the vector is feasible (lean_ok) and |value| <= range_max (not capped), so a reported
        # minimum above / maximum below the value is provably not an optimum of the range LP
        if not rerr[k] and rerr[k] is not None and lean_ok and not diffs and not mcorr and any(v["kind"] == "range" for v in mv):
            out["stats"]["range_silent"] = out["stats"].get("range_silent", 0) + 1
            out["findings"].append({"key": "range-silent", "model": k, "bits": m["bits"],
                                    "text": "; ".join(v["text"] for v in mv if v["kind"] == "range")[:300]})
            mv = [v for v in mv if v["kind"] != "range"]
        if rerr[k] and not mcorr:
            if any(v["kind"] == "range" for v in mv):
                out["findings"].append({"key": "range-lp-error", "model": k, "bits": m["bits"], "messages": rerr[k],
                                        "text": "; ".join(v["text"] for v in mv if v["kind"] == "range")[:300]})
            mv = [v for v in mv if v["kind"] != "range"]
        out["viol"] += mv
    # selected-output string rows = punched strings
    sel = res["seltabs"].get(1, "")
    rows = [ln for ln in sel.split("\n") if ln.strip()]
    data = rows[1:] if rows else []
    if len(data) != len(su["models"]):
        out["corr"].append({"what": "selected-output rows != reported models", "rows": len(data), "models": len(su["models"])})
    else:
        for ln, m in zip(data, su["models"]):
            cells = [c.strip() for c in ln.split("\t") if c.strip() != ""]
            if cells != [p[2].strip() for p in m["punch"]]:
                out["corr"].append({"what": "selected-output row differs from punched cells", "row": ln[:200]})
    # ---- tie C: search
    reported = [m["bits"] for m in su["models"]]
    sl = next((l for l in mout if l.startswith("SEARCH")), None)
    if sl is not None and res["rc"] == 0:
        parts = sl[len("SEARCH "):].split("|")
        rep = [int(x) for x in parts[0].split()[1:]]
        good = [int(x) for x in parts[1].split()[1:]]
        mini = [int(x) for x in parts[2].split()[1:]]
        tail = parts[3].split()
        nbad, calls = int(tail[1]), int(tail[3])
        f = res["final"]
        real = (reported, f.get("count_good"), f.get("count_minimal"), f.get("count_bad"), f.get("count_calls"))
        pred = (rep, len(good), len(mini), nbad, calls)
        out["stats"]["search_checked"] = True
        out["stats"]["oracle_ok"] = oracle_ok(su["oracle"], ns + np_)
        if real != pred:
            out["corr"].append({"what": "search differs from solve_inverse", "real": real, "model": pred})
    if o["minimal"] and out["stats"].get("unverified_models"):
        out["stats"]["antichain_not_judged"] = True
    elif o["minimal"]:
        nest = []
        for a in range(len(reported)):
            for b in range(len(reported)):
                if a != b and reported[a] | reported[b] == reported[b] and reported[a] != reported[b]:
                    nest.append({"kind": "antichain", "model": b,
                                 "text": "-minimal: model bits %d strictly contains model bits %d" % (reported[b], reported[a])})
        if len(set(reported)) != len(reported):
            nest.append({"kind": "antichain", "model": -1, "text": "-minimal: a model was reported twice: %s" % reported})
        # theorem minimal_antichain needs an exact LP oracle (OracleOK). When the in-process table of solve_with_mask answers is
        # NOT consistent (a subset feasible while a superset is infeasible, or a support that is infeasible on its own) and the
        # Lean search on that very table reproduces the reported sequence, the nesting is caused by the LP answers, not by the search
        if nest and not out["stats"].get("search_checked") and oracle_bits < 16 and res["rc"] == 0:
            return eval_case(ctx, exe, case, oracle_bits=16)      # tabulate the LP answers to attribute the nesting
        if nest and out["stats"].get("search_checked") and out["stats"].get("oracle_ok") is False and \
                not any(c["what"].startswith("search differs") for c in out["corr"]) and not diffs:
            out["findings"].append({"key": "minimal-inconsistent-lp", "model": nest[0]["model"], "bits": reported,
                                    "text": "; ".join(v["text"] for v in nest)[:300]})
        else:
            out["viol"] += nest
    out["reported"] = reported
    return out


def oracle_ok(table, nbits):
    """do the hypotheses of minimal_antichain (OracleOK) hold for the tabulated LP oracle?"""
    fin = 1 << (nbits - 1)
    ent = []
    for w in table:
        a, b = w.split(":")
        ent.append((a != "0", int(b)))
    def o(mask):
        return ent[mask % fin] if mask & fin else (False, 0)
    feas = [m for m in range(fin) if ent[m][0]]
    for m in feas:
        s = m | fin
        nz = ent[m][1]
        if nz | s != s or not nz & fin or nz >= (1 << nbits) or not o(nz)[0]:
            return False
    # monotone: every superset (one more bit) of a feasible mask is feasible
    for m in feas:
        for i in range(nbits - 1):
            if not m & (1 << i) and not ent[m | (1 << i)][0]:
                return False
    return True


# ----------------------------------------------------------------------------------------------- run / replay
SEL = "SELECTED_OUTPUT 1\n -reset false\n -inverse_modeling true\n"


def seed_cases():
    """shipped examples ex16 (phreeqc.dat), ex17 (pitzer.dat), ex18 (isotopes: outside the model, counted only)"""
    out = []
    exd = vlib.REPO / "phreeqc3-examples"
    for name, db in (("ex16", "phreeqc.dat"), ("ex17", "pitzer.dat"), ("ex18", "phreeqc.dat")):
        f = exd / name
        if f.exists():
            txt = f.read_text(errors="replace")
            txt = re.sub(r"^INVERSE_MODELING", SEL + "INVERSE_MODELING", txt, count=1, flags=re.M)
            out.append({"db": db, "input": txt, "meta": {"scenario": name, "flags": {}, "nphases": 0}})
            if name == "ex16":
                out.append({"db": db, "input": txt.replace("-range", "-range\n        -minimal"), "meta": {"scenario": "ex16-minimal", "flags": {"minimal": True}, "nphases": 9}})
                out.append({"db": db, "input": txt.replace("-range", "-multiple_precision true"), "meta": {"scenario": "ex16-mp", "flags": {"mp": True}, "nphases": 9}})
    return out


def shrink_case(ctx, exe, case, kind):
    """remove lines of the INVERSE_MODELING block while a violation of the same kind remains"""
    lines = case["input"].split("\n")
    try:
        i0 = next(i for i, l in enumerate(lines) if l.startswith("INVERSE_MODELING"))
    except StopIteration:
        return case
    head, block = lines[:i0 + 2], lines[i0 + 2:]

    def fails(sub):
        c = dict(case, input="\n".join(head + sub))
        try:
            r = eval_case(ctx, exe, c, oracle_bits=11)
        except Exception:
            return False
        return any(v["kind"] == kind for v in r["viol"])
    keep = [l for l in block if l.strip() in ("END", "-phases", "-balances")]
    small = vlib.shrink_list(block, lambda sub: all(k in sub for k in keep) and fails(sub), max_iter=120)
    return dict(case, input="\n".join(head + small))


def run(ctx):
    ok = ctx.prove(["PhreeqcVerif.Properties.C18"])
    ctx.build_lib()
    exe = ctx.build_harness("ph_inverse")
    n = ctx.n(500, 6000)
    if not ok:
        n = max(n, 6000)
    cases = seed_cases()
    ex18 = vlib.REPO / "phreeqc3-examples" / "ex18"
    ex18_text = ex18.read_text(errors="replace") if ex18.exists() else None
    for i in range(n):
        if ex18_text is not None and i % 12 == 5:
            cases.append(gen.gen_iso(ctx.rng, ex18_text))
        else:
            cases.append(gen.gen_problem(ctx.rng, big=(i % 5 == 0)))
    hist = {"status": {}, "scenario": {}, "nphase": {}, "nsol": {}, "models_per_case": {}, "flags": {}, "noise": {}, "toler": {}}

    def bump(h, k):
        hist[h][str(k)] = hist[h].get(str(k), 0) + 1
    results = []
    with cf.ThreadPoolExecutor(max_workers=max(2, vlib.NCPU - 2)) as ex:
        futs = [ex.submit(eval_case, ctx, exe, c, 11 if ctx.tier == "quick" else 12) for c in cases]
        for c, f in zip(cases, futs):
            results.append((c, f.result()))
    nmodels = nmat = nsearch = nrangeerr = noracle_ok = nindep = nunver = njudged = nsilent = niso = nisomodels = 0
    first_silent = first_unver = None
    nontrivial = set()
    corr_broken = []
    seen_findings = {}
    for c, r in results:
        bump("status", r["status"])
        meta = c.get("meta", {})
        bump("scenario", meta.get("scenario"))
        for k in meta.get("flags", {}):
            bump("flags", k)
        for nz in meta.get("noise", []):
            bump("noise", nz[2])
        if not meta.get("noise"):
            bump("noise", "none")
        st = r["stats"]
        if "nphase" in st:
            bump("nphase", st["nphase"])
            bump("nsol", st["nsol"])
            bump("toler", st["toler"])
            nmat += 1
            bump("models_per_case", min(r["nmodels"], 10))
        nmodels += r["nmodels"]
        nsearch += 1 if st.get("search_checked") else 0
        noracle_ok += 1 if st.get("oracle_ok") else 0
        nindep += 1 if "totals_reldiff" in st else 0
        nrangeerr += st.get("range_lp_errors", 0)
        nunver += st.get("unverified_models", 0)
        if st.get("isotopes"):
            niso += 1
            nisomodels += r["nmodels"]
        njudged += st.get("range_judged", 0)
        nsilent += st.get("range_silent", 0)
        if st.get("range_silent") and first_silent is None:
            first_silent = c
        if st.get("unverified_models") and first_unver is None:
            first_unver = c
        if r["nmodels"]:
            nontrivial.add(hash(c["input"]))
        if r["nmodels"] and len(ctx.cov["samples"]) < 3:
            ctx.sample({"scenario": meta.get("scenario"), "inverse_block": c["input"][c["input"].find("INVERSE_MODELING"):][:700],
                        "reported_bits": r.get("reported"), "worst_mole_balance_residual": st.get("worst_mb")})
        for fnd in r["findings"]:
            if fnd["key"] in seen_findings:
                seen_findings[fnd["key"]] += 1
                continue
            seen_findings[fnd["key"]] = 1
            what = {"cl1-unverified": "a reported vector fails the engine's own test_cl1_solution() (never called by solve_with_mask / "
                                      "minimal_solve, whose final solve_with_mask return code is ignored): not a mole-balance model",
                    "minimal-inconsistent-lp": "-minimal reported nested models; the tabulated solve_with_mask answers are inconsistent "
                                               "(feasibility not monotone / support infeasible: cl1 round-off failures) and the proved search "
                                               "reproduces the reported sequence on that table",
                    "range-silent": "range LP returned kode 0 but min..max does not bracket the (verified) reported value",
                    "range-cap": "a reported value beyond the -range limit (default 1000) lies outside its reported min..max "
                                 "(the range LPs minimise |x -/+ range_max|; documented limit)",
                    "range-lp-error": "range(): cl1 returned kode != 0 ('Error in subroutine range'), min/max are reported anyway "
                                      "and do not bracket the value"}[fnd["key"]]
            ctx.finding(fnd["key"], what + ": " + fnd["text"], {"db": c["db"], "input": c["input"], "finding": fnd})
        if r["viol"] and not ctx.violations:
            kind = r["viol"][0]["kind"]
            small = shrink_case(ctx, exe, c, kind) if kind != "crash" else c
            r2 = eval_case(ctx, exe, small, 11)
            v = [x for x in r2["viol"] if x["kind"] == kind] or r["viol"]
            if not [x for x in r2["viol"] if x["kind"] == kind]:
                small = c
            ctx.violation("reported inverse model is not admissible (%s): %s" % (kind, v[0]["text"]),
                          {"db": small["db"], "input": small["input"], "violations": v[:10], "meta": meta})
        if r["corr"]:
            corr_broken.append((c, r))
    ctx.cov["evaluations"] = nmodels + nmat
    ctx.cov["distinct_nontrivial"] = len(nontrivial)
    ctx.cov["problems"] = len(cases)
    ctx.cov["matrices_compared"] = nmat
    ctx.cov["models_checked"] = nmodels
    ctx.cov["searches_reproduced"] = nsearch
    ctx.cov["oracle_tables_satisfying_OracleOK"] = noracle_ok
    ctx.cov["problems_with_independent_totals"] = nindep
    ctx.cov["range_lp_error_messages"] = nrangeerr
    ctx.cov["models_failing_engine_selfcheck"] = nunver
    ctx.cov["isotope_problems"] = niso
    ctx.cov["isotope_models_checked"] = nisomodels
    ctx.cov["range_models_judged"] = njudged
    ctx.cov["range_models_silently_not_bracketing"] = nsilent
    # the two solver-accuracy classes are rare on the unchanged tree (< 10 % of the judged models in every seed tried);
    # when they become the rule the cause is not solver round-off: report the first instance as a violation
    if not ctx.violations and njudged >= 8 and nsilent > 0.3 * njudged:
        ctx.violation("reported min..max does not bracket the reported value in %d of %d models with verified vectors and no LP error"
                      % (nsilent, njudged), {"db": first_silent["db"], "input": first_silent["input"]})
    if not ctx.violations and nmodels >= 8 and nunver > 0.3 * nmodels:
        ctx.violation("%d of %d reported models fail the engine's own test_cl1_solution" % (nunver, nmodels),
                      {"db": first_unver["db"], "input": first_unver["input"]})
    ctx.cov["input_distribution"] = hist
    ctx.cov["finding_instances"] = seen_findings
    ctx.cov["traces_validated_against_impl"] = nmat
    ctx.cov["multiple_precision_note"] = "INVERSE_CL1MP is not compiled in: -multiple_precision runs double-precision cl1 with toler = mp_tolerance"
    ctx.cov["rule"] = ("seeded problems: initial solution(s) + forward REACTION/MIX steps (exact model exists), optional noise salt inside/outside "
                       "the uncertainty, 2-12 candidate phases with dis/pre/force, global / per-solution / per-element (relative and absolute) "
                       "uncertainties, pH uncertainty, -range, -minimal, -tolerance, -mineral_water, -multiple_precision, -u_water, "
                       "-force_solutions; plus ex16/ex17/ex18. evaluations = matrices compared + reported models checked; non-trivial = "
                       "distinct inputs with at least one reported model. Problems that stop with an ERROR are counted (status) and only "
                       "their set-up matrix is compared.")
    if corr_broken and not ctx.violations:
        c, r = corr_broken[0]
        ctx.violation("model and implementation disagree (%s) and no reported model failed the direct oracle" % r["corr"][0]["what"],
                      {"db": c["db"], "input": c["input"], "correspondence": r["corr"][:5], "cases_disagreeing": len(corr_broken)},
                      found_input=False)
    if not ok and not ctx.violations:
        ctx.violation("proof obligation of C18 no longer checks and no failing input was found",
                      {"broken": ctx.proof_broken}, found_input=False)


def replay(ctx, data):
    ctx.prove(["PhreeqcVerif.Properties.C18"])
    ctx.build_lib()
    exe = ctx.build_harness("ph_inverse")
    if "input" not in data:
        print("replay: nothing to run (", data.get("what"), ")")
        return
    r = eval_case(ctx, exe, {"db": data.get("db", "phreeqc.dat"), "input": data["input"]})
    print("replay status:", r["status"], "models:", r["nmodels"], "reported bits:", r.get("reported"))
    for v in r["viol"]:
        print("  violation:", v)
    for f in r["findings"]:
        print("  finding:", f)
    for c in r["corr"]:
        print("  correspondence:", str(c)[:400])
    for f in r["findings"]:
        ctx.finding(f["key"], f["text"], {"db": data.get("db", "phreeqc.dat"), "input": data["input"], "finding": f})
    if r["viol"]:
        ctx.violation("replayed problem still yields an inadmissible reported model: " + r["viol"][0]["text"],
                      {"db": data.get("db", "phreeqc.dat"), "input": data["input"], "violations": r["viol"][:10]})
    elif r["corr"]:
        ctx.violation("replayed problem: model and implementation still disagree: " + r["corr"][0]["what"],
                      {"db": data.get("db", "phreeqc.dat"), "input": data["input"], "correspondence": r["corr"][:5]}, found_input=False)


MANIFEST = dict(
    technique="Lean 4 theorems on an executable Rat model of setup_inverse / solve_inverse / minimal_solve / range; in-process "
              "correspondence (friend access at punch_model_heading and punch_model) of the constraint matrix, of every reported model "
              "and of the subset search",
    text="Theorems (Properties/C18.lean): checkModel_sound/_complete (executable admissibility check <-> declarative Admissible), "
         "matrix_encodes_admissible (any vector satisfying the rows and sign constraints of setupMatrix decodes to exact mole balance per "
         "element row, adjustments within bounds, fractions >= 0, final fraction 1, dissolve/precipitate signs), adjustment_within_declared, "
         "mbRes_delta_form, element_entry_reaches_all_rows / unnamed_row_keeps_default (tidy_inverse: a -balances entry naming a redox element reaches "
         "every valence-state row), minimal_antichain(_fold) (any enumeration order, any exact LP oracle: reported -minimal models form an antichain; "
         "proved on the actual loop structure by invariant), range_contains_value, satB_sound / range_brackets_feasible_model / range_silent_criterion (a feasible reported vector is bracketed by the true "
         "range optima), checkIso_sound / satisfies_isoBalanced (isotope balances and ratio uncertainties). Obligations over generated data: my_array/delta of the real "
         "setup_inverse = setupMatrix/signOf on the parsed problem at 1e-12; every reported model (inv_delta1, min_delta, max_delta read "
         "in-process) passes checkModel with totals from an independent speciation and with the uncertainties DECLARED IN THE INPUT TEXT (read "
         "independently by c18.read_declared: -uncertainty / -balances, element name -> all valence states, per-solution lists, padding, "
         "absolute limits, pH), which are also compared with inv_ptr->elts[..].uncertainties and with Lean propagateUnc; punched cells = internal values = selected-output text; "
         "direct per-chemical-element oracle on the punched values with formula stoichiometry; search(oracle table) = reported sequence and "
         "counters of solve_inverse; -minimal antichain on reported bit sets.",
    note="Trusted: Lean kernel, harness/ph_inverse.cpp (friend access, resolution of reaction tokens to rows), tools/props/c18.py "
         "(tolerances: matrix 1e-12 rel, balances max(1e-8, 1e4*toler), ranges max(1e-6, 1e4*toler)). cl1 is an oracle (not verified); "
         "isotope rows/columns are modelled (set-up tie, checkIso); resolution of solution/phase isotope data to masters is done in the harness; "
         "INVERSE_CL1MP is not compiled in. Known findings: range-lp-error, cl1-unverified, range-silent, range-cap; new: minimal-inconsistent-lp.",
)
