"""C19 — gas phases obey their equation of state and fugacity-based equilibrium.

(1) proof obligations: Properties/C19.lean over the models Model/PengRobinson.lean and Model/GasPhase.lean
    (PR pressure <=> the code's cubic; every branch of the cubic solver returns a root; partial pressures are shares
    that sum to the total; ln(phi) inside its clamp; existence rule of a fixed-pressure phase; ideal limit);
(2) correspondence: the real `Phreeqc::calc_PR(phase_ptrs, P, TK, V_m)` called in-process (friend access) on the gases
    of real and synthetic databases (critical constants and binary parameters read back from the engine) against
    the Float instance of the same Lean definitions (`pmodel gas`), 1e-10 relative;
(3) direct oracle on real runs: GAS_PHASE (fixed pressure / fixed volume, with and without -equilibrate, ideal and
    Peng-Robinson) and gases as EQUILIBRIUM_PHASES; the relations of the property are evaluated on the reported
    GAS, GAS_P, GAS_VM, PR_P, PR_PHI, SI, TK values, the EOS side coming from the Lean model.
"""
import concurrent.futures as cf
import math
import re
import subprocess

import dbparse
import vlib
from gens import gas as G

DBDIR = vlib.REPO / "database"
R_ATM = 0.0820597
TOL_TIE = 1e-10
TOL_EOS = 1e-4
TOL_PHI = 1e-6
LNPHI_LO, LNPHI_HI = -4.6, 4.44
FINDING_KEY = "fixedV-numerical-negative-PR-pressure"
FINDING4_KEY = "PR_P-returns-stored-component-pressure"
MINIMAL_FINDING4 = ("SOLUTION 1\n temp 25\nGAS_PHASE 1\n -fixed_volume\n -volume 1\n CO2(g) 1.0\n N2(g) 0.5\nEND\n"
                    "# wateq4f.dat (ideal gases): GAS_P=1.03771, partial pressures 0.54435 / 0.49337 (= 10^SI = x*P) but PR_P = 1.0 / 0.5")
FINDING2_KEY = "fixedV-vm-iteration-accepted-early"
MINIMAL_FINDING2 = ("SOLUTION 1\n temp 10\n -water 100\nGAS_PHASE 1\n -fixed_volume\n -volume 0.01\n -temperature 10\n H2O(g) 1.0\nEND\n"
                    "# phreeqc.dat: run completes; GAS_P=0.0122698, GAS_VM=1890.22, 10^SI/(PR_PHI*PR_P)=1.0016176 = EOS-consistent V_m / GAS_VM")
MINIMAL_FINDING = ("KNOBS\n -numerical_fixed_volume true\n -force_numerical_fixed_volume true\nSOLUTION 1\n temp 0\n -water 2\n"
                   "GAS_PHASE 1\n -fixed_volume\n -volume 1\n -temperature 0\n CO2(g) 112.232\nEND\n"
                   "# phreeqc.dat: run completes; GAS_P=45.197, GAS_VM=0.0762, PR_PHI*PR_P=30.77 but 10^SI(CO2(g))=61.54")


# ------------------------------------------------------------------------------------------------ helpers
def rel(a, b):
    if a == b:
        return 0.0
    if not (math.isfinite(a) and math.isfinite(b)):
        return float("inf")
    return abs(a - b) / max(abs(a), abs(b))


def harness(exe, text, timeout=300):
    try:
        r = subprocess.run([str(exe)], input=text, text=True, capture_output=True, timeout=timeout)
    except subprocess.TimeoutExpired:
        return None, "timeout"
    if r.returncode != 0:
        return None, f"exit {r.returncode}"
    return r.stdout.splitlines(), None


_PM = {}


def freeze_pmodel(ctx):
    """private copy of the model executable (other checks relink lean/.lake/build/bin/pmodel while this one runs)"""
    import os
    import shutil
    import time
    dst = vlib.BUILD / f"pmodel_c19_{os.getpid()}"
    for _ in range(60):
        try:
            with vlib.Lock("lake"):
                shutil.copy2(ctx.pmodel_path(), dst)
            _PM["exe"] = dst
            return
        except OSError:
            time.sleep(2)
    raise RuntimeError("pmodel executable not available")


def unfreeze_pmodel():
    exe = _PM.pop("exe", None)
    if exe is not None:
        try:
            exe.unlink()
        except OSError:
            pass


def pm(ctx, text, timeout=600):
    r = subprocess.run([str(_PM["exe"]), "gas"], input=text, text=True, capture_output=True, timeout=timeout)
    if r.returncode:
        raise RuntimeError("pmodel gas failed: " + r.stderr[-1000:])
    return r.stdout.splitlines()


_PENDING = []


def pending(ctx, what, replay, *_a):
    """a broken correspondence / translator without a failing input so far (protocol Q): the search goes on; reported as
    `no-failing-input-found` at the end only when no input contradicting the property was found"""
    _PENDING.append((what, replay))
    ctx.log("correspondence broken (search continues):", what[:200])


def db_op(db):
    """op line that loads a database: a file name of /repo/database or ('text', str)"""
    if isinstance(db, tuple):
        return "dbs " + G.hs(db[1])
    return "db " + G.hs(str(DBDIR / db))


_KW = {}


def keywords():
    """keyword names of the input language, read from the source on every run (a data block ends at the next keyword)"""
    if "set" not in _KW:
        src = (vlib.REPO / "src" / "phreeqcpp" / "PhreeqcKeywords" / "Keywords.cpp").read_text(errors="replace")
        kw = set(re.findall(r'value_type\("([a-z_0-9]+)"', src))
        if len(kw) < 60 or "gas_binary_parameters" not in kw or "end" not in kw:
            raise RuntimeError("cannot read the keyword table from Keywords.cpp (code shape not recognised)")
        _KW["set"] = kw
    return _KW["set"]


def parse_gbp(text, table=None, stop_at_end=False):
    """Independent reading of the GAS_BINARY_PARAMETERS blocks of a database / input TEXT: `gas1 gas2 k` defines the
    interaction parameter of the unordered pair (both key orders), later entries override earlier ones.
    Returns {(name1, name2): k} holding both orders of every pair."""
    table = {} if table is None else table
    kw = keywords()
    inside = False
    for raw in text.splitlines():
        raw = raw.split("#", 1)[0]
        for piece in raw.split(";"):
            w = piece.split()
            if not w:
                continue
            first = w[0].lower()
            if first in kw:
                if stop_at_end and first == "end":
                    return table
                inside = first == "gas_binary_parameters"
                continue
            if inside and len(w) >= 3:
                m = re.match(r"[-+]?(\d+\.?\d*([eE][-+]?\d+)?|\.\d+([eE][-+]?\d+)?)", w[2])
                if m:
                    k = float(m.group(0))
                    table[(w[0], w[1])] = k
                    table[(w[1], w[0])] = k
    return table


def parse_crit(text, table=None, stop_at_end=False):
    """Independent reading of the critical constants of the PHASES blocks of a database / input TEXT (lexical layer of
    tools/dbparse.py, option matching by prefix against the PHASES option list): {lower-case name: (name, T_c, P_c, Omega)}.
    A later definition of a phase replaces the earlier one completely (constants not repeated are 0)."""
    table = {} if table is None else table
    lines = dbparse.logical_lines(text)
    i = 0
    inside = False
    cur = None
    while i < len(lines):
        _ln, line = lines[i]
        kind, opt, rest = dbparse.classify(line, dbparse.PHASE_OPTS)
        i += 1
        if kind == "keyword":
            if stop_at_end and opt == "end":
                break
            inside = opt == "phases"
            cur = None
            continue
        if not inside:
            continue
        if kind == "default":
            name = line.split()[0]
            cur = None
            if i < len(lines) and dbparse.classify(lines[i][1], dbparse.PHASE_OPTS)[0] == "default":
                i += 1                                   # the equation line
                cur = name.lower()
                table[cur] = [name, 0.0, 0.0, 0.0]
            continue
        if kind == "option" and cur is not None and opt in ("t_c", "p_c", "omega"):
            m = re.match(r"\s*([-+]?(\d+\.?\d*([eE][-+]?\d+)?|\.\d+([eE][-+]?\d+)?))", rest.replace("=", " "))
            table[cur][{"t_c": 1, "p_c": 2, "omega": 3}[opt]] = float(m.group(1)) if m else 0.0
    return table


def crit_lines(table):
    """`<hexname> <tc> <pc> <omega>` for the gases that have critical constants, in name order"""
    return [f"{G.hs(v[0])} {G.hd(v[1])} {G.hd(v[2])} {G.hd(v[3])}" for _k, v in sorted(table.items()) if v[1] > 0 and v[2] > 0]


def crit_diff(engine_gas_lines, table):
    """the engine's phase records (t_c, p_c, omega of every phase with critical constants) against the reading of the text"""
    eng = {}
    for g in engine_gas_lines:
        w = g.split()
        eng[G.uhs(w[0])] = tuple(G.ud(x) for x in w[1:4])
    txt = {v[0]: (v[1], v[2], v[3]) for v in table.values() if v[1] > 0 and v[2] > 0}
    for name in sorted(set(eng) | set(txt)):
        if eng.get(name) != txt.get(name):
            return f"critical constants of {name}: engine {eng.get(name)}, text {txt.get(name)}"
    return None


def db_text(db):
    return db[1] if isinstance(db, tuple) else (DBDIR / db).read_text(errors="replace")


def map_diff(engine, text):
    """engine map {(a,b): k} (read back through friend access) against the reading of the text, both key orders"""
    for key in sorted(set(engine) | set(text)):
        if key not in engine:
            return f"the engine holds no binary parameter for the key order {key} (text: {text[key]})"
        if key not in text:
            return f"the engine holds a binary parameter for {key} = {engine[key]} that the text does not define"
        if engine[key] != text[key]:
            return f"binary parameter {key}: engine {engine[key]}, text {text[key]}"
    return None


def pre_lines(gas_lines, table):
    return ["clear"] + ["gas " + g for g in gas_lines] + [f"kij {G.hs(a)} {G.hs(b)} {G.hd(k)}" for (a, b), k in sorted(table.items())]


def engine_map(lines):
    m = {}
    for ln in lines:
        if ln.startswith("K "):
            a, b, k = ln.split()[1:4]
            m[(G.uhs(a), G.uhs(b))] = G.ud(k)
    return m


def symmetric_in_lean(ctx, emap):
    """the run-time obligation behind `binaryFactor_symm_of_check`: `symmetricTab` evaluated by the Lean model on the
    map the engine holds"""
    out = pm(ctx, "\n".join([f"kij {G.hs(a)} {G.hs(b)} {G.hd(k)}" for (a, b), k in sorted(emap.items())] + ["symtab"]) + "\n")
    return out[-1].strip() == "SYM true"


def db_consts(exe, db):
    """critical constants as the engine holds them after loading `db` (friend access); binary parameters both as the engine
    holds them and as the database TEXT defines them. The EOS side of every oracle uses the reading of the text."""
    out, err = harness(exe, db_op(db) + "\ndump\n")
    if err or not out or out[0] != "D 0":
        raise RuntimeError(f"cannot load database {db if not isinstance(db, tuple) else 'synthetic'}: {err} {out[:1] if out else ''}")
    egases = [ln[2:] for ln in out if ln.startswith("G ")]
    emap = engine_map(out)
    tmap = parse_gbp(db_text(db), stop_at_end=True)
    crit = parse_crit(db_text(db), stop_at_end=True)
    gases = crit_lines(crit)
    names = [G.uhs(g.split()[0]) for g in gases]
    return dict(names=names, gas_lines=gases, engine_gas_lines=egases, crit=crit, engine=emap, text=tmap, pre=pre_lines(gases, tmap))


# ------------------------------------------------------------------------------------------------ (2) calc_PR tie
def cmp_pr(a, b):
    """compare a harness `R` line with the model's; returns None or (field index, impl, model)"""
    wa, wb = a.split(), b.split()
    if len(wa) != len(wb) or wa[0] != wb[0]:
        return ("shape", a, b)
    for j, (x, y) in enumerate(zip(wa[1:], wb[1:])):
        if len(x) != 16 or len(y) != 16:
            if x != y:
                return ("text", x, y)
            continue
        fx, fy = G.ud(x), G.ud(y)
        if fx == fy or (math.isnan(fx) and math.isnan(fy)):
            continue
        r = rel(fx, fy)
        is_sif = j >= 3 and (j - 3) % 4 == 3
        if r <= TOL_TIE or (is_sif and abs(fx - fy) <= 1e-12):
            continue
        return (j, fx, fy)
    return None


def parse_pr_op(op):
    w = op.split()
    if w[0] == "prn":
        n = int(w[4])
        return dict(it=int(w[1]), p=0.0, tk=G.ud(w[3]), vm=0.0, vol=G.ud(w[2]), num=True,
                    gases=[(G.uhs(w[5 + 2 * i]), G.ud(w[6 + 2 * i])) for i in range(n)])
    n = int(w[5])
    return dict(it=int(w[1]), p=G.ud(w[2]), tk=G.ud(w[3]), vm=G.ud(w[4]),
                gases=[(G.uhs(w[6 + 2 * i]), G.ud(w[7 + 2 * i])) for i in range(n)])


def eos_line(p, tk, vm, pairs):
    return f"eos {G.hd(p)} {G.hd(tk)} {G.hd(vm)} {len(pairs)} " + " ".join(f"{G.hs(g)} {G.hd(m)}" for g, m in pairs)


def parse_eos(line):
    w = line.split()
    if len(w) < 5 or w[0] != "E" or len(w[1]) != 16:
        return None
    comps = []
    for i in range(5, len(w), 3):
        comps.append(dict(x=G.ud(w[i]), lnphi=G.ud(w[i + 1]), zb=G.ud(w[i + 2])))
    return dict(p_of_vm=G.ud(w[1]), vm_of_p=G.ud(w[2]), disct=G.ud(w[3]), branch=int(w[4]), comps=comps)


def three_root(ctx, pre, tk, vm, pairs):
    """True when (V_m, T, x) lies in (or within 0.1 % of) the region where the cubic at the EOS pressure has three real
    roots — the part of the plane the property leaves out"""
    lines = []
    vs = [vm * f for f in (0.999, 1.0, 1.001)]
    first = pm(ctx, "\n".join(pre + [eos_line(1.0, tk, v, pairs) for v in vs]) + "\n")
    ps = [parse_eos(ln) for ln in first]
    if any(e is None or not (e["p_of_vm"] > 0) for e in ps):
        return True
    second = pm(ctx, "\n".join(pre + [eos_line(e["p_of_vm"], tk, v, pairs) for e, v in zip(ps, vs)]) + "\n")
    es = [parse_eos(ln) for ln in second]
    return any(e is None or not (e["disct"] <= 0) for e in es)


def oracle_pr(ctx, pre, op, impl_line):
    """the property evaluated on the implementation's own calc_PR result: EOS at 1e-4 (outside the three-root region),
    phi at 1e-6 inside the clamp, partial pressures = shares summing to P. Returns a message or None."""
    o = parse_pr_op(op)
    w = impl_line.split()
    if w[0] != "R" or len(w) < 4 or len(w[1]) != 16:
        return None
    vm = G.ud(w[1]) if (o["vm"] == 0 or o.get("num")) else o["vm"]
    comps = [tuple(G.ud(w[4 + 4 * i + k]) for k in range(4)) for i in range(len(o["gases"]))]
    live = [c for c in comps if c[0] != 0]
    if not live:
        return None
    p = sum(c[1] for c in comps)
    xs = sum(c[0] for c in comps)
    if abs(xs - 1) > 1e-9:
        return f"mole fractions sum to {xs}"
    for c in live:
        if rel(c[1], c[0] * p) > 1e-9:
            return f"partial pressure {c[1]} is not the share {c[0]} of {p}"
    if not (vm > 0 and p > 0 and math.isfinite(vm)):
        return None
    pairs = [(g, x[0]) for (g, _m), x in zip(o["gases"], comps)]
    e = parse_eos(pm(ctx, "\n".join(pre + [eos_line(p, o["tk"], vm, pairs)]) + "\n")[-1])
    if e is None:
        return None
    if not three_root(ctx, pre, o["tk"], vm, pairs) and rel(e["p_of_vm"], p) > TOL_EOS:
        return f"EOS: P={p} but PR pressure at V_m={vm} is {e['p_of_vm']}"
    for c, m in zip(comps, e["comps"]):
        if c[0] == 0:
            continue
        if m["zb"] > 0 and LNPHI_LO + 1e-3 < m["lnphi"] < LNPHI_HI - 1e-3 and rel(c[2], math.exp(m["lnphi"])) > TOL_PHI:
            return f"phi={c[2]} but the EOS gives {math.exp(m['lnphi'])}"
        if not (math.exp(LNPHI_LO) * (1 - 1e-9) <= c[2] <= math.exp(LNPHI_HI) * (1 + 1e-9)):
            return f"phi={c[2]} outside the clamp"
    return None


def tie_calc_pr(ctx, exe, ok):
    hist = {}
    n_per_db = ctx.n(4000, 40000) if ok else 40000
    text = (DBDIR / "phreeqc.dat").read_text(errors="replace")
    dbs = ["phreeqc.dat", "pitzer.dat", "core10.dat", "Amm.dat", "Kinec_v3.dat", "frezchem.dat"]
    nsyn = ctx.n(3, 12)
    for _ in range(nsyn):
        t, mode = G.synthetic_db(ctx.rng, text)
        dbs.append(("text", t, mode))
    evals = distinct = 0
    broken = None
    map_broken = None
    obligations = {"maps_checked": 0}
    branches = {}
    for db in dbs:
        dc = db_consts(exe, db)
        names, pre, nk = dc["names"], dc["pre"], len(dc["text"])
        label = db if not isinstance(db, tuple) else f"synthetic({db[2]})"
        md = map_diff(dc["engine"], dc["text"]) or crit_diff(dc["engine_gas_lines"], dc["crit"])
        sym = symmetric_in_lean(ctx, dc["engine"])
        obligations["maps_checked"] += 1
        if (md or not sym) and map_broken is None:
            map_broken = {"kind": "map", "db": label if not isinstance(db, tuple) else {"synthetic": db[1]},
                          "difference": md, "symmetricTab": sym}
        n = n_per_db if db == "phreeqc.dat" or isinstance(db, tuple) else n_per_db // 3
        ops = G.pr_ops(ctx.rng, names, n, hist) + G.prn_ops(ctx.rng, names, n // 4, hist)
        htext = db_op(db) + "\n" + "".join(("fresh\n" if i % 7 == 0 else "") + o + "\n" for i, o in enumerate(ops))
        out, err = harness(exe, htext)
        if err:
            ctx.violation(f"harness failed on calc_PR ops ({label}): {err}", {"kind": "tie", "db": label, "ops": ops[:50]})
            return evals, distinct, hist
        impl = [ln for ln in out[1:]]
        # model: the same ops, each followed by an `eos` line (branch / three-root statistics) and the search-free variant
        mtext = "\n".join(pre + ops) + "\n"
        model = pm(ctx, mtext)
        hist[f"db:{label}"] = dict(gases=len(names), kij_entries=nk, ops=len(ops))
        if len(impl) != len(model) or len(impl) != len(ops):
            ctx.violation("calc_PR tie: line count differs", {"kind": "tie", "db": label, "impl": len(impl), "model": len(model)})
            return evals, distinct, hist
        evals += len(ops)
        # statistics: which solver branch / whether the search moved the pressure (model side, cheap)
        stat_ops = []
        for o in ops:
            w = o.split()
            if w[0] == "prn":
                stat_ops.append("prn 0 " + " ".join(w[2:]))
            elif G.ud(w[4]) == 0:
                po = parse_pr_op(o)
                stat_ops.append(eos_line(max(po["p"], 1e-10), po["tk"], 1.0, po["gases"]))
            else:
                stat_ops.append("pr 0 " + " ".join(w[2:]))
        stat = pm(ctx, "\n".join(pre + stat_ops) + "\n")
        for o, m, s in zip(ops, model, stat):
            if s.startswith("E ") and len(s.split()) > 4 and s.split()[4].isdigit():
                b = "cardano_branch_" + s.split()[4]
                branches[b] = branches.get(b, 0) + 1
            elif s.startswith("R ") and o.startswith("prn") and len(m.split()) > 1 and len(m.split()[1]) == 16:
                po = parse_pr_op(o)
                if rel(G.ud(m.split()[1]), po["vol"] / sum(x for _g, x in po["gases"])) > 1e-9:
                    branches["numerical_path_vm_doubled"] = branches.get("numerical_path_vm_doubled", 0) + 1
                if s != m:
                    branches["numerical_path_search_moved_P"] = branches.get("numerical_path_search_moved_P", 0) + 1
            elif s.startswith("R ") and o.split()[1] != "0":
                if s != m:
                    branches["search_moved_P"] = branches.get("search_moved_P", 0) + 1
                else:
                    branches["volume_mode_plain"] = branches.get("volume_mode_plain", 0) + 1
            if "early" not in m:
                distinct += 1
        for i, (o, a, b) in enumerate(zip(ops, impl, model)):
            d = cmp_pr(a, b)
            if d is None:
                continue
            rep = {"kind": "tie", "db": label if not isinstance(db, tuple) else {"synthetic": db[1]},
                   "op": o, "impl": a, "model": b, "diff": list(d)}
            bad = oracle_pr(ctx, pre, o, a)
            if bad:
                ctx.violation("calc_PR result contradicts the equation of state: " + bad, rep)
                return evals, distinct, hist
            if broken is None:
                broken = rep
        if ctx.cov.get("samples") is not None and db == "phreeqc.dat":
            po = parse_pr_op(ops[0])
            ctx.sample({"calc_PR_op": po, "impl_Vm": G.ud(impl[0].split()[1]) if len(impl[0].split()) > 1 and len(impl[0].split()[1]) == 16 else impl[0]})
    hist.update(branches)
    hist["binary_parameter_maps_tied_to_text_and_symmetric"] = obligations["maps_checked"]
    if map_broken and not ctx.violations:
        pending(ctx, "the engine's critical constants / gas_binary_parameters map differ from the database text, or the map is not symmetric "
                      "(no calc_PR case contradicting the equation of state was found): " + str(map_broken["difference"]),
                      map_broken)
    if broken and not ctx.violations:
        pending(ctx, "calc_PR differs from the proved Peng-Robinson model by more than 1e-10 (property relations still "
                      "hold on the cases found)", broken)
    return evals, distinct, hist


# ------------------------------------------------------------------------------------------------ (2b) gate constants
def tie_gate_constants(ctx):
    """translator-style tie of the gas rows of the convergence gate: the constants of the damping ladder of
    calc_gas_pressures, of the fixed-volume pressure test of residuals and of mb_gases are re-read from the source on every run;
    the formulas rebuilt from them are compared with the Lean model (`pmodel gas`: damp / ptest / gasin) at probe points."""
    src = (vlib.REPO / "src" / "phreeqcpp" / "model.cpp").read_text(errors="replace")
    pcpp = (vlib.REPO / "src" / "phreeqcpp" / "Phreeqc.cpp").read_text(errors="replace")
    num = r"([0-9.]+(?:e[-+]?[0-9]+)?)"
    m_lo = re.search(r"if \(V_m < " + num + r"\)\s*\{\s*V_m = " + num + r";\s*\}\s*else if \(V_m > " + num + r"\)\s*\{\s*V_m = " + num + ";", src)
    ladder = re.findall(r"if \(V_m < " + num + r"\)\s*V_m = \(" + num + r" \* gas_phase_ptr->Get_v_m\(\) \+ V_m\) / " + num + ";", src)
    m_else = re.search(r"else\s*V_m = \(" + num + r" \* gas_phase_ptr->Get_v_m\(\) \+ V_m\) / " + num + ";", src)
    m_pt = re.search(r"fabs\(last_patm_x - patm_x\) > " + num + r" \|\| fabs\(last_patm_x - gas_phase_ptr->Get_total_p\(\)\) > " + num, src)
    m_mb = re.search(r"gas_unknown->f > gas_phase_ptr->Get_total_p\(\) \+ " + num + r" \|\|\s*gas_unknown->moles > MIN_TOTAL", src)
    m_mt = re.search(r"\n\s*MIN_TOTAL\s*=\s*" + num + ";", pcpp)
    if not (m_lo and len(ladder) == 4 and m_else and m_pt and m_mb and m_mt):
        pending(ctx, "cannot re-read the gas rows of the convergence gate from model.cpp (code shape not recognised)",
                      {"kind": "gate-shape", "found": [bool(m_lo), len(ladder), bool(m_else), bool(m_pt), bool(m_mb), bool(m_mt)]},
                      )
        return 0
    lo, lov, hi, hiv = (float(x) for x in m_lo.groups())
    steps = [(float(a), float(w), float(d)) for a, w, d in ladder]
    ew, ed = float(m_else.group(1)), float(m_else.group(2))
    pt1, pt2 = float(m_pt.group(1)), float(m_pt.group(2))
    eps_mb, min_total = float(m_mb.group(1)), float(m_mt.group(1))

    def damp(vo, vol, n):
        v = vol / n
        v = lov if v < lo else hiv if v > hi else v
        for a, w, d in steps:
            if v < a:
                return (w * vo + v) / d
        return (ew * vo + v) / ed

    rng = ctx.rng
    ops, want = [], []
    edges = [lo, hi] + [a for a, _w, _d in steps]
    for i in range(400):
        v = rng.choice(edges) * rng.choice([1.0, 0.999999, 1.000001]) if i % 3 == 0 else 10 ** rng.uniform(-2.5, 4.5)
        n = 10 ** rng.uniform(-4, 2)
        vo = 10 ** rng.uniform(-2, 4)
        vol = v * n
        ops.append(f"damp {G.hd(vo)} {G.hd(vol)} {G.hd(n)}")
        want.append("DV " + G.hd(damp(vo, vol, n)))
    for i in range(200):
        last = 10 ** rng.uniform(-2, 3)
        d1 = rng.choice([0.0, pt1, -pt1, pt1 * 1.001, -pt1 * 1.001, pt1 * 0.999, rng.uniform(-3, 3) * pt1])
        d2 = rng.choice([0.0, pt2, -pt2 * 1.001, pt2 * 0.999, rng.uniform(-3, 3) * pt2])
        patm, tot = last - d1, last - d2
        ops.append(f"ptest {G.hd(last)} {G.hd(patm)} {G.hd(tot)}")
        want.append("PT " + ("true" if abs(last - patm) > pt1 or abs(last - tot) > pt2 else "false"))
    for i in range(200):
        ptot = 10 ** rng.uniform(-2, 3)
        f = ptot + rng.choice([0.0, eps_mb, eps_mb * 2, -eps_mb, 1e-3, -1e-3, eps_mb * 0.5])
        moles = rng.choice([0.0, min_total, min_total * 2, min_total / 2, 1e-12, 1.0])
        ops.append(f"gasin {G.hd(f)} {G.hd(ptot)} {G.hd(moles)} {G.hd(min_total)}")
        want.append("GI " + ("true" if f > ptot + eps_mb or moles > min_total else "false"))
    got = pm(ctx, "\n".join(ops) + "\n")
    for o, w, g in zip(ops, want, got):
        if w != g.strip():
            pending(ctx, "the gas rows of the convergence gate in model.cpp no longer are the ones the theorems are about "
                          f"(constants re-read from the source: clamp {lo}/{hi}, ladder {steps}, else {ew}/{ed}, pressure test {pt1}/{pt2}, "
                          f"mb_gases {eps_mb}, MIN_TOTAL {min_total})", {"kind": "gate", "op": o, "source_formula": w, "model": g},
                          )
            break
    ctx.cov["gate_constants_from_source"] = dict(clamp=[lo, hi], ladder=steps, otherwise=[ew, ed], pressure_test=[pt1, pt2],
                                                 mb_gases=eps_mb, MIN_TOTAL=min_total, probes=len(ops))
    return len(ops)


# ------------------------------------------------------------------------------------------------ (3) real runs
def parse_run(lines):
    """harness output of one `run` → dict(rc, err, warn, rows=[{heading: value}], nfv)"""
    res = dict(rc=None, err="", warn="", rows=[], nfv=0, kmap=engine_map(lines), glines=[ln[2:] for ln in lines if ln.startswith("G ")])
    heads = None
    for ln in lines:
        w = ln.split()
        if not w:
            continue
        if w[0] == "RUN":
            res["rc"] = int(w[1])
            res["err"] = G.uhs(w[2]) if len(w) > 2 else ""
        elif w[0] == "W":
            res["warn"] = G.uhs(w[1]) if len(w) > 1 else ""
        elif w[0] == "X" and w[1] == "nfv":
            res["nfv"] = int(w[2])
        elif w[0] == "ROW":
            vals = []
            for c in w[1:]:
                if c[0] == "D":
                    vals.append(G.ud(c[1:]))
                elif c[0] == "S":
                    vals.append(G.uhs(c[1:]))
                elif c[0] == "L":
                    vals.append(int(c[1:]))
                else:
                    vals.append(None)
            if heads is None:
                heads = vals
            else:
                res["rows"].append(dict(zip(heads, vals)))
    return res


def run_real(exe, case, timeout=120):
    out, err = harness(exe, db_op(case["db"]) + "\nrun " + G.hs(case["input"]) + "\ndump\n", timeout=timeout)
    if err:
        return dict(rc=None, err=err, warn="", rows=[], nfv=0, crashed=True)
    return parse_run(out)


def judge(ctx, case, res, pre):
    """evaluate the property's relations on the reported values of every reaction row.
    Returns (list of (relation, measured, tolerance, message-or-None), counters)."""
    checks = []
    cnt = {}

    def chk(name, val, tol, msg):
        checks.append((name, val, tol, msg if not (val <= tol) else None))

    gases = case["gases"]
    for row in res["rows"]:
        if not isinstance(row.get("step"), float) or row["step"] < 1:
            continue
        # a history of several simulations carries one context (phase type, fixed pressure / volume) per simulation
        cx = case
        if case.get("sims"):
            k = int(row["sim"]) - 1 if isinstance(row.get("sim"), float) else -1
            if not (0 <= k < len(case["sims"])):
                continue
            cx = case["sims"][k]
            cnt["history_rows"] = cnt.get("history_rows", 0) + 1
        kind = cx["kind"]
        ideal = kind == "ideal"
        gtype = cx.get("ideal_type", kind)
        tk = row["tk"]
        n = [row[f"n{i}"] for i in range(len(gases))]
        pp = [row[f"pp{i}"] for i in range(len(gases))]
        phi = [row[f"phi{i}"] for i in range(len(gases))]
        si = [row[f"si{i}"] for i in range(len(gases))]
        if kind == "pp":
            cnt["pp_rows"] = cnt.get("pp_rows", 0) + 1
            for i, g in enumerate(gases):
                if cx["si_target"][i] is None:
                    continue
                present = (row.get(f"eq{i}") or 0) > 0
                ptarget = 10 ** min(cx["si_target"][i], 3.5)
                if not present:
                    cnt["pp_absent"] = cnt.get("pp_absent", 0) + 1
                    continue
                cnt["pp_present"] = cnt.get("pp_present", 0) + 1
                e = parse_eos(pm(ctx, "\n".join(pre + [eos_line(ptarget, tk, 1.0, [(g, 1.0)])]) + "\n")[-1])
                vm = e["vm_of_p"]
                e2 = parse_eos(pm(ctx, "\n".join(pre + [eos_line(ptarget, tk, vm, [(g, 1.0)])]) + "\n")[-1])
                m = e2["comps"][0]
                if m["zb"] > 0 and LNPHI_LO + 1e-3 < m["lnphi"] < LNPHI_HI - 1e-3:
                    chk("pp_phi_vs_eos", rel(phi[i], math.exp(m["lnphi"])), TOL_PHI,
                        f"{g}: PR_PHI={phi[i]} but the EOS gives {math.exp(m['lnphi'])} at P={ptarget}, T={tk}")
                chk("pp_fugacity_vs_SI", rel(phi[i] * ptarget, 10 ** si[i]), TOL_EOS,
                    f"{g}: fugacity phi*P={phi[i] * ptarget} but 10^SI={10 ** si[i]}")
                chk("pp_partial_pressure", rel(pp[i], ptarget), TOL_EOS, f"{g}: PR_P={pp[i]} but the target pressure is {ptarget}")
            continue
        p = row["gas_p"]
        vm = row["gas_vm"]
        ntot = sum(n)
        # equilibrium partial pressures from the saturation indices
        peq = [(10 ** s) / f if s > -90 and f > 0 else 0.0 for s, f in zip(si, phi)]
        if gtype == "fixedP":
            pfix = cx["ptot"]
            if p == 0:
                cnt["fixedP_absent"] = cnt.get("fixedP_absent", 0) + 1
                chk("fixedP_absent_sum_below_P", max(0.0, sum(peq) / pfix - 1), TOL_EOS,
                    f"fixed-pressure phase absent although the equilibrium partial pressures sum to {sum(peq)} > P={pfix}")
                continue
            cnt["fixedP_present"] = cnt.get("fixedP_present", 0) + 1
            chk("fixedP_pressure_is_fixed", rel(p, pfix), 1e-9, f"GAS_P={p} differs from the fixed pressure {pfix}")
            chk("fixedP_present_sum_reaches_P", rel(sum(peq), pfix), TOL_EOS,
                f"fixed-pressure phase present although the equilibrium partial pressures sum to {sum(peq)}, P={pfix}")
        if p == 0 or ntot <= 0:
            cnt["no_gas"] = cnt.get("no_gas", 0) + 1
            continue
        cnt["gas_rows"] = cnt.get("gas_rows", 0) + 1
        x = [m / ntot for m in n]
        if gtype != "fixedP":
            chk("volume_is_n_times_vm", rel(vm * ntot, cx["vol"]), TOL_EOS, f"GAS_VM*n={vm * ntot} but the fixed volume is {cx['vol']}")
        if row.get("pressure") is not None and isinstance(row.get("pressure"), float):
            chk("gases_columns", max(rel(row["pressure"], p), rel(row["total mol"], ntot), rel(row["volume"], vm * ntot)), TOL_EOS,
                f"-gases columns (pressure, total mol, volume)=({row['pressure']}, {row['total mol']}, {row['volume']}) vs GAS_P={p}, sum GAS={ntot}, GAS_VM*n={vm * ntot}")
        if ideal:
            if not (0.01 <= p <= 1000 or 0.01 <= ntot * R_ATM * tk / (vm * ntot) <= 1000):
                cnt["outside_0.01_1000_atm"] = cnt.get("outside_0.01_1000_atm", 0) + 1
                continue
            chk("ideal_PV_nRT", rel(p * vm, R_ATM * tk), TOL_EOS, f"ideal gas: P*Vm={p * vm} but RT={R_ATM * tk}")
            chk("ideal_sum_partial", rel(sum(peq), p), TOL_EOS, f"sum of partial pressures {sum(peq)} differs from P={p}")
            for i, g in enumerate(gases):
                if x[i] > 0:
                    chk("ideal_share", abs(peq[i] - x[i] * p) / p, TOL_EOS, f"{g}: partial pressure {peq[i]} is not the share {x[i]} of {p}")
                stored = cx.get("p_init") if gtype != "fixedV_eq" else None
                if stored is None:
                    continue            # -equilibrate: the stored pressure is the result of the initial equilibration, not observable here
                dev = abs(pp[i] - x[i] * p) / p
                if dev > TOL_EOS and pp[i] == stored[i]:
                    # known departure: for a phase without critical constants PR_P is the pressure stored in the GAS_PHASE entity
                    # (bit for bit the input value), not that of the punched state
                    cnt["PR_P_is_stored_input_pressure"] = cnt.get("PR_P_is_stored_input_pressure", 0) + 1
                    checks.append(("FINDING:" + FINDING4_KEY, dev, TOL_EOS,
                                   f"ideal gas phase: PR_P(\"{g}\")={pp[i]} is the input partial pressure, the state has x*P={x[i] * p} (GAS_P={p})"))
                else:
                    chk("ideal_PR_P_share", dev, TOL_EOS, f"{g}: PR_P={pp[i]} is not the share {x[i]} of {p}")
            continue
        pairs = list(zip(gases, n))
        out = pm(ctx, "\n".join(pre + [eos_line(p, tk, vm, pairs)]) + "\n")
        e = parse_eos(out[-1])
        if e is None:
            cnt["eos_unavailable"] = cnt.get("eos_unavailable", 0) + 1
            continue
        if not (0.01 <= p <= 1000 or 0.01 <= e["p_of_vm"] <= 1000) or not (273.15 <= tk <= 473.15):
            cnt["outside_0.01_1000_atm"] = cnt.get("outside_0.01_1000_atm", 0) + 1
            continue
        # known departure `fixedV-vm-iteration-accepted-early`: the damped fixed-point iteration of the molar volume
        # (calc_gas_pressures) is accepted before it reaches its fixed point; the engine's internal V_m is r * GAS_VM and
        # 10^SI_i = r * phi_i * p_i for every component with the same r. Set aside exactly when: one common r (1e-6), |r-1| above
        # the tolerance, |r-1|*P within (w+1)*0.001 atm (the code's absolute pressure test times the damping weight) and
        # GAS_P = EOS(r*GAS_VM) within 1e-4. The rest of the row is then judged at the internal volume r*GAS_VM.
        v_internal = None
        if gtype != "fixedP":
            ratios = [10 ** si[i] / (phi[i] * pp[i]) for i in range(len(gases)) if n[i] > 0 and si[i] > -90 and phi[i] * pp[i] > 0]
            if ratios and abs(ratios[0] - 1) > TOL_EOS and all(rel(r, ratios[0]) <= 1e-6 for r in ratios):
                r0 = ratios[0]
                w = 8 if vm < 0.02 else 6 if vm < 0.03 else 4 if vm < 0.05 else 2 if vm < 0.07 else 1
                if abs(r0 - 1) * p <= (w + 1) * 0.001:
                    er = parse_eos(pm(ctx, "\n".join(pre + [eos_line(p, tk, vm * r0, pairs)]) + "\n")[-1])
                    if er is not None and rel(er["p_of_vm"], p) <= TOL_EOS:
                        v_internal = vm * r0
                        cnt["vm_iteration_accepted_early"] = cnt.get("vm_iteration_accepted_early", 0) + 1
                        checks.append(("FINDING:" + FINDING2_KEY, abs(r0 - 1), TOL_EOS,
                                       f"fixed-volume Peng-Robinson phase accepted off the fixed point of its V_m iteration: 10^SI = {r0:.9g} * phi * p "
                                       f"for every gas, GAS_P={p} = EOS({r0:.9g} * GAS_VM) but EOS(GAS_VM={vm}) = {e['p_of_vm']} (T={tk}, gases={gases})"))
        tr = three_root(ctx, pre, tk, vm, pairs)
        if tr:
            cnt["three_root_region"] = cnt.get("three_root_region", 0) + 1
        elif v_internal is None:
            cnt["eos_judged"] = cnt.get("eos_judged", 0) + 1
            chk("PR_EOS", rel(e["p_of_vm"], p), TOL_EOS, f"P={p} but Peng-Robinson at V_m={vm}, T={tk}, x={x} gives {e['p_of_vm']}")
        gone = [i for i in range(len(gases)) if n[i] == 0 and si[i] <= -99]
        if any(pp[i] != 0 for i in gone):
            # known departure: PR_P of a listed component with zero moles is the stored pressure of the GAS_PHASE entity
            cnt["PR_P_of_absent_component"] = cnt.get("PR_P_of_absent_component", 0) + 1
            checks.append(("FINDING:" + FINDING4_KEY, max(pp[i] for i in gone) / p, TOL_EOS,
                           f"PR_P of components with zero moles and SI -99.99: {[(gases[i], pp[i]) for i in gone]} (GAS_P={p})"))
        chk("sum_partial", rel(sum(pp[i] for i in range(len(gases)) if i not in gone), p), TOL_EOS,
            f"partial pressures sum to {sum(pp[i] for i in range(len(gases)) if i not in gone)}, total {p}")
        if gtype != "fixedP" and not (e["p_of_vm"] > 0):
            # known departure (reported through ctx.finding): on the numerical fixed-volume path the engine's calc_PR() (gases.cpp)
            # doubles V_m while the PR pressure is <= 0 and keeps the doubled value for the mole numbers; the converged state then
            # has 10^SI = 2^k * phi * p for every component. Exactly this signature is set aside; nothing else is judged on the row.
            ratios = [10 ** si[i] / (phi[i] * pp[i]) for i in range(len(gases)) if n[i] > 0 and si[i] > -90 and phi[i] * pp[i] > 0]
            ks = [round(math.log2(r)) if r > 0 else 0 for r in ratios]
            if ratios and ks[0] >= 1 and all(k == ks[0] and abs(r / 2 ** k - 1) <= TOL_EOS for r, k in zip(ratios, ks)):
                cnt["negative_PR_pressure_vm_doubled"] = cnt.get("negative_PR_pressure_vm_doubled", 0) + 1
                checks.append(("FINDING:" + FINDING_KEY, float(2 ** ks[0]), TOL_EOS,
                               f"fixed-volume Peng-Robinson phase, PR pressure at the reported V_m={vm} is {e['p_of_vm']} <= 0: "
                               f"10^SI = {2 ** ks[0]} * phi * p for every component (P={p}, T={tk}, gases={gases})"))
                continue
        # phi: the reported P and V_m agree with the EOS only within 1e-4, so the EOS value of phi is taken at each of the
        # consistent readings of the reported state: (P, V_m), (P_eos(V_m), V_m), (P, V_m(P))
        alts = [e]
        for (pa, va) in ((e["p_of_vm"], vm), (p, e["vm_of_p"])) + (((p, v_internal),) if v_internal else ()):
            if pa > 0 and va > 0 and math.isfinite(pa) and math.isfinite(va):
                ea = parse_eos(pm(ctx, "\n".join(pre + [eos_line(pa, tk, va, pairs)]) + "\n")[-1])
                if ea is not None:
                    alts.append(ea)
        for i, g in enumerate(gases):
            if n[i] <= 0:
                continue
            chk("share", abs(pp[i] - x[i] * p) / p, TOL_EOS, f"{g}: PR_P={pp[i]} is not the share {x[i]} of {p}")
            m = e["comps"][i]
            if all(a["comps"][i]["zb"] > 0 and LNPHI_LO + 1e-3 < a["comps"][i]["lnphi"] < LNPHI_HI - 1e-3 for a in alts):
                cnt["phi_judged"] = cnt.get("phi_judged", 0) + 1
                dev = min(rel(phi[i], math.exp(a["comps"][i]["lnphi"])) for a in alts)
                chk("phi_vs_eos", dev, TOL_PHI,
                    f"{g}: PR_PHI={phi[i]} but the EOS gives {math.exp(m['lnphi'])} at P={p}, V_m={vm}, T={tk}, x={x}")
            else:
                cnt["phi_clamped"] = cnt.get("phi_clamped", 0) + 1
            chk("phi_in_clamp", 0.0 if math.exp(LNPHI_LO) * (1 - 1e-9) <= phi[i] <= math.exp(LNPHI_HI) * (1 + 1e-9) else 1.0, 0.5,
                f"{g}: PR_PHI={phi[i]} outside [0.01, 85]")
            if si[i] > -90 and v_internal is None:
                chk("fugacity_vs_SI", abs(phi[i] * pp[i] - 10 ** si[i]) / (phi[i] * p), TOL_EOS,
                    f"{g}: fugacity phi*p={phi[i] * pp[i]} but 10^SI={10 ** si[i]}")
    return checks, cnt


def real_runs(ctx, exe, ok):
    n = ctx.n(500, 4000) if ok else 4000
    hist = {}
    cases = G.corpus_cases() + [G.real_case(ctx.rng, hist) for _ in range(n)]
    consts = {}
    for db in sorted({c["db"] for c in cases}):
        consts[db] = db_consts(exe, db)
    map_broken = None
    routed = set()
    with cf.ThreadPoolExecutor(max_workers=vlib.NCPU) as ex:
        results = list(ex.map(lambda c: run_real(exe, c), cases))
    stats = {"completed": 0, "error_runs": 0, "crashed": 0}
    rels = {}
    cnt_all = {}
    judged = 0
    for case, res in zip(cases, results):
        if res.get("crashed"):
            stats["crashed"] += 1
            stats.setdefault("crash_kinds", {}).setdefault(res["err"], 0)
            stats["crash_kinds"][res["err"]] += 1
            continue
        if res["rc"] != 0:
            stats["error_runs"] += 1
            key = (res["err"].strip().splitlines() or ["?"])[0][:60]
            stats.setdefault("error_kinds", {})
            stats["error_kinds"][key] = stats["error_kinds"].get(key, 0) + 1
            continue
        stats["completed"] += 1
        dc = consts[case["db"]]
        table = parse_gbp(case["input"], dict(dc["text"]))
        crit = parse_crit(case["input"], {k: list(v) for k, v in dc["crit"].items()})
        if table != dc["text"] or crit != dc["crit"]:
            key = "inputs_with_own_binary_parameters" if table != dc["text"] else "inputs_with_own_critical_constants"
            stats[key] = stats.get(key, 0) + 1
            md = map_diff(res["kmap"], table) or crit_diff(res["glines"], crit)
            if (md or not symmetric_in_lean(ctx, res["kmap"])) and map_broken is None:
                map_broken = {"kind": "real", "case": dict(case), "relation": "engine records vs PHASES / GAS_BINARY_PARAMETERS text", "difference": md}
        checks, cnt = judge(ctx, case, res, pre_lines(crit_lines(crit), table))
        for k, v in cnt.items():
            cnt_all[k] = cnt_all.get(k, 0) + v
        if checks:
            judged += 1
        for name, val, tol, msg in checks:
            if name.startswith("FINDING:"):
                key = name.split(":", 1)[1]
                stats["known_departure_rows"] = stats.get("known_departure_rows", 0) + 1
                if key in routed:
                    continue
                routed.add(key)
                ctx.finding(key, msg, {"kind": "real", "case": dict(case),
                                       "minimal_replay": {FINDING_KEY: MINIMAL_FINDING, FINDING2_KEY: MINIMAL_FINDING2}.get(key, MINIMAL_FINDING4)})
                continue
            r = rels.setdefault(name, {"n": 0, "max": 0.0})
            r["n"] += 1
            if math.isfinite(val):
                r["max"] = max(r["max"], val)
            if msg and not ctx.violations:
                ctx.violation(f"{case['kind']} ({case['db']}): {msg}",
                              {"kind": "real", "case": {k: v for k, v in case.items()}, "relation": name, "measured": val,
                               "tolerance": tol})
        if judged == 1 and checks:
            ctx.sample({"real_input": case["input"].splitlines()[:14], "relations_checked": sorted({c[0] for c in checks})})
    if map_broken and not ctx.violations:
        pending(ctx, "after a run with PHASES / GAS_BINARY_PARAMETERS in the input the engine's records differ from the text / the map is not symmetric "
                      "(no run contradicting the property's relations was found): " + str(map_broken["difference"]),
                      map_broken)
    return len(cases), judged, hist, stats, rels, cnt_all


# ------------------------------------------------------------------------------------------------ entry points
def run(ctx):
    del _PENDING[:]
    ok = ctx.prove(["PhreeqcVerif.Properties.C19"])
    ctx.build_lib()
    exe = ctx.build_harness("ph_gas")
    freeze_pmodel(ctx)
    try:
        ev1, d1, hist1 = tie_calc_pr(ctx, exe, ok)
        ctx.cov["calc_PR_tie"] = hist1
        ev1 += tie_gate_constants(ctx)
        ev2 = d2 = 0
        if not ctx.violations:
            ev2, d2, hist2, stats, rels, cnt = real_runs(ctx, exe, ok)
            ctx.cov["real_runs_input_distribution"] = hist2
            ctx.cov["real_runs_outcome"] = stats
            ctx.cov["real_runs_relations"] = rels
            ctx.cov["real_runs_rows"] = cnt
    finally:
        unfreeze_pmodel()
    ctx.cov["evaluations"] = ev1 + ev2
    ctx.cov["distinct_nontrivial"] = d1 + d2
    ctx.cov["traces_validated_against_impl"] = ev1
    ctx.cov["rule"] = ("(a) calc_PR called in-process on the gases of phreeqc.dat, pitzer.dat, core10.dat, Amm.dat and synthetic variants "
                       "(GAS_BINARY_PARAMETERS removed/randomised, extra gases known only to the hard-coded table): pressure-given "
                       "and volume-given mode, 1-5 gases, zero mole numbers, 0.01-1000 atm, 0-200 C (+ a few points outside), "
                       "iterations 0/1/3/60 (three-root search on/off); every output (V_m, b_sum, a_aa_sum, x_i, pr_p, pr_phi, pr_si_f) "
                       "compared with the Lean Float model at 1e-10; non-trivial = not the early return. (b) real runs: fixed-volume, "
                       "fixed-pressure, -equilibrate, ideal (wateq4f.dat) and EQUILIBRIUM_PHASES gases over random T, P, composition, "
                       "brine strength, "
                       "inputs with their own GAS_BINARY_PARAMETERS / PHASES critical constants, phases that start empty, mixtures of up to 6 gases, "
                       "histories of 2-4 simulations on one instance (redefinition, SAVE/USE, EQUILIBRIUM_PHASES after a gas phase, reaction steps); "
                       "non-trivial = run completed and at least one relation of the property was evaluated. (c) gate constants re-read from model.cpp "
                       "and compared with the Lean gate functions at 800 probe points.")
    if _PENDING and not ctx.violations:
        ctx.violation(_PENDING[0][0], _PENDING[0][1], found_input=False)
    if not ok and not ctx.violations:
        ctx.violation("proof obligation of C19 no longer checks and no failing input was found",
                      {"broken": ctx.proof_broken}, found_input=False)


def replay(ctx, data):
    ctx.build_lib()
    exe = ctx.build_harness("ph_gas")
    ctx.prove(["PhreeqcVerif.Properties.C19"])
    freeze_pmodel(ctx)
    try:
        _replay(ctx, exe, data)
    finally:
        unfreeze_pmodel()


def _replay(ctx, exe, data):
    if data.get("kind") == "tie":
        db = data["db"]
        db = ("text", db["synthetic"], "replay") if isinstance(db, dict) else db
        pre = db_consts(exe, db)["pre"]
        out, err = harness(exe, db_op(db) + "\nfresh\n" + data["op"] + "\n")
        model = pm(ctx, "\n".join(pre + [data["op"]]) + "\n")
        print("impl :", out[-1] if out else err)
        print("model:", model[-1])
        d = cmp_pr(out[-1], model[-1]) if out else ("crash",)
        print("diff :", d)
        if d is not None:
            bad = oracle_pr(ctx, pre, data["op"], out[-1]) if out else "crash"
            ctx.violation("replayed calc_PR op still disagrees" + (": " + bad if bad else ""), data, found_input=bool(bad))
    elif data.get("kind") == "map":
        db = data["db"]
        db = ("text", db["synthetic"], "replay") if isinstance(db, dict) else db
        dc = db_consts(exe, db)
        md = map_diff(dc["engine"], dc["text"]) or crit_diff(dc["engine_gas_lines"], dc["crit"])
        sym = symmetric_in_lean(ctx, dc["engine"])
        print("engine map vs text:", md, "| symmetricTab:", sym)
        if md or not sym:
            ctx.violation("replayed database: engine map still differs from the text / is not symmetric", data, found_input=False)
    elif data.get("kind") == "real":
        case = data["case"]
        res = run_real(exe, case)
        print("run:", res["rc"], res["err"][:200])
        if res["rc"] == 0:
            dc = db_consts(exe, case["db"])
            table = parse_gbp(case["input"], dict(dc["text"]))
            crit = parse_crit(case["input"], {k: list(v) for k, v in dc["crit"].items()})
            print("engine records vs text:", map_diff(res["kmap"], table) or crit_diff(res["glines"], crit))
            pre = pre_lines(crit_lines(crit), table)
            checks, cnt = judge(ctx, case, res, pre)
            for name, val, tol, msg in checks:
                print(f"  {name}: {val:.3g} (tol {tol})" + (f"  FAIL {msg}" if msg else ""))
                if msg and not ctx.violations:
                    ctx.violation("replayed run still violates: " + msg, data)
    else:
        print("nothing to replay:", list(data))


MANIFEST = dict(
    technique="Lean 4 theorems on an executable model of both calc_PR variants and the gas-phase bookkeeping (generic over the number "
              "type: Float executes, Rat/Real carry the proofs); in-process differential check of the real calc_PR against the Float "
              "instance; direct oracle of the property's relations on generated real GAS_PHASE / EQUILIBRIUM_PHASES runs",
    text="Theorems (Properties/C19.lean; Rat with uninterpreted sqrt/cbrt/cos/acos/ln unless stated): pr_cubic_identity, pr_iff_cubic "
         "(PR pressure <=> the code's cubic); cardano_rootA/B/C, cardano_branches_root (each solver branch returns a root under the "
         "branch guard and the pointwise laws of the functions); cardano_real, pr_holds_at_returned_volume_real (over the reals with "
         "Mathlib's sqrt, x^(1/3), cos, arccos the laws are discharged: the returned V_m satisfies the PR equation for all real inputs); "
         "partial_pressures_sum, calcPR_spec (every calc_PR result: pr_p = x*P, sum x = 1, sum pr_p = P, ln phi in [-4.6, 4.44]), "
         "phi_clamp, phi_inside_clamp, calcPR_pressure_mode, calcPR_volume_mode, fixedP_exists_iff (+ reaches/absent corollaries; model "
         "of mb_gases and the GAS_MOLES gate), ideal_limit, ideal_limit_moles, ideal_cubic_root, ideal_gas_law, binaryFactor_symm, symmetricTab_sound, "
         "binaryFactor_symm_of_check (the run-time test symmetricTab, evaluated by pmodel on the map read back from the engine on "
         "every run, discharges the symmetry hypothesis), "
         "doubleLoop_spec / fixedV_doubled_vm / fixedV_consistent (the numerical fixed-volume path and the algebra of the known "
         "departure); fixedV_moles_total, fixedV_common_ratio (structure of every fixed-volume PR state: internal V_m = r*V/n, p_soln_i = "
         "r*x_i*P), fixedV_fixed_point_eos (at a fixed point of the V_m iteration the reported P,V,T,n satisfy the EOS, sum p = P, shares), "
         "damp_distance, ideal_gate_identity, gate_does_not_bound_eos (what the 0.001 atm absolute pressure test of residuals does and does "
         "not guarantee), volume_mode_real, pOfVm_cases. Correspondence: Phreeqc::calc_PR(phase_ptrs,P,TK,V_m) and the no-argument calc_PR() of gases.cpp called through "
         "friend access on real and synthetic databases vs the Float model at 1e-10 (critical constants read back from the engine; "
         "binary parameters taken from an independent reading of the GAS_BINARY_PARAMETERS text of database and input - symmetric, later "
         "entries override - and the engine's map tied to that reading for both key orders), incl. the three-root search (f_Vm, halve) and the V_m doubling loop. Translator-style tie of the gas rows of the convergence gate (damping ladder, "
         "pressure test, mb_gases constants re-read from model.cpp every run vs the Lean functions at probe points). Critical constants "
         "(-T_c -P_c -Omega of PHASES, database and input) read independently from the text (lexical layer of tools/dbparse.py) and the "
         "engine's phase records tied to that reading. Direct oracle over generated real runs (single runs, inputs with own PHASES / "
         "GAS_BINARY_PARAMETERS, multi-simulation histories with redefinition, SAVE/USE, EQUILIBRIUM_PHASES after gas phases, 1-6 gases): EOS 1e-4 "
         "outside the three-root region, shares summing to P, phi 1e-6 inside the clamp, fugacity = 10^SI, fixed-pressure existence "
         "(incl. phases that start empty), ideal gas law, gases as EQUILIBRIUM_PHASES.",
    note="Trusted: Lean kernel, harness/ph_gas.cpp (friend access to Phreeqc; hand-made gas unknowns for calc_PR()), libm shared by model "
         "and code, tolerance logic in tools/props/c19.py. Partial: convergence of the Newton solver around the gas equations is not "
         "modelled (only the existence rule and the gate); the Float model is tied by differential check, not proved equal to the real-"
         "number model; runs that end with an error are counted, not judged; rows with both reported and EOS pressure outside "
         "0.01..1000 atm are outside the property's range. Known findings: fixedV-numerical-negative-PR-pressure, fixedV-vm-iteration-accepted-early, "
         "PR_P-returns-stored-component-pressure (each reproduced by a corpus input on every run).",
)
