import PhreeqcVerif.Model.NumOps
/-! The Pitzer and SIT sums as coded in `Phreeqc::pitzer()` (pitzer.cpp, the `PITZER_LISTS` variant) and
`Phreeqc::sit()` (sit.cpp), and the rule by which `pitzer_tidy` sets the `ln_coef` / `os_coef` multipliers of the
LAMBDA and MU parameters.

The sums are split the way the theorems need them:
* the **constant-coefficient virial part** (β⁰, Cφ, θ, ψ, λ, ζ, μ, η) — `lnTermsConst`, `osConst`, `csumOf`,
  `gexConst`;
* the **ionic-strength-dependent part** (Debye–Hückel `F`, β¹·g, β²·g, ᴱθ) — with the values `g(α√I)`, `g′(α√I)`,
  `exp(−α√I)`, `ᴱθ`, `ᴱθ′` entering as numbers (`J`, `J′` are parameters of the model: the harness reads
  `etheta`, `ethetap` from the engine's `theta_params`).

Written over `[NumOps α]`: `Float` executes (driver `pmodel gamma`, ops `pz`/`sit`), the dual numbers over `Rat`
(`Dual`, first-order variations; `sqrt`, `ln`, `exp` with their derivative rules) carry `virial_gibbs_duhem` and
`pitzer_gibbs_duhem` in `Properties/C16.lean`; `tools/gen_pitzer.py` regenerates the transcribed source statements. -/
namespace PhreeqcVerif.Pitzer
open NumOps

variable {α : Type} [NumOps α] [∀ a b : α, Decidable (a < b)] [∀ a b : α, Decidable (a ≤ b)]

def isZero (x : α) : Bool := decide (x ≤ lit 0) && decide (lit 0 ≤ x)
def absv (x : α) : α := if x < lit 0 then -x else x

/-- `sum_{k<n} f k`, accumulated in index order from 0 as the C loops do -/
def sumTo (n : Nat) (f : Nat → α) : α :=
  match n with
  | 0 => lit 0
  | k + 1 => sumTo k f + f k

/-- `pitz_param_type` (global_structures.h), in the order of the enum -/
inductive PType
  | b0 | b1 | b2 | c0 | theta | lambda | zeta | psi | etheta | alphas | mu | eta
  deriving DecidableEq, Repr

def PType.ofCode : Nat → Option PType
  | 0 => some .b0 | 1 => some .b1 | 2 => some .b2 | 3 => some .c0 | 4 => some .theta | 5 => some .lambda
  | 6 => some .zeta | 7 => some .psi | 8 => some .etheta | 9 => some .alphas | 10 => some .mu | 11 => some .eta
  | _ => none

/-- one entry of `param_list`: species indices (positions in the species list), value `p` at temperature,
`alpha`, the denominators/multipliers fixed by the charges, and the ionic-strength functions at the current `I` -/
structure PParam (α : Type) where
  type : PType
  i0 : Nat
  i1 : Nat
  i2 : Nat
  p : α
  c0den : α        -- `2.0 * sqrt(fabs(z0 * z1))`                                        (TYPE_C0)
  ln0 : α          -- `ln_coef[0..2]`, `os_coef`                                          (TYPE_LAMBDA, TYPE_MU)
  ln1 : α
  ln2 : α
  os : α
  g : α            -- `G(alpha * DI)`                                                      (TYPE_B1, TYPE_B2)
  gp : α           -- `GP(alpha * DI)`
  ex : α           -- `exp(-alpha * DI)`
  etheta : α       -- `thetas->etheta`, `thetas->ethetap`                                  (TYPE_ETHETA)
  ethetap : α

/-! ## ionic-strength functions -/

/-- `G(y) = 2 (1 − (1 + y) e^{−y}) / y²`, 0 at `y = 0` -/
def G (y : α) : α :=
  if isZero y then lit 0 else lit 2 * (lit 1 - (lit 1 + y) * exp (-y)) / (y * y)

/-- `GP(y) = −2 (1 − (1 + y + y²/2) e^{−y}) / y²`, 0 at `y = 0` -/
def GP (y : α) : α :=
  if isZero y then lit 0 else (-(lit 2)) * (lit 1 - (lit 1 + y + y * y / lit 2) * exp (-y)) / (y * y)

/-- `calc_pitz_param`: temperature dependence of a parameter, `TR = 298.15` -/
def calcParam (a0 a1 a2 a3 a4 a5 tk : α) : α :=
  let tr : α := lit (29815 / 100)
  if absv (tk - tr) < lit (1 / 1000) then a0
  else (a0 + a1 * (lit 1 / tk - lit 1 / tr) + a2 * ln (tk / tr) + a3 * (tk - tr) + a4 * (tk * tk - tr * tr))
        + a5 * (lit 1 / (tk * tk) - lit 1 / (tr * tr))

/-- `calc_sit_param` (`fabs(TK - TR) < 0.01`, no `a[5]`) -/
def calcSitParam (a0 a1 a2 a3 a4 tk : α) : α :=
  let tr : α := lit (29815 / 100)
  if absv (tk - tr) < lit (1 / 100) then a0
  else (a0 + a1 * (lit 1 / tk - lit 1 / tr) + a2 * ln (tk / tr) + a3 * (tk - tr) + a4 * (tk * tk - tr * tr))

/-! ## `pitzer_tidy`: multipliers of LAMBDA and MU -/

/-- `(ln_coef[0], ln_coef[1], os_coef)` of a TYPE_LAMBDA parameter -/
def lambdaCoefs (i0 i1 : Nat) : α × α × α :=
  if i0 = i1 then (lit 1, lit 1, lit (1 / 2)) else (lit 2, lit 2, lit 1)

/-- `count[j]` = number of the three species equal to species `j` -/
def cnt (i0 i1 i2 j : Nat) : Nat :=
  (if j = i0 then 1 else 0) + (if j = i1 then 1 else 0) + (if j = i2 then 1 else 0)

/-- `os_coef` of a TYPE_MU parameter; `nk` = "species k is neutral" -/
def muOs (i0 i1 i2 : Nat) (n0 n1 n2 : Bool) : α :=
  if n0 && n1 && n2 then
    (if i0 = i1 ∧ i1 = i2 then lit 1 else if i0 = i1 ∨ i1 = i2 ∨ i0 = i2 then lit 3 else lit 6)
  else (if i0 = i1 ∨ i1 = i2 ∨ i0 = i2 then lit 3 else lit 6)

/-- `ln_coef[j]` of a TYPE_MU parameter for the species at position `j` (`ij`, neutral flag `nj`) -/
def muLn (i0 i1 i2 : Nat) (ij : Nat) (nj : Bool) : α :=
  let dup := decide (cnt i0 i1 i2 i0 > 1) || decide (cnt i0 i1 i2 i1 > 1)
  if !nj then (if dup then lit 3 else lit 6)
  else if cnt i0 i1 i2 ij = 3 then lit 1
  else if cnt i0 i1 i2 ij = 2 then lit 3
  else (if dup then lit 3 else lit 6)

/-! ## constant-coefficient virial part -/

/-- the additions `LGAMMA[i] += v` a parameter makes (constant-coefficient types), in the order of the code.
`m` molalities, `bigZ = Σ m|z|`, `present k` = `IPRSNT[k]` -/
def lnTermsConst (p : PParam α) (m : Nat → α) (bigZ : α) (present : Nat → Bool) : List (Nat × α) :=
  match p.type with
  | .b0 => [(p.i0, m p.i1 * lit 2 * p.p), (p.i1, m p.i0 * lit 2 * p.p)]
  | .c0 => [(p.i0, m p.i1 * bigZ * p.p / p.c0den), (p.i1, m p.i0 * bigZ * p.p / p.c0den)]
  | .theta => [(p.i0, lit 2 * m p.i1 * p.p), (p.i1, lit 2 * m p.i0 * p.p)]
  | .lambda => [(p.i0, m p.i1 * p.p * p.ln0), (p.i1, m p.i0 * p.p * p.ln1)]
  | .psi | .zeta | .eta =>
    if present p.i2 then
      [(p.i0, m p.i1 * m p.i2 * p.p), (p.i1, m p.i0 * m p.i2 * p.p), (p.i2, m p.i0 * m p.i1 * p.p)]
    else []
  | .mu =>
    if present p.i2 then
      [(p.i0, m p.i1 * m p.i2 * p.p * p.ln0), (p.i1, m p.i0 * m p.i2 * p.p * p.ln1),
       (p.i2, m p.i0 * m p.i1 * p.p * p.ln2)]
    else []
  | _ => []

/-- the addition to `OSMOT` -/
def osConst (p : PParam α) (m : Nat → α) (bigZ : α) (present : Nat → Bool) : α :=
  match p.type with
  | .b0 => m p.i0 * m p.i1 * p.p
  | .c0 => m p.i0 * m p.i1 * bigZ * p.p / p.c0den
  | .theta => m p.i0 * m p.i1 * p.p
  | .lambda => m p.i0 * m p.i1 * p.p * p.os
  | .psi | .zeta | .eta => if present p.i2 then m p.i0 * m p.i1 * m p.i2 * p.p else lit 0
  | .mu => if present p.i2 then m p.i0 * m p.i1 * m p.i2 * p.p * p.os else lit 0
  | _ => lit 0

/-- the addition to `CSUM` -/
def csumOf (p : PParam α) (m : Nat → α) : α :=
  match p.type with
  | .c0 => m p.i0 * m p.i1 * p.p / p.c0den
  | _ => lit 0

/-- the excess function (per kg water, in units of RT) whose derivatives the constant-coefficient terms are -/
def gexConst (p : PParam α) (m : Nat → α) (bigZ : α) (present : Nat → Bool) : α :=
  match p.type with
  | .b0 => lit 2 * (m p.i0 * m p.i1 * p.p)
  | .c0 => m p.i0 * m p.i1 * bigZ * p.p / p.c0den
  | .theta => lit 2 * (m p.i0 * m p.i1 * p.p)
  | .lambda => lit 2 * (m p.i0 * m p.i1 * p.p * p.os)
  | .psi | .zeta | .eta => if present p.i2 then m p.i0 * m p.i1 * m p.i2 * p.p else lit 0
  | .mu => if present p.i2 then m p.i0 * m p.i1 * m p.i2 * p.p * p.os else lit 0
  | _ => lit 0

/-! ## ionic-strength-dependent part -/

/-- additions to `LGAMMA` by β¹, β², ᴱθ -/
def lnTermsI (p : PParam α) (m : Nat → α) (useEtheta : Bool) : List (Nat × α) :=
  match p.type with
  | .b1 | .b2 =>
    if isZero p.p then [] else [(p.i0, m p.i1 * lit 2 * p.p * p.g), (p.i1, m p.i0 * lit 2 * p.p * p.g)]
  | .etheta => if useEtheta then [(p.i0, lit 2 * m p.i1 * p.etheta), (p.i1, lit 2 * m p.i0 * p.etheta)] else []
  | _ => []

def osI (p : PParam α) (m : Nat → α) (mu : α) (useEtheta : Bool) : α :=
  match p.type with
  | .b1 | .b2 => if isZero p.p then lit 0 else m p.i0 * m p.i1 * p.p * p.ex
  | .etheta => if useEtheta then m p.i0 * m p.i1 * (p.etheta + mu * p.ethetap) else lit 0
  | _ => lit 0

/-- `F_var` -/
def fVar (p : PParam α) (m : Nat → α) (mu : α) (useEtheta : Bool) : α :=
  match p.type with
  | .b1 | .b2 => if isZero p.p then lit 0 else m p.i0 * m p.i1 * p.p * p.gp / mu
  | .etheta => if useEtheta then m p.i0 * m p.i1 * p.ethetap else lit 0
  | _ => lit 0

/-! ## assembling `LGAMMA`, `COSMOT`, `AW` -/

/-- value of `LGAMMA[k]` after the additions in `terms` (in list order, starting from `acc`) -/
def addTerms (terms : List (Nat × α)) (k : Nat) (acc : α) : α :=
  terms.foldl (fun a t => if t.1 = k then a + t.2 else a) acc

/-- all additions of the parameter loop, in the order of `param_list` -/
def allTerms (ps : List (PParam α)) (m : Nat → α) (bigZ : α) (present : Nat → Bool) (useEtheta : Bool) :
    List (Nat × α) :=
  ps.flatMap fun p => lnTermsConst p m bigZ present ++ lnTermsI p m useEtheta

def constTerms (ps : List (PParam α)) (m : Nat → α) (bigZ : α) (present : Nat → Bool) : List (Nat × α) :=
  ps.flatMap fun p => lnTermsConst p m bigZ present

/-- `LGAMMA[k]` of the constant-coefficient virial part: parameter additions plus `z0 * CSUM` -/
def lgammaConst (ps : List (PParam α)) (m : Nat → α) (zabs : Nat → α) (bigZ : α) (present : Nat → Bool)
    (k : Nat) : α :=
  addTerms (constTerms ps m bigZ present) k (lit 0) + zabs k * (ps.foldl (fun a p => a + csumOf p m) (lit 0))

/-- `OSMOT` of the constant-coefficient virial part -/
def osmotConst (ps : List (PParam α)) (m : Nat → α) (bigZ : α) (present : Nat → Bool) : α :=
  ps.foldl (fun a p => a + osConst p m bigZ present) (lit 0)

/-- excess function of the constant-coefficient virial part -/
def gexTotal (ps : List (PParam α)) (m : Nat → α) (bigZ : α) (present : Nat → Bool) : α :=
  ps.foldl (fun a p => a + gexConst p m bigZ present) (lit 0)

/-- inputs of one call of `pitzer()` (species renumbered 0..n-1 in `s_list` order) -/
structure PzIn (α : Type) where
  n : Nat
  m : Nat → α          -- `M[i]`
  z : Nat → α          -- `spec[i]->z`
  mu : α               -- `I = mu_x`
  a0 : α               -- `A0`
  minTotal : α         -- `MIN_TOTAL`
  icon : Bool          -- MacInnes scaling
  ic : Nat             -- position of Cl- (`IC`), `n` when absent
  useEtheta : Bool
  mcb0 : Option α
  mcb1 : Option α
  mcc0 : Option α
  ps : List (PParam α)

structure PzOut (α : Type) where
  lgamma : Nat → α     -- `LGAMMA[i]` (natural log; `sit_LGAMMA[i]` is log10)
  cosmot : α
  aw : α
  osum : α
  osmot : α            -- `OSMOT` before the division by `OSUM`

/-- `IPRSNT[k]` -/
def presentOf (x : PzIn α) : Nat → Bool :=
  fun k => decide (x.minTotal < x.m k) || (x.icon && decide (k = x.ic))

/-- `BIGZ = Σ M|z|`, `OSUM = Σ M` -/
def bigZOf (x : PzIn α) : α := sumTo x.n fun k => x.m k * absv (x.z k)
def osumOf (x : PzIn α) : α := sumTo x.n fun k => x.m k

/-- pressure correction of the Debye–Hückel `b` for univalent (`B1`) and divalent (`B2`) ions, `patm_x > 1`:
`pap1 = (7e-5 + 1.93e-9 (TK − 250)²)·patm`, `pap2 = 9.65e-10 (TK − 263)^2.773 · patm^0.623` for `TK > 263`
(otherwise `B2` uses `pap1`), each capped at 0.2; the powers enter as numbers -/
structure PCorr (α : Type) where
  active : Bool        -- `patm_x > 1.0`
  b1 : α
  b2 : α

/-- the Debye–Hückel function `−A0 (√I/(1 + b√I) + 2 ln(1 + b√I)/b)` -/
def fDH (a0 di b : α) : α := (-a0) * (di / (lit 1 + b * di) + lit 2 * ln (lit 1 + b * di) / b)

/-- initial `OSMOT = −A0 I^{3/2}/(1 + 1.2 √I)` -/
def osmot0 (a0 mu di : α) : α := (-a0) * (mu * di) / (lit 1 + lit (12 / 10) * di)

/-- `F` after the parameter loop (the `F_var` of every parameter added to the Debye–Hückel start value `f0`) -/
def fTotal (x : PzIn α) (f0 : α) : α := x.ps.foldl (fun a p => a + fVar p x.m x.mu x.useEtheta) f0

def csumTotal (x : PzIn α) : α := x.ps.foldl (fun a p => a + csumOf p x.m) (lit 0)

def osmotTotal (x : PzIn α) : α :=
  x.ps.foldl (fun a p => a + (osConst p x.m (bigZOf x) (presentOf x) + osI p x.m x.mu x.useEtheta))
    (osmot0 x.a0 x.mu (sqrt x.mu))

/-- `GAMCLM`: the MacInnes reference (KCl) -/
def gamclm (x : PzIn α) (f1 : α) : α :=
  let di := sqrt x.mu
  let xxx0 := lit 2 * di
  let xxx := (lit 1 - (lit 1 + xxx0 - xxx0 * xxx0 * lit (1 / 2)) * exp (-xxx0)) / (xxx0 * xxx0)
  let g1 := match x.mcb0 with | some v => f1 + x.mu * lit 2 * v | none => f1
  let g2 := match x.mcb1 with | some v => g1 + x.mu * lit 2 * v * xxx | none => g1
  match x.mcc0 with | some v => g2 + lit (15 / 10) * v * x.mu * x.mu | none => g2

/-- `LGAMMA[k]` before the MacInnes scaling; `pc` selects `F1`/`F2` for |z| = 1 / 2 when `patm_x > 1` -/
def lg1 (x : PzIn α) (pc : PCorr α) (k : Nat) : α :=
  let di := sqrt x.mu
  let b : α := lit (12 / 10)
  let f0 := fDH x.a0 di b
  let z0 := absv (x.z k)
  let base := addTerms (allTerms x.ps x.m (bigZOf x) (presentOf x) x.useEtheta) k (lit 0)
  let fsel : α :=
    if pc.active then
      (if isZero (z0 - lit 1) then fTotal x (if isZero pc.b1 then f0 else fDH x.a0 di pc.b1)
       else if isZero (z0 - lit 2) then fTotal x (if isZero pc.b2 then f0 else fDH x.a0 di pc.b2)
       else fTotal x f0)
    else fTotal x f0
  if isZero z0 then base else base + (z0 * z0 * fsel + z0 * csumTotal x)

/-- `PHIMAC = LGAMMA[IC] − GAMCLM` (`GAMCLM` starts from `F1`) -/
def phimac (x : PzIn α) (pc : PCorr α) : α :=
  let di := sqrt x.mu
  let f0 := fDH x.a0 di (lit (12 / 10))
  let f1 := if pc.active && !isZero pc.b1 then fDH x.a0 di pc.b1 else f0
  lg1 x pc x.ic - gamclm x f1

/-- `pitzer()` -/
def pitzerP (x : PzIn α) (pc : PCorr α) : PzOut α :=
  let osum := osumOf x
  let osmot := osmotTotal x
  let ph := phimac x pc
  let cosmot := lit 1 + lit 2 * osmot / osum
  { lgamma := fun k => if x.icon then lg1 x pc k + x.z k * ph else lg1 x pc k,
    cosmot := cosmot, aw := exp ((-osum) * cosmot / lit (5550837 / 100000)), osum := osum, osmot := osmot }

/-- `pitzer()` at `patm_x <= 1` -/
def pitzer (x : PzIn α) : PzOut α := pitzerP x { active := false, b1 := lit (12 / 10), b2 := lit (12 / 10) }

/-- `x^y` of the C library for `x > 0` -/
def powf (x y : α) : α := exp (y * ln x)

/-- the `B1`, `B2` of the block `if (patm_x > 1.0)` -/
def pcorrOf (tk patm : α) : PCorr α :=
  if lit 1 < patm then
    let b : α := lit (12 / 10)
    let cap := fun (v : α) => if lit (2 / 10) < v then lit (2 / 10) else v
    let pap1 := (lit (7 / 100000) + lit (193 / 100000000000) * ((tk - lit 250) * (tk - lit 250))) * patm
    let pap2 := if lit 263 < tk then (lit (965 / 1000000000000) * powf (tk - lit 263) (lit (2773 / 1000))) * powf patm (lit (623 / 1000))
                else pap1
    { active := true, b1 := b - cap pap1, b2 := b - cap pap2 }
  else { active := false, b1 := lit (12 / 10), b2 := lit (12 / 10) }

/-! ## `ETHETA_PARAMS`: the Chebyshev series of J and X·J′ -/

/-- `AKX[0..20]`: coefficients for `X ≤ 1` -/
def akLow : List α := [(lit (1925154014814667 / 1000000000000000)), -(lit (60076477753119 / 1000000000000000)), -(lit (29779077456514 / 1000000000000000)), -(lit (7299499690937 / 1000000000000000)), (lit (388260636404 / 1000000000000000)), (lit (636874599598 / 1000000000000000)), (lit (36583601823 / 1000000000000000)), -(lit (45036975204 / 1000000000000000)), -(lit (453789571 / 100000000000000)), (lit (2937706971 / 1000000000000000)), (lit (396566462 / 1000000000000000)), -(lit (202099617 / 1000000000000000)), -(lit (25267769 / 1000000000000000)), (lit (1352261 / 100000000000000)), (lit (1229405 / 1000000000000000)), -(lit (821969 / 1000000000000000)), -(lit (50847 / 1000000000000000)), (lit (46333 / 1000000000000000)), (lit (1943 / 1000000000000000)), -(lit (2563 / 1000000000000000)), -(lit (10991 / 1000000000000000))]

/-- `AKX[21..41]`: coefficients for `X > 1` -/
def akHigh : List α := [(lit (628023320520852 / 1000000000000000)), (lit (462762985338493 / 1000000000000000)), (lit (150044637187895 / 1000000000000000)), -(lit (28796057604906 / 1000000000000000)), -(lit (36552745910311 / 1000000000000000)), -(lit (1668087945272 / 1000000000000000)), (lit (6519840398744 / 1000000000000000)), (lit (1130378079086 / 1000000000000000)), -(lit (887171310131 / 1000000000000000)), -(lit (242107641309 / 1000000000000000)), (lit (87294451594 / 1000000000000000)), (lit (34682122751 / 1000000000000000)), -(lit (4583768938 / 1000000000000000)), -(lit (3548684306 / 1000000000000000)), -(lit (25045388 / 100000000000000)), (lit (216991779 / 1000000000000000)), (lit (8077957 / 100000000000000)), (lit (4558555 / 1000000000000000)), -(lit (6944757 / 1000000000000000)), -(lit (2849257 / 1000000000000000)), (lit (237816 / 1000000000000000))]

/-- `AK[i]` -/
def akCoef (x : α) (i : Nat) : α := if x ≤ lit 1 then akLow.getD i (lit 0) else akHigh.getD i (lit 0)

/-- three consecutive values of the recurrences `BK`, `DK` -/
structure CS (α : Type) where
  b0 : α
  b1 : α
  b2 : α
  d0 : α
  d1 : α
  d2 : α

/-- `BK[i] = z·BK[i+1] − BK[i+2] + AK[i]`, `DK[i] = BK[i+1] + z·DK[i+1] − DK[i+2]` -/
def csStep (z a : α) (s : CS α) : CS α :=
  ⟨((z * s.b0) - s.b1) + a, s.b0, s.b1, (s.b0 + (z * s.d0)) - s.d1, s.d0, s.d1⟩

/-- `BK[20] = AK[20]`, `BK[19] = z·AK[20] + AK[19]`, `DK[19] = AK[20]`; `DK[20]` is never assigned by the routine (the member
array holds the 0 of `pitzer_init`): it enters as `dk20` -/
def csInit (z a20 a19 dk20 : α) : CS α := ⟨(z * a20) + a19, a20, lit 0, a20, dk20, lit 0⟩

/-- the loop `for (i = 18; i >= 0; i--)` -/
def csRun (z : α) (coef : Nat → α) (dk20 : α) : CS α :=
  [18, 17, 16, 15, 14, 13, 12, 11, 10, 9, 8, 7, 6, 5, 4, 3, 2, 1, 0].foldl (fun s i => csStep z (coef i) s)
    (csInit z (coef 20) (coef 19) dk20)

/-- `L_Z` -/
def lzOf (x : α) : α :=
  if x ≤ lit 1 then (lit 4 * powf x (lit (2 / 10))) - lit 2 else ((lit 40 * powf x (-(lit (1 / 10)))) - lit 22) / lit 9

/-- `L_DZ` -/
def ldzOf (x : α) : α :=
  if x ≤ lit 1 then (lit (8 / 10) * powf x (lit (2 / 10))) / lit 2 else ((-(lit 4)) * powf x (-(lit (1 / 10)))) / lit 18

/-- `JAY = X/4 − 1 + 0.5 (BK[0] − BK[2])` -/
def jay (x : α) : α :=
  let s := csRun (lzOf x) (akCoef x) (lit 0)
  ((x / lit 4) - lit 1) + (lit (5 / 10) * (s.b0 - s.b2))

/-- `JPRIME = X·0.25 + L_DZ (DK[0] − DK[2])` -/
def jprime (x dk20 : α) : α :=
  let s := csRun (lzOf x) (akCoef x) dk20
  (x * lit (25 / 100)) + (ldzOf x * (s.d0 - s.d2))

/-- `ETHETAS`: `etheta = zj zk (J(xjk) − J(xjj)/2 − J(xkk)/2) / (4I)`, 0 for equal charges -/
def ethetaOf (zj zk i jjk jjj jkk : α) : α :=
  if isZero (zj - zk) then lit 0 else ((zj * zk) * ((jjk - (jjj / lit 2)) - (jkk / lit 2))) / (lit 4 * i)

/-- `ethetap = zj zk (J′(xjk) − J′(xjj)/2 − J′(xkk)/2) / (8 I²) − etheta / I` (the `J′` here are the `JPRIME = X·dJ/dX`) -/
def ethetapOf (zj zk i jjk jjj jkk pjk pjj pkk : α) : α :=
  if isZero (zj - zk) then lit 0
  else (((zj * zk) * ((pjk - (pjj / lit 2)) - (pkk / lit 2))) / ((lit 8 * i) * i)) - (ethetaOf zj zk i jjk jjj jkk / i)

/-! ## SIT (`sit()`) -/

/-- one entry of the SIT `param_list`: `type` 13 = ε, 14 = ε₁ (multiplied by `I`) -/
structure SParam (α : Type) where
  eps1 : Bool
  i0 : Nat
  i1 : Nat
  p : α

structure SitIn (α : Type) where
  n : Nat
  m : Nat → α
  z : Nat → α
  mu : α
  a0 : α               -- `sit_A0`
  ps : List (SParam α)

def sitTerms (x : SitIn α) (p : SParam α) : List (Nat × α) :=
  if p.eps1 then [(p.i0, x.m p.i1 * x.mu * p.p), (p.i1, x.m p.i0 * x.mu * p.p)]
  else [(p.i0, x.m p.i1 * p.p), (p.i1, x.m p.i0 * p.p)]

/-- the additions to `OSMOT` exactly as coded (the ε₁ branch adds the term without `I` *and* the term with `I`) -/
def sitOs (x : SitIn α) (p : SParam α) (acc : α) : α :=
  let nn := isZero (x.z p.i0) && isZero (x.z p.i1)
  if p.eps1 then
    let acc1 := acc + x.m p.i0 * x.m p.i1 * p.p
    if nn then acc1 + x.m p.i0 * x.m p.i1 * p.p * x.mu / lit 2 else acc1 + x.m p.i0 * x.m p.i1 * p.p * x.mu
  else
    if nn then acc + x.m p.i0 * x.m p.i1 * p.p / lit 2 else acc + x.m p.i0 * x.m p.i1 * p.p

/-- `sit()`: `sit_LGAMMA` is log10 -/
def sit (x : SitIn α) : PzOut α :=
  let osum := sumTo x.n fun k => x.m k
  let di := sqrt x.mu
  let ln10 : α := ln (lit 10)
  let a := lit 3 * x.a0 / ln10
  let b : α := lit (15 / 10)
  let f := (-a) * (di / (lit 1 + b * di))
  let t := lit 1 + b * di
  let osmot0 := (-(lit 2)) * a / (b * b * b) * (t - lit 2 * ln t - lit 1 / t)
  let terms := x.ps.flatMap (sitTerms x)
  let osmot := x.ps.foldl (fun acc p => sitOs x p acc) osmot0
  let lg : Nat → α := fun k =>
    let z0 := x.z k
    let base := addTerms terms k (lit 0)
    if isZero z0 then base else base + z0 * z0 * f
  let cosmot := lit 1 + osmot * ln10 / osum
  let aw := exp ((-osum) * cosmot / lit (5550837 / 100000))
  { lgamma := lg, cosmot := cosmot, aw := aw, osum := osum, osmot := osmot }

/-! ## dual numbers over `Rat`: first-order variations -/

/-- `re + eps·ε` with `ε² = 0` -/
structure Dual where
  re : Rat
  eps : Rat
  deriving DecidableEq

namespace Dual
def const (q : Rat) : Dual := ⟨q, 0⟩
instance : Add Dual := ⟨fun a b => ⟨a.re + b.re, a.eps + b.eps⟩⟩
instance : Sub Dual := ⟨fun a b => ⟨a.re - b.re, a.eps - b.eps⟩⟩
instance : Mul Dual := ⟨fun a b => ⟨a.re * b.re, a.re * b.eps + a.eps * b.re⟩⟩
instance : Neg Dual := ⟨fun a => ⟨-a.re, -a.eps⟩⟩
/-- quotient rule -/
instance : Div Dual := ⟨fun a b => ⟨a.re / b.re, (a.eps * b.re - a.re * b.eps) / (b.re * b.re)⟩⟩
/-- order on the real part (used by the `if`s of the model only) -/
instance : LT Dual := ⟨fun a b => a.re < b.re⟩
instance : LE Dual := ⟨fun a b => a.re ≤ b.re⟩
instance (a b : Dual) : Decidable (a < b) := inferInstanceAs (Decidable (a.re < b.re))
instance (a b : Dual) : Decidable (a ≤ b) := inferInstanceAs (Decidable (a.re ≤ b.re))
end Dual

/-- transcendental functions on dual numbers: `sqrt`, `ln`, `exp` carry their derivative rules
(`d√x = dx/(2√x)`, `d ln x = dx/x`, `d eˣ = eˣ dx`) — these are the *hypotheses* on the uninterpreted functions under which
the Gibbs–Duhem theorem of the full `pitzer()` skeleton is proved; the other functions are not called by the Pitzer model -/
def dualFns (f : TransFns Rat) : TransFns Dual where
  log10 := fun x => ⟨f.log10 x.re, 0⟩
  exp10 := fun x => ⟨f.exp10 x.re, 0⟩
  ln := fun x => ⟨f.ln x.re, x.eps / x.re⟩
  exp := fun x => ⟨f.exp x.re, f.exp x.re * x.eps⟩
  sqrt := fun x => ⟨f.sqrt x.re, x.eps / (2 * f.sqrt x.re)⟩
  sinh := fun x => ⟨f.sinh x.re, 0⟩
  cos := fun x => ⟨f.cos x.re, 0⟩
  acos := fun x => ⟨f.acos x.re, 0⟩
  cbrt := fun x => ⟨f.cbrt x.re, 0⟩
  floor := fun x => ⟨f.floor x.re, 0⟩

@[reducible] def dualOps (f : TransFns Rat) : NumOps Dual where
  ofRat := Dual.const
  fns := dualFns f

end PhreeqcVerif.Pitzer
