"""Translator (C10): per entity class of src/phreeqcpp, regenerate from the CURRENT source
  * the `vopts` option vector, in order;
  * what `dump_raw` prints: every `-key` line in writing order, the member(s) it prints, the kind of line (scalar /
    name-double block / nested sub-dump / data lines), the condition it is written under, and whether it stands in a
    "... workspace variables #" section (recomputed) or not (state);
  * what `read_raw` does in every `case` of its option switch: the member(s) the value lands in, the kind, the flags it
    sets, what happens on an unknown option, and the flags the reader requires when `check` is on
→ lean/PhreeqcVerif/Gen/RawTables.lean.  The extraction is regex/brace based over comment-stripped source text and FAILS
CLOSED (TranslatorError) on any statement shape it does not recognise, so a rewritten writer/reader is reported as
"obligation broken" (protocol P) rather than silently mis-modelled.

`extract(repo)` returns the tables as Python data (used by tools/props/c10.py for the evidence and the targeted search),
`generate(ctx)` writes the Lean file (only when its content changes)."""
import re
from pathlib import Path

import vlib

# table name, file stem, C++ class, RAW keyword ("" = component class, only reachable nested)
CLASSES = [
    ("Solution", "Solution", "cxxSolution"),
    ("SolutionIsotope", "SolutionIsotope", "cxxSolutionIsotope"),
    ("Exchange", "Exchange", "cxxExchange"),
    ("ExchComp", "ExchComp", "cxxExchComp"),
    ("Surface", "Surface", "cxxSurface"),
    ("SurfaceComp", "SurfaceComp", "cxxSurfaceComp"),
    ("SurfaceCharge", "SurfaceCharge", "cxxSurfaceCharge"),
    ("GasPhase", "GasPhase", "cxxGasPhase"),
    ("GasComp", "GasComp", "cxxGasComp"),
    ("PPassemblage", "PPassemblage", "cxxPPassemblage"),
    ("PPassemblageComp", "PPassemblageComp", "cxxPPassemblageComp"),
    ("SSassemblage", "SSassemblage", "cxxSSassemblage"),
    ("SS", "SS", "cxxSS"),
    ("SScomp", "SScomp", "cxxSScomp"),
    ("Kinetics", "cxxKinetics", "cxxKinetics"),
    ("KineticsComp", "KineticsComp", "cxxKineticsComp"),
    ("Mix", "cxxMix", "cxxMix"),
    ("Reaction", "Reaction", "cxxReaction"),
    ("Temperature", "Temperature", "cxxTemperature"),
    ("Pressure", "Pressure", "cxxPressure"),
]
CXX2TAB = {c: t for t, _, c in CLASSES}
UNDEFINED_MACROS = {"USE_REVISED_READ_RAW", "PHREEQCI_GUI", "_DEBUG", "SKIP", "SKIP_KEEP"}


class TranslatorError(Exception):
    pass


def fail(where, what, text=""):
    raise TranslatorError(f"{where}: {what}" + (f" :: {' '.join(text.split())[:160]}" if text else ""))


# ------------------------------------------------------------------------------------------------ source preparation
def strip_comments(src):
    """remove // and /* */ comments, keep string literals intact"""
    out, i, n = [], 0, len(src)
    while i < n:
        c = src[i]
        if c == '"':
            j = i + 1
            while j < n and src[j] != '"':
                j += 2 if src[j] == "\\" else 1
            out.append(src[i:j + 1])
            i = j + 1
        elif c == "'":
            j = i + 1
            while j < n and src[j] != "'":
                j += 2 if src[j] == "\\" else 1
            out.append(src[i:j + 1])
            i = j + 1
        elif src.startswith("//", i):
            while i < n and src[i] != "\n":
                i += 1
        elif src.startswith("/*", i):
            j = src.find("*/", i + 2)
            out.append(" " * 0 + "\n" * src.count("\n", i, j + 2))
            i = j + 2
        else:
            out.append(c)
            i += 1
    return "".join(out)


def preprocess(src, where):
    """resolve #if/#ifdef blocks on macros known to be undefined in the build; other directives are kept as lines"""
    out, stack = [], []       # stack of (active_before, this_branch_active, known)
    for line in src.split("\n"):
        s = line.strip()
        m = re.match(r"#\s*(ifdef|ifndef|if|elif|else|endif)\b(.*)", s)
        if not m:
            if all(a for _, a, _ in stack):
                out.append(line)
            else:
                out.append("")
            continue
        d, rest = m.group(1), m.group(2).strip()
        if d in ("ifdef", "ifndef", "if"):
            name = None
            mm = re.match(r"!?\s*defined\s*\(?\s*(\w+)\s*\)?$", rest) if d == "if" else re.match(r"(\w+)$", rest)
            neg = (d == "ifndef") or (d == "if" and rest.startswith("!"))
            if mm:
                name = mm.group(1)
            if name in UNDEFINED_MACROS:
                stack.append((True, neg, True))
            elif name is not None and (name.endswith("_H_INCLUDED") or name.endswith("_H") or name in ("_MSC_VER", "NDEBUG", "WIN32", "_WIN32")):
                stack.append((True, neg if name in ("_MSC_VER", "WIN32", "_WIN32") else True, False))
            else:
                stack.append((True, True, False))      # unknown: keep text, mark so that functions we parse reject it
                out.append("#UNKNOWN_DIRECTIVE " + s)
                continue
        elif d in ("else", "elif"):
            if not stack:
                fail(where, "unbalanced preprocessor directive", s)
            b, a, k = stack.pop()
            stack.append((b, (not a) if d == "else" else False, k))
        else:
            if not stack:
                fail(where, "unbalanced #endif", s)
            stack.pop()
        out.append("")
    return "\n".join(out)


def match_brace(src, i, open_c="{", close_c="}"):
    """src[i] == open_c; index just after the matching close (strings skipped)"""
    depth, n = 0, len(src)
    while i < n:
        c = src[i]
        if c == '"':
            i += 1
            while i < n and src[i] != '"':
                i += 2 if src[i] == "\\" else 1
        elif c == "'":
            i += 1
            while i < n and src[i] != "'":
                i += 2 if src[i] == "\\" else 1
        elif c == open_c:
            depth += 1
        elif c == close_c:
            depth -= 1
            if depth == 0:
                return i + 1
        i += 1
    raise TranslatorError("unbalanced braces")


def function_body(src, cls, name, where, nth=0):
    """body (without outer braces) of the nth definition `cls::name(...)`, and its 1-based line number"""
    hits = [m for m in re.finditer(r"\b%s\s*::\s*%s\s*\(" % (re.escape(cls), re.escape(name)), src)]
    defs = []
    for m in hits:
        j = match_brace(src, m.end() - 1, "(", ")")
        k = j
        while k < len(src) and src[k] in " \t\r\nconst":
            k += 1
        if k < len(src) and src[k] == "{":
            defs.append((m.start(), k))
    if len(defs) <= nth:
        fail(where, f"definition of {cls}::{name} not found")
    if len(defs) > nth + 1 and name in ("dump_raw", "read_raw"):
        fail(where, f"more than one live definition of {cls}::{name}")
    s, k = defs[nth]
    e = match_brace(src, k)
    body = src[k + 1:e - 1]
    if "#" in re.sub(r'"(?:[^"\\]|\\.)*"', '""', body):
        fail(where, f"preprocessor directive inside {cls}::{name}")
    hdr = src[s:k]
    FUNCTION_PARAMS[(cls, name, nth)] = [re.sub(r"\[.*\]$", "", re.split(r"[\s\*&]+", q.strip())[-1])
                                         for q in split_args(hdr[hdr.index("(") + 1:hdr.rindex(")")]) if q.strip() and q.strip() != "void"]
    return body, src.count("\n", 0, s) + 1


FUNCTION_PARAMS = {}
SHAPE_NOTES = []


def split_args(s):
    args, depth, cur = [], 0, ""
    for ch in s:
        if ch == "," and depth == 0:
            args.append(cur.strip())
            cur = ""
        else:
            depth += ch in "([<"
            depth -= ch in ")]>"
            cur += ch
    if cur.strip():
        args.append(cur.strip())
    return args


# ------------------------------------------------------------------------------------------------ statement tree
def parse_block(t, where):
    """text of a brace body -> list of nodes: ('stmt', text) ('if', cond, then, else) ('for', head, body) ('while', cond, body)
    ('block', nodes) ('switch', expr, bodytext)"""
    nodes, i, n = [], 0, len(t)

    def skip_ws(i):
        while i < n and t[i].isspace():
            i += 1
        return i

    def one(i):
        """parse one statement starting at i -> (node, next_i)"""
        i = skip_ws(i)
        if i >= n:
            return None, i
        m = re.compile(r"(if|for|while|switch)\s*\(").match(t, i)
        if m:
            kw = m.group(1)
            j = match_brace(t, m.end() - 1, "(", ")")
            head = t[m.end():j - 1]
            if kw == "switch":
                k = skip_ws(j)
                if t[k] != "{":
                    fail(where, "switch without braces")
                e = match_brace(t, k)
                return ("switch", head.strip(), [(labs, parse_block(txt, where)) for labs, txt in split_cases(t[k + 1:e - 1], where)]), e
            body, k = one(j)
            body = body[1] if body and body[0] == "block" else [body]
            if kw == "if":
                k2 = skip_ws(k)
                if t.startswith("else", k2) and not (t[k2 + 4].isalnum() or t[k2 + 4] == "_"):
                    eb, k3 = one(k2 + 4)
                    eb = eb[1] if eb and eb[0] == "block" else [eb]
                    return ("if", head, body, eb), k3
                return ("if", head, body, []), k
            return (kw, head, body), k
        if t[i] == "{":
            e = match_brace(t, i)
            return ("block", parse_block(t[i + 1:e - 1], where)), e
        # plain statement up to ';' at depth 0
        j, depth = i, 0
        while j < n:
            c = t[j]
            if c == '"':
                j += 1
                while j < n and t[j] != '"':
                    j += 2 if t[j] == "\\" else 1
            elif c == "'":
                j += 1
                while j < n and t[j] != "'":
                    j += 2 if t[j] == "\\" else 1
            elif c in "([{":
                depth += 1
            elif c in ")]}":
                depth -= 1
            elif c == ";" and depth == 0:
                break
            j += 1
        return ("stmt", norm_stmt(t[i:j])), j + 1

    while True:
        node, i = one(i)
        if node is None:
            break
        if node[0] == "stmt" and node[1] == "":
            continue
        nodes.append(node)
    return nodes


def norm_stmt(s):
    """one-line canonical spelling of a statement (outside string literals): single blanks, no blanks around `.`/`->`,
    none between a function name and its parenthesis"""
    parts = re.split(r'("(?:[^"\\]|\\.)*")', s)
    for k in range(0, len(parts), 2):
        x = " ".join(parts[k].split())
        if parts[k][:1].isspace() and k > 0:
            x = " " + x
        if parts[k][-1:].isspace() and k + 1 < len(parts):
            x = x + " "
        x = re.sub(r"\s*(\.|->)\s*(?=[A-Za-z_])", r"\1", x)
        x = re.sub(r"(?<=[A-Za-z_0-9])\s+\((?=\")", "(", x) if False else x
        x = re.sub(r"\b(?!return\b|if\b|for\b|while\b|switch\b)([A-Za-z_]\w*) \(", r"\1(", x)
        parts[k] = x
    return "".join(parts).strip()


def split_shift(s, op="<<"):
    """split `a << b << c` at top level"""
    parts, depth, cur, i, n = [], 0, "", 0, len(s)
    while i < n:
        c = s[i]
        if c == '"':
            j = i + 1
            while j < n and s[j] != '"':
                j += 2 if s[j] == "\\" else 1
            cur += s[i:j + 1]
            i = j + 1
            continue
        if c in "([":
            depth += 1
        elif c in ")]":
            depth -= 1
        if depth == 0 and s.startswith(op, i):
            parts.append(cur.strip())
            cur = ""
            i += len(op)
            continue
        cur += c
        i += 1
    parts.append(cur.strip())
    return parts


def unquote(lit):
    return bytes(lit[1:-1], "utf-8").decode("unicode_escape")


# ------------------------------------------------------------------------------------------------ structural normalisation
# Facts are read from a CANONICAL form of each function, so that spelling does not matter:
#   text level : `static const` integer constants of the file replaced by their values; `(*this).x` → `this->x`;
#                `c.empty()` → `c.size() == 0`; a statement that calls a file-static helper is replaced by the helper's body with
#                the arguments substituted for the parameters (one level)
#   tree level : `const` dropped from local declarations; `const T& a = it->first` style aliases substituted; `++x` → `x++`;
#                declarations split from their initialisers; an initialiser that is overwritten before the variable is read is
#                dropped; a clamp `if (n < 0) n = 0;` of a local is dropped; parameters are renamed by position and EVERY local by
#                its definition: `_<type code><running number>` in order of declaration (scope aware), indentation strings
#                `indentK` by the `indent + K` bound of the loop that builds them
TYPE_RX = (r"(?:std::(?:map|vector|set)\s*<[^;]*?>\s*::\s*(?:const_)?iterator|cxxNameDouble::(?:const_)?iterator|const_iterator|iterator|"
           r"std::(?:map|vector|set)\s*<[^;]*?>|std::string|std::istringstream|std::istream::pos_type|CParser::TOKEN_TYPE|"
           r"CParser::STATUS_TYPE|unsigned int|size_t|int|bool|LDBLE|double|class \w+|struct \w+|cxx\w+)")
SCALAR_CODES = ("s", "n", "x", "b", "tt", "pos")


def type_code(t, ptr):
    t = t.strip()
    if ptr:
        return "p"
    if "iterator" in t:
        return "it"
    for rx, c in ((r"^std::string$", "s"), (r"^(unsigned int|size_t|int)$", "n"), (r"^(LDBLE|double)$", "x"), (r"^bool$", "b"),
                  (r"^CParser::(TOKEN|STATUS)_TYPE$", "tt"), (r"^std::istream::pos_type$", "pos"), (r"^std::istringstream$", "iss"),
                  (r"^cxxNameDouble$", "nd"), (r"^std::vector", "v"), (r"^std::(map|set)", "m")):
        if re.match(rx, t):
            return c
    return "o"


def parse_decl(st):
    """a local declaration statement -> (const?, type, ref?, ptr?, [(name, how, init)]) with how in '', '=', '('; else None"""
    m = re.match(r"^(const )?(%s)( const)?\s*([&\*]\s*)?(?=[A-Za-z_])" % TYPE_RX, st)
    if not m:
        return None
    rest = st[m.end():]
    decls = []
    for d in split_args(rest):
        mm = re.match(r"^(\w+)\s*(?:(=)\s*(.*)|\((.*)\)|(\[.*\]))?$", d, re.S)
        if not mm:
            return None
        how = "=" if mm.group(2) else ("(" if mm.group(4) is not None else ("[" if mm.group(5) else ""))
        decls.append((mm.group(1), how, mm.group(3) if mm.group(2) else (mm.group(4) if mm.group(4) is not None else "")))
    if not decls or decls[0][0] in ("return", "else"):
        return None
    return (bool(m.group(1) or m.group(3)), m.group(2), "&" in (m.group(4) or ""), "*" in (m.group(4) or ""), decls)


def subst_words(text, env):
    """replace whole identifiers (not member names after . -> ::) outside string literals"""
    if not env:
        return text
    parts = re.split(r'("(?:[^"\\]|\\.)*")', text)
    rx = re.compile(r"(?<![\w.>:])(%s)\b(?!\s*::)" % "|".join(sorted(map(re.escape, env), key=len, reverse=True)))
    for k in range(0, len(parts), 2):
        # `a.b` / `a->b`: b is a member; `x>y` must still be renamed: only `->` and `.` directly before count
        def rep(m, s=parts[k]):
            i = m.start()
            if i >= 1 and s[i - 1] == ">" and not (i >= 2 and s[i - 2] == "-"):
                return env[m.group(1)]
            return env[m.group(1)]
        seg = parts[k]
        out, last = [], 0
        for m in re.finditer(r"\b(%s)\b" % "|".join(sorted(map(re.escape, env), key=len, reverse=True)), seg):
            i = m.start()
            before = seg[:i].rstrip()
            if before.endswith(".") and not before.endswith(".."):
                continue
            if before.endswith("->") or before.endswith("::"):
                continue
            if seg[m.end():].lstrip().startswith("::"):
                continue
            out.append(seg[last:i])
            out.append(env[m.group(1)])
            last = m.end()
        out.append(seg[last:])
        parts[k] = "".join(out)
    return "".join(parts)


def file_constants(src):
    """file-scope `static const int NAME = 5;` (also without static) -> {NAME: '5'}"""
    out = {}
    depth = 0
    for m in re.finditer(r"[{}]|(?:static\s+)?const\s+(?:unsigned\s+)?(?:int|size_t|long)\s+(\w+)\s*=\s*(-?\d+)\s*;", src):
        if m.group(0) == "{":
            depth += 1
        elif m.group(0) == "}":
            depth -= 1
        elif depth == 0:
            out[m.group(1)] = m.group(2)
    return out


def file_helpers(src):
    """file-static free functions: name -> (param names, body text)"""
    out = {}
    for m in re.finditer(r"(?m)^static\s+(?:inline\s+)?[\w:<>\s\*&]+?\b(\w+)\s*\(", src):
        name = m.group(1)
        j = match_brace(src, m.end() - 1, "(", ")")
        k = j
        while k < len(src) and src[k].isspace():
            k += 1
        if k >= len(src) or src[k] != "{":
            continue
        e = match_brace(src, k)
        ptxt = src[m.end():j - 1]
        params = [re.sub(r"\[.*\]$", "", re.split(r"[\s\*&]+", q.strip())[-1]) for q in split_args(ptxt) if q.strip() and q.strip() != "void"]
        out[name] = (params, src[k + 1:e - 1])
    return out


def inline_helpers(body, helpers, where):
    """`helper(args);` as a whole statement -> `{ helper body with arguments substituted }` (one level)"""
    if not helpers:
        return body
    rx = re.compile(r"(?<![\w.>:])(%s)\s*\(" % "|".join(map(re.escape, helpers)))
    out, i = [], 0
    while True:
        m = rx.search(body, i)
        if not m:
            out.append(body[i:])
            break
        j = match_brace(body, m.end() - 1, "(", ")")
        before = body[:m.start()].rstrip()
        after = body[j:].lstrip()
        if (before == "" or before[-1] in ";{}") and after.startswith(";"):
            params, hbody = helpers[m.group(1)]
            args = split_args(body[m.end():j - 1])
            if len(args) != len(params):
                fail(where, f"call of file-static helper {m.group(1)} with {len(args)} arguments for {len(params)} parameters")
            clean = strip_strings(hbody)
            for a in args:
                for ident in re.findall(r"[A-Za-z_]\w*", a):
                    if ident not in params and re.search(r"\b(?:%s)\s+%s\b" % (TYPE_RX, re.escape(ident)), clean):
                        fail(where, f"argument {a} of helper {m.group(1)} would be captured by a local of the helper")
            env = {p_: (a if re.match(r"^[\w>.\-]+$", a) else f"({a})") for p_, a in zip(params, args)}
            out.append(body[i:m.start()])
            out.append("{ " + subst_words(hbody, env) + " }")
            i = j + (len(body[j:]) - len(after)) + 1
        else:
            out.append(body[i:m.end()])
            i = m.end()
    return "".join(out)


def strip_strings(t):
    return re.sub(r'"(?:[^"\\]|\\.)*"', '""', t)


def text_normalise(src, body, where):
    consts = file_constants(src)
    body = inline_helpers(body, file_helpers(src), where)
    body = subst_words(body, consts)
    parts = re.split(r'("(?:[^"\\]|\\.)*")', body)
    for k in range(0, len(parts), 2):
        x = parts[k]
        x = re.sub(r"\(\s*\*\s*this\s*\)\s*\.", "this->", x)
        x = re.sub(r"!\s*((?:this->)?[\w.]+(?:->\w+)*)\s*\.\s*empty\s*\(\s*\)", r"\1.size() != 0", x)
        x = re.sub(r"((?:this->)?[\w.]+(?:->\w+)*)\s*\.\s*empty\s*\(\s*\)", r"\1.size() == 0", x)
        parts[k] = x
    return "".join(parts)


class Canon:
    def __init__(self, where):
        self.where = where
        self.count = {}
        self.types = {}          # canonical local -> declared type text

    def fresh(self, code):
        self.count[code] = self.count.get(code, 0) + 1
        return f"_{code}{self.count[code]}"

    # ---- pass 1: aliases, const, ++x
    def pre(self, nodes):
        out, alias = [], {}
        for nd in nodes:
            nd = self.map_text(nd, lambda t: subst_words(t, alias))
            if nd[0] == "stmt":
                st = nd[1]
                st = re.sub(r"^\+\+\s*(\w+)$", r"\1++", st)
                d = parse_decl(st)
                if d:
                    const, typ, ref, ptr, decls = d
                    if (const or ref) and not ptr and len(decls) == 1 and decls[0][1] == "=" and \
                            re.match(r"^(\w+->(first|second)|\(\*\w+\)\.(first|second))$", decls[0][2].strip()):
                        alias[decls[0][0]] = decls[0][2].strip()
                        continue
                    st = re.sub(r"^const ", "", st)
                    st = re.sub(r"^(%s) const\b" % TYPE_RX, r"\1", st)
                out.append(("stmt", st))
            elif nd[0] == "block":
                out.append(("block", self.pre(nd[1])))
            elif nd[0] == "if":
                out.append(("if", nd[1], self.pre(nd[2]), self.pre(nd[3])))
            elif nd[0] in ("for", "while"):
                head = nd[1]
                if nd[0] == "for":
                    hp = head.split(";")
                    if len(hp) == 3:
                        hp[2] = re.sub(r"^\s*\+\+\s*(\w+)\s*$", r" \1++", hp[2])
                        hp[0] = re.sub(r"^\s*const ", "", hp[0])
                        head = ";".join(hp)
                out.append((nd[0], head, self.pre(nd[2])))
            elif nd[0] == "switch":
                out.append(("switch", nd[1], [(labs, self.pre(body)) for labs, body in nd[2]]))
            else:
                out.append(nd)
        return out

    @staticmethod
    def map_text(nd, f):
        k = nd[0]
        if k == "stmt":
            return ("stmt", f(nd[1]))
        if k == "block":
            return ("block", [Canon.map_text(x, f) for x in nd[1]])
        if k == "if":
            return ("if", f(nd[1]), [Canon.map_text(x, f) for x in nd[2]], [Canon.map_text(x, f) for x in nd[3]])
        if k in ("for", "while"):
            return (k, f(nd[1]), [Canon.map_text(x, f) for x in nd[2]])
        if k == "switch":
            return ("switch", f(nd[1]), [(labs, [Canon.map_text(x, f) for x in body]) for labs, body in nd[2]])
        return nd

    # ---- indentation strings are named by how they are built
    def indent_names(self, nodes):
        names = {}

        def rec(ns):
            for nd in ns:
                if nd[0] == "for":
                    h = norm_stmt(nd[1])
                    m = re.match(r"^(?:unsigned int |int |size_t )?(\w+) = 0; \1 < indent(?: \+ (\d))?; \1\+\+$", h)
                    if m and len(nd[2]) == 1 and nd[2][0][0] == "stmt":
                        mm = re.match(r"^(\w+)\.append\(Utilities::INDENT\)$", nd[2][0][1])
                        if mm:
                            names[mm.group(1)] = "indent" + (m.group(2) or "0")
                if nd[0] in ("block",):
                    rec(nd[1])
            # copies: std::string b = a; b.append(INDENT)
            for i, nd in enumerate(ns):
                if nd[0] == "stmt":
                    m = re.match(r"^std::string (\w+) = (\w+)$", nd[1])
                    if m and m.group(2) in names and any(x[0] == "stmt" and x[1] == f"{m.group(1)}.append(Utilities::INDENT)" for x in ns[i + 1:]):
                        names[m.group(1)] = "indent" + str(int(names[m.group(2)][6:]) + 1)
        rec(nodes)
        return names

    # ---- pass 2: scope-aware renaming + splitting of declarations from initialisers
    def rename(self, nodes, env, special):
        env = dict(env)
        out = []
        for nd in nodes:
            k = nd[0]
            if k == "stmt":
                d = parse_decl(nd[1])
                if d:
                    const, typ, ref, ptr, decls = d
                    code = type_code(typ, ptr)
                    plain, inits = [], []
                    for name, how, init in decls:
                        init_r = subst_words(init, env)
                        cn = special.get(name) if (code == "s" and name in special) else self.fresh(code)
                        env[name] = cn
                        self.types[cn] = typ + (" *" if ptr else "")
                        star = "*" if ptr else ("&" if ref else "")
                        if how == "=" or (how == "(" and code in SCALAR_CODES):
                            plain.append(f"{typ} {star}{cn}")
                            inits.append(f"{cn} = {init_r if init_r.strip() else self.default_of(code)}")
                        elif how == "(":
                            plain.append(f"{typ} {star}{cn}({init_r})")
                        elif how == "[":
                            plain.append(f"{typ} {star}{cn}[]")
                        else:
                            plain.append(f"{typ} {star}{cn}")
                    for p_ in plain:
                        out.append(("stmt", norm_stmt(p_)))
                    for i_ in inits:
                        out.append(("stmt", norm_stmt(i_)))
                else:
                    out.append(("stmt", subst_words(nd[1], env)))
            elif k == "block":
                out.append(("block", self.rename(nd[1], env, special)))
            elif k == "if":
                out.append(("if", subst_words(nd[1], env), self.rename(nd[2], env, special), self.rename(nd[3], env, special)))
            elif k == "while":
                out.append(("while", subst_words(nd[1], env), self.rename(nd[2], env, special)))
            elif k == "for":
                henv = dict(env)
                hp = nd[1].split(";")
                if len(hp) == 3:
                    d = parse_decl(norm_stmt(hp[0]))
                    if d and len(d[4]) == 1:
                        const, typ, ref, ptr, decls = d
                        name, how, init = decls[0]
                        cn = self.fresh(type_code(typ, ptr))
                        self.types[cn] = typ
                        init_r = subst_words(init, env)
                        henv[name] = cn
                        hp[0] = f"{typ} {cn} = {init_r}"
                        hp[1] = subst_words(hp[1], henv)
                        hp[2] = subst_words(hp[2], henv)
                        head = ";".join(hp)
                    else:
                        head = subst_words(nd[1], env)
                else:
                    head = subst_words(nd[1], env)
                out.append(("for", head, self.rename(nd[2], henv, special)))
            elif k == "switch":
                out.append(("switch", subst_words(nd[1], env), [(labs, self.rename(body, env, special)) for labs, body in nd[2]]))
            else:
                out.append(nd)
        return out

    @staticmethod
    def default_of(code):
        return {"b": "false", "s": '""'}.get(code, "0")

    # ---- pass 3: dead initialisers, clamps
    def post(self, nodes):
        order = []            # every text in document order, with a handle to delete statements

        def collect(ns):
            for nd in ns:
                if nd[0] == "stmt":
                    order.append(nd[1])
                elif nd[0] == "block":
                    collect(nd[1])
                elif nd[0] == "if":
                    order.append("if " + nd[1])
                    collect(nd[2])
                    collect(nd[3])
                elif nd[0] in ("for", "while"):
                    order.append(nd[0] + " " + nd[1])
                    collect(nd[2])
                elif nd[0] == "switch":
                    order.append("switch " + nd[1])
                    for _, body in nd[2]:
                        collect(body)
        collect(nodes)
        dead = set()
        for i, st in enumerate(order):
            m = re.match(r"^(_(?:n|x|tt|s|pos)\d+) = (-?\d+(\.\d+)?|\"\"|[A-Z]\w*::\w+|[A-Z_]+)$", st)
            if not m:
                continue
            v = m.group(1)
            if i == 0 or not re.search(r"\b%s$" % re.escape(v), order[i - 1]) or not parse_decl(order[i - 1]):
                continue            # only the initialiser that directly follows the declaration
            nxt = next((t for t in order[i + 1:] if re.search(r"(?<![\w.>])%s\b" % re.escape(v), t)), None)
            if nxt is None or re.search(r">> %s\b" % v, nxt) or re.match(r"^%s = " % v, nxt) or re.search(r"\(%s = " % v, nxt) \
                    or re.search(r"&%s\b" % v, nxt) or re.match(r"^for (?:[\w:]+ )?%s = " % v, nxt):
                if not (nxt is not None and re.search(r"= .*\b%s\b" % v, nxt) and re.match(r"^%s = " % v, nxt)):
                    dead.add((i, st))
        dead_texts = {}
        for i, st in dead:
            dead_texts[st] = dead_texts.get(st, 0) + 1

        def prune(ns):
            out = []
            for nd in ns:
                if nd[0] == "stmt":
                    if dead_texts.get(nd[1], 0) > 0 and re.match(r"^_\w+ = ", nd[1]):
                        dead_texts[nd[1]] -= 1
                        continue
                    out.append(nd)
                elif nd[0] == "block":
                    out.append(("block", prune(nd[1])))
                elif nd[0] == "if":
                    c = norm_stmt(nd[1])
                    m = re.match(r"^(_n\d+) < 0$", c)
                    if m and not nd[3] and len(nd[2]) == 1 and nd[2][0] == ("stmt", f"{m.group(1)} = 0"):
                        continue            # clamp of a local count
                    out.append(("if", nd[1], prune(nd[2]), prune(nd[3])))
                elif nd[0] in ("for", "while"):
                    out.append((nd[0], nd[1], prune(nd[2])))
                elif nd[0] == "switch":
                    out.append(("switch", nd[1], [(labs, prune(body)) for labs, body in nd[2]]))
                else:
                    out.append(nd)
            return out
        return prune(nodes)


def canon_tree(nodes, params, conventional, where):
    c = Canon(where)
    if conventional is not None:
        if len(params) != len(conventional):
            fail(where, f"function has {len(params)} parameters, the model was written for {len(conventional)}")
        penv = dict(zip(params, conventional))
    else:
        penv = {}
    nodes = [Canon.map_text(nd, lambda t: subst_words(t, penv)) for nd in nodes] if any(a != b for a, b in penv.items()) else nodes
    nodes = c.pre(nodes)
    special = c.indent_names(nodes)
    nodes = c.rename(nodes, {}, special)
    nodes = c.post(nodes)
    return nodes, c


def fn_tree(src, cls, name, where, conventional=None, nth=0):
    """canonical statement tree of cls::name (see the comment at the head of this section); also the line number"""
    body, line = function_body(src, cls, name, where, nth)
    body = text_normalise(src, body, where)
    nodes = parse_block(body, where)
    params = FUNCTION_PARAMS[(cls, name, nth)]
    if conventional and isinstance(conventional[0], list):
        conventional = next((c_ for c_ in conventional if len(c_) == len(params)), conventional[0])
    nodes, c = canon_tree(nodes, params, conventional, where)
    return nodes, line, c


def tree_text(nodes):
    """one-line canonical text of a tree (for shape checks on small functions)"""
    out = []
    for nd in nodes:
        if nd[0] == "stmt":
            out.append(nd[1] + ";")
        elif nd[0] == "block":
            out.append("{ " + tree_text(nd[1]) + " }")
        elif nd[0] == "if":
            out.append(f"if ({norm_stmt(nd[1])}) {{ {tree_text(nd[2])} }}" + (f" else {{ {tree_text(nd[3])} }}" if nd[3] else ""))
        elif nd[0] in ("for", "while"):
            out.append(f"{nd[0]} ({norm_stmt(nd[1])}) {{ {tree_text(nd[2])} }}")
        elif nd[0] == "switch":
            out.append(f"switch ({nd[1]}) {{ " + " ".join(f"case {','.join(l)}: {tree_text(b)}" for l, b in nd[2]) + " }")
    return " ".join(out)


# ------------------------------------------------------------------------------------------------ class header
def class_members(hsrc, cls, where):
    """data members of the class: name -> declared type text"""
    m = re.search(r"\bclass\s+%s\b[^;{]*\{" % re.escape(cls), hsrc)
    if not m:
        fail(where, f"class {cls} not found in header")
    e = match_brace(hsrc, m.end() - 1)
    body = hsrc[m.end():e - 1]
    # drop inline function bodies
    flat, i = "", 0
    while i < len(body):
        if body[i] == "{":
            i = match_brace(body, i)
            flat += ";"
        else:
            flat += body[i]
            i += 1
    members = {}
    for decl in flat.split(";"):
        d = " ".join(decl.split())
        d = re.sub(r"^(public|protected|private)\s*:\s*", "", d)
        d = re.sub(r"^(public|protected|private)\s*:\s*", "", d)
        if not d or "(" in d or d.startswith(("friend", "using", "typedef", "enum", "class ", "struct ")):
            continue
        mm = re.match(r"(.*?[\s\*&>])((?:\w+(?:\[\w+\])?\s*,\s*)*\w+(?:\[\w+\])?)$", d)
        if not mm:
            continue
        typ = mm.group(1).strip()
        for nm in mm.group(2).split(","):
            nm = re.sub(r"\[\w+\]", "", nm.strip())
            members[nm] = typ
    return members


# ------------------------------------------------------------------------------------------------ vopts
def parse_vopts(src, cls, where):
    m = re.search(r"temp_vopts\s*\[\s*\]\s*=\s*\{", src)
    if not m:
        if re.search(r"const\s+std\s*::\s*vector\s*<\s*std\s*::\s*string\s*>\s*%s\s*::\s*vopts\s*;" % re.escape(cls), src):
            return []           # default-constructed: no options at all
        fail(where, "temp_vopts initializer not found")
    e = match_brace(src, m.end() - 1)
    body = src[m.end():e - 1]
    items = re.findall(r'value_type\s*\(\s*"((?:[^"\\]|\\.)*)"\s*\)', body)
    rest = re.sub(r'std\s*::\s*vector\s*<\s*std\s*::\s*string\s*>\s*::\s*value_type\s*\(\s*"(?:[^"\\]|\\.)*"\s*\)', "", body)
    if rest.replace(",", "").strip():
        fail(where, "unrecognised text in temp_vopts initializer", rest)
    if not re.search(r"%s\s*::\s*vopts\s*\(\s*temp_vopts\s*,\s*temp_vopts\s*\+\s*sizeof\s+temp_vopts\s*/\s*sizeof\s+temp_vopts\s*\[\s*0\s*\]\s*\)" % re.escape(cls), src):
        fail(where, f"{cls}::vopts is not built from the whole temp_vopts array")
    for it in items:
        if it != it.lower() and False:
            pass
    return items


# ------------------------------------------------------------------------------------------------ writer
IGNORED_WRITER_STMT = re.compile(
    r"^((unsigned int|int|size_t) _n\d+|_n\d+ = 0|s_oss\.precision\(DBL_DIG \+ 2\)|std::string indent\d|indent\d = \"\"|"
    r"indent\d = indent\d|indent\d\.append\(Utilities::INDENT\)|return|"
    r"std::(map|vector)\s*<[^;]*>::const_iterator _it\d+|_it\d+ = (this->)?\w+\.begin\(\)|cxx\w+ \*_p\d+)$")


def norm_expr(e):
    e = e.strip()
    while e.startswith("(") and match_brace(e, 0, "(", ")") == len(e):
        e = e[1:-1].strip()
    return e


class Writer:
    def __init__(self, tab, cls, members, where):
        self.tab, self.cls, self.members, self.where = tab, cls, members, where
        self.entries = []          # written keys in order
        self.header = None         # RAW keyword
        self.section = "state"
        self.items = []            # pending << items of the current output line
        self.resolved = {}         # index in items -> (member, is_header_token) resolved where the expression stands
        self.item_ctx = None
        self.cur = None            # entry that subsequent data lines / sub-dumps belong to
        self.locals = {}           # local pointer / iterator -> (member, type)
        self.sections = []
        self.wrap_widths = []      # values per line of wrapped number lists
        self.n_user_local = None   # the local that holds `n_out ? *n_out : n_user`
        self.canon = None

    def member_of(self, e, loops):
        """member printed by expression e -> (member or '' for a constant, is_header_token)"""
        e = norm_expr(e)
        m = re.match(r"^(.+?)\s*\?\s*1\s*:\s*0$", e)
        if m:
            e = norm_expr(m.group(1))
        if re.match(r"^-?\d+(\.\d+)?$", e):
            return "", False
        m = re.match(r"^(?:this->)?(\w+)(\[(\d+)\])?$", e)
        if m and m.group(1) in self.members:
            return m.group(1) + (f"[{m.group(3)}]" if m.group(3) else ""), False
        m = re.match(r"^this->Get_(\w+)\(\)$", e)
        if m and m.group(1) in self.members:
            return m.group(1), False
        # loop element expressions
        for var, (mem, typ) in list(self.locals.items()) + [(lp["var"], (lp["member"], lp["type"])) for lp in loops if lp.get("var")]:
            if re.match(r"^(\(\*%s\)|%s)(->|\.)first$" % (var, var), e):
                return mem, True
            if re.match(r"^(\(\*%s\)\.second|%s->second)(\.Get_\w+\(\))?$" % (var, var), e):
                return mem, True
            if re.match(r"^\*%s$" % var, e):
                return mem, False
            if re.match(r"^%s->Get_\w+\(\)$" % var, e):
                return mem, True
        m = re.match(r"^(?:this->)?(\w+)\[\w+\]\.Get_\w+\(\)$", e)
        if m and m.group(1) in self.members:
            return m.group(1), True
        fail(self.where, "writer: unrecognised printed expression", e)

    def flush_line(self, guards, loops):
        items, self.items = self.items, []
        resolved, self.resolved = self.resolved, {}
        rexprs = [resolved[k] for k, x in enumerate(items) if k in resolved]
        lits = [unquote(x) for x in items if x.startswith('"')]
        exprs = [x for x in items if not x.startswith('"') and not re.match(r"^indent\d$", x)]
        first = next((x for x in items if not re.match(r"^indent\d$", x)), None)
        text0 = unquote(first) if first is not None and first.startswith('"') else None
        if text0 is not None and text0.lstrip().startswith("#"):
            if exprs:
                fail(self.where, "writer: expression in a comment line", str(items))
            self.section = "work" if "workspace variables" in text0 else "state"
            self.sections.append(text0.strip())
            self.cur = None
            return
        if text0 is not None and re.match(r"^[A-Z_]+_RAW\s", text0):
            self.header = text0.split()[0]
            want = [self.n_user_local, "this->description"]
            if [norm_expr(x).replace(" ", "") for x in exprs] != [w for w in want]:
                fail(self.where, "writer: header line does not print `n_user description`", str(items))
            return
        if text0 is not None and text0.startswith("-"):
            toks = text0.split()
            key = toks[0][1:]
            if len(toks) > 1 and not toks[1].startswith("#"):
                fail(self.where, "writer: literal text after a key", text0)
            if any(l.strip() and not l.lstrip().startswith("#") for l in lits[1:]):
                fail(self.where, "writer: unexpected literal in key line", str(items))
            mems, htok = [], 0
            for mem, is_h in rexprs:
                if is_h:
                    htok += 1
                elif mem not in mems:
                    mems.append(mem)
            if len(mems) > 1 and len({re.sub(r"\[\d+\]", "", m_) for m_ in mems}) == 1 and not all(re.search(r"\[\d+\]", m_) for m_ in mems):
                fail(self.where, "writer: mixed array printing", str(items))
            base = {re.sub(r"\[\d+\]", "", m_) for m_ in mems}
            if len(mems) > 1 and len(base) == 1:
                mems = [base.pop() + "[*]"]
            guard = self.guard_of(guards, mems)
            ent = dict(key=key, members=mems, kind="scalar" if exprs else "bare", section=self.section, guard=guard,
                       child="", htok=htok, loop=bool(loops))
            self.entries.append(ent)
            self.cur = ent
            return
        # data line without a key: belongs to the current entry (map / vector lines) or is a key-less default line (MIX)
        if text0 is not None and text0.strip() == "" and not exprs:
            return          # bare newline / blanks
        mems = []
        for mem, _ in rexprs:
            if mem not in mems:
                mems.append(mem)
        if len(mems) != 1 or mems[0] == "":
            fail(self.where, "writer: data line not printing exactly one container member", str(items))
        if self.cur is not None and self.cur["kind"] in ("bare", "lines") and self.cur["members"] in ([], mems):
            self.cur["kind"], self.cur["members"] = "lines", mems
        elif self.cur is None and not any(e["key"] == "" for e in self.entries):
            self.entries.append(dict(key="", members=mems, kind="lines", section=self.section, guard=self.guard_of(guards, mems),
                                     child="", htok=0, loop=True))
        else:
            fail(self.where, "writer: data line outside a key block", str(items))

    def guard_of(self, guards, mems):
        gs = []
        for g in guards:
            g = norm_expr(g)
            m = re.match(r"^(?:this->)?(\w+)\.size\(\) (?:!= 0|> 0)$", g)
            if m and m.group(1) in self.members:
                gs.append(("nonempty", m.group(1)))
                continue
            m = re.match(r"^!std::isnan\((?:this->)?(\w+)\)$", g)       # "was given": own-member guard like non-emptiness
            if m and m.group(1) in self.members:
                gs.append(("nonempty", m.group(1)))
                continue
            m = re.match(r"^(?:this->)?(\w+)$", g)
            if m and m.group(1) in self.members:
                gs.append(("flag", m.group(1)))
                continue
            fail(self.where, "writer: unrecognised condition around a key", g)
        if len(gs) > 1:
            fail(self.where, "writer: nested conditions around a key")
        if not gs:
            return ("none", "")
        return gs[0]

    def loop_info(self, head):
        """classify a for-header: which member is iterated, loop variable, element type"""
        h = norm_stmt(head)
        if re.match(r"^(?:unsigned int |int |size_t )?(_n\d+) = 0; \1 < indent( \+ \d)?; \1\+\+$", h):
            return dict(kind="indent")
        m = re.search(r"(?:this->)?(\w+)\.(?:size|begin|end)\(\)", h)
        if "this->begin()" in h:
            return dict(kind="self")
        if not m or m.group(1) not in self.members:
            fail(self.where, "writer: loop over something that is not a member", h)
        mem = m.group(1)
        var = None
        mv = re.match(r"^(?:[^;=]*?\s)?(_\w+) = ", h)
        if mv:
            var = mv.group(1)
        else:
            mv = re.match(r"^; (\w+) != ", h)
            if mv:
                var = mv.group(1)
        if var is None:
            fail(self.where, "writer: loop variable not recognised", h)
        return dict(kind="data", member=mem, var=var, type=self.members[mem])

    def child_of(self, typ):
        for cxx, tab in CXX2TAB.items():
            if re.search(r"\b%s\b" % cxx, typ):
                return tab
        return None

    def walk(self, nodes, guards, loops):
        for nd in nodes:
            k = nd[0]
            if k == "stmt":
                self.stmt(nd[1], guards, loops)
            elif k == "block":
                self.walk(nd[1], guards, loops)
            elif k == "if":
                cond = norm_stmt(nd[1])
                mw = re.match(r"^(_n\d+)\+\+ == (\d+)$", cond)
                if mw:           # line wrapping of a vector: prints "\n" + indent only, after every <width + 1> values
                    for s in nd[2]:
                        if s[0] != "stmt" or not re.match(r'^(s_oss << ("\\n"|indent\d)|%s = 0)$' % mw.group(1), s[1]):
                            fail(self.where, "writer: unexpected statement in line-wrap block", str(s))
                    self.wrap_widths.append(int(mw.group(2)) + 1)
                    continue
                if self.cls == "cxxNameDouble":
                    self.walk(nd[2], guards, loops)
                    self.walk(nd[3], guards, loops)
                    continue
                if nd[3]:
                    fail(self.where, "writer: if/else around output", cond)
                if self.items:
                    fail(self.where, "writer: condition starts in the middle of a line", cond)
                self.walk(nd[2], guards + [cond], loops)
                if self.items:
                    fail(self.where, "writer: conditional block ends in the middle of a line", cond)
            elif k == "for":
                info = self.loop_info(nd[1])
                if info["kind"] == "indent":
                    continue
                if info["kind"] == "data":
                    ch = self.child_of(info["type"])
                    body_txt = str(nd[2])
                    if "dump_raw" in body_txt:
                        if not ch:
                            fail(self.where, "writer: sub-dump of an unknown class", info["type"])
                        info["kind"], info["child"] = "nested", ch
                    if self.items and info["kind"] == "nested":
                        fail(self.where, "writer: nested loop starts in the middle of a line")
                self.walk(nd[2], guards, loops + [info])
            else:
                fail(self.where, f"writer: unsupported control statement {k}", str(nd[1]))

    def stmt(self, s, guards, loops):
        if IGNORED_WRITER_STMT.match(s):
            return
        m = re.match(r"^(_p\d+) = &\(this->(\w+)\[\w+\]\)$", s)
        if m and m.group(2) in self.members:
            self.locals[m.group(1)] = (m.group(2), self.canon.types.get(m.group(1), ""))
            return
        m = re.match(r"^(_n\d+) = \(n_out != NULL\) \? \*n_out : this->n_user$", s)
        if m:
            self.n_user_local = m.group(1)
            return
        if s.startswith("s_oss <<"):
            parts = split_shift(s)[1:]
            for p in parts:
                if p.startswith('"') and p.endswith('"') and unquote(p).endswith("\n"):
                    body = unquote(p)[:-1]
                    if body or not self.items or True:
                        self.items.append('"' + body.replace("\\", "\\\\").replace('"', '\\"').replace("\t", "\\t") + '"')
                    self.flush_line(guards, loops)
                elif p.startswith('"') or re.match(r"^indent\d$", p):
                    self.items.append(p)
                else:
                    mem, is_h = self.member_of(p, loops) if norm_expr(p) not in (self.n_user_local, "this->description") else (None, False)
                    self.resolved[len(self.items)] = (mem, is_h and bool(loops) and loops[-1].get("kind") == "nested")
                    self.items.append(p)
            return
        m = re.match(r"^(.+?)(\.|->)dump_raw\(s_oss, indent \+ \d\)$", s)
        if m:
            if self.items:
                fail(self.where, "writer: sub-dump in the middle of a line", s)
            tgt = m.group(1).strip()
            mm = re.match(r"^this->(\w+)$", tgt)
            if mm and mm.group(1) in self.members and "cxxNameDouble" in self.members[mm.group(1)]:
                if self.cur is None or self.cur["kind"] != "bare":
                    fail(self.where, "writer: name-double dump without its own key line", s)
                self.cur["kind"], self.cur["members"] = "namedouble", [mm.group(1)]
                return
            # nested child
            if not loops or loops[-1].get("kind") != "nested":
                fail(self.where, "writer: sub-dump outside a recognised loop", s)
            lp = loops[-1]
            ok = (re.match(r"^(?:this->)?%s\[%s\]$" % (lp["member"], lp["var"]), tgt) or
                  re.match(r"^(\(\*%s\)\.second|%s->second)$" % (lp["var"], lp["var"]), tgt) or
                  (tgt in self.locals and self.locals[tgt][0] == lp["member"]))
            if not ok:
                fail(self.where, "writer: sub-dump target is not the loop element", s)
            if self.cur is None or self.cur["kind"] not in ("scalar", "bare") or not self.cur["loop"]:
                fail(self.where, "writer: sub-dump without a header key line", s)
            self.cur["kind"], self.cur["child"], self.cur["members"] = "nested", lp["child"], [lp["member"]]
            return
        fail(self.where, "writer: unrecognised statement", s)


def parse_writer(tab, cls, src, members, where):
    nodes, line, canon = fn_tree(src, cls, "dump_raw", where, [["s_oss", "indent", "n_out"], ["s_oss", "indent"]])
    if cls != "cxxSolutionIsotope" and "s_oss.precision(DBL_DIG + 2);" not in tree_text(nodes):
        fail(where, "dump_raw does not print doubles with 17 significant digits (precision(DBL_DIG + 2)): Sys.ValOk assumes the "
                    "IEEE round trip of the text")
    w = Writer(tab, cls, members, where)
    w.canon = canon
    w.walk(nodes, [], [])
    if w.items:
        fail(where, "writer: unterminated output line", str(w.items))
    return w, line


# ------------------------------------------------------------------------------------------------ reader
def split_cases(body, where):
    """switch body -> list of (labels, text)"""
    cases, i, n, depth = [], 0, len(body), 0
    marks = []
    while i < n:
        c = body[i]
        if c == '"':
            i += 1
            while i < n and body[i] != '"':
                i += 2 if body[i] == "\\" else 1
        elif c in "{(":
            depth += 1
        elif c in "})":
            depth -= 1
        elif depth == 0:
            m = re.compile(r"(case\s+([\w:]+)\s*:|default\s*:)").match(body, i)
            if m and (i == 0 or not (body[i - 1].isalnum() or body[i - 1] == "_")):
                marks.append((i, m.end(), m.group(2) or "default"))
                i = m.end()
                continue
        i += 1
    for k, (s, e, lab) in enumerate(marks):
        end = marks[k + 1][0] if k + 1 < len(marks) else n
        text = body[e:end]
        if cases and cases[-1][1].strip() == "":
            cases[-1] = (cases[-1][0] + [lab], text)
        else:
            cases.append(([lab], text))
    return cases


def drop_failure_blocks(nodes, where):
    """`if (!(READ)) {defaults + error}` -> READ kept as a statement, block dropped; other ifs kept"""
    out = []
    for nd in nodes:
        if nd[0] == "if":
            cond = norm_stmt(nd[1])
            m = re.match(r"^!\((.*)\)$", cond)
            m2 = re.match(r"^(.*\.read_raw\(parser, _pos\d+\)) != CParser::PARSER_OK$", cond)
            if m and ">>" in m.group(1):
                blk = str(nd[2])
                if "error_msg" not in blk and "incr_input_error" not in blk and nd[2] != [("stmt", "break")]:
                    fail(where, "reader: failure branch of a read without an error message", cond)
                out.append(("stmt", m.group(1)))
                out += drop_failure_blocks(nd[3], where)
            elif m2:
                out.append(("stmt", m2.group(1)))
                out += drop_failure_blocks(nd[3], where)
            else:
                out.append(("if", cond, drop_failure_blocks(nd[2], where), drop_failure_blocks(nd[3], where)))
        elif nd[0] in ("for", "while"):
            out.append((nd[0], norm_stmt(nd[1]), drop_failure_blocks(nd[2], where)))
        elif nd[0] == "block":
            out += drop_failure_blocks(nd[1], where)
        else:
            out.append(nd)
    return out


def flat_stmts(nodes):
    for nd in nodes:
        if nd[0] == "stmt":
            yield nd[1]
        elif nd[0] == "if":
            yield "if " + nd[1]
            yield from flat_stmts(nd[2])
            yield from flat_stmts(nd[3])
        elif nd[0] in ("for", "while"):
            yield nd[0] + " " + nd[1]
            yield from flat_stmts(nd[2])
        elif nd[0] == "block":
            yield from flat_stmts(nd[1])


class Reader:
    def __init__(self, tab, cls, members, where):
        self.tab, self.cls, self.members, self.where = tab, cls, members, where
        self.elem_ref = {}
        self.types = {}
        self.opt_var = self.save_var = self.last_var = self.tok_var = None
        self.once = set()

    def target(self, t):
        """an lvalue -> ('member', name) | ('local', name)"""
        t = norm_expr(t)
        m = re.match(r"^(?:this->)?(\w+)(\[(\w+)\])?$", t)
        if not m:
            fail(self.where, "reader: unrecognised read target", t)
        nm, idx = m.group(1), m.group(3)
        is_member = t.startswith("this->") or (nm in self.members and not nm.startswith("_"))
        if is_member:
            if nm not in self.members:
                fail(self.where, "reader: this-> target is not a member of the class", t)
            if idx is None:
                return ("member", nm)
            typ = self.members[nm]
            if idx.isdigit():
                return ("member", f"{nm}[{idx}]")
            return ("member", nm + ("[*]" if ("map" not in typ) else ""))
        return ("local", nm)

    def analyse_case(self, labels, body_nodes, post_flows):
        where = f"{self.where} case {','.join(labels)}"
        text = tree_text(body_nodes)
        nodes = drop_failure_blocks(body_nodes, where)
        stmts = list(flat_stmts(nodes))
        holds = {}          # local -> True when it holds (part of) the value read from the line
        sinks, flags, kind, child, htok = [], [], None, "", 0
        opt_save, use_last, errors, warns, opt_assign = None, None, False, False, None
        child_local = None
        header_locals = []
        cond_member, clobbers = None, []
        OPT, SAVE, LAST = self.opt_var, self.save_var, self.last_var
        for s in stmts:
            if s in ("break", "continue"):
                continue
            d = parse_decl(s)
            if d and all(how == "" for _, how, _ in d[4]):
                continue                                    # declaration without initialiser
            if re.match(r"^_n\d+ = 0$", s) and s.split(" ")[0] not in (SAVE, OPT):
                continue
            if re.match(r"^(parser\.)?incr_input_error\(\)$", s):
                errors = True
                continue
            if re.match(r"^(parser\.)?error_msg\(", s):
                errors = True
                continue
            if re.match(r"^(parser\.)?(warning_msg|output_msg)\(", s):
                warns = True
                continue
            m = SAVE and re.match(r"^%s = (CParser::OPT_DEFAULT|CParser::OPT_ERROR|\d+)$" % SAVE, s)
            if m:
                opt_save = m.group(1)
                continue
            m = LAST and re.match(r"^%s = (true|false)$" % LAST, s)
            if m:
                use_last = (m.group(1) == "true") or bool(use_last)
                continue
            m = re.match(r"^%s = (CParser::OPT_\w+)$" % OPT, s)
            if m:
                opt_assign = m.group(1)
                continue
            m = re.match(r"^(_b\d+) = true$", s)
            if m:
                flags.append(m.group(1))
                continue
            m = re.match(r"^(_b\d+) = false$", s) or re.match(r"^if !?(_b\d+)$", s)
            if m:
                self.once.add(m.group(1))                   # once-only guards (`cleared_once`, `g_map_first`)
                continue
            # stream reads
            m = re.match(r"^(?:parser\.get_iss\(\)|_iss\d+) >> (.+)$", s)
            if m:
                for t in split_shift(m.group(1), ">>"):
                    k, nm = self.target(t)
                    if k == "member":
                        if nm not in sinks:
                            sinks.append(nm)
                    else:
                        holds[nm] = True
                        header_locals.append(nm)
                kind = kind or "value"
                continue
            m = re.match(r"^(.+)\.read_raw\(parser, _pos\d+\)$", s)
            if m:
                k, nm = self.target(m.group(1))
                if k == "member":
                    sinks.append(nm)
                else:
                    holds[nm] = True
                kind = "namedouble"
                continue
            m = re.match(r"^(_o\d+)\.read_raw\(parser, (check|false|true)\)$", s)
            if m:
                child_local = m.group(1)
                if not self.child_of(self.types.get(child_local, "")):
                    fail(where, "reader: sub-read into something that is not a known entity class", s)
                child = self.child_of(self.types[child_local])
                kind = "nested"
                htok = len(header_locals)
                holds[child_local] = True
                continue
            m = re.match(r"^this->(\w+)\.(clear\(\)|assign\(\d+, 0\.0\))$", s)
            if m and m.group(1) in self.members:
                continue
            m = re.match(r"^(_it\d+) = (\w+)\.find\((_\w+)\)$", s)
            if m and m.group(2) in self.members and m.group(3) in holds:
                self.elem_ref[m.group(1)] = m.group(2)
                continue
            m = re.match(r"^(_it\d+)->second\.Set_\w+\((_\w+)\)$", s)
            if m and m.group(1) in self.elem_ref and m.group(2) in holds:
                if self.elem_ref[m.group(1)] not in sinks:
                    sinks.append(self.elem_ref[m.group(1)])
                continue
            # local objects / pointers
            if re.match(r"^cxx\w+ \*?_[op]\d+(\(.*\))?$", s):
                continue
            m = re.match(r"^(_p\d+) = this->Find(_\w+)?\((_s\d+)(\.c_str\(\))?\)$", s)
            if m:
                continue
            m = re.match(r'^\(void\)sscanf\(_s\d+\.c_str\(\), "%lf", &(_x\d+)\)$', s)
            if m:
                holds[m.group(1)] = True
                kind = kind or "value"
                continue
            m = re.match(r"^std::istringstream _iss\d+\(_s\d+\)$", s)
            if m:
                continue
            m = re.match(r"^(_(?:tt|n)\d+) = parser\.copy_token\((_s\d+), _pos\d+\)$", s)
            if m:
                holds[m.group(2)] = True
                self.tok_var = m.group(1)
                kind = kind or "value"
                continue
            if re.match(r"^if _(?:tt|n)\d+ == CParser::TT_EMPTY$", s):
                continue
            m = re.match(r"^this->Set_(\w+)\((_s\d+)\.c_str\(\)\)$", s)
            if m and m.group(2) in holds and m.group(1) in self.members:
                sinks.append(m.group(1))
                continue
            m = re.match(r"^while (\(_(?:tt|n)\d+ = )?parser\.copy_token\((_s\d+), _pos\d+\)\)? == CParser::TT_DIGIT$", s)
            if m:
                kind = kind or "value"
                continue
            m = re.match(r"^if parser\.(peek_token\(\)|copy_token\((_s\d+), _pos\d+\)) != CParser::TT_EMPTY$", s)
            if m:
                if m.group(2):
                    holds[m.group(2)] = True
                continue
            m = re.match(r"^for (int|size_t) (_n\d+) = 0; \2 < \d+; \2\+\+$", s)
            if m:
                continue
            if re.match(r"^if (_p\d+)$", s) or re.match(r"^if Utilities::strcmp_nocase\(this->\w+\[_n\d+\]\.Get_\w+\(\)\.c_str\(\), _s\d+\.c_str\(\)\) == 0$", s) \
                    or re.match(r"^for size_t (_n\d+) = 0; \1 < this->\w+\.size\(\); \1\+\+$", s):
                continue
            m = re.match(r"^(_o\d+) = \*(_p\d+)$", s)        # temp_comp = *comp_ptr
            if m:
                continue
            m = re.match(r"^(_o\d+)\.Set_\w+\((_s\d+)(\.c_str\(\))?\)$", s)      # temp_comp.Set_formula(str.c_str())
            if m and m.group(2) in holds:
                continue
            # flows local -> member
            m = re.match(r"^(.+?) = (?:\([\w: ]+\)\s*)?(_\w+)$", s)
            if m and m.group(2) in holds:
                k, nm = self.target(re.sub(r"\[(\w+)\]$", lambda mm: "" if mm.group(1) in holds else mm.group(0), m.group(1)))
                if k == "member":
                    if nm not in sinks:
                        sinks.append(nm)
                else:
                    holds[nm] = True
                continue
            m = re.match(r"^(.+?)\.(push_back|merge_redox)\((?:\(\w+\)\s?)?(_\w+)\)$", s)
            if m and m.group(3) in holds:
                k, nm = self.target(m.group(1))
                if k == "member":
                    if nm not in sinks:
                        sinks.append(nm)
                else:
                    holds[nm] = True
                continue
            m = re.match(r"^this->(\w+)\[(_\w+)\] = (_\w+)$", s)        # g_map[z] = temp_surf_dl
            if m and m.group(2) in holds and m.group(1) in self.members:
                if m.group(1) not in sinks:
                    sinks.append(m.group(1))
                continue
            m = re.match(r"^if (_\w+)$", s)
            if m and m.group(1) in holds:
                continue
            # range validation of a value just read: `if (i == (int) E::A || i == (int) E::B) assign; else error`
            m = re.match(r"^if (_\w+) (?:==|>=|<=) \(int\) ?[\w:]+( (?:\|\||&&) (_\w+) (?:==|>=|<=) \(int\) ?[\w:]+)*$", s)
            if m and m.group(1) in holds and (m.group(3) is None or m.group(3) == m.group(1)):
                continue
            # conditional constant side effect on another member: `if (this->X) this->Y = false;`
            m = re.match(r"^if this->(\w+)$", s)
            if m and m.group(1) in sinks:
                cond_member = m.group(1)
                continue
            m = re.match(r"^this->(\w+) = (false|true|0)$", s)
            if m and cond_member and m.group(1) in self.members:
                clobbers.append(m.group(1))
                continue
            m = re.match(r"^this->(\w+) = \(?(_\w+) (?:!= 0|== 1)\)?$", s)    # this->pr_in = (i != 0)
            if m and m.group(2) in holds and m.group(1) in self.members:
                if m.group(1) not in sinks:
                    sinks.append(m.group(1))
                continue
            m = re.match(r"^this->(\w+) = \((_\w+) == 0\) \? false : true$", s)
            if m and m.group(2) in holds and m.group(1) in self.members:
                sinks.append(m.group(1))
                continue
            m = re.match(r"^this->(\w+) = (_\w+) \? true : false$", s)
            if m and m.group(2) in holds and m.group(1) in self.members:
                sinks.append(m.group(1))
                continue
            fail(where, "reader: unrecognised statement", s)
        # values parked in locals of the whole function (temp_steps …) flow to members after the loop
        for loc, mem in post_flows.items():
            if loc in holds and mem not in sinks:
                sinks.append(mem)
        if kind is None:
            kind = "error" if errors else ("ignore" if warns else None)
            if kind is None:
                fail(where, "reader: case neither reads, warns nor reports an error", text)
        elif errors and False:
            pass
        if kind == "nested":
            sinks = list(dict.fromkeys(re.sub(r"\[\*\]$", "", x) for x in sinks))
        if kind in ("value", "namedouble", "nested") and not sinks:
            fail(where, "reader: value read but no member receives it", text)
        return dict(labels=labels, sinks=sinks, kind=kind, child=child, htok=htok, flags=flags, clobbers=clobbers,
                    opt_save=opt_save, use_last=bool(use_last), opt_assign=opt_assign)

    def child_of(self, typ):
        for cxx, tab in CXX2TAB.items():
            if re.fullmatch(cxx, typ.strip()):
                return tab
        return None


def parse_reader(tab, cls, src, members, where):
    nodes, line, canon = fn_tree(src, cls, "read_raw", where, [["parser", "check"], ["parser"]])
    r = Reader(tab, cls, members, where)
    r.types = canon.types
    # locate the for(;;) loop containing the switch
    loop = [nd for nd in nodes if nd[0] == "for" and nd[1].replace(" ", "") == ";;"]
    if len(loop) != 1:
        fail(where, "reader: expected exactly one for(;;) loop")
    sw = [nd for nd in loop[0][2] if nd[0] == "switch"]
    if len(sw) != 1 or not re.match(r"^_n\d+$", sw[0][1]):
        fail(where, "reader: expected exactly one switch on the option number")
    OPT = r.opt_var = sw[0][1]
    pre = [nd for nd in loop[0][2] if nd[0] != "switch"]
    pre_txt = " ".join(flat_stmts(pre))
    m = re.search(r"%s = parser\.get_option\(vopts, (_pos\d+)\)" % OPT, pre_txt)
    if not m:
        fail(where, "reader: option lookup is not <opt> = parser.get_option(vopts, <pos>)")
    pos = m.group(1)
    ml = None
    for nd in pre:
        if nd[0] == "if":
            mc = re.match(r"^(_b\d+) == false$", norm_stmt(nd[1]))
            then_t, else_t = list(flat_stmts(nd[2])), list(flat_stmts(nd[3]))
            if mc and f"{OPT} = parser.get_option(vopts, {pos})" in then_t and \
                    any(re.match(r"^%s = parser\.getOptionFromLastLine\(vopts, %s, (true|false)\)$" % (OPT, pos), t) for t in else_t) and \
                    not any(t.startswith(OPT + " =") and "getOptionFromLastLine" not in t for t in else_t):
                ml = mc
    uses_last = bool(ml)
    r.last_var = ml.group(1) if ml else None
    if "getOptionFromLastLine" in pre_txt and not ml:
        fail(where, "reader: getOptionFromLastLine is not the alternative of get_option under the use-last-line flag")
    ms = re.search(r"if %s == CParser::OPT_DEFAULT %s = (_n\d+)" % (OPT, OPT), pre_txt)
    default_to_save = bool(ms)
    r.save_var = ms.group(1) if ms else None
    if r.save_var is None:
        # readers that keep a continuation option without the OPT_DEFAULT redirection inside the loop do not exist; a reader
        # without the redirection has no save variable at all
        pass
    reset_save_each_line = bool(r.save_var and re.search(r"(^| )%s = CParser::OPT_DEFAULT( |$)" % r.save_var, pre_txt))
    # flows after the loop: `if (x_defined) this->M = temp;` or `this->M = temp;`
    post_flows, required = {}, []
    after = nodes[nodes.index(loop[0]) + 1:]
    for s_ in flat_stmts(after):
        m = re.match(r"^this->(\w+) = (_\w+)$", s_)
        if m and m.group(1) in members:
            post_flows[m.group(2)] = m.group(1)
    for nd in after:
        if nd[0] == "if" and norm_stmt(nd[1]) == "check":
            for s_ in flat_stmts(nd[2]):
                m = re.match(r"^if (\w+) == false$", s_)
                if m:
                    required.append(m.group(1))
                elif not re.match(r"^(parser\.)?(incr_input_error\(\)|error_msg\()", s_):
                    fail(where, "reader: unrecognised statement in the check block", s_)
    cases, unknown = [], None
    for labels, body in sw[0][2]:
        text = tree_text(body)
        sym = [l for l in labels if not l.isdigit()]
        if sym:
            if len(sym) != len(labels):
                fail(where, "reader: numeric and symbolic labels share a case", str(labels))
            if "CParser::OPT_ERROR" in labels:
                if f"{OPT} = CParser::OPT_KEYWORD;" in text and "error_msg" not in text:
                    unknown = "return"
                elif "error_msg" in text and f"{OPT} = CParser::OPT_EOF;" in text:
                    unknown = "error"
                else:
                    fail(where, "reader: unrecognised handling of an unknown option", text)
                if "CParser::OPT_DEFAULT" not in labels and tab != "Mix":
                    fail(where, "reader: OPT_DEFAULT not handled with OPT_ERROR")
            elif labels == ["CParser::OPT_DEFAULT"]:
                c = r.analyse_case(["default"], body, post_flows)
                c["labels"] = []
                c["default_line"] = True
                cases.append(c)
            elif set(labels) <= {"CParser::OPT_EOF", "CParser::OPT_KEYWORD"}:
                if text != "break;":
                    fail(where, "reader: EOF/KEYWORD case does more than break")
            else:
                fail(where, "reader: unknown symbolic case label", str(labels))
            continue
        c = r.analyse_case(labels, body, post_flows)
        c["labels"] = [int(l) for l in labels]
        # continuation lines come back to this case only when opt_save names it
        c["continues"] = (c["opt_save"] is not None and c["opt_save"].isdigit() and int(c["opt_save"]) in c["labels"])
        cases.append(c)
    cases.sort(key=lambda c: (not c["labels"], min(c["labels"]) if c["labels"] else 0))     # a switch is a SET of label groups
    for c in cases:
        c["labels"] = sorted(c["labels"])
        c["flags"] = [f for f in c["flags"] if f not in r.once]
    # a flag is identified by the cases that set it, not by its name
    def flag_id(f):
        labs = sorted(l for c in cases for l in c["labels"] if f in c["flags"])
        return "flag_of_case_" + "_".join(map(str, labs)) if labs else None
    ids = {}
    for c in cases:
        for f in c["flags"]:
            ids[f] = flag_id(f)
    for i, f in enumerate(required):
        if f not in ids:
            ids[f] = f"flag_never_set_{i}"
    for c in cases:
        c["flags"] = [ids[f] for f in c["flags"]]
    required = [ids[f] for f in required]
    if unknown is None:
        fail(where, "reader: no OPT_ERROR case")
    return dict(cases=cases, unknown=unknown, uses_last=uses_last, required=required, default_to_save=default_to_save,
                reset_save=reset_save_each_line), line


# ------------------------------------------------------------------------------------------------ driver
def extract(repo=None):
    repo = Path(repo or vlib.REPO)
    base = repo / "src" / "phreeqcpp"
    tables = []
    for tab, stem, cls in CLASSES:
        where = f"{stem}.cxx"
        raw = (base / f"{stem}.cxx").read_text(errors="replace")
        src = preprocess(strip_comments(raw), where)
        hsrc = preprocess(strip_comments((base / f"{stem}.h").read_text(errors="replace")), stem + ".h")
        members = class_members(hsrc, cls, stem + ".h")
        vopts = parse_vopts(src, cls, where)
        w, wline = parse_writer(tab, cls, src, members, where + " dump_raw")
        rd, rline = parse_reader(tab, cls, src, members, where + " read_raw")
        if len(set(vopts)) != len(vopts):
            fail(where, "duplicate entries in vopts")
        labels = sorted(l for c in rd["cases"] for l in c["labels"])
        if len(set(labels)) != len(labels):
            fail(where, "duplicate case labels")
        tables.append(dict(name=tab, file=f"src/phreeqcpp/{stem}.cxx", cls=cls, keyword=w.header or "", vopts=vopts,
                           written=w.entries, sections=w.sections, reader=rd, dump_raw_line=wline, read_raw_line=rline))
    # NameDouble: the shape of its one-line writer/reader is checked, it has no options. All shapes are read from the CANONICAL
    # tree (locals named by definition), so only what the statements do matters, not how they are spelled.
    nd = preprocess(strip_comments((base / "NameDouble.cxx").read_text(errors="replace")), "NameDouble.cxx")

    del SHAPE_NOTES[:]

    def shape(src_, cls_, fn_, conv, nth, what, rx, hard=True):
        """hard: no other tie exists for this function -> fail closed. Not hard: the function is compared in-process with its Lean
        model on every run (differential correspondence), so a different but equivalent body is reported as a note only"""
        nodes_, _, _ = fn_tree(src_, cls_, fn_, f"{cls_}::{fn_}", conv, nth)
        flat_ = tree_text(nodes_)
        if not re.search(rx, flat_):
            if hard:
                fail(f"{cls_}::{fn_}", what, flat_[:300])
            SHAPE_NOTES.append(f"{cls_}::{fn_}: {what} (tie: in-process correspondence with the model)")
        return flat_
    flat = shape(nd, "cxxNameDouble", "dump_raw", ["s_oss", "indent"], 0, "dump_raw does not print `name value` lines",
                 r'for \(const_iterator (?P<it>_it\d+) = this->begin\(\); (?P=it) != this->end\(\); (?P=it)\+\+\) \{ s_oss << indent0; '
                 r'if \((?P=it)->first\.size\(\) < 29 - indent0\.size\(\)\) \{ s_oss << Utilities::pad_right\((?P=it)->first, 29 - indent0\.size\(\)\) << '
                 r'(?P=it)->second << "\\n"; \} else \{ s_oss << Utilities::pad_right\((?P=it)->first, (?P=it)->first\.size\(\) \+ indent0\.size\(\)\) << " " << '
                 r'(?P=it)->second << "\\n"; \} \}')
    if "s_oss.precision(DBL_DIG + 2);" not in flat:
        fail("NameDouble.cxx", "dump_raw does not print doubles with 17 significant digits")
    shape(nd, "cxxNameDouble", "read_raw", ["parser", "pos"], 0, "read_raw does not read `name value` into the map",
          r'(?P<tt>_tt\d+) = parser\.copy_token\((?P<s>_s\d+), pos\); if \((?P=tt) == CParser::TT_EMPTY\) \{ return CParser::PARSER_OK; \} '
          r'if \(!\(parser\.get_iss\(\) >> (?P<x>_x\d+)\)\) \{ return CParser::PARSER_ERROR; \} \(\*this\)\[(?P=s)\.c_str\(\)\] = (?P=x); return CParser::PARSER_OK;$')
    shape(nd, "cxxNameDouble", "merge_redox", ["source"], 0,
          "body differs from the one Model/RawTables.lean `mergeOne` was written from",
          r'^for \(cxxNameDouble::const_iterator (?P<sit>_it\d+) = source\.begin\(\); (?P=sit) != source\.end\(\); (?P=sit)\+\+\) \{ .*?'
          r'(?P<r>_s\d+) = (?P=sit)->first; .*?(?P<n>_n\d+) = (?P=r)\.find\("\("\); .*?'
          r'if \((?P=n) != std::string::npos\) \{ (?P<b>_b\d+) = true; (?P<e>_s\d+) = (?P=r)\.substr\(0, (?P=n)\); \} else \{ (?P=b) = false; (?P=e) = (?P=r); \} '
          r'if \((?P=b)\) \{ if \(this->find\((?P=e)\) != this->end\(\)\) \{ this->erase\(this->find\((?P=e)\)\); \} \(\*this\)\[(?P=r)\] = (?P=sit)->second; \} '
          r'else \{ std::string (?P<p>_s\d+); (?P=p)\.append\((?P=e)\); (?P=p)\.append\("\("\); bool (?P<d>_b\d+); (?P=d) = true; '
          r'while \((?P=d)\) \{ (?P=d) = false; cxxNameDouble::iterator (?P<c>_it\d+); (?P=c) = this->begin\(\); for \(; (?P=c) != this->end\(\); (?P=c)\+\+\) \{ '
          r'if \((?P=c)->first\.find\((?P=p)\) == 0\) \{ this->erase\((?P=c)\); (?P=d) = true; break; \} \} \} \(\*this\)\[(?P=e)\] = (?P=sit)->second; \} \}$',
          hard=False)
    # find_option itself: case-folded prefix match, first hit wins
    ps = preprocess(strip_comments((base / "common" / "Parser.cxx").read_text(errors="replace")), "Parser.cxx")
    shape(ps, "CParser", "find_option", ["item", "n", "list", "exact"], 0, "find_option is no longer the case-folded first-prefix matcher",
          r'^std::string (?P<t>_s\d+); (?P=t) = item; std::transform\((?P=t)\.begin\(\), (?P=t)\.end\(\), (?P=t)\.begin\(\), tolower\); '
          r'for \(unsigned int (?P<i>_n\d+) = 0; (?P=i) < list\.size\(\); (?P=i)\+\+\) \{ if \(exact == true\) \{ if \(list\[(?P=i)\]\.compare\((?P=t)\) == 0\) '
          r'\{ \*n = (?P=i); return FT_OK; \} \} else \{ if \(list\[(?P=i)\]\.find\((?P=t)\) == 0\) \{ \*n = (?P=i); return FT_OK; \} \} \} \*n = -1; return FT_ERROR;$',
          hard=False)
    for fn in ("get_option", "getOptionFromLastLine"):
        f2 = shape(ps, "CParser", fn, None, 1, f"{fn} does not look options up with find_option (prefix for -options, exact otherwise)",
                   r'find_option\(_s\d+(\.substr\(1\))?, &_n\d+, opt_list, false\) == (CParser::)?FT_OK.*find_option\(_s\d+, &_n\d+, opt_list, true\) == (CParser::)?FT_OK')
        if "std::istream::pos_type _pos" not in f2:
            fail("Parser.cxx", f"second definition of {fn} is not the pos_type overload")
    return tables


# ------------------------------------------------------------------------------------------------ Serialize / Deserialize
SER_CLASSES = [t for t in CLASSES if t[0] not in ("Mix", "Reaction")] + [("NameDouble", "NameDouble", "cxxNameDouble"),
                                                                         ("SurfDL", "SurfaceCharge", "cxxSurfDL")]


def _strip_casts(e):
    e = norm_expr(e)
    while True:
        m = re.match(r"^\((?:int|size_t|LDBLE|double|[\w:]+)\)\s*(.+)$", e)
        if m and not re.match(r"^\(\*\w+\)", e):
            e = norm_expr(m.group(1))
            continue
        return e


class SerWalker:
    """symbolic order of pushes (Serialize) / pops (Deserialize): list of [kind, target] with kind i/d/w/nest and loop brackets"""
    def __init__(self, members, where):
        self.members, self.where = members, where
        self.ev = []
        self.cond_reads = []

    def mem(self, e):
        e = _strip_casts(e)
        m = re.match(r"^(?:this->)?(\w+)(\[(\d+)\])?$", e)
        if m and m.group(1) in self.members:
            return m.group(1) + (f"[{m.group(3)}]" if m.group(3) else "")
        return None

    # ---------------------------------------------------------------- Serialize
    def ser_target(self, e, loops, locs):
        e = _strip_casts(e)
        m = re.match(r"^(.+?) \? 1 : 0$", e)
        if m:
            e = _strip_casts(m.group(1))
        m = re.match(r"^this->(\w+) == [\w:]+\) \? 0 : 1$", e) or re.match(r"^\(?this->(\w+) == [\w:]+\)? \? 0 : 1$", e)
        if m and m.group(1) in self.members:
            return m.group(1)
        if e in locs:
            return locs[e]
        t = self.mem(e)
        if t:
            return t
        m = re.match(r"^(?:this->)?(\w+)\.size\(\)$", e)
        if m and m.group(1) in self.members:
            return m.group(1) + ".size"
        if e == "this->size()":
            return "self.size"
        for lp in reversed(loops):
            v, c = lp["var"], lp["cont"]
            if re.match(r"^(\(\*%s\)\.|%s->)first$" % (v, v), e):
                return c + ".key"
            if re.match(r"^(\(\*%s\)\.|%s->)second$" % (v, v), e):
                return c + ".val"
            if re.match(r"^(?:this->)?%s\[%s\]$" % (c, v), e):
                return c + ".elem"
        fail(self.where, "Serialize: unrecognised pushed expression", e)

    def ser(self, nodes, loops, locs):
        for nd in nodes:
            if nd[0] == "block":
                self.ser(nd[1], loops, locs)
            elif nd[0] == "for":
                h = norm_stmt(nd[1])
                m = re.search(r"(_it\d+) = (?:this->)?(\w+)\.begin\(\); \1 != ", h) or re.match(r"^size_t (_n\d+) = 0; \1 < (?:this->)?(\w+)\.size\(\); \1\+\+$", h)
                if re.search(r"(_it\d+) = this->begin\(\); \1 != this->end\(\)", h):
                    var = re.search(r"(_it\d+) = this->begin", h).group(1)
                    cont = "self"
                elif m and m.group(2) in self.members:
                    var, cont = m.group(1), m.group(2)
                else:
                    fail(self.where, "Serialize: unrecognised loop", h)
                self.ev.append(["loop[", cont])
                self.ser(nd[2], loops + [dict(var=var, cont=cont)], locs)
                self.ev.append(["]", cont])
            elif nd[0] == "stmt":
                st = nd[1]
                m = re.match(r"^(ints|doubles)\.push_back\((.*)\)$", st)
                if m:
                    arg = norm_expr(m.group(2))
                    mm = re.match(r"^dictionary\.Find\((.*)\)$", arg)
                    if mm:
                        self.ev.append(["w", self.ser_target(mm.group(1), loops, locs)])
                    else:
                        t = self.ser_target(arg, loops, locs)
                        kind = "w" if t.startswith("@w:") else ("i" if m.group(1) == "ints" else "d")
                        self.ev.append([kind, t[3:] if t.startswith("@w:") else t])
                    continue
                m = re.match(r"^(_n\d+) = dictionary\.Find\((.*)\)$", st)
                if m:
                    locs = dict(locs)
                    locs[m.group(1)] = "@w:" + self.ser_target(m.group(2), loops, locs)
                    self._locs = locs
                    continue
                m = re.match(r"^(.+?)(\.|->)Serialize\(dictionary, ints, doubles\)$", st)
                if m:
                    tgt = m.group(1)
                    if self.mem(tgt):
                        self.ev.append(["nest", self.mem(tgt)])
                    else:
                        self.ev.append(["nest", self.ser_target(tgt, loops, locs)])
                    continue
                d_ = parse_decl(st)
                if (d_ and all(how == "" for _, how, _ in d_[4])) or st == "return":
                    continue
                fail(self.where, "Serialize: unrecognised statement", st)
            else:
                fail(self.where, f"Serialize: unsupported control statement {nd[0]}", str(nd[1]))
            locs = getattr(self, "_locs", locs)

    # ---------------------------------------------------------------- Deserialize
    READ = re.compile(r"ints\[ii\+\+\]|doubles\[dd\+\+\]")

    def deser(self, nodes, locs, cond=False):
        for nd in nodes:
            if nd[0] == "block":
                self.deser(nd[1], locs, cond)
            elif nd[0] == "if":
                c = norm_stmt(nd[1])
                if not re.match(r"^\w+\.size\(\) != 0$", c) or nd[3]:
                    fail(self.where, "Deserialize: unrecognised condition", c)
                self.deser(nd[2], locs, True)
            elif nd[0] == "for":
                h = norm_stmt(nd[1])
                m = re.match(r"^int (\w+) = 0; \1 < (\w+); \1\+\+$", h)
                if not m or m.group(2) not in locs:
                    fail(self.where, "Deserialize: unrecognised loop", h)
                cnt = locs[m.group(2)]
                start = len(self.ev)
                self.ev.append(["loop[", "?"])
                self.deser(nd[2], locs, cond)
                conts = {t.split(".")[0] for k, t in self.ev[start + 1:] if k in ("i", "d", "w", "nest") and "." in t and not t.startswith("@")}
                inner_open = [e for e in self.ev[start + 1:] if e[0] == "loop["]
                if len(conts) != 1 and not inner_open:
                    fail(self.where, "Deserialize: loop does not fill exactly one container", f"{h} {conts}")
                cont = sorted(conts)[0] if len(conts) == 1 else "?"
                self.ev[start][1] = cont
                self.ev.append(["]", cont])
                cnt[1] = cont + ".size"
            elif nd[0] == "stmt":
                self.deser_stmt(nd[1], locs, cond)
            else:
                fail(self.where, f"Deserialize: unsupported control statement {nd[0]}", str(nd[1]))

    def new_read(self, rhs, cond):
        """event for a right-hand side that pops one value: returns the event"""
        r = norm_expr(rhs)
        if re.match(r"^dictionary\.GetWords\(\)\[ints\[ii\+\+\]\]$", r):
            ev = ["w", "@"]
        elif re.match(r"^(\([\w:]+\) ?)?ints\[ii\+\+\]$", r) or re.match(r"^\(?ints\[ii\+\+\] (!=|==) 0\)?( \? [\w:]+ : [\w:]+)?$", r):
            ev = ["i", "@"]
        elif re.match(r"^(\([\w:]+\) ?)?doubles\[dd\+\+\]$", r):
            ev = ["d", "@"]
        else:
            fail(self.where, "Deserialize: unrecognised popped expression", r)
        if cond:
            self.cond_reads.append(ev)
        self.ev.append(ev)
        return ev

    def lhs_target(self, lhs, locs):
        """where an assignment lands: member target string; resolves key locals as a side effect"""
        l = norm_expr(lhs)
        t = self.mem(l)
        if t:
            return t
        m = re.match(r"^(?:this->)?(\w+)\[(\w+)\]$", l)
        if m and m.group(1) in self.members:
            if m.group(2) in locs:
                locs[m.group(2)][1] = m.group(1) + ".key"
            return m.group(1) + ".val"
        m = re.match(r"^\(\*this\)\[(\w+)\]$", l)
        if m:
            if m.group(1) in locs:
                locs[m.group(1)][1] = "self.key"
            return "self.val"
        return None

    def deser_stmt(self, st, locs, cond):
        n_reads = len(self.READ.findall(st))
        # nested object
        m = re.match(r"^(.+?)\.Deserialize\(dictionary, ints, doubles, ii, dd\)$", st)
        if m:
            tgt = m.group(1)
            if self.mem(tgt):
                self.ev.append(["nest", self.mem(tgt)])
            elif re.match(r"^\w+$", tgt):
                ev = ["nest", "@"]
                self.ev.append(ev)
                locs[tgt] = ev
            else:
                fail(self.where, "Deserialize: unrecognised nested target", st)
            return
        if n_reads == 0:
            # uses of locals that decide where a popped value went
            m = re.match(r"^(.+?) = (\w+)$", st)
            if m and m.group(2) in locs:
                t = self.lhs_target(m.group(1), locs)
                if t is None:
                    fail(self.where, "Deserialize: local stored into something that is not a member", st)
                locs[m.group(2)][1] = t
                return
            m = re.match(r"^(?:this->)?(\w+)\.push_back\((\w+)\)$", st)
            if m and m.group(2) in locs and m.group(1) in self.members:
                locs[m.group(2)][1] = m.group(1) + ".elem"
                return
            m = re.match(r"^(_s\d+) = dictionary\.GetWords\(\)\[(\w+)\]$", st)
            if m and m.group(2) in locs:
                locs[m.group(2)][0] = "w"
                locs[m.group(1)] = locs[m.group(2)]
                return
            if re.match(r"^(?:this->|\(\*this\)\.)?(\w+\.)?clear\(\)$", st) or re.match(r"^this->n_user_end = this->n_user$", st) \
                    or re.match(r'^this->description = " +"$', st) or re.match(r"^assert\(\w+ >= 0\)$", st) \
                    or re.match(r"^cxx\w+ \w+(\(this->io\)|\(this->Get_io\(\)\))?$", st) or re.match(r"^_s\d+ = _o\d+\.Get_name\(\)$", st) \
                    or re.match(r"^(int|double|LDBLE|std::string) \w+$", st) or st == "return":
                return
            fail(self.where, "Deserialize: unrecognised statement", st)
        # statements that pop
        m = re.match(r"^(?:this->)?(\w+)\.push_back\((.*)\)$", st)
        if m and m.group(1) in self.members and n_reads == 1:
            self.new_read(m.group(2), cond)[1] = m.group(1) + ".elem"
            return
        m = re.match(r"^(_(?:n|x|s)\d+) = (.*)$", st)
        if m and n_reads == 1:
            ev = self.new_read(m.group(2), cond)
            locs[m.group(1)] = ev
            return
        m = re.match(r"^(.+?) = (.*)$", st)
        if m:
            lhs, rhs = m.group(1), m.group(2)
            lk = self.READ.findall(lhs)
            if len(lk) == 1 and n_reads == 2:          # M[ints[ii++]] = doubles[dd++]
                mm = re.match(r"^(?:this->)?(\w+)\[(ints\[ii\+\+\])\]$", norm_expr(lhs))
                if not mm or mm.group(1) not in self.members:
                    fail(self.where, "Deserialize: unrecognised keyed assignment", st)
                self.new_read(mm.group(2), cond)[1] = mm.group(1) + ".key"
                self.new_read(rhs, cond)[1] = mm.group(1) + ".val"
                return
            if n_reads == 1 and not lk:
                t = self.lhs_target(lhs, locs)
                if t is None:
                    fail(self.where, "Deserialize: popped value stored into something that is not a member", st)
                self.new_read(rhs, cond)[1] = t
                return
        fail(self.where, "Deserialize: unrecognised popping statement", st)


def parse_serializer(tab, cls, src, members, where):
    sn, sline, _ = fn_tree(src, cls, "Serialize", where, ["dictionary", "ints", "doubles"])
    dn, dline, _ = fn_tree(src, cls, "Deserialize", where, ["dictionary", "ints", "doubles", "ii", "dd"])
    ws = SerWalker(members, where + " Serialize")
    ws.ser(sn, [], {})
    wd = SerWalker(members, where + " Deserialize")
    wd.deser(dn, {})
    for k, t in wd.ev:
        if t in ("@", "?"):
            fail(where, "Deserialize: a popped value is never stored", str(wd.ev))
    return dict(name=tab, ser=[tuple(e) for e in ws.ev], deser=[tuple(e) for e in wd.ev],
                conditional_pops=[tuple(e) for e in wd.cond_reads], lines=(sline, dline))


def extract_serializers(repo=None):
    repo = Path(repo or vlib.REPO)
    base = repo / "src" / "phreeqcpp"
    out = []
    for tab, stem, cls in SER_CLASSES:
        src = preprocess(strip_comments((base / f"{stem}.cxx").read_text(errors="replace")), stem + ".cxx")
        hsrc = preprocess(strip_comments((base / f"{stem}.h").read_text(errors="replace")), stem + ".h")
        members = class_members(hsrc, cls, stem + ".h") if cls != "cxxNameDouble" else {}
        members = dict(members, n_user="int", n_user_end="int", description="std::string")      # cxxNumKeyword base
        out.append(parse_serializer(tab, cls, src, members, f"{stem}.cxx {cls}"))
    return out


# ------------------------------------------------------------------------------------------------ obligations (mirror)
def find_option(item, vopts, exact=False):
    tok = item.lower()
    for i, o in enumerate(vopts):
        if (o == tok) if exact else o.startswith(tok):
            return i
    return None


def resolve(t, k):
    cases = t["reader"]["cases"]
    if k["key"] == "":
        return next((c for c in cases if not c["labels"]), None)
    i = find_option(k["key"], t["vopts"])
    if i is None:
        return None
    return next((c for c in cases if i in c["labels"]), None)


def is_const(k):
    return k["members"] in ([""], [])


KINDS_AGREE = {("scalar", "value"), ("lines", "value"), ("bare", "value"), ("namedouble", "namedouble"), ("nested", "nested")}


def descendants(bytab, t, fuel=3):
    out = [t]
    if fuel:
        for k in t["written"]:
            if k["kind"] == "nested" and k["child"] in bytab:
                out += descendants(bytab, bytab[k["child"]], fuel - 1)
    return out


def followers(ks):
    out = []
    for k in ks:
        out.append(k)
        if k["guard"][0] == "none" and k["kind"] != "nested" and k["key"] != "":
            break
    return out


def defects(tables):
    """the same obligations as Model/RawTables.lean (`failing`), with the key each failure is about:
    list of (table, obligation, key, detail)"""
    bytab = {t["name"]: t for t in tables}
    out = []
    for t in tables:
        W = t["written"]
        for n, k in enumerate(W):
            c = resolve(t, k)
            if c is None or c["kind"] == "error":
                out.append((t["name"], "keys_known", k["key"], "no option" if c is None else "error case"))
            if not is_const(k) and c is not None and not set(c["sinks"]) <= set(k["members"]):
                out.append((t["name"], "no_cross_wiring", k["key"], f"prints {k['members']} lands in {c['sinks']}"))
            if k["section"] != "work" and not is_const(k):
                if c is None or not set(k["members"]) <= set(c["sinks"]) or (k["kind"], c["kind"]) not in KINDS_AGREE:
                    out.append((t["name"], "state_restored", k["key"], f"prints {k['members']} restored {c['sinks'] if c else None}"))
            if k["kind"] == "nested":
                ch = bytab.get(k["child"])
                ok = (c is not None and ch is not None and c["kind"] == "nested" and c["child"] == k["child"] and
                      c["htok"] == k["htok"] and c["use_last"] and t["reader"]["uses_last"])
                why = []
                if not ok:
                    why.append("header line / hand-over differs")
                if ch is not None:
                    for d in descendants(bytab, ch):
                        if d["reader"]["unknown"] != "return":
                            why.append(f"{d['name']} reader reports an error on a line it does not know")
                        for f in [k] + followers(W[n + 1:]):
                            if find_option(f["key"], d["vopts"]) is not None:
                                why.append(f"following key -{f['key']} is swallowed by {d['name']}")
                if why:
                    out.append((t["name"], "header_symmetric", k["key"], "; ".join(why)))
            if k["guard"][0] == "nonempty" and k["members"] != [k["guard"][1]]:
                out.append((t["name"], "guards_ok", k["key"], "guard on another member"))
            if k["guard"][0] == "flag":
                m = k["guard"][1]
                if not any(k2["members"] == [m] and k2["guard"][0] == "none" and (resolve(t, k2) or {}).get("sinks") == [m] for k2 in W):
                    out.append((t["name"], "guards_ok", k["key"], f"flag {m} is not restored unconditionally"))
            if k["section"] != "work" and k["kind"] in ("namedouble", "lines"):
                if c is None or not (c.get("continues") or c.get("default_line")):
                    out.append((t["name"], "continuation_ok", k["key"], "continuation lines do not return to the case"))
            if len(k["members"]) > 1 or (c is not None and len(c["sinks"]) > 1):
                out.append((t["name"], "single_field", k["key"], "more than one member"))
        for f in t["reader"]["required"]:
            if not any(k["guard"][0] == "none" and k["kind"] != "nested" and f in (resolve(t, k) or {}).get("flags", []) for k in W):
                out.append((t["name"], "required_defined", f, "no always-written key sets the flag"))
        fields = [k["members"][0] for k in W if len(k["members"]) == 1 and k["members"][0] != ""]
        for f in sorted({x for x in fields if fields.count(x) > 1}):
            out.append((t["name"], "fields_distinct", f, "printed by two keys"))
    return out


def latent(tables):
    """things the obligations deliberately do not demand (reported in the evidence, never an alarm)"""
    out = []
    for t in tables:
        for k in t["written"]:
            c = resolve(t, k)
            if k["section"] == "work" and c is not None and not is_const(k) and not set(k["members"]) <= set(c["sinks"]):
                out.append(f"{t['name']} -{k['key']}: workspace value dropped by the reader ({c['kind']})")
            if k["section"] == "work" and k["kind"] in ("namedouble", "lines") and c is not None and not (c.get("continues") or c.get("default_line")):
                out.append(f"{t['name']} -{k['key']}: workspace block without a continuation case (the block is empty in every dump)")
            if c is not None and c.get("clobbers"):
                out.append(f"{t['name']} -{k['key']}: when true also clears {c['clobbers']}")
    return out


# ------------------------------------------------------------------------------------------------ Lean emission
def ls(s):
    return '"' + s.replace("\\", "\\\\").replace('"', '\\"') + '"'


def ll(xs):
    return "[" + ", ".join(xs) + "]"


def emit_ser(sers):
    o = ["/-- push / pop sequences of Serialize / Deserialize (tools/gen_raw.py, `extract_serializers`) -/", "def serTabs : List SerTab := ["]
    rows = []
    for t in sers:
        f = lambda evs: ll(f"⟨{ls(k)}, {ls(x)}⟩" for k, x in evs)
        rows.append(f"  ⟨{ls(t['name'])},\n   {f(t['ser'])},\n   {f(t['deser'])}⟩")
    o.append(",\n".join(rows) + "]")
    return "\n".join(o) + "\n"


def emit(tables):
    o = ["/- GENERATED by tools/gen_raw.py from src/phreeqcpp/*.cxx — do not edit. -/",
         "import PhreeqcVerif.Model.RawTables", "namespace PhreeqcVerif.Gen.Raw", "open PhreeqcVerif.Raw", ""]
    for t in tables:
        o.append(f"/-- {t['file']}: {t['cls']}::dump_raw / read_raw / vopts -/")
        o.append(f"def tab{t['name']} : ClassTab where")
        o.append(f"  name := {ls(t['name'])}")
        o.append(f"  keyword := {ls(t['keyword'])}")
        o.append(f"  vopts := {ll(ls(v) for v in t['vopts'])}")
        o.append("  written := [")
        rows = []
        for e in t["written"]:
            g = {"none": ".always", "nonempty": f".nonEmpty {ls(e['guard'][1])}", "flag": f".flag {ls(e['guard'][1])}"}[e["guard"][0]]
            rows.append(f"    ⟨{ls(e['key'])}, {ll(ls(m) for m in e['members'])}, .{e['kind']}, "
                        f"{'.work' if e['section'] == 'work' else '.state'}, {g}, {ls(e['child'])}, {e['htok']}⟩")
        o.append(",\n".join(rows) + "]")
        o.append("  cases := [")
        rows = []
        for c in t["reader"]["cases"]:
            rows.append(f"    ⟨{ll(str(l) for l in c['labels'])}, {ll(ls(m) for m in c['sinks'])}, .{c['kind']}, {ls(c['child'])}, "
                        f"{c['htok']}, {ll(ls(f) for f in c['flags'])}, {'true' if c.get('continues') or c.get('default_line') else 'false'}, "
                        f"{'true' if c['use_last'] else 'false'}, {ll(ls(m) for m in c.get('clobbers', []))}⟩")
        o.append(",\n".join(rows) + "]")
        o.append(f"  unknownReturns := {'true' if t['reader']['unknown'] == 'return' else 'false'}")
        o.append(f"  usesLastLine := {'true' if t['reader']['uses_last'] else 'false'}")
        o.append(f"  required := {ll(ls(f) for f in t['reader']['required'])}")
        o.append("")
    o.append("def allTables : List ClassTab := " + ll("tab" + t["name"] for t in tables))
    o.append("")
    ex = sorted({d[0] for d in defects(tables)})
    o.append("/-- tables for which the translator's own evaluation of the obligations fails on the current source; each is")
    o.append("reported by the check (finding / violation) and proved defective in `Properties/C10.lean` -/")
    o.append("def exempt : List String := " + ll(ls(x) for x in ex))
    o.append("")
    o.append("end PhreeqcVerif.Gen.Raw")
    return "\n".join(o) + "\n"


def generate(ctx=None):
    tables = extract()
    sers = extract_serializers()
    text = emit(tables).replace("end PhreeqcVerif.Gen.Raw", emit_ser(sers) + "\nend PhreeqcVerif.Gen.Raw")
    out = vlib.LEAN / "PhreeqcVerif" / "Gen" / "RawTables.lean"
    if not out.exists() or out.read_text() != text:
        out.write_text(text)
    ser_defects = [(t["name"], "serialize_symmetric", next((f"{a} vs {b}" for a, b in zip(t["ser"], t["deser"]) if a != b), "length"))
                   for t in sers if t["ser"] != t["deser"]]
    return dict(shape_notes=list(SHAPE_NOTES), serializers=sers, ser_defects=ser_defects, tables=tables, defects=defects(tables), latent=latent(tables), classes=len(tables), written_keys=sum(len(t["written"]) for t in tables),
                options=sum(len(t["vopts"]) for t in tables), cases=sum(len(t["reader"]["cases"]) for t in tables),
                sources=[f"{t['file']}:{t['dump_raw_line']},{t['read_raw_line']}" for t in tables])


if __name__ == "__main__":
    import json
    import sys
    try:
        ts = extract(sys.argv[1] if len(sys.argv) > 1 else None)
    except TranslatorError as e:
        print("TRANSLATOR FAILS CLOSED:", e)
        sys.exit(1)
    for t in ts:
        print("==", t["name"], t["keyword"], "unknown:", t["reader"]["unknown"], "last:", t["reader"]["uses_last"], "req:", t["reader"]["required"])
        print("  vopts", t["vopts"])
        for e in t["written"]:
            print("  W", e["key"], e["members"], e["kind"], e["section"], e["guard"], e["child"], e["htok"])
        for c in t["reader"]["cases"]:
            print("  R", c["labels"], c["sinks"], c["kind"], c["child"], c["htok"], c["flags"], c["opt_save"], c["use_last"])
    for d in defects(ts):
        print("DEFECT", d)
    for d in latent(ts):
        print("latent", d)
    for t in extract_serializers(sys.argv[1] if len(sys.argv) > 1 else None):
        print("SER", t["name"], "EQUAL" if t["ser"] == t["deser"] else "DIFFERENT", len(t["ser"]), t["conditional_pops"])
        if t["ser"] != t["deser"]:
            for a, b in zip(t["ser"], t["deser"]):
                print("   ", a, b, "" if a == b else "<<<")
