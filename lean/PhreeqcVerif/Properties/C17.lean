import PhreeqcVerif.Model.BasicExec
/-! C17 — BASIC programs compute standard arithmetic, string and control-flow semantics: theorems about the
reference evaluator `Model/Basic*.lean` (for all programs / expressions) and facts over the generated token tables. -/
namespace PhreeqcVerif.C17
open PhreeqcVerif.Basic PhreeqcVerif.Gen

/-- the documented keywords denote the documented tokens in the table extracted from `PBasic.cpp` -/
theorem keywords_documented :
    (["and", "or", "xor", "not", "mod", "if", "then", "else", "for", "to", "step", "next", "while", "wend", "goto",
      "gosub", "return", "on", "data", "read", "restore", "dim", "put", "get", "punch", "save", "print", "end", "rem"].map lookupKw)
    = (["tokand", "tokor", "tokxor", "toknot", "tokmod", "tokif", "tokthen", "tokelse", "tokfor", "tokto", "tokstep",
        "toknext", "tokwhile", "tokwend", "tokgoto", "tokgosub", "tokreturn", "tokon", "tokdata", "tokread", "tokrestore",
        "tokdim", "tokput", "tokget", "tokpunch", "toksave", "tokprint", "tokend", "tokrem"].map some) := by
  decide

end PhreeqcVerif.C17
