import PhreeqcVerif.Lemmas.Surface
import PhreeqcVerif.Gen.SurfConst
/-! # C20 — surface complexation obeys site balance, electrostatic mass action, charge laws

Theorems about `Model/Surface.lean` (the model of `residuals`/`check_residuals`/`model`, `add_potential_factor`,
`add_cd_music_factors`, `gammas` case 6, `molalities`, `diff_layer_total`).  All statements are over `Rat` with
*uninterpreted* `sqrt sinh exp ln log10` (`ratOps f`, every `f`): nothing about the transcendental functions is used
except what a hypothesis states.  The tie to the C++ is the correspondence check `tools/props/c20.py`
(`pmodel surface` executes the same definitions on `Float` against the in-process dump of real runs). -/
namespace PhreeqcVerif.Surface
open NumOps

/-! ## 0. the constants of the model are the constants of the source (translator `tools/gen_surfconst.py`) -/

/-- `Gen/SurfConst.lean` is regenerated from `global_structures.h`, `model.cpp`, `prep.cpp` on every run; the model's
Faraday / gas / permittivity constants, the `8` of the Gouy–Chapman constant, the `8000` of `f_sinh` and the `0.5` of
`alpha_global` (integrate.cpp), the `0.5` of the CD-MUSIC diffuse-layer
charge, the `-2` of the psi token and the `2` of the CCM row are exactly the extracted ones -/
theorem source_constants (f : TransFns Rat) (epsr tk x sum cap la : Rat) (aq : List (Rat × Rat)) :
    letI := ratOps f
    Gen.SurfConst.recognised = true ∧
    (F_C_MOL : Rat) = Gen.SurfConst.F_C_MOL ∧ (F_KJ_V_EQ : Rat) = Gen.SurfConst.F_KJ_V_EQ ∧
    (R_KJ_DEG_MOL : Rat) = Gen.SurfConst.R_KJ_DEG_MOL ∧ (EPSILON_ZERO : Rat) = Gen.SurfConst.EPSILON_ZERO ∧
    sinhConstant epsr tk = f.sqrt (Gen.SurfConst.GC_FACTOR * epsr * Gen.SurfConst.EPSILON_ZERO *
      (Gen.SurfConst.R_KJ_DEG_MOL * 1000) * tk * 1000) ∧
    fSinh epsr tk cap = f.sqrt (Gen.SurfConst.FSINH_FACTOR * epsr * Gen.SurfConst.EPSILON_ZERO *
      (Gen.SurfConst.R_KJ_DEG_MOL * 1000) * tk * cap) ∧
    alphaConst epsr tk = f.sqrt (epsr * Gen.SurfConst.EPSILON_ZERO * (Gen.SurfConst.R_KJ_DEG_MOL * 1000) * 1000 * tk *
      Gen.SurfConst.ALPHA_FACTOR) ∧
    (0 ≤ sum → 0 ≤ x → cdSigmaDDL epsr tk x sum = Gen.SurfConst.CD_DDL_FACTOR * sinhConstant epsr tk * f.sqrt sum) ∧
    psiCoef aq = Gen.SurfConst.PSI_COEF * aq.foldl (fun acc cz => acc + cz.2 * cz.1) 0 ∧
    ccmSigmaLa cap tk la = cap * la * Gen.SurfConst.CCM_FACTOR * Gen.SurfConst.R_KJ_DEG_MOL * tk * f.ln 10 / Gen.SurfConst.F_KJ_V_EQ := by
  refine ⟨by decide, by simp only [F_C_MOL, NumOps.lit, NumOps.ofRat, id_eq]; decide +kernel,
    by simp only [F_KJ_V_EQ, NumOps.lit, NumOps.ofRat, id_eq]; decide +kernel,
    by simp only [R_KJ_DEG_MOL, NumOps.lit, NumOps.ofRat, id_eq]; decide +kernel,
    by simp only [EPSILON_ZERO, NumOps.lit, NumOps.ofRat, id_eq]; decide +kernel, ?_, ?_, ?_, ?_, ?_, ?_⟩
  · have e1 : Gen.SurfConst.GC_FACTOR = 8 := by decide +kernel
    have e2 : Gen.SurfConst.EPSILON_ZERO = 8854 / 1000000000000000 := by decide +kernel
    have e3 : Gen.SurfConst.R_KJ_DEG_MOL = 83147 / 10000000 := by decide +kernel
    simp only [sinhConstant, EPSILON_ZERO, R_KJ_DEG_MOL, NumOps.lit, NumOps.sqrt, NumOps.ofRat, id_eq, e1, e2, e3]
    rfl
  · have e1 : Gen.SurfConst.FSINH_FACTOR = 8000 := by decide +kernel
    have e2 : Gen.SurfConst.EPSILON_ZERO = 8854 / 1000000000000000 := by decide +kernel
    have e3 : Gen.SurfConst.R_KJ_DEG_MOL = 83147 / 10000000 := by decide +kernel
    simp only [fSinh, EPSILON_ZERO, R_KJ_DEG_MOL, NumOps.lit, NumOps.sqrt, NumOps.ofRat, id_eq, e1, e2, e3]
    rfl
  · have e1 : Gen.SurfConst.ALPHA_FACTOR = 1 / 2 := by decide +kernel
    have e2 : Gen.SurfConst.EPSILON_ZERO = 8854 / 1000000000000000 := by decide +kernel
    have e3 : Gen.SurfConst.R_KJ_DEG_MOL = 83147 / 10000000 := by decide +kernel
    simp only [alphaConst, EPSILON_ZERO, R_KJ_DEG_MOL, NumOps.lit, NumOps.sqrt, NumOps.ofRat, id_eq, e1, e2, e3]
    rfl
  · intro hs hx
    have e1 : Gen.SurfConst.CD_DDL_FACTOR = 1 / 2 := by decide +kernel
    have h1 : ¬ sum < 0 := by grind
    have h2 : ¬ x < 0 := by grind
    simp only [cdSigmaDDL, NumOps.lit, NumOps.sqrt, NumOps.ofRat, id_eq, h1, h2, if_false, e1]
    rfl
  · have e1 : Gen.SurfConst.PSI_COEF = -2 := by decide +kernel
    simp only [psiCoef, NumOps.lit, NumOps.ofRat, id_eq, e1]
  · have e1 : Gen.SurfConst.CCM_FACTOR = 2 := by decide +kernel
    have e2 : Gen.SurfConst.F_KJ_V_EQ = 964935 / 10000 := by decide +kernel
    have e3 : Gen.SurfConst.R_KJ_DEG_MOL = 83147 / 10000000 := by decide +kernel
    simp only [ccmSigmaLa, F_KJ_V_EQ, R_KJ_DEG_MOL, LOG_10, NumOps.lit, NumOps.ln, NumOps.ofRat, id_eq, e1, e2, e3]
    rfl

/-- a row for which `check_residuals` would print an ERROR is a row that `residuals` does not accept: after
`residuals` reported CONVERGED no surface row can raise the ERROR of `check_residuals` -/
theorem checkError_imp_fails (f : TransFns Rat) (e : Env Rat) (r : Row Rat) :
    letI := ratOps f
    r.checkError e = true → r.fails e = true := by
  intro h
  cases r with
  | site m fs =>
    simp only [Row.checkError, Row.fails, absGt, absLt, NumOps.lit, NumOps.ofRat, id_eq] at h ⊢
    by_cases hm : m ≤ e.minRel <;> simp [hm] at h ⊢ <;> grind
  | ddl g a la fs => simpa [Row.checkError, Row.fails] using h
  | ccm g a c la fs => simpa [Row.checkError, Row.fails] using h
  | dl g fs => simpa [Row.checkError, Row.fails] using h
  | cb g res => simpa [Row.checkError, Row.fails] using h

/-! ## 1. the gate: a call of `model()` that completes without error ends in a state whose surface rows pass -/

/-- SURFACE row that passes: `|sites - Σ species| ≤ tol·sites`, or the residual is below `ineq_tol` (1e-15 mol)
and below 1 % of the sites — the exemption that `residuals` and `check_residuals` both make -/
theorem site_pass (f : TransFns Rat) (e : Env Rat) (moles fs : Rat) :
    letI := ratOps f
    (Row.site moles fs).fails e = false → e.minRel < moles →
      ((-(e.tol * moles) ≤ moles - fs ∧ moles - fs ≤ e.tol * moles) ∨
       (-(e.ineqTol) < moles - fs ∧ moles - fs < e.ineqTol ∧ -(moles / 100) < moles - fs ∧ moles - fs < moles / 100)) := by
  intro h hm
  simp only [Row.fails, absGt, absLt, NumOps.lit, NumOps.ofRat, id_eq] at h
  split at h <;> simp at h <;> grind

/-- SURFACE row with (almost) no sites left (`moles ≤ MIN_RELATED_SURFACE`): absolute test -/
theorem site_pass_small (f : TransFns Rat) (e : Env Rat) (moles fs : Rat) :
    letI := ratOps f
    (Row.site moles fs).fails e = false → moles ≤ e.minRel → (-(e.tol) ≤ moles - fs ∧ moles - fs ≤ e.tol) := by
  intro h hm
  simp only [Row.fails, absGt, absLt, NumOps.lit, NumOps.ofRat, id_eq] at h
  split at h <;> simp at h <;> grind

/-- a charge row that passes has `|residual| ≤ tol` as soon as the surface has more than `MIN_RELATED_SURFACE` grams -/
theorem charge_pass (f : TransFns Rat) (e : Env Rat) (r : Row Rat) :
    letI := ratOps f
    (∀ m fs, r ≠ Row.site m fs) → r.fails e = false → (match r with
      | .site _ _ => True
      | .ddl g _ _ _ => e.minRel < g
      | .ccm g _ _ _ _ => e.minRel < g
      | .dl g _ => e.minRel < g
      | .cb g _ => e.minRel < g) → (-(e.tol) ≤ r.resid e ∧ r.resid e ≤ e.tol) := by
  intro hs h hg
  cases r with
  | site m fs => exact absurd rfl (hs m fs)
  | ddl g a la fs => simp [Row.fails, absGt] at h; grind
  | ccm g a c la fs => simp [Row.fails, absGt] at h; grind
  | dl g fs => simp [Row.fails, absGt] at h; grind
  | cb g res => simp [Row.fails, absGt, Row.resid] at h ⊢; grind

/-- **gate_surface** (site balance).  For ANY solver step and iteration budget: if `model()` completes without error,
every SURFACE row of the final state balances the defined sites against the sum over the surface species within
`convergence_tolerance` relative (or within the sub-`ineq_tol` exemption of the code) -/
theorem gate_surface (f : TransFns Rat) (step : State Rat → State Rat) (n : Nat) (s s' : State Rat) :
    letI := ratOps f
    runModel step n s = some s' → ∀ moles fs, Row.site moles fs ∈ s'.rows → s'.env.minRel < moles →
      ((-(s'.env.tol * moles) ≤ moles - fs ∧ moles - fs ≤ s'.env.tol * moles) ∨
       (-(s'.env.ineqTol) < moles - fs ∧ moles - fs < s'.env.ineqTol ∧
         -(moles / 100) < moles - fs ∧ moles - fs < moles / 100)) := by
  intro h moles fs hr hm
  letI := ratOps f
  exact site_pass f s'.env moles fs (gate_rows step n s s' h _ hr).1 hm

/-- **gate_surface** (Gouy–Chapman row).  Completed without error ⇒ the charge density of the surface species equals
`sinh_constant·sqrt(mu)·sinh(F·ψ/2RT)` within `convergence_tolerance` (C/m², absolute — the tolerance of the code) -/
theorem gate_surface_ddl (f : TransFns Rat) (step : State Rat → State Rat) (n : Nat) (s s' : State Rat) :
    letI := ratOps f
    runModel step n s = some s' → ∀ g a la fs, Row.ddl g a la fs ∈ s'.rows → s'.env.minRel < g → 0 ≤ s'.env.minRel →
      (-(s'.env.tol) ≤ gcSigmaX s'.env.epsr s'.env.tk s'.env.mu (la * LOG_10) - sigmaOfCharge fs a g ∧
       gcSigmaX s'.env.epsr s'.env.tk s'.env.mu (la * LOG_10) - sigmaOfCharge fs a g ≤ s'.env.tol) := by
  intro h g a la fs hr hg h0
  letI := ratOps f
  have hp := charge_pass f s'.env (Row.ddl g a la fs) (by intro m x hx; cases hx) (gate_rows step n s s' h _ hr).1 hg
  have hg0 : ¬ (g ≤ 0 ∧ 0 ≤ g) := by grind
  simp only [Row.resid, NumOps.lit, NumOps.ofRat, id_eq, hg0, if_false, residDDL, sigmaOfCharge] at hp ⊢
  exact hp

/-- **gate_surface** (constant-capacitance row): `|C·ψ − σ(species)| ≤ tol` -/
theorem gate_surface_ccm (f : TransFns Rat) (step : State Rat → State Rat) (n : Nat) (s s' : State Rat) :
    letI := ratOps f
    runModel step n s = some s' → ∀ g a c la fs, Row.ccm g a c la fs ∈ s'.rows → s'.env.minRel < g → 0 ≤ s'.env.minRel →
      (-(s'.env.tol) ≤ ccmSigmaLa c s'.env.tk la - sigmaOfCharge fs a g ∧
       ccmSigmaLa c s'.env.tk la - sigmaOfCharge fs a g ≤ s'.env.tol) := by
  intro h g a c la fs hr hg h0
  letI := ratOps f
  have hp := charge_pass f s'.env (Row.ccm g a c la fs) (by intro m x hx; cases hx) (gate_rows step n s s' h _ hr).1 hg
  have hg0 : ¬ (g ≤ 0 ∧ 0 ≤ g) := by grind
  simp only [Row.resid, NumOps.lit, NumOps.ofRat, id_eq, hg0, if_false, residCCM, sigmaOfCharge] at hp ⊢
  exact hp

/-- **gate_surface** (CD-MUSIC rows and every other charge row, given by its residual) -/
theorem gate_surface_cb (f : TransFns Rat) (step : State Rat → State Rat) (n : Nat) (s s' : State Rat) :
    letI := ratOps f
    runModel step n s = some s' → ∀ g res, Row.cb g res ∈ s'.rows → s'.env.minRel < g →
      (-(s'.env.tol) ≤ res ∧ res ≤ s'.env.tol) := by
  intro h g res hr hg
  letI := ratOps f
  exact charge_pass f s'.env (Row.cb g res) (by intro m x hx; cases hx) (gate_rows step n s s' h _ hr).1 hg

/-! ## 2. the potential factor: rewritten equation with the psi token ⇔ electrostatic mass-action law -/

/-- **potential_factor_mass_action** (DDL and CCM).  Let `laPsi` be the log activity of the potential master species and
`ψ = laPsi·2·R·T·ln10/F` the potential the program reports.  The equation that `add_potential_factor` builds — the
database tokens plus the token `X_psi` with coefficient `-2·Δz` — evaluated as `molalities` does (`lm = lk − lg + Σ coef·la`)
gives exactly the electrostatic mass-action law `log a = log K + Σ ν·log a_j − Δz·F·ψ/(R·T·ln10)`, `a = γ·m` with
`lg = log10(equiv/sites)` -/
theorem potential_factor_mass_action (f : TransFns Rat) (lk lg tk laPsi dz : Rat) (toks : List (Tok Rat))
    (htk : tk ≠ 0) (hL : f.ln 10 ≠ 0) :
    letI := ratOps f
    lmOf lk lg (toks ++ [⟨-(2 : Rat) * dz, laPsi⟩]) + lg
      = laLaw lk (electroTerm tk dz (psiOfLa tk laPsi)) toks := by
  simp only [lmOf, laLaw, List.foldl_append, List.foldl_cons, List.foldl_nil, electroTerm, psiOfLa, F_KJ_V_EQ,
    R_KJ_DEG_MOL, LOG_10, NumOps.lit, NumOps.ln, NumOps.ofRat, id_eq]
  have h1 : lk - lg = lk + (-lg) := by grind
  rw [h1, foldl_tok_shift]
  have hL' : (ratOps f).fns.ln 10 ≠ 0 := hL
  grind

/-- the coefficient `add_potential_factor` computes is `-2·Δz` with `Δz = Σ coef·z` over the aqueous tokens -/
theorem psiCoef_eq (f : TransFns Rat) (aq : List (Rat × Rat)) :
    letI := ratOps f
    psiCoef aq = -(2 : Rat) * aq.foldl (fun acc cz => acc + cz.2 * cz.1) 0 := by
  simp only [psiCoef, NumOps.lit, NumOps.ofRat, id_eq]

/-- **potential_factor_mass_action** (CD-MUSIC).  Three potential masters with `la_k = −F·ψ_k/(R·T·ln10)` and the
coefficients `Δz0 Δz1 Δz2` that `add_cd_music_factors` appends give
`log a = log K + Σ ν·log a_j − (Δz0·ψ0 + Δz1·ψ1 + Δz2·ψ2)·F/(R·T·ln10)` -/
theorem cd_music_factor_mass_action (f : TransFns Rat) (lk lg tk la0 la1 la2 dz0 dz1 dz2 : Rat) (toks : List (Tok Rat))
    (htk : tk ≠ 0) (hL : f.ln 10 ≠ 0) :
    letI := ratOps f
    lmOf lk lg (toks ++ [⟨dz0, la0⟩, ⟨dz1, la1⟩, ⟨dz2, la2⟩]) + lg
      = laLaw lk (electroTermCD tk dz0 dz1 dz2 (psiOfLaCD tk la0) (psiOfLaCD tk la1) (psiOfLaCD tk la2)) toks := by
  simp only [lmOf, laLaw, List.foldl_append, List.foldl_cons, List.foldl_nil, electroTermCD, psiOfLaCD, F_KJ_V_EQ,
    R_KJ_DEG_MOL, LOG_10, NumOps.lit, NumOps.ln, NumOps.ofRat, id_eq]
  have h1 : lk - lg = lk + (-lg) := by grind
  rw [h1, foldl_tok_shift]
  have hL' : (ratOps f).fns.ln 10 ≠ 0 := hL
  grind

/-- the two read-outs of a CD-MUSIC potential agree (`cd_psi` of `residuals` = EDL("psi")) -/
theorem cdPsi_eq_readout (f : TransFns Rat) (tk la : Rat) :
    letI := ratOps f
    cdPsi tk la = psiOfLaCD tk la := by
  simp only [cdPsi, psiOfLaCD, F_KJ_V_EQ, R_KJ_DEG_MOL, LOG_10, NumOps.lit, NumOps.ln, NumOps.ofRat, id_eq]
  grind

/-- the reduced half potential of the reported ψ is the quantity the code feeds to `sinh`: `F·ψ/(2RT) = la·LOG_10` -/
theorem halfReduced_readout (f : TransFns Rat) (tk la : Rat) (htk : tk ≠ 0) :
    letI := ratOps f
    halfReduced tk (psiOfLa tk la) = la * LOG_10 := by
  simp only [halfReduced, psiOfLa, F_KJ_V_EQ, R_KJ_DEG_MOL, LOG_10, NumOps.lit, NumOps.ln, NumOps.ofRat, id_eq]
  grind

/-! ## 2b. species written from a non-master parent: the rewriting rule of `trxn_add` -/

/-- the rule the model uses for the CD-MUSIC distribution of a substituted reaction is the one in the source
(`structures.cpp`, `trxn_add`: `trxn.dz[i] += coef * r.dz[i]`; the translator extracts the power of `coef`) -/
theorem source_trxn_add (f : TransFns Rat) (acc dz : Rat × Rat × Rat) (coef : Rat) :
    letI := ratOps f
    Gen.SurfConst.TRXN_DZ_COEF_POWER = 1 ∧
    trxnAddDz acc coef dz =
      (acc.1 + (Gen.SurfConst.TRXN_DZ_COEF_POWER * coef + (1 - Gen.SurfConst.TRXN_DZ_COEF_POWER)) * dz.1,
       acc.2.1 + (Gen.SurfConst.TRXN_DZ_COEF_POWER * coef + (1 - Gen.SurfConst.TRXN_DZ_COEF_POWER)) * dz.2.1,
       acc.2.2 + (Gen.SurfConst.TRXN_DZ_COEF_POWER * coef + (1 - Gen.SurfConst.TRXN_DZ_COEF_POWER)) * dz.2.2) := by
  have e : Gen.SurfConst.TRXN_DZ_COEF_POWER = 1 := by decide +kernel
  refine ⟨e, ?_⟩
  simp only [trxnAddDz, e]
  ext <;> grind

/-- **rewrite_dz**: the effective distribution of a rewritten species is its own distribution plus
`Σ coefficient × distribution of the parent` in each plane -/
theorem rewrite_dz (f : TransFns Rat) (own : Rat × Rat × Rat) (ps : List (Rat × (Rat × Rat × Rat))) :
    letI := ratOps f
    rewriteDz own ps =
      (own.1 + (ps.map fun p => p.1 * p.2.1).sum, own.2.1 + (ps.map fun p => p.1 * p.2.2.1).sum,
       own.2.2 + (ps.map fun p => p.1 * p.2.2.2).sum) := by
  induction ps generalizing own with
  | nil =>
    simp only [rewriteDz, List.foldl_nil, List.map_nil, List.sum_nil]
    ext <;> grind
  | cons p rest ih =>
    have h := ih (@trxnAddDz Rat (ratOps f) own p.1 p.2)
    simp only [rewriteDz, List.foldl_cons] at h ⊢
    rw [h]
    simp only [trxnAddDz, List.map_cons, List.sum_cons]
    ext <;> grind

/-- the electrostatic term is linear in the distribution: term(own + c·parent) = term(own) + c·term(parent) -/
theorem electro_cd_linear (f : TransFns Rat) (tk c p0 p1 p2 : Rat) (own par : Rat × Rat × Rat) :
    letI := ratOps f
    electroTermCD tk (trxnAddDz own c par).1 (trxnAddDz own c par).2.1 (trxnAddDz own c par).2.2 p0 p1 p2
      = electroTermCD tk own.1 own.2.1 own.2.2 p0 p1 p2 + c * electroTermCD tk par.1 par.2.1 par.2.2 p0 p1 p2 := by
  simp only [electroTermCD, trxnAddDz, F_KJ_V_EQ, R_KJ_DEG_MOL, LOG_10, NumOps.lit, NumOps.ln, NumOps.ofRat, id_eq]
  grind

/-- **chain_mass_action**: a species that obeys its mass-action law AS WRITTEN (from a parent, with its own
`-cd_music` numbers) while the parent obeys its own law, obeys the law written from the master with the summed log K and
the rewritten distribution — and conversely this is the only distribution for which both readings agree -/
theorem chain_mass_action (f : TransFns Rat) (tk c p0 p1 p2 lk lkp sRest sPar laSp laPar : Rat) (own par : Rat × Rat × Rat)
    (hpar : letI := ratOps f; laPar = lkp + sPar + electroTermCD tk par.1 par.2.1 par.2.2 p0 p1 p2)
    (hsp : letI := ratOps f; laSp = lk + c * laPar + sRest + electroTermCD tk own.1 own.2.1 own.2.2 p0 p1 p2) :
    letI := ratOps f
    laSp = (lk + c * lkp) + (c * sPar + sRest) +
      electroTermCD tk (trxnAddDz own c par).1 (trxnAddDz own c par).2.1 (trxnAddDz own c par).2.2 p0 p1 p2 := by
  have h := electro_cd_linear f tk c p0 p1 p2 own par
  rw [h, hsp, hpar]
  grind

/-! ## 3. Gouy–Chapman: σ is odd and strictly increasing in ψ -/

/-- **gc_odd_monotone** (odd): `σ(−ψ) = −σ(ψ)` for any `sinh` that is odd -/
theorem gc_odd (f : TransFns Rat) (epsr tk mu psi : Rat) (hodd : ∀ x, f.sinh (-x) = -f.sinh x) :
    letI := ratOps f
    gcSigma epsr tk mu (-psi) = -gcSigma epsr tk mu psi := by
  simp only [gcSigma, gcSigmaX, halfReduced, NumOps.sinh, F_KJ_V_EQ, R_KJ_DEG_MOL, NumOps.lit, NumOps.ofRat, id_eq]
  have : (964935 / 10000 : Rat) * -psi / (2 * (83147 / 10000000) * tk) = -((964935 / 10000 : Rat) * psi / (2 * (83147 / 10000000) * tk)) := by
    grind
  rw [this]
  have h := hodd ((964935 / 10000 : Rat) * psi / (2 * (83147 / 10000000) * tk))
  have h' : (ratOps f).fns.sinh (-((964935 / 10000 : Rat) * psi / (2 * (83147 / 10000000) * tk))) =
      -(ratOps f).fns.sinh ((964935 / 10000 : Rat) * psi / (2 * (83147 / 10000000) * tk)) := h
  rw [h']
  grind

/-- **gc_odd_monotone** (strictly increasing): for `T > 0`, positive `sinh_constant` and `sqrt(mu)`, and any strictly
increasing `sinh`, `ψ₁ < ψ₂ → σ(ψ₁) < σ(ψ₂)` -/
theorem gc_strict_mono (f : TransFns Rat) (epsr tk mu p q : Rat) (htk : 0 < tk)
    (hmono : ∀ x y, x < y → f.sinh x < f.sinh y)
    (hk : letI := ratOps f; 0 < sinhConstant epsr tk) (hmu : 0 < f.sqrt mu) (h : p < q) :
    letI := ratOps f
    gcSigma epsr tk mu p < gcSigma epsr tk mu q := by
  letI := ratOps f
  have hx := halfReduced_mono f tk p q htk h
  have hs := hmono _ _ hx
  simp only [gcSigma, gcSigmaX, NumOps.sinh, NumOps.sqrt]
  have hpos : 0 < sinhConstant epsr tk * (ratOps f).fns.sqrt mu := Rat.mul_pos hk hmu
  exact Rat.mul_lt_mul_of_pos_left hs hpos

/-- hence the potential is determined by the charge density: the Gouy–Chapman law is injective in ψ -/
theorem gc_injective (f : TransFns Rat) (epsr tk mu p q : Rat) (htk : 0 < tk)
    (hmono : ∀ x y, x < y → f.sinh x < f.sinh y)
    (hk : letI := ratOps f; 0 < sinhConstant epsr tk) (hmu : 0 < f.sqrt mu) :
    letI := ratOps f
    gcSigma epsr tk mu p = gcSigma epsr tk mu q → p = q := by
  intro heq
  by_cases hlt : p < q
  · have := gc_strict_mono f epsr tk mu p q htk hmono hk hmu hlt
    rw [heq] at this; exact absurd this (Rat.lt_irrefl)
  · by_cases hgt : q < p
    · have := gc_strict_mono f epsr tk mu q p htk hmono hk hmu hgt
      rw [heq] at this; exact absurd this (Rat.lt_irrefl)
    · grind

/-- an odd law vanishes at ψ = 0 (point of zero charge ⇔ zero potential) -/
theorem gc_zero (f : TransFns Rat) (epsr tk mu : Rat) (hodd : ∀ x, f.sinh (-x) = -f.sinh x) :
    letI := ratOps f
    gcSigma epsr tk mu 0 = 0 := by
  have h := gc_odd f epsr tk mu 0 hodd
  simp only [Rat.neg_zero] at h
  grind

/-- the residual of the DDL row vanishes exactly when the species' charge density equals the law at the reported ψ -/
theorem ddl_resid_zero_iff (f : TransFns Rat) (epsr tk mu la fs a g : Rat) (htk : tk ≠ 0) :
    letI := ratOps f
    residDDL epsr tk mu la fs a g = 0 ↔ sigmaOfCharge fs a g = gcSigma epsr tk mu (psiOfLa tk la) := by
  letI := ratOps f
  have hh := halfReduced_readout f tk la htk
  simp only [residDDL, sigmaOfCharge, gcSigma]
  rw [hh]
  constructor <;> intro h <;> grind

/-! ## 4. constant capacitance: σ = C·ψ -/

/-- the CCM law as coded is `C·ψ` at the reported potential -/
theorem ccm_readout (f : TransFns Rat) (cap tk la : Rat) :
    letI := ratOps f
    ccmSigmaLa cap tk la = ccmSigma cap (psiOfLa tk la) := by
  simp only [ccmSigmaLa, ccmSigma, psiOfLa, F_KJ_V_EQ, R_KJ_DEG_MOL, LOG_10, NumOps.lit, NumOps.ln, NumOps.ofRat, id_eq]
  grind

/-- **ccm_linear**: the constant-capacitance law is linear in ψ -/
theorem ccm_linear (f : TransFns Rat) (cap a b p q : Rat) :
    letI := ratOps f
    ccmSigma cap (a * p + b * q) = a * ccmSigma cap p + b * ccmSigma cap q := by
  simp only [ccmSigma]
  grind

/-- with `C > 0` it is strictly increasing, so ψ = σ/C is determined by σ -/
theorem ccm_strict_mono (f : TransFns Rat) (cap p q : Rat) (hc : 0 < cap) (h : p < q) :
    letI := ratOps f
    ccmSigma cap p < ccmSigma cap q := by
  simp only [ccmSigma]
  exact Rat.mul_lt_mul_of_pos_left h hc

theorem ccm_resid_zero_iff (f : TransFns Rat) (cap tk la fs a g : Rat) :
    letI := ratOps f
    residCCM cap tk la fs a g = 0 ↔ sigmaOfCharge fs a g = ccmSigma cap (psiOfLa tk la) := by
  letI := ratOps f
  have hh := ccm_readout f cap tk la
  simp only [residCCM, sigmaOfCharge]
  rw [hh]
  constructor <;> intro h <;> grind

/-! ## 5. CD-MUSIC: plane charges and capacitances -/

/-- **cdmusic_charge_sum**.  When the three rows are within `tol`: the plane charges and the diffuse-layer charge sum to
zero within `tol`, and the two capacitor relations hold within `tol`; eliminating ψ₁ (exact rows):
`ψ₀ − ψ₂ = σ₀/C₁ + (σ₀+σ₁)/C₂` -/
theorem cdmusic_charge_sum (f : TransFns Rat) (epsr tk area grams c0 c1 la0 la1 la2 f0 f1 f2 sc tol : Rat)
    (aq : List (Rat × Rat)) :
    letI := ratOps f
    let st := cdResiduals epsr tk area grams c0 c1 la0 la1 la2 f0 f1 f2 sc aq
    (-tol ≤ st.r0 ∧ st.r0 ≤ tol) → (-tol ≤ st.r1 ∧ st.r1 ≤ tol) → (-tol ≤ st.r2 ∧ st.r2 ≤ tol) →
      (-tol ≤ st.sigma0 + st.sigma1 + st.sigma2 + st.sigmaddl ∧ st.sigma0 + st.sigma1 + st.sigma2 + st.sigmaddl ≤ tol) ∧
      (-tol ≤ st.sigma0 - c0 * (cdPsi tk la0 - cdPsi tk la1) ∧ st.sigma0 - c0 * (cdPsi tk la0 - cdPsi tk la1) ≤ tol) ∧
      (-tol ≤ (st.sigma0 + st.sigma1) - c1 * (cdPsi tk la1 - cdPsi tk la2) ∧
        (st.sigma0 + st.sigma1) - c1 * (cdPsi tk la1 - cdPsi tk la2) ≤ tol) := by
  intro st h0 h1 h2
  simp only [st, cdResiduals] at h0 h1 h2 ⊢
  exact ⟨h2, h0, h1⟩

theorem cdmusic_exact (f : TransFns Rat) (epsr tk area grams c0 c1 la0 la1 la2 f0 f1 f2 sc : Rat)
    (aq : List (Rat × Rat)) (hc0 : c0 ≠ 0) (hc1 : c1 ≠ 0) :
    letI := ratOps f
    let st := cdResiduals epsr tk area grams c0 c1 la0 la1 la2 f0 f1 f2 sc aq
    st.r0 = 0 → st.r1 = 0 → st.r2 = 0 →
      st.sigma0 + st.sigma1 + st.sigma2 = -st.sigmaddl ∧
      cdPsi tk la0 - cdPsi tk la2 = st.sigma0 / c0 + (st.sigma0 + st.sigma1) / c1 := by
  intro st h0 h1 h2
  simp only [st, cdResiduals] at h0 h1 h2 ⊢
  constructor
  · grind
  · grind

/-- the plane-0 charge counts the reference charge of all sites plus the Δz₀ of the species:
`σ₀·A/F = Σ sites·z(master) + Σ Δz₀·moles` -/
theorem cdmusic_sigma0 (f : TransFns Rat) (epsr tk area grams c0 c1 la0 la1 la2 f0 f1 f2 sc : Rat)
    (aq : List (Rat × Rat)) (hA : area * grams ≠ 0) :
    letI := ratOps f
    (cdResiduals epsr tk area grams c0 c1 la0 la1 la2 f0 f1 f2 sc aq).sigma0 * (area * grams) / F_C_MOL = f0 + sc := by
  simp only [cdResiduals, F_C_MOL, NumOps.lit, NumOps.ofRat, id_eq]
  grind

/-! ## 6. explicit diffuse layer: the ion excess balances the surface charge -/

/-- **dl_charge_neutral**.  With an explicit diffuse layer the row's function is `f = q_surface + q_DL`
(`mb_for_species_surf` sums `z·moles` of the surface species, `mb_for_species_aq` sums `z·g_moles` of the diffuse
layer into the same unknown) and its residual is `−f`.  If the row passes, the diffuse-layer excess equals
`−σ·A/F` within `tol` moles of charge -/
theorem dl_charge_neutral (f : TransFns Rat) (e : Env Rat) (grams area qs qdl sigma : Rat)
    (hg : e.minRel < grams) (h0 : 0 ≤ e.minRel) (hA : area * grams ≠ 0)
    (hsig : letI := ratOps f; sigma = sigmaOfCharge qs area grams) :
    letI := ratOps f
    (Row.dl grams (qs + qdl)).fails e = false →
      (-(e.tol) ≤ qdl + sigma * (area * grams) / F_C_MOL ∧ qdl + sigma * (area * grams) / F_C_MOL ≤ e.tol) := by
  intro h
  have hp := charge_pass f e (Row.dl grams (qs + qdl)) (by intro m x hx; cases hx) h hg
  have hg0 : ¬ (grams ≤ 0 ∧ 0 ≤ grams) := by grind
  simp only [Row.resid, NumOps.lit, NumOps.ofRat, id_eq, hg0, if_false, residDL] at hp
  simp only [sigmaOfCharge, F_C_MOL, NumOps.lit, NumOps.ofRat, id_eq] at hsig ⊢
  subst hsig
  have hq : qs * (964935 / 10) / (area * grams) * (area * grams) / (964935 / 10) = qs := by grind
  rw [hq]
  grind

/-- the same through the gate of a completed `model()` call -/
theorem gate_surface_dl (f : TransFns Rat) (step : State Rat → State Rat) (n : Nat) (s s' : State Rat)
    (grams area qs qdl : Rat) :
    letI := ratOps f
    runModel step n s = some s' → Row.dl grams (qs + qdl) ∈ s'.rows → s'.env.minRel < grams → 0 ≤ s'.env.minRel →
      area * grams ≠ 0 →
      (-(s'.env.tol) ≤ qdl + sigmaOfCharge qs area grams * (area * grams) / F_C_MOL ∧
        qdl + sigmaOfCharge qs area grams * (area * grams) / F_C_MOL ≤ s'.env.tol) := by
  intro h hr hg h0 hA
  letI := ratOps f
  exact dl_charge_neutral f s'.env grams area qs qdl _ hg h0 hA rfl (gate_rows step n s s' h _ hr).1

/-! ## 6b. diffuse-layer composition: Donnan approximation (`calc_psi_avg`, `calc_all_donnan`) -/

/-- **donnan_charge_neutral**.  The quantity `calc_psi_avg` drives to zero is `surf_chrg_eq` plus the charge of the
participating ions inside the Donnan volume.  So at a root (`fd = 0`) the diffuse layer holds exactly
`−surf_chrg_eq = −A·f_sinh·sinh(F·ψ/2RT)/F`: the Donnan layer balances the Gouy–Chapman charge at the reported ψ;
within `ε` when `|fd| ≤ ε` -/
theorem donnan_charge_neutral (f : TransFns Rat) (sq ratio eps : Rat) (oc : Bool) (groups : List (Rat × Rat)) (p : Rat) :
    letI := ratOps f
    (-eps ≤ (donnanFd sq ratio oc groups p).1 ∧ (donnanFd sq ratio oc groups p).1 ≤ eps) →
      (-eps ≤ donnanCharge sq ratio oc f.exp groups p + sq ∧ donnanCharge sq ratio oc f.exp groups p + sq ≤ eps) := by
  intro h
  have e := donnanFd_fst_acc f sq ratio oc groups p sq 0
  simp only [donnanFd, NumOps.lit, NumOps.ofRat, id_eq] at h
  simp only [NumOps.lit, NumOps.ofRat, id_eq] at e
  rw [e] at h
  grind

theorem donnan_charge_neutral_exact (f : TransFns Rat) (sq ratio : Rat) (oc : Bool) (groups : List (Rat × Rat)) (p : Rat) :
    letI := ratOps f
    (donnanFd sq ratio oc groups p).1 = 0 → donnanCharge sq ratio oc f.exp groups p = -sq := by
  intro h
  have := donnan_charge_neutral f sq ratio 0 oc groups p (by constructor <;> simp [h])
  grind

/-- **Boltzmann factor**.  The Donnan excess factor `g(z) = ratio·(exp(cd_m·z·p) − 1)` means: concentration in the
layer / concentration in the free solution `= (g + ratio)/ratio = exp(cd_m·z·p)` — it depends on the charge number only -/
theorem donnan_boltzmann (f : TransFns Rat) (ratio cdm z p : Rat) (hr : ratio ≠ 0) :
    letI := ratOps f
    (donnanBoltz ratio cdm z p + ratio) / ratio = f.exp (cdm * z * p) := by
  simp only [donnanBoltz, NumOps.lit, NumOps.ofRat, id_eq, NumOps.exp]
  have e : (ratOps f).fns.exp (cdm * z * p) = f.exp (cdm * z * p) := rfl
  rw [e]; grind

/-- for any `exp` that turns sums into products: the enrichment of charge `z₁+z₂` is the product of the enrichments,
and a neutral species is not enriched (`g(0) = 0`) -/
theorem donnan_boltzmann_mul (f : TransFns Rat) (ratio cdm z1 z2 p : Rat) (hr : ratio ≠ 0)
    (hexp : ∀ a b, f.exp (a + b) = f.exp a * f.exp b) (h0 : f.exp 0 = 1) :
    letI := ratOps f
    (donnanBoltz ratio cdm (z1 + z2) p + ratio) / ratio
        = ((donnanBoltz ratio cdm z1 p + ratio) / ratio) * ((donnanBoltz ratio cdm z2 p + ratio) / ratio) ∧
    donnanBoltz ratio cdm 0 p = 0 := by
  have a := donnan_boltzmann f ratio cdm (z1 + z2) p hr
  have b := donnan_boltzmann f ratio cdm z1 p hr
  have c := donnan_boltzmann f ratio cdm z2 p hr
  constructor
  · rw [a, b, c]
    have : cdm * (z1 + z2) * p = cdm * z1 * p + cdm * z2 * p := by grind
    rw [this, hexp]
  · simp only [donnanBoltz, NumOps.lit, NumOps.ofRat, id_eq, NumOps.exp]
    have e : (ratOps f).fns.exp (cdm * 0 * p) = f.exp 0 := by
      have : cdm * 0 * p = 0 := by grind
      rw [this]; rfl
    rw [e, h0]; grind

/-- what `calc_all_donnan` stores is the Boltzmann value unless it is clipped, and the clipping keeps the content of
the layer positive: `g + ratio ≥ G_TOL·1e-3 > 0` (no negative concentrations in the layer) -/
theorem donnanG_content_pos (f : TransFns Rat) (sq ratio gtol cdm z p : Rat) (oc : Bool) (hg : 0 < gtol) :
    letI := ratOps f
    0 < donnanG sq ratio gtol cdm oc z p + ratio ∧
    (¬ (oc = true ∧ 0 < sq * z) → -ratio < donnanBoltz ratio cdm z p →
      donnanG sq ratio gtol cdm oc z p = donnanBoltz ratio cdm z p) := by
  simp only [donnanG, donnanBoltz, NumOps.lit, NumOps.ofRat, id_eq]
  constructor
  · by_cases h1 : (oc = true ∧ 0 < sq * z) <;> simp only [h1, if_true, if_false] <;> split <;> grind
  · intro h1 h2
    simp only [h1, if_false]
    split <;> grind

/-- charge carried into the layer by one species: `z·g_moles = (z·moles·erm)·(g + ratio)` — summing over the species of
one charge number gives `eq_z·(g(z) + ratio)`, the term of `donnanCharge` -/
theorem dl_species_charge (f : TransFns Rat) (z moles erm g ratio : Rat) :
    letI := ratOps f
    z * gMoles moles erm g ratio = (z * moles * erm) * (g + ratio) := by
  simp only [gMoles]; grind

/-- `k_calc` returns the tabulated `log_k` at 25 °C and follows van 't Hoff elsewhere (no analytic expression):
`log K(T) = log K₀ − ΔH·(298.15 − T)/(ln10·R·T·298.15)` -/
theorem kCalc_vant_hoff (f : TransFns Rat) (k0 dh tk : Rat) :
    letI := ratOps f
    kCalc [k0, dh, 0, 0, 0, 0, 0, 0] tk = k0 - dh * (29815 / 100 - tk) / (f.ln 10 * (tk * (83147 / 10000000)) * (29815 / 100)) ∧
    kCalc [k0, dh, 0, 0, 0, 0, 0, 0] (29815 / 100) = k0 := by
  simp only [kCalc, LOG_10, R_KJ_DEG_MOL, NumOps.lit, NumOps.ln, NumOps.log10, NumOps.ofRat, id_eq]
  have e : (ratOps f).fns.ln 10 = f.ln 10 := rfl
  rw [e]
  constructor <;> grind

/-! ## 6c. sites related to a kinetic reactant over a history of calculations -/

/-- **site_drift_bound**: after `n` calculations the sites differ from `proportion × amount of the reactant` by at most
the initial difference plus `n·tolS` — the bound the check applies to kinetic-related surfaces over histories -/
theorem site_drift_bound (prop tolS : Rat) (steps : List (Rat × Rat)) (s m : Rat) (h : followsSteps prop tolS s m steps) :
    (s - prop * m) - steps.length * tolS ≤ (finalOf s m steps).2 - prop * (finalOf s m steps).1 ∧
    (finalOf s m steps).2 - prop * (finalOf s m steps).1 ≤ (s - prop * m) + steps.length * tolS := by
  induction steps generalizing s m with
  | nil => simp only [finalOf, List.length_nil]; grind
  | cons st rest ih =>
    obtain ⟨h1, h2⟩ := h
    have := ih st.2 st.1 h2
    simp only [finalOf, List.length_cons]
    have hc : ((rest.length + 1 : Nat) : Rat) = (rest.length : Rat) + 1 := by simp
    rw [hc]
    grind

example : followsSteps (1 / 5) (1 / 1000) (8 / 10) 4 [(5 / 2, 1 / 2), (1, 2001 / 10000)] := by
  simp only [followsSteps]; decide +kernel
example : (finalOf (8 / 10) 4 [(5 / 2, 1 / 2), (1, 2001 / 10000)]) = (1, 2001 / 10000) := by decide +kernel

/-! ## 7. activity convention of surface species -/

/-- `moles = 10^lm` and `lg = log10(equiv/sites)`: the log activity `lm + lg` the mass-action law speaks about is the
log of the equivalent fraction `equiv·moles/sites` whenever `log10` turns products into sums -/
theorem surface_activity_fraction (f : TransFns Rat) (equiv sites moles lm : Rat) (hs : 0 < sites)
    (hlog : ∀ x y, f.log10 (x * y) = f.log10 x + f.log10 y) (hm : f.log10 moles = lm) :
    letI := ratOps f
    lm + lgSurf equiv sites = log10 (moles * (equiv / sites)) := by
  simp only [lgSurf, NumOps.lit, NumOps.ofRat, id_eq, hs, if_true, NumOps.log10]
  have := hlog moles (equiv / sites)
  have h2 : (ratOps f).fns.log10 (moles * (equiv / sites)) = f.log10 moles + f.log10 (equiv / sites) := this
  rw [h2, hm]
  rfl

/-! ## 8. non-vacuity: concrete instances -/

/-- a concrete interpretation of the function symbols (any odd strictly increasing `sinh`, positive `sqrt`) -/
def toyFns : TransFns Rat where
  log10 := fun x => x
  exp10 := fun x => x
  ln := fun _ => 23 / 10
  exp := fun x => 1 + x
  sqrt := fun x => x
  sinh := fun x => x
  cos := fun x => x
  acos := fun x => x
  cbrt := fun x => x
  floor := fun x => x

/-- a solver step that repairs the site sum but not the charge row, then the charge row -/
def toyEnv : Env Rat := { tol := 1 / 100000000, ineqTol := 1 / 1000000000000000, minRel := 0, epsr := 78, tk := 298, mu := 1 / 100 }
def toyStart : State Rat := letI := ratOps toyFns; { env := toyEnv, rows := [Row.site (2 / 10000) (1 / 10000), Row.dl (9 / 100) (1 / 1000)], other := true }
def toyStep (s : State Rat) : State Rat := letI := ratOps toyFns
  { s with rows := s.rows.map fun r => match r with
      | .site m fs => if fs = m then Row.site m fs else Row.site m m
      | .dl g fs => if fs = 0 then Row.dl g fs else Row.dl g (fs / 100000000)
      | r => r }

-- the start state is not converged, one step is not enough, two steps are; the gate theorem applies to the result
example : letI := ratOps toyFns; converged toyStart = false := by decide +kernel
example : letI := ratOps toyFns; (runModel toyStep 0 toyStart).isSome = false := by decide +kernel
example : letI := ratOps toyFns; (runModel toyStep 1 toyStart).isSome = true := by decide +kernel
example : letI := ratOps toyFns; converged (toyStep toyStart) = true := by decide +kernel
-- a row that is off by 2e-8 relative fails, one that is off by 0.5e-8 passes
example : letI := ratOps toyFns; (Row.site (1 : Rat) (1 - 2 / 100000000)).fails toyEnv = true := by decide +kernel
example : letI := ratOps toyFns; (Row.site (1 : Rat) (1 - 1 / 200000000)).fails toyEnv = false := by decide +kernel
-- the sub-ineq_tol exemption is real: 1e-16 off on 1e-9 mol of sites (1e-7 relative) still passes
example : letI := ratOps toyFns; (Row.site (1 / 1000000000 : Rat) (1 / 1000000000 - 1 / 10000000000000000)).fails toyEnv = false := by decide +kernel
-- mass action with the potential token: Hfo_wOH + H+ = Hfo_wOH2+ (Δz = 1), both sides evaluate to the same number
example : letI := ratOps toyFns;
    lmOf (729 / 100 : Rat) (37 / 10) ([⟨1, -7⟩, ⟨1, -13 / 100⟩] ++ [⟨-(2 : Rat) * 1, 56 / 100⟩]) + 37 / 10
      = laLaw (729 / 100 : Rat) (electroTerm 298 1 (psiOfLa 298 (56 / 100))) [⟨1, -7⟩, ⟨1, -13 / 100⟩] := by decide +kernel
example : letI := ratOps toyFns; lmOf (729 / 100 : Rat) (37 / 10) [⟨1, -7⟩, ⟨1, -13 / 100⟩, ⟨-2, 56 / 100⟩] = -466 / 100 := by decide +kernel
-- Gouy–Chapman: odd and increasing on concrete numbers
example : letI := ratOps toyFns; gcSigma (78 : Rat) 298 (1 / 100) (1 / 10) < gcSigma (78 : Rat) 298 (1 / 100) (2 / 10) := by decide +kernel
example : letI := ratOps toyFns; gcSigma (78 : Rat) 298 (1 / 100) (-(1 / 10)) = -gcSigma (78 : Rat) 298 (1 / 100) (1 / 10) := by decide +kernel
example : letI := ratOps toyFns; (0 : Rat) < sinhConstant 78 298 := by decide +kernel
-- CD-MUSIC: a state with exact rows
example : letI := ratOps toyFns;
    let st := cdResiduals (78 : Rat) 298 (964935 / 10) 1 1 5
      (-(964935 / 10000) / ((23 / 10) * (83147 / 10000000) * 298)) 0 0 (3 / 2) (-1) 0 (-1 / 2)
      ([(1 / 100, 1), (1 / 100, -1)] : List (Rat × Rat))
    st.r0 = 0 ∧ st.r1 = 0 ∧ st.r2 = 0 ∧ st.sigma0 = 1 ∧ st.sigma1 = -1 ∧ cdPsi (298 : Rat) (-(964935 / 10000) / ((23 / 10) * (83147 / 10000000) * 298)) = 1 := by
  decide +kernel
-- constant capacitance
example : letI := ratOps toyFns; ccmSigma (12 / 10 : Rat) (5 / 100) = 6 / 100 := by decide +kernel

-- Donnan layer: 1:1 electrolyte, the root of calc_psi_avg's function and the charge it puts into the layer
example : letI := ratOps toyFns;
    (donnanFd (1 / 1000 : Rat) (1 / 10) false [(1, 1 / 100), (0, 0), (-1, -(1 / 100))] (1 / 2)).1 = 0 ∧
    donnanCharge (1 / 1000) (1 / 10) false toyFns.exp [(1, 1 / 100), (0, 0), (-1, -(1 / 100))] (1 / 2) = -(1 / 1000) := by
  decide +kernel
-- -only_counter_ions leaves the co-ion group out and clips its factor to -ratio + G_TOL/1000
example : letI := ratOps toyFns;
    donnanG (1 / 1000 : Rat) (1 / 10) (1 / 1000000000) (-1) true 1 (1 / 2) = -(1 / 10) + 1 / 1000000000000 ∧
    donnanG (1 / 1000 : Rat) (1 / 10) (1 / 1000000000) (-1) true (-1) (1 / 2) = donnanBoltz (1 / 10) (-1) (-1) (1 / 2) := by
  decide +kernel
-- an `exp` with exp(a+b) = exp a · exp b exists on Rat (hypothesis of donnan_boltzmann_mul is satisfiable)
example : ∃ f : TransFns Rat, (∀ a b, f.exp (a + b) = f.exp a * f.exp b) ∧ f.exp 0 = 1 :=
  ⟨{ toyFns with exp := fun _ => 1 }, by intro a b; show (1 : Rat) = 1 * 1; decide +kernel, rfl⟩
example : letI := ratOps toyFns; kCalc [(729 / 100 : Rat), 10, 0, 0, 0, 0, 0, 0] (29815 / 100) = 729 / 100 := by decide +kernel

-- bidentate phosphate written from the protonated site: own (−1.38, −1.62, 0), parent (1, 0, 0) twice
example : @rewriteDz Rat (ratOps toyFns) ((-138 / 100 : Rat), (-162 / 100 : Rat), (0 : Rat)) [(2, (1, 0, 0))]
    = (62 / 100, -162 / 100, 0) := by decide +kernel
-- a chain of depth two: the protonated bidentate written from the bidentate
example : @rewriteDz Rat (ratOps toyFns) ((0 : Rat), (1 : Rat), (0 : Rat))
    [(1, @rewriteDz Rat (ratOps toyFns) ((-138 / 100 : Rat), (-162 / 100 : Rat), (0 : Rat)) [(2, (1, 0, 0))])]
      = (62 / 100, -62 / 100, 0) := by decide +kernel

end PhreeqcVerif.Surface
