"""C16 — activity-coefficient models follow their defining equations and Gibbs-Duhem.

(1) proof obligations: Properties/C16.lean (model selection total and exclusive, log gamma = 0 at I = 0, dependence on
    z^2 only, convexity of the LLNL grid interpolation, Gibbs-Duhem / Euler identities of the constant-coefficient virial
    part for every parameter list and composition, a_w from phi);
(2) ion-association databases: every species of every generated solution — the LG("...") read-out of the real run against
    the Float execution of Model/Gamma.lean at the reported MU, DH_A, DH_B, twice: (A) with the parameters the engine holds
    (friend access: gflag, z, dha, dhb, LLNL arrays) and (B) with the model selected by the Lean rule from this module's
    own parse of the database text (charge from the name, -gamma / -llnl_gamma / -co2_llnl_gamma / -activity_water, LLNL
    grid); tolerance 1e-9;
(3) Pitzer / SIT databases: (i) the engine's pitzer()/sit() working arrays (and direct in-process evaluations on random
    molalities / parameters) against Model/Pitzer.lean; (ii) the property's thermodynamic oracles on real outputs:
    Gibbs-Duhem integrated along composition paths (relative 1e-4, Richardson-extrapolated Stieltjes sums with a
    convergence guard) and ACT("H2O") = exp(-M_w phi sum m) (1e-5).
"""
import concurrent.futures
import math
import os
import re
import shutil
import struct
import time
from pathlib import Path

import vlib
import gen_pitzer
from gens import gamma as G

LN10 = math.log(10.0)
MW = 1.0 / 55.50837     # kg/mol: the molar mass of water the engine uses (moles of water per kg = 55.50837)
TOL_LG = 1e-9
TOL_GD = 1e-4
TOL_AW = 1e-5

IA_DBS = ["phreeqc.dat", "wateq4f.dat", "llnl.dat", "minteq.v4.dat", "minteq.dat", "Amm.dat", "phreeqc_rates.dat",
          "core10.dat", "Tipping_Hurley.dat", "iso.dat"]
IA_QUICK = ["phreeqc.dat", "wateq4f.dat", "llnl.dat", "minteq.v4.dat", "Amm.dat", "minteq.dat"]
PZ_DBS = [("pitzer.dat", None), ("sit.dat", None), ("frezchem.dat", None), ("ColdChem.dat", None), ("pitzer.dat", "Concrete_PZ.dat")]


PM = {"path": None}


def pm_setup(ctx):
    """private copy of the freshly built `pmodel` (another check's `lake build` may relink the shared binary while
    this check is running)"""
    dst = vlib.BUILD / f"pmodel-c16-{os.getpid()}"
    for _ in range(90):
        try:
            shutil.copy2(ctx.pmodel_path(), dst)
            PM["path"] = dst
            return
        except OSError:
            time.sleep(1.0)
    PM["path"] = None


def pm_done():
    if PM["path"] is not None:
        try:
            os.unlink(PM["path"])
        except OSError:
            pass
        PM["path"] = None


def pmodel(ctx, text):
    if PM["path"] is None:
        return ctx.pmodel("gamma", text)
    r = vlib.sh([str(PM["path"]), "gamma"], input=text, timeout=600)
    if r.returncode:
        raise RuntimeError("pmodel gamma failed: " + r.stderr[-1000:])
    return r.stdout.splitlines()


def hexd(v):
    return struct.pack(">d", float(v)).hex()


def unhex(h):
    return struct.unpack(">d", bytes.fromhex(h))[0]


def hs(s):
    return s.encode().hex() if s else "-"


# ------------------------------------------------------------------------------------------------ database text parser
KEYWORDS = {"SOLUTION_SPECIES", "SOLUTION_MASTER_SPECIES", "PHASES", "EXCHANGE_SPECIES", "EXCHANGE_MASTER_SPECIES",
            "SURFACE_SPECIES", "SURFACE_MASTER_SPECIES", "RATES", "PITZER", "SIT", "LLNL_AQUEOUS_MODEL_PARAMETERS",
            "NAMED_EXPRESSIONS", "END", "PRINT", "SELECTED_OUTPUT", "USER_PRINT", "USER_PUNCH", "USER_GRAPH",
            "CALCULATE_VALUES", "ISOTOPES", "ISOTOPE_RATIOS", "ISOTOPE_ALPHAS", "MEAN_GAMMAS", "GAS_BINARY_PARAMETERS",
            "RATE_PARAMETERS_PK", "RATE_PARAMETERS_SVD", "RATE_PARAMETERS_HERMANSKA", "TITLE", "KNOBS", "SOLUTION",
            "SOLUTION_SPREAD", "EQUILIBRIUM_PHASES", "REACTION", "MIX", "USE", "SAVE", "KINETICS", "GAS_PHASE",
            "SOLID_SOLUTIONS", "SURFACE", "EXCHANGE", "TRANSPORT", "ADVECTION", "INVERSE_MODELING", "DATABASE",
            "INCLUDE$", "REACTION_TEMPERATURE", "REACTION_PRESSURE", "INCREMENTAL_REACTIONS", "COPY", "DELETE", "RUN_CELLS",
            "DUMP", "SOLUTION_MASTER", "MASTER_SPECIES", "SPECIES"}
SPECIES_OPTS = ["no_check", "check", "gamma", "mb", "mass_balance", "log_k", "logk", "delta_h", "deltah",
                "analytical_expression", "a_e", "ae", "mole_balance", "llnl_gamma", "co2_llnl_gamma", "activity_water",
                "add_logk", "add_log_k", "add_constant", "dw", "erm_ddl", "millero", "vm", "viscosity"]
LLNL_OPTS = ["temperatures", "temperature", "temp", "adh", "debye_huckel_a", "dh_a", "bdh", "debye_huckel_b", "dh_b",
             "bdot", "b_dot", "c_co2", "co2_coefs"]
LLNL_KEY = {0: "temps", 1: "temps", 2: "temps", 3: "adh", 4: "adh", 5: "adh", 6: "bdh", 7: "bdh", 8: "bdh", 9: "bdot",
            10: "bdot", 11: "co2", 12: "co2"}
PITZER_OPTS = ["b0", "b1", "b2", "c0", "theta", "lamda", "zeta", "psi", "macinnes", "macinnis", "mac", "redox", "pe", "alphas",
               "mu", "eta", "etheta", "use_etheta", "lambda", "aphi"]
SIT_OPTS = ["epsilon", "epsilon1"]
PZ_NSPECIES = {"b0": 2, "b1": 2, "b2": 2, "c0": 2, "theta": 2, "lamda": 2, "lambda": 2, "alphas": 2, "zeta": 3, "psi": 3, "mu": 3,
               "eta": 3, "epsilon": 2, "epsilon1": 2}
# pitz_param_type numbers of the engine (global_structures.h)
PZ_TYPE = {"b0": 0, "b1": 1, "b2": 2, "c0": 3, "theta": 4, "lamda": 5, "lambda": 5, "zeta": 6, "psi": 7, "alphas": 9, "mu": 10,
           "eta": 11, "epsilon": 13, "epsilon1": 14}
NUM = re.compile(r"^[+-]?(\d+\.?\d*|\.\d+)([eEdD][+-]?\d+)?")


def find_option(tok, opts, dashed):
    """the reader's option matcher: with a dash a case-folded prefix (first match), without a dash the whole word"""
    t = tok.lower()
    if dashed:
        t = t[1:]
        if not t:
            return None
        for i, o in enumerate(opts):
            if o.startswith(t):
                return i
        return None
    for i, o in enumerate(opts):
        if o == t:
            return i
    return None


def scan_numbers(words, n):
    """sscanf("%lf %lf"): numbers scanned before the first failure (at most n)"""
    out = []
    for w in words[:n]:
        m = NUM.match(w)
        if not m:
            break
        try:
            out.append(float(m.group(0).replace("d", "e").replace("D", "e")))
        except ValueError:
            break
        if m.end() != len(w):      # trailing junk stops the scan after this number
            break
    return out


def name_charge(name):
    """charge written in a species name: first '+' or '-' outside brackets starts the charge"""
    depth = 0
    for i, c in enumerate(name):
        if c == "[":
            depth += 1
        elif c == "]":
            depth -= 1
        elif c in "+-" and depth == 0 and i > 0:
            tail = name[i:]
            if re.fullmatch(r"\++|-+", tail):
                return float(len(tail)) * (1 if c == "+" else -1)
            m = re.fullmatch(r"[+-](\d+\.?\d*|\.\d+)", tail)
            if m:
                return float(tail)
            return None
    return 0.0


def logical_lines(path):
    """comment stripping, ';' splitting, '\\' continuation — up to the first END (read_database stops there)"""
    out = []
    pend = ""
    for raw in Path(path).read_text(errors="replace").splitlines():
        line = raw.split("#", 1)[0]
        if line.rstrip().endswith("\\"):
            pend += line.rstrip()[:-1] + " "
            continue
        line = pend + line
        pend = ""
        for part in line.split(";"):
            part = part.strip()
            if part:
                out.append(part)
    return out


class DbText:
    """what this module reads from the database text on its own: species with charge and gamma-type options, primary
    master elements, the LLNL_AQUEOUS_MODEL_PARAMETERS grid"""

    def __init__(self, path):
        self.species = {}      # name -> dict(z=, opts=[lean option tokens], special=)
        self.order = []
        self.elements = []     # SOLUTION_MASTER_SPECIES element names
        self.llnl = {"temps": [], "adh": [], "bdh": [], "bdot": [], "co2": []}
        self.kinds = set()
        block = None
        cur = None
        lkey = None
        pkey = None
        self.pitzer = {}       # (engine type number, sorted set of species names) -> a[0..5]
        self.parse(path)

    def parse(self, path):
        """(also used for a file run on top of the database, e.g. Concrete_PZ.dat: later definitions replace earlier ones)"""
        block = None
        cur = None
        lkey = None
        pkey = None
        for line in logical_lines(path):
            w = line.split()
            kw = w[0].upper()
            if kw in KEYWORDS:
                if kw == "END":
                    break
                block = kw
                self.kinds.add(kw)
                cur = None
                lkey = None
                pkey = None
                continue
            if block == "SOLUTION_MASTER_SPECIES":
                if len(w) >= 2:
                    self.elements.append(w[0])
            elif block == "SOLUTION_SPECIES":
                dashed = w[0].startswith("-")
                oi = find_option(w[0], SPECIES_OPTS, dashed)
                if oi is None and not dashed:
                    if "=" not in line:
                        continue
                    rhs = line.split("=", 1)[1].split()
                    if not rhs:
                        continue
                    tok = rhs[0]
                    if NUM.fullmatch(tok) and len(rhs) > 1:
                        tok = rhs[1]
                    else:
                        m = NUM.match(tok)
                        if m and m.end() < len(tok) and not tok[m.end()] in "+-":
                            tok = tok[m.end():]
                    cur = tok
                    z = name_charge(tok)
                    self.species[tok] = {"z": z, "opts": [], "special": "e" if tok == "e-" else ("w" if tok == "H2O" else "n")}
                    if tok not in self.order:
                        self.order.append(tok)
                elif oi is not None and cur is not None:
                    o = SPECIES_OPTS[oi]
                    rest = w[1:]
                    if o == "gamma":
                        v = scan_numbers(rest, 2)
                        self.species[cur]["opts"].append("g:%s:%s" % (hexd(v[0]) if len(v) > 0 else "-", hexd(v[1]) if len(v) > 1 else "-"))
                    elif o == "llnl_gamma":
                        v = scan_numbers(rest, 1)
                        self.species[cur]["opts"].append("l:%s" % (hexd(v[0]) if v else "-"))
                    elif o == "co2_llnl_gamma":
                        self.species[cur]["opts"].append("c")
                    elif o == "activity_water":
                        self.species[cur]["opts"].append("w")
            elif block in ("PITZER", "SIT"):
                opts = PITZER_OPTS if block == "PITZER" else SIT_OPTS
                rest = w
                if w[0].startswith("-") and not NUM.match(w[0]):
                    oi = find_option(w[0], opts, True)
                    pkey = opts[oi] if oi is not None else None
                    rest = w[1:]
                nsp = PZ_NSPECIES.get(pkey)
                if nsp is not None and len(rest) > nsp:
                    vals = scan_numbers(rest[nsp:], 6)
                    if vals:
                        typ = PZ_TYPE[pkey]
                        self.pitzer[(typ, tuple(sorted(set(rest[:nsp]))))] = vals + [0.0] * (6 - len(vals))
                elif pkey == "aphi" and rest:
                    vals = scan_numbers(rest, 6)
                    if vals:
                        self.pitzer[(15, ())] = vals + [0.0] * (6 - len(vals))
            elif block == "LLNL_AQUEOUS_MODEL_PARAMETERS":
                rest = w
                if w[0].startswith("-") and not NUM.match(w[0]):
                    oi = find_option(w[0], LLNL_OPTS, True)
                    lkey = LLNL_KEY.get(oi) if oi is not None else None
                    rest = w[1:]
                if lkey:
                    for t in rest:
                        if NUM.fullmatch(t):
                            self.llnl[lkey].append(float(t))

    def primary_elements(self):
        return [e for e in self.elements if "(" not in e and e not in ("E", "H", "O", "Alkalinity")]


# ------------------------------------------------------------------------------------------------------ harness session
def parse_session(lines):
    """-> dict(db=…, llnl=…, runs=[{id, ret, err, sols:[…]}], rand=[pz dumps])"""
    ses = {"db": None, "llnl": None, "runs": [], "rand": [], "flags": {}}
    run = None
    sol = None
    pz = None
    for ln in lines:
        w = ln.split()
        if not w:
            continue
        k = w[0]
        if k == "DB":
            ses["db"] = int(w[1])
            for t in w[2:]:
                a, b = t.split("=")
                ses["flags"][a] = int(b)
        elif k == "LLNL":
            parts = ln.split("|")
            ses["llnl"] = [[unhex(x) for x in p.split()] for p in parts[1:]]
        elif k == "RUN":
            run = {"id": w[1], "ret": int(w[2].split("=")[1]), "err": "", "sols": []}
            ses["runs"].append(run)
            sol = None
        elif k == "ENDRUN":
            run = None
            sol = None
        elif k == "ERR":
            txt = bytes.fromhex(w[1]).decode(errors="replace") if w[1] != "-" else ""
            if run is not None:
                run["err"] = txt
            else:
                ses["dberr"] = txt
        elif k == "R" and run is not None:
            if w[1] == "mu_osm":
                sol = {"R": {}, "sp": [], "pz": None}
                run["sols"].append(sol)
            if sol is not None:
                sol["R"][w[1]] = (unhex(w[2]), unhex(w[3]))
        elif k == "SOL" and sol is not None:
            parts = ln.split("|")
            v = [unhex(x) for x in parts[1].split()]
            keys = ["mu", "tc", "tk", "patm", "DH_A", "DH_B", "a_llnl", "b_llnl", "bdot_llnl", "COSMOT", "AW", "la_h2o",
                    "mass_water", "gfw_water"]
            sol["sol"] = dict(zip(keys, v))
            sol["solhex"] = dict(zip(keys, parts[1].split()))
            f = parts[2].split()
            sol["sol"].update(pitzer=int(f[0]), sit=int(f[1]), nllnl=int(f[2]))
        elif k == "SP" and sol is not None:
            sol["sp"].append({"name": bytes.fromhex(w[1]).decode(), "type": int(w[2]), "gflag": int(w[3]), "in": int(w[4]),
                              "primary": int(w[5]), "hex": w[6:], "z": unhex(w[6]), "dha": unhex(w[7]), "dhb": unhex(w[8]),
                              "lm": unhex(w[10]), "lg": unhex(w[11]), "moles": unhex(w[12]), "LG": unhex(w[13]),
                              "LM": unhex(w[14]), "LA": unhex(w[15]), "GAMMA": unhex(w[16])})
        elif k == "PZ":
            pz = {"tag": w[1], "kind": w[2], "sp": [], "pp": []}
            if w[2] != "none":
                pz.update(ns=int(w[3].split("=")[1]), mu=w[4], tk=w[5], patm=unhex(w[6]), a0=w[7], icon=w[8], ic=int(w[9]),
                          ue=w[10], mcb0=w[11], mcb1=w[12], mcc0=w[13], cosmot=unhex(w[14]), aw=unhex(w[15]), mintot=w[16])
            if run is not None and sol is not None:
                sol["pz"] = pz
            else:
                ses["rand"].append(pz)
        elif k == "PS" and pz is not None:
            pz["sp"].append({"idx": int(w[1]), "name": bytes.fromhex(w[2]).decode(), "z": w[3], "lm": unhex(w[4]), "M": w[5],
                             "LGAMMA": unhex(w[6]), "lgp": unhex(w[7])})
        elif k == "PP" and pz is not None:
            pz["pp"].append({"k": int(w[1]), "type": int(w[2]), "i": [int(w[3]), int(w[4]), int(w[5])], "p": unhex(w[6]),
                             "alpha": w[7], "ln": [unhex(w[8]), unhex(w[9]), unhex(w[10])], "os": unhex(w[11]),
                             "eth": w[12], "ethp": w[13], "a": w[14:20]})
        elif k == "PE":
            pz = None
    return ses


def session(ctx, exe, db, extra, ops, timeout=900):
    text = f"db {db}" + (f" {Path(extra).read_bytes().hex()}" if extra else "") + "\n" + "".join(ops)
    r = ctx.run_harness(exe, text, timeout=timeout)
    ses = parse_session(r.stdout.splitlines())
    ses["rc"] = r.returncode
    ses["stderr"] = r.stderr[-400:]
    return ses


def punch(with_pz):
    return G.PUNCH % ('60 x = CALLBACK(0, 0, "P:p")' if with_pz else "60 REM")


# ------------------------------------------------------------------------------------------- (2) ion-association check
def db_names(dbt):
    """element-key -> name usable in SOLUTION for this database"""
    el = set(dbt.elements)
    names = {}
    for k in ("Na", "K", "Mg", "Ca", "Cl", "Br"):
        if k in el:
            names[k] = k
    if "S(6)" in el:
        names["S6"] = "S(6)"
    elif "S" in el:
        names["S6"] = "S"
    if "C(4)" in el:
        names["C4"] = "C(4)"
    elif "C" in el:
        names["C4"] = "C"
    return names


def ia_model_lines(dbt, ses, sol):
    """pmodel lines for one solution: LLNL interpolation, CO2 polynomial, then per species route A and route B"""
    S = sol["sol"]
    Sh = sol["solhex"]
    R = sol["R"]
    mu = hexd(R["mu_osm"][0])
    tc = R["aw_tc"][1]
    has = 1 if S["nllnl"] > 0 else 0
    lines = []
    plan = []       # what each output line answers
    if has:
        T, A, B, D, C = ses["llnl"]
        n = len(T)
        for key, arr in (("aL", A), ("bL", B), ("bdot", D)):
            lines.append("interp %s %d %s %s" % (Sh["tc"], n, " ".join(hexd(x) for x in T), " ".join(hexd(x) for x in arr)))
            plan.append(("interpA", key))
        lines.append("co2 %s %s %s" % (" ".join(hexd(x) for x in C), Sh["tk"], mu))
        plan.append(("co2A", None))
        # independent: this module's parse of the grid, reported TC
        L = dbt.llnl
        ok = len(L["temps"]) > 0 and all(len(L[k]) == len(L["temps"]) for k in ("adh", "bdh", "bdot")) and len(L["co2"]) == 5
        if ok:
            for key in ("adh", "bdh", "bdot"):
                lines.append("interp %s %d %s %s" % (hexd(tc), len(L["temps"]), " ".join(hexd(x) for x in L["temps"]),
                                                     " ".join(hexd(x) for x in L[key])))
                plan.append(("interpB", key))
            lines.append("co2 %s %s %s" % (" ".join(hexd(x) for x in L["co2"]), hexd(tc + 273.15), mu))
            plan.append(("co2B", None))
        else:
            plan.append(("gridB-missing", None))
            lines.append("co2 0 0 0 0 0 0 0")
    return lines, plan


def judge_ia(ctx, dbname, dbt, ses, run, stats, sel_cache):
    """returns list of problems (dicts) for one run of an ion-association database"""
    probs = []
    for sol in run["sols"]:
        if "sol" not in sol:
            continue
        S, Sh, R = sol["sol"], sol["solhex"], sol["R"]
        has = 1 if S["nllnl"] > 0 else 0
        mu_rep, dha_rep, dhb_rep = R["mu_osm"][0], R["dh"][0], R["dh"][1]
        tc_rep = R["aw_tc"][1]
        # read-outs of the scalars: BASIC MU / DH_A / DH_B are the engine's values
        exp_a = S["a_llnl"] if has else S["DH_A"]
        exp_b = S["b_llnl"] if has else S["DH_B"]
        if mu_rep != S["mu"] or dha_rep != exp_a or dhb_rep != exp_b or tc_rep != S["tc"]:
            probs.append({"kind": "scalar-readout", "MU": [mu_rep, S["mu"]], "DH_A": [dha_rep, exp_a], "DH_B": [dhb_rep, exp_b]})
        pre, plan = ia_model_lines(dbt, ses, sol)
        out = pmodel(ctx, "\n".join(pre) + "\n") if pre else []
        env = {"aLA": 0.0, "bLA": 0.0, "bdA": 0.0, "co2A": 0.0, "aLB": None, "bLB": None, "bdB": None, "co2B": None}
        for (what, key), o in zip(plan, out):
            v = None if o.split()[1] == "none" else unhex(o.split()[1])
            if what == "interpA":
                env[{"aL": "aLA", "bL": "bLA", "bdot": "bdA"}[key]] = v
            elif what == "co2A":
                env["co2A"] = v
            elif what == "interpB":
                env[{"adh": "aLB", "bdh": "bLB", "bdot": "bdB"}[key]] = v
            elif what == "co2B":
                env["co2B"] = v
        if has:
            # the engine's interpolated constants against the model's interpolation of the engine's own grid
            for nm, mv, ev in (("a_llnl", env["aLA"], S["a_llnl"]), ("b_llnl", env["bLA"], S["b_llnl"]), ("bdot_llnl", env["bdA"], S["bdot_llnl"])):
                stats["llnl_interp"] += 1
                if mv is None or abs(mv - ev) > TOL_LG:
                    probs.append({"kind": "llnl-interp", "which": nm, "model": mv, "engine": ev, "tc": S["tc"]})
        lines = []
        idx = []
        for sp in sol["sp"]:
            if sp["type"] > 3 or sp["gflag"] in (4, 6):       # exchange / surface species: outside the property
                continue
            h = sp["hex"]
            # route A: engine parameters
            lines.append("lg %d %s %s %s %s %s %s %d %s %s %s %s %s %s" % (
                sp["gflag"], h[0], h[1], h[2], hexd(mu_rep), Sh["DH_A"], Sh["DH_B"], has, hexd(env["aLA"] or 0.0),
                hexd(env["bLA"] or 0.0), hexd(env["bdA"] or 0.0), hexd(env["co2A"] or 0.0), Sh["la_h2o"], Sh["gfw_water"]))
            idx.append((sp, "A"))
            # route B: model selected from the database text by the Lean rule
            d = dbt.species.get(sp["name"])
            if d is None or d["z"] is None:
                stats["routeB_unparsed"] += 1
                continue
            key = (dbname, sp["name"])
            if key not in sel_cache:
                zz = 1 if abs(d["z"]) < 1e-9 else 0
                o = pmodel(ctx, "sel %d %s %s\n" % (zz, d["special"], " ".join(d["opts"])))[0].split()
                sel_cache[key] = (int(o[1]), o[2], o[3])
            fl, dha, dhb = sel_cache[key]
            if has and env["aLB"] is None:
                stats["routeB_unparsed"] += 1
                continue
            lines.append("lg %d %s %s %s %s %s %s %d %s %s %s %s %s %s" % (
                fl, hexd(d["z"]), dha, dhb, hexd(mu_rep), Sh["DH_A"] if has else hexd(dha_rep), Sh["DH_B"] if has else hexd(dhb_rep),
                has, hexd(env["aLB"] or 0.0), hexd(env["bLB"] or 0.0), hexd(env["bdB"] or 0.0), hexd(env["co2B"] or 0.0),
                Sh["la_h2o"], Sh["gfw_water"]))
            idx.append((sp, "B", fl, unhex(dha), unhex(dhb), d["z"]))
        out = pmodel(ctx, "\n".join(lines) + "\n") if lines else []
        for ent, o in zip(idx, out):
            sp = ent[0]
            w = o.split()
            stats["evals"] += 1
            stats["by_flag"][sp["gflag"]] = stats["by_flag"].get(sp["gflag"], 0) + 1
            if w[1] == "none":
                probs.append({"kind": "model-undefined", "species": sp["name"], "route": ent[1], "gflag": sp["gflag"]})
                continue
            mv = unhex(w[1])
            if ent[1] == "A":
                stats["species"].add((dbname, sp["name"]))
                if sp["lg"] != sp["LG"] and sp["type"] <= 3:
                    probs.append({"kind": "LG-readout", "species": sp["name"], "lg": sp["lg"], "LG": sp["LG"]})
                if not abs(mv - sp["LG"]) <= TOL_LG:
                    probs.append({"kind": "formula", "route": "A", "species": sp["name"], "gflag": sp["gflag"], "z": sp["z"],
                                  "dha": sp["dha"], "dhb": sp["dhb"], "model": mv, "LG": sp["LG"], "mu": mu_rep, "tc": tc_rep})
            else:
                stats["routeB"] += 1
                if not abs(mv - sp["LG"]) <= TOL_LG:
                    probs.append({"kind": "selection", "route": "B", "species": sp["name"], "db_model": ent[2], "db_z": ent[5],
                                  "db_dha": ent[3], "db_dhb": ent[4], "engine": [sp["gflag"], sp["z"], sp["dha"], sp["dhb"]],
                                  "model": mv, "LG": sp["LG"], "mu": mu_rep, "tc": tc_rep})
                elif ent[2] != sp["gflag"]:
                    stats["selection_flag_diff_same_value"] += 1
    return probs


def ia_cases(ctx, dbname, dbt, n):
    names = db_names(dbt)
    base = {v.split('(')[0] for v in names.values()}
    others = [e for e in dbt.primary_elements() if e not in base]
    is_llnl = len(dbt.llnl["temps"]) > 0
    tlo = max(0.0, min(dbt.llnl["temps"])) if is_llnl else 0.0
    order = list(others)
    ctx.rng.shuffle(order)
    cases = []
    for i in range(n):
        forced = order[(3 * i) % max(1, len(order)):(3 * i) % max(1, len(order)) + 3] if order else []
        txt, desc = G.ia_case(ctx.rng, names, others, tlo, 100.0, forced)
        cases.append((punch(False) + txt + "END\n", desc))
    return cases


# ------------------------------------------------------------------------------------------- (3) Pitzer / SIT: skeleton
def pz_model_block(pz):
    """pmodel block for one dump of the engine's Pitzer / SIT arrays; species renumbered by position in s_list"""
    pos = {s["idx"]: k for k, s in enumerate(pz["sp"])}
    n = len(pz["sp"])
    if pz["kind"] == "pitzer":
        ic = pos.get(pz["ic"], n)
        L = ["pz %d %s %s %s %s %d %s %s %s %s %s %s" % (n, pz["mu"], pz["a0"], pz["mintot"], pz["icon"], ic, pz["ue"], pz["mcb0"],
                                                      pz["mcb1"], pz["mcc0"], pz["tk"], hexd(pz["patm"]))]
        for s in pz["sp"]:
            L.append("s %s %s" % (s["z"], s["M"]))
        for p in pz["pp"]:
            i = [pos.get(j, n) if j >= 0 else n for j in p["i"]]
            L.append("p %d %d %d %d %s %s %s %s" % (p["type"], i[0], i[1], i[2], p["alpha"], p["eth"], p["ethp"], " ".join(p["a"])))
    else:
        L = ["sit %d %s %s %s" % (n, pz["mu"], pz["a0"], pz["tk"])]
        for s in pz["sp"]:
            L.append("s %s %s" % (s["z"], s["M"]))
        for p in pz["pp"]:
            i = [pos.get(j, n) if j >= 0 else n for j in p["i"]]
            L.append("e %d %d %d %s" % (p["type"], i[0], i[1], " ".join(p["a"][:5])))
    L.append("end")
    return L


def judge_pz(ctx, pz, stats, dbtab=None):
    """engine arrays vs Model/Pitzer.lean; returns list of problems. With `dbtab` (this module's reading of the PITZER / SIT
    blocks of the database text) the engine's coefficient table a[0..5] of every listed parameter is compared with it."""
    if pz is None or pz["kind"] == "none" or not pz["sp"]:
        return []
    pre = []
    if dbtab is not None:
        nm = {s["idx"]: s["name"] for s in pz["sp"]}
        for p in pz["pp"]:
            if p["type"] == 8:        # ETHETA entries are created by pitzer_tidy, not read
                continue
            names = tuple(sorted({nm.get(j) for j in p["i"] if j >= 0 and nm.get(j) is not None}))
            want = dbtab.get((p["type"], names))
            stats["pz_table_entries"] = stats.get("pz_table_entries", 0) + 1
            got = [unhex(x) for x in p["a"]]
            if want is None or [float(x) for x in want] != got:
                pre.append({"kind": "parameter-table", "type": p["type"], "species": names, "database_text": want, "engine": got})
    if pre:
        return pre[:6]
    if pz["patm"] > 1.0:
        stats["pz_patm_gt1"] += 1
    out = pmodel(ctx, "\n".join(pz_model_block(pz)) + "\n")
    probs = []
    pc = [o.split() for o in out if o.startswith("PC")]
    pl = [o.split() for o in out if o.startswith("PL")]
    po = [o.split() for o in out if o.startswith("PO")]
    if len(pl) != len(pz["sp"]) or not po or any(len(c) < 7 for c in pc):
        return [{"kind": "pz-model-output", "out": out[:5]}]
    stats["pz_evals"] += 1
    stats["pz_params"] += len(pz["pp"])
    zs = {s["idx"]: unhex(s["z"]) for s in pz["sp"]}
    for p in pz["pp"]:
        stats["pz_types"][p["type"]] = stats["pz_types"].get(p["type"], 0) + 1
        if pz["kind"] == "sit" and zs.get(p["i"][0]) == 0.0 and zs.get(p["i"][1]) == 0.0:
            stats["sit_neutral_pairs"] = stats.get("sit_neutral_pairs", 0) + 1
    if pz["kind"] == "pitzer":
        for c, p in zip(pc, pz["pp"]):
            if p["type"] in (5, 10):       # LAMBDA, MU: multipliers set by pitzer_tidy
                mv = [unhex(c[2]), unhex(c[3]), unhex(c[4]), unhex(c[5])]
                ev = p["ln"] + [p["os"]]
                if p["type"] == 5:
                    mv[2] = ev[2] = 0.0
                if mv != ev:
                    probs.append({"kind": "tidy-coef", "param": p["k"], "type": p["type"], "model": mv, "engine": ev})
    for w, s in zip(pl, pz["sp"]):
        mv = unhex(w[2])
        ev = s["LGAMMA"]
        if not (abs(mv - ev) <= 1e-9 * max(1.0, abs(ev))):
            probs.append({"kind": "lgamma", "species": s["name"], "model": mv, "engine": ev})
    cm, am = unhex(po[0][1]), unhex(po[0][2])
    if not (abs(cm - pz["cosmot"]) <= 1e-9 * max(1.0, abs(pz["cosmot"]))):
        probs.append({"kind": "cosmot", "model": cm, "engine": pz["cosmot"]})
    if not (abs(am - pz["aw"]) <= 1e-9 * max(1.0, abs(pz["aw"]))) and math.isfinite(pz["aw"]):
        probs.append({"kind": "aw", "model": am, "engine": pz["aw"]})
    return probs


# ----------------------------------------------------------------------------- (3) Pitzer / SIT: thermodynamic oracles
def solutes(sol):
    return [sp for sp in sol["sp"] if sp["type"] <= 1 and sp["in"]]


def aw_oracle(sol):
    """ACT("H2O") against exp(-M_w * phi * sum m)"""
    sm = sum(10.0 ** sp["LM"] for sp in solutes(sol))
    phi = sol["R"]["mu_osm"][1]
    aw = sol["R"]["aw_tc"][0]
    return aw, math.exp(-MW * phi * sm), sm, phi


def gd_sums(sols, step):
    """Stieltjes trapezoid sum of sum_i m_i d ln(gamma_i) over every `step`-th point; also per-species absolute total"""
    pts = sols[::step]
    names = [sp["name"] for sp in solutes(pts[0])]
    tot = 0.0
    per = {n: 0.0 for n in names}
    for a, b in zip(pts[:-1], pts[1:]):
        sa = {sp["name"]: sp for sp in solutes(a)}
        sb = {sp["name"]: sp for sp in solutes(b)}
        for n in names:
            if n not in sa or n not in sb:
                continue
            ma, mb = 10.0 ** sa[n]["LM"], 10.0 ** sb[n]["LM"]
            t = 0.5 * (ma + mb) * (sb[n]["LG"] - sa[n]["LG"]) * LN10
            tot += t
            per[n] += t
    return tot, per


def gd_judge(sols):
    """-> dict(lhs, rhs, scale, est, converged). Needs len(sols) = 4k+1."""
    n = len(sols) - 1
    t1, per = gd_sums(sols, 1)
    t2, _ = gd_sums(sols, 2)
    t4, _ = gd_sums(sols, 4)
    r1 = t1 + (t1 - t2) / 3.0          # Richardson (error of the Stieltjes trapezoid sum is O(h^2))
    r2 = t2 + (t2 - t4) / 3.0
    lhs = r1 + (r1 - r2) / 15.0

    def w(sol):
        sm = sum(10.0 ** sp["LM"] for sp in solutes(sol))
        return (sol["R"]["mu_osm"][1] - 1.0) * sm
    rhs = w(sols[-1]) - w(sols[0])
    scale = max(sum(abs(v) for v in per.values()), abs(rhs))
    est = abs(r1 - r2)
    # known finding gd-dh-slope-depends-on-aw: in the Pitzer model A0 follows the water activity (p_sat in calc_rho_0)
    # while pitzer() treats it as a constant. With ln gamma_i = dGex/dm_i at fixed A0, the relation picks up
    # integral (dGex/dA0) dA0, dGex_DH/dA0 = -(4 I / b) ln(1 + b sqrt I), b = 1.2
    pred = 0.0
    if all(s.get("pz") and s["pz"]["kind"] == "pitzer" for s in sols):
        def h(sol):
            mu = unhex(sol["pz"]["mu"])
            return -(4.0 * mu / 1.2) * math.log(1.0 + 1.2 * math.sqrt(mu))

        def dsum(step):
            pts = sols[::step]
            return sum(0.5 * (h(a) + h(b)) * (unhex(b["pz"]["a0"]) - unhex(a["pz"]["a0"])) for a, b in zip(pts[:-1], pts[1:]))
        d1, d2 = dsum(1), dsum(2)
        pred = d1 + (d1 - d2) / 3.0
    return {"lhs": lhs, "rhs": rhs, "scale": scale, "est": est, "n": n, "t1": t1, "r1": r1, "a0_pred": pred}


def path_input(names, path, npts, with_pz=False):
    t = punch(with_pz) + "KNOBS\n -convergence_tolerance 1e-12\n -iterations 400\n"
    for j in range(npts):
        comp = G.path_point(path, j / (npts - 1))
        t += G.solution_text(j + 1, path["temp"], comp, names, (), 7.0, True, 4.0)
    return t + "END\n"


def run_gd_path(ctx, exe, db, extra, names, path, stats):
    """adaptive refinement; returns (verdict, info) with verdict in ok / bad / unjudged"""
    info = {}
    prev = None
    for npts in (17, 33, 65, 129, 257):
        ses = session(ctx, exe, db, extra, [f"run 0 {hs(path_input(names, path, npts, True))}\n"])
        if ses["db"] != 0 or not ses["runs"]:
            return "unjudged", {"why": "database"}
        run = ses["runs"][0]
        sols = [s for s in run["sols"] if "sol" in s]
        if run["ret"] != 0 or len(sols) != npts:
            return "unjudged", {"why": "not converged", "err": run["err"][-200:]}
        if any({sp["name"] for sp in solutes(s)} != {sp["name"] for sp in solutes(sols[0])} for s in sols):
            return "unjudged", {"why": "species set changes along the path"}
        cb = max(abs(s["R"]["cb_w"][0]) for s in sols)
        sm = max(sum(10.0 ** sp["LM"] for sp in solutes(s)) for s in sols)
        if cb > 1e-9 * max(sm, 1e-3):
            return "unjudged", {"why": "charge imbalance", "cb": cb}
        j = gd_judge(sols)
        info = dict(j, npts=npts, aw=[aw_oracle(s) for s in (sols[0], sols[-1])], sols=sols)
        if j["scale"] <= 0:
            return "unjudged", {"why": "zero scale"}
        # judged only when the discretisation error is demonstrably far below the tolerance: two Richardson levels of
        # this grid agree to 3e-6 of the scale AND the value agrees with the one from the previous (half as fine) grid to 1e-5
        stable = prev is not None and abs(j["lhs"] - prev) <= 1e-5 * j["scale"]
        prev = j["lhs"]
        if stable and j["est"] <= 3e-6 * j["scale"]:
            stats["gd_npts"][npts] = stats["gd_npts"].get(npts, 0) + 1
            resid = j["lhs"] - j["rhs"]
            if abs(resid) <= TOL_GD * j["scale"]:
                return "ok", info
            if abs(resid - j["a0_pred"]) <= TOL_GD * j["scale"]:
                return "known-a0", info       # exceeds the tolerance, and the A0(a_w) effect accounts for the excess
            return "bad", info
    return "unjudged", {"why": "discretisation not converged", "est": info.get("est"), "scale": info.get("scale"),
                        "lhs": info.get("lhs"), "rhs": info.get("rhs")}


def run_pz_db(ctx, exe, dbname, extra, npaths, nrand, stats):
    db = vlib.REPO / "database" / dbname
    ex = (vlib.REPO / "database" / extra) if extra else None
    dbt = DbText(db)
    if ex:
        dbt.parse(ex)
    names = db_names(dbt)
    label = dbname + ("+" + extra if extra else "")
    out = {"label": label, "bad": [], "corr": []}
    # (i) skeleton: engine arrays at the end of real solutions, then direct evaluations on random numbers
    ops = []
    cases = []
    for i in range(nrand):
        allowed = [k for k, s in enumerate(G.SALTS) if s[0] in names and (("C4" if s[2] in ("HCO3", "CO3") else s[2]) in names)]
        mix = G.random_mix(ctx.rng, allowed, 1e-3, 4.0, 3)
        temp = ctx.rng.uniform(0, 100)
        txt = punch(True) + G.solution_text(1, temp, G.salt_totals(mix), names, (), 7.0, True, 4.0) + "END\n"
        vec = G.rand_vector(ctx.rng)
        cases.append({"input": txt, "vec": vec})
        ops.append(f"run {i} {hs(txt)}\n")
        ops.append(f"pzrand r{i} " + " ".join(hexd(v) for v in vec) + "\n")
    ses = session(ctx, exe, db, ex, ops)
    if ses["db"] != 0:
        stats["db_load_failed"].append(label + ": " + ses.get("dberr", "")[-200:])
        return out
    stats["pz_dbs_loaded"].append(label)
    for run in ses["runs"]:
        for sol in run["sols"]:
            if run["ret"] == 0 and sol.get("pz"):
                pr = judge_pz(ctx, sol["pz"], stats, dbt.pitzer)
                if pr:
                    out["corr"].append({"db": dbname, "extra": extra, "case": cases[int(run["id"])], "where": "solution", "problems": pr[:6]})
            if run["ret"] == 0 and "sol" in sol:
                aw, pred, sm, phi = aw_oracle(sol)
                stats["aw_evals"] += 1
                if not abs(aw - pred) <= TOL_AW:
                    out["bad"].append({"kind": "aw", "db": dbname, "extra": extra, "input": cases[int(run["id"])]["input"],
                                       "aw": aw, "pred": pred, "sum_m": sm, "phi": phi})
    for pz in ses["rand"]:
        if pz["kind"] == "none":
            continue
        i = int(pz["tag"][1:])
        pr = judge_pz(ctx, pz, stats)
        stats["pz_rand"] += 1
        if pr:
            out["corr"].append({"db": dbname, "extra": extra, "case": cases[i], "where": "pzrand", "problems": pr[:6]})
    # (ii) Gibbs-Duhem along composition paths
    paths = [G.gd_path(ctx.rng, names) for _ in range(npaths)]
    if dbname == "pitzer.dat" and extra is None:
        paths.append(dict(PROBE_A0))

    def one(p):
        return run_gd_path(ctx, exe, db, ex, names, p, stats)
    with concurrent.futures.ThreadPoolExecutor(max_workers=min(12, vlib.NCPU)) as pool:
        results = list(pool.map(one, paths))
    for p, (verdict, info) in zip(paths, results):
        stats["gd_paths"] += 1
        stats["gd_verdicts"][verdict] = stats["gd_verdicts"].get(verdict, 0) + 1
        if verdict == "unjudged":
            stats["gd_unjudged_why"][info.get("why", "?")] = stats["gd_unjudged_why"].get(info.get("why", "?"), 0) + 1
            continue
        stats["gd_label"][p["label"]] = stats["gd_label"].get(p["label"], 0) + 1
        stats["gd_temp_hist"][min(9, int(p["temp"] // 10))] += 1
        rel = abs(info["lhs"] - info["rhs"]) / info["scale"]
        stats["gd_max_rel"] = max(stats["gd_max_rel"], rel)
        relc = abs(info["lhs"] - info["rhs"] - info["a0_pred"]) / info["scale"]
        if relc > stats["gd_max_rel_corr"]:
            stats["gd_max_rel_corr"] = relc
            stats["gd_worst"] = {"db": label, "salts": p["salts"], "temp": p["temp"], "A": p["A"], "B": p["B"], "rel": rel,
                                 "rel_after_A0_correction": relc, "npts": info["npts"], "est_over_scale": info["est"] / info["scale"]}
        for aw, pred, sm, phi in info["aw"]:
            stats["aw_evals"] += 1
            stats["sum_m_hist"][max(0, min(5, int(math.floor(math.log10(max(sm, 1e-5))) + 4)))] += 1
            if not abs(aw - pred) <= TOL_AW:
                out["bad"].append({"kind": "aw", "db": dbname, "extra": extra, "path": p, "aw": aw, "pred": pred, "sum_m": sm, "phi": phi})
        if verdict in ("bad", "known-a0"):
            out["bad"].append({"kind": "gibbs-duhem", "db": dbname, "extra": extra, "path": p, "lhs": info["lhs"], "rhs": info["rhs"],
                               "scale": info["scale"], "rel": rel, "npts": info["npts"], "a0_pred": info["a0_pred"],
                               "rel_after_a0_correction": abs(info["lhs"] - info["rhs"] - info["a0_pred"]) / info["scale"],
                               "known": verdict == "known-a0"})
        elif len(ctx.cov["samples"]) < 4:
            ctx.sample({"gibbs_duhem_path": {"db": label, "salts": p["salts"], "temp": p["temp"], "npts": info["npts"],
                                             "lhs": info["lhs"], "rhs": info["rhs"], "rel": rel}})
    return out


# ------------------------------------------------------------------------------------------------------------ run
def new_stats():
    return {"evals": 0, "routeB": 0, "routeB_unparsed": 0, "species": set(), "by_flag": {}, "runs": 0, "judged_runs": 0,
            "not_converged": 0, "llnl_interp": 0, "selection_flag_diff_same_value": 0, "db_load_failed": [],
            "temp_hist": [0] * 10, "mu_hist": [0] * 6, "pz_evals": 0, "pz_params": 0, "pz_types": {}, "pz_rand": 0,
            "pz_patm_gt1": 0, "aw_evals": 0, "gd_paths": 0, "gd_verdicts": {}, "gd_unjudged_why": {}, "gd_label": {},
            "gd_temp_hist": [0] * 10, "gd_max_rel": 0.0, "gd_max_rel_corr": 0.0, "sum_m_hist": [0] * 6, "gd_npts": {}, "pz_dbs_loaded": []}


def run(ctx):
    # translator first: the statements of the modelled functions, regenerated from the current source
    gen_ok = True
    try:
        ctx.cov["translator_gen_pitzer"] = gen_pitzer.generate(ctx)
    except Exception as e:      # shape not recognised: fail closed (protocol P)
        gen_ok = False
        ctx.proof_broken.append({"stage": "translator tools/gen_pitzer.py", "error": str(e)[:500]})
        ctx.log("PROOF BROKEN: translator:", str(e)[:200])
    ok = ctx.prove(["PhreeqcVerif.Properties.C16"]) and gen_ok
    pm_setup(ctx)
    try:
        run_checks(ctx, ok)
    finally:
        pm_done()


def run_checks(ctx, ok):
    ctx.build_lib()
    exe = ctx.build_harness("ph_gamma")
    thorough = ctx.tier == "thorough" or not ok
    stats = new_stats()
    sel_cache = {}
    corr_broken = []
    # ---- ion-association databases
    dbs = IA_DBS if thorough else IA_QUICK
    nper = 160 if thorough else 14
    # draw the cases sequentially (one rng), run the databases in parallel
    jobs = []
    for dbname in dbs:
        if not (vlib.REPO / "database" / dbname).exists():
            continue
        dbt = DbText(vlib.REPO / "database" / dbname)
        cases = ia_cases(ctx, dbname, dbt, nper)
        jobs.append((dbname, dbt, cases))

    def ia_job(job):
        dbname, dbt, cases = job
        ops = [f"run {i} {hs(t)}\n" for i, (t, _) in enumerate(cases)]
        return session(ctx, exe, vlib.REPO / "database" / dbname, None, ops)
    with concurrent.futures.ThreadPoolExecutor(max_workers=min(12, vlib.NCPU)) as pool:
        sessions = list(pool.map(ia_job, jobs))
    dbspecies = {}
    for (dbname, dbt, cases), ses in zip(jobs, sessions):
        dbspecies[dbname] = len(dbt.species)
        if ses["db"] != 0:
            stats["db_load_failed"].append(dbname)
            continue
        for runr in ses["runs"]:
            i = int(runr["id"])
            stats["runs"] += 1
            if runr["ret"] != 0 or not runr["sols"]:
                stats["not_converged"] += 1
                continue
            stats["judged_runs"] += 1
            d = cases[i][1]
            stats["temp_hist"][min(9, int(d["temp"] // 10))] += 1
            mu = runr["sols"][0]["R"]["mu_osm"][0]
            stats["mu_hist"][max(0, min(5, int(math.floor(math.log10(max(mu, 1e-5))) + 5)))] += 1
            probs = judge_ia(ctx, dbname, dbt, ses, runr, stats, sel_cache)
            if stats["judged_runs"] <= 2:
                ctx.sample({"ion_association_case": {"db": dbname, "desc": d, "MU": mu, "species": len(runr["sols"][0]["sp"])}})
            if probs:
                # the comparison IS the property's statement (reported LG vs the assigned model at the reported constants)
                ctx.violation(f"{dbname}: reported LG differs from the assigned activity-coefficient model ({probs[0]['kind']})",
                              {"kind": "ia", "db": dbname, "input": cases[i][0], "problems": probs[:8]})
                break
        if ctx.violations:
            break
    # ---- Pitzer / SIT databases
    npaths = 120 if thorough else 8
    nrand = 40 if thorough else 6
    if not ctx.violations:
        for dbname, extra in PZ_DBS:
            if not (vlib.REPO / "database" / dbname).exists():
                continue
            res = run_pz_db(ctx, exe, dbname, extra, npaths, nrand, stats)
            bad = sorted(res["bad"], key=lambda b: (finding_key(b) is not None, -b.get("rel", 1.0)))
            for b in bad:
                key = finding_key(b)
                if key:
                    if key in ctx.findings_seen or any(key in v[2] for v in ctx.violations):
                        continue
                    ctx.finding(key, f"{res['label']}: Gibbs-Duhem residual {b['rel']:.3g} > 1e-4 at {b['path']['temp']} C, "
                                     f"{b['rel_after_a0_correction']:.3g} after removing the effect of A0(a_w)",
                                dict(b, kind2=b["kind"], kind="pzbad"))
                else:
                    ctx.violation(f"{res['label']}: {b['kind']} oracle fails on real output "
                                  f"(rel {b.get('rel', abs(b.get('aw', 0) - b.get('pred', 0))):.3g})", dict(b, kind2=b["kind"], kind="pzbad"))
                    break
            corr_broken += res["corr"]
            if any(FINDING_A0 not in v[2] for v in ctx.violations):
                break
    if corr_broken and not any(FINDING_A0 not in v[2] for v in ctx.violations):
        ctx.violation("pitzer()/sit() arrays differ from Model/Pitzer.lean but the Gibbs-Duhem and water-activity oracles "
                      "hold on every path tried", dict(corr_broken[0], kind="pzcorr"), found_input=False)
    ctx.cov["evaluations"] = stats["evals"] + stats["pz_evals"] + stats["aw_evals"] + stats["gd_verdicts"].get("ok", 0) + stats["gd_verdicts"].get("bad", 0)
    ctx.cov["distinct_nontrivial"] = len(stats["species"]) + stats["pz_evals"] + stats["gd_verdicts"].get("ok", 0) + stats["gd_verdicts"].get("bad", 0)
    sp_by_db = {}
    for d, n in stats["species"]:
        sp_by_db[d] = sp_by_db.get(d, 0) + 1
    ctx.cov["ion_association"] = {
        "species_evaluations": stats["evals"], "route_B_evaluations": stats["routeB"], "route_B_unparsed": stats["routeB_unparsed"],
        "distinct_species_by_db": sp_by_db, "species_defined_in_db_text": dbspecies, "by_gflag": stats["by_flag"],
        "runs": stats["runs"], "judged": stats["judged_runs"], "not_converged_or_error": stats["not_converged"],
        "temperature_histogram_10C_bins": stats["temp_hist"], "log10_mu_histogram_-5..0+": stats["mu_hist"],
        "llnl_interpolations": stats["llnl_interp"], "flag_differs_value_same": stats["selection_flag_diff_same_value"]}
    ctx.cov["pitzer_sit"] = {
        "databases_loaded": stats["pz_dbs_loaded"], "array_evaluations": stats["pz_evals"], "of_which_random": stats["pz_rand"],
        "parameters_evaluated": stats["pz_params"], "parameter_types": stats["pz_types"], "aw_oracle_evaluations": stats["aw_evals"],
        "gd_paths": stats["gd_paths"], "gd_verdicts": stats["gd_verdicts"], "gd_unjudged_why": stats["gd_unjudged_why"],
        "gd_path_kinds": stats["gd_label"], "gd_temperature_histogram": stats["gd_temp_hist"], "gd_points_needed": stats["gd_npts"],
        "gd_max_relative_residual": stats["gd_max_rel"],
        "gd_max_relative_residual_after_A0_correction": stats["gd_max_rel_corr"], "gd_worst_path": stats.get("gd_worst"), "log10_sum_m_histogram_-4..1": stats["sum_m_hist"],
        "evaluations_with_patm_gt_1": stats["pz_patm_gt1"],
        "sit_neutral_neutral_pairs_evaluated": stats.get("sit_neutral_pairs", 0),
        "parameter_table_entries_tied_to_database_text": stats.get("pz_table_entries", 0)}
    if stats["db_load_failed"]:
        ctx.cov["databases_not_loaded"] = stats["db_load_failed"]
    ctx.cov["traces_validated_against_impl"] = stats["judged_runs"] + stats["pz_evals"]
    ctx.cov["rule"] = ("ion-association: seeded solutions of 1-3 salts over Na K Mg Ca Cl SO4 HCO3/CO3 Br (total 1e-4..6 molal, "
                       "0..100 C, pH 3.5..10.5) plus up to 9 trace elements cycling through every primary element of the database; "
                       "every aqueous species of s_x is one evaluation (twice: engine parameters / parameters from this module's parse "
                       "of the database text); distinct = distinct (database, species). Pitzer/SIT: engine arrays after real solutions "
                       "and direct pitzer()/sit() calls on random molalities, temperatures and parameter values vs Model/Pitzer; "
                       "Gibbs-Duhem on seeded paths (scaling of a mixture by 1.3..30x, or mixture A -> mixture B) with 17..129 points, "
                       "judged only when two Richardson levels agree to 1e-6 of the scale; a_w oracle on every end point.")
    if not ok and not ctx.violations:
        ctx.violation("proof obligation of C16 no longer checks and no failing input was found",
                      {"broken": ctx.proof_broken}, found_input=False)


FINDING_A0 = "gd-dh-slope-depends-on-aw"
# fixed probe that reproduces the finding on pitzer.dat: KCl 4.5 -> 0.01 molal at 100 C
PROBE_A0 = {"A": {"K": 4.5, "Cl": 4.5}, "B": {"K": 0.01, "Cl": 0.01}, "temp": 100.0, "label": "probe",
            "salts": ["KCl", "->", "KCl"]}


def finding_key(b):
    """a Gibbs-Duhem excess that the recorded variation of A0 with the water activity accounts for"""
    if b.get("kind") == "gibbs-duhem" and b.get("known"):
        return FINDING_A0
    return None


def replay(ctx, data):
    ctx.build_lib()
    exe = ctx.build_harness("ph_gamma")
    try:
        gen_pitzer.generate(ctx)
    except Exception as e:
        ctx.log("translator:", str(e)[:200])
    ctx.prove(["PhreeqcVerif.Properties.C16"])
    pm_setup(ctx)
    try:
        replay_case(ctx, exe, data)
    finally:
        pm_done()


def replay_case(ctx, exe, data):
    stats = new_stats()
    kind = data.get("kind")
    if kind == "ia":
        db = vlib.REPO / "database" / data["db"]
        dbt = DbText(db)
        ses = session(ctx, exe, db, None, [f"run 0 {hs(data['input'])}\n"])
        probs = []
        for r in ses["runs"]:
            if r["ret"] == 0:
                probs += judge_ia(ctx, data["db"], dbt, ses, r, stats, {})
        print("replay result:", probs[:4] if probs else "agrees")
        if probs:
            ctx.violation("replayed solution still disagrees", data)
    elif kind == "pzbad" and "path" in data:
        db = vlib.REPO / "database" / data["db"]
        ex = (vlib.REPO / "database" / data["extra"]) if data.get("extra") else None
        names = db_names(DbText(db))
        verdict, info = run_gd_path(ctx, exe, db, ex, names, data["path"], stats)
        info.pop("sols", None)
        print("replay result:", verdict, {k: v for k, v in info.items() if k != "aw"}, info.get("aw"))
        awbad = any(abs(a - p) > TOL_AW for a, p, _, _ in info.get("aw", []))
        if verdict == "known-a0" and not awbad:
            ctx.finding(FINDING_A0, "replayed path: Gibbs-Duhem residual above 1e-4, accounted for by A0(a_w)", data)
        elif verdict == "bad" or awbad:
            ctx.violation("replayed path still violates the oracle", data)
    elif kind in ("pzcorr", "pzbad"):
        db = vlib.REPO / "database" / data["db"]
        ex = (vlib.REPO / "database" / data["extra"]) if data.get("extra") else None
        case = data.get("case") or {"input": data["input"], "vec": None}
        ops = [f"run 0 {hs(case['input'])}\n"]
        if case.get("vec"):
            ops.append("pzrand r0 " + " ".join(hexd(v) for v in case["vec"]) + "\n")
        ses = session(ctx, exe, db, ex, ops)
        probs = []
        for r in ses["runs"]:
            for s in r["sols"]:
                probs += judge_pz(ctx, s.get("pz"), stats)
                if "sol" in s:
                    aw, pred, sm, phi = aw_oracle(s)
                    if abs(aw - pred) > TOL_AW:
                        probs.append({"kind": "aw", "aw": aw, "pred": pred})
        for pz in ses["rand"]:
            probs += judge_pz(ctx, pz, stats)
        print("replay result:", probs[:4] if probs else "agrees")
        if probs:
            ctx.violation("replayed case still disagrees", data)
    else:
        print("replay: nothing to run for", kind, data.get("broken"))


MANIFEST = dict(
    technique="Lean 4 theorems on executable models of gammas() / read_species' model selection / the Pitzer-SIT sums; a source "
              "translator (tools/gen_pitzer.py: clang AST + symbolic execution -> Gen/GammaSrc.lean) regenerates the data-flow normal "
              "form (operator tree per stored quantity) of the modelled functions; per-species differential "
              "correspondence (friend harness + BASIC read-outs), in-process comparison of pitzer()/sit() on random inputs, and "
              "thermodynamic oracles (integrated Gibbs-Duhem, water activity) on real outputs",
    text="Theorems (Properties/C16.lean): the model-selection rule is total and exclusive; log gamma = 0 at I = 0 and depends on z "
         "only through z^2 for every branch; the LLNL grid interpolation as coded is a convex combination of adjacent nodes and exact "
         "at nodes; pitzer_gibbs_duhem: for the whole pitzer() skeleton (Debye-Hueckel F, beta0, beta1 g, beta2 g, Cphi, theta, E-theta, "
         "psi, lambda, zeta, mu, eta with pitzer_tidy's multipliers, z CSUM, z^2 F, MacInnes scaling) and every parameter list, "
         "composition and direction, sum m_k d(LGAMMA_k) = d(2 OSMOT) on dual numbers over Q, under explicit hypotheses (2I = sum m z^2, "
         "electroneutrality with MacInnes, sqrt I ^2 = I, derivative rules of sqrt/ln, d g = GP/I dI, exp = G + GP, d Etheta = Etheta' dI); "
         "virial_gibbs_duhem for the constant-coefficient part without those hypotheses; G + GP = exp(-x) for the coded G, GP; "
         "a_w = exp(-sum m phi / 55.50837) and cosmot = 1 + 2 OSMOT / OSUM; generated = model (namespace C16Gen, 'rfl' / kernel "
         "defeq unless noted): lg*_src, lgOf_src (every aqueous gflag branch of gammas()), llnl_blend_src, g_src_eq, gp_src_eq, "
         "calc_param_src_eq, calc_sit_param_src_eq, pz_{b0,b1,b2,c0,theta,lambda,etheta,psi_zeta_eta,mu}_src (per parameter type the "
         "additions to LGAMMA / OSMOT / CSUM / F), pz_f_init0_src, pz_f_init12_src (pressure branch), pz_osmot_init_src, "
         "pz_cosmot_aw_src, sit_eps_src, sit_scalars_src, etheta_src_eq, ethetap_src_eq, jay_src_eq, jprime_src_eq (the unrolled "
         "Chebyshev / Clenshaw evaluation of ETHETA_PARAMS with both coefficient tables); derived from them: csRun_deriv, "
         "jprime_is_x_times_djay, jay_eps (JPRIME = X dJAY/dX for the series as coded, DK[20] = 0), etheta_derivative (ethetap is "
         "d etheta / dI: IRel's hypothesis derived from the code), g_derivative (d g = GP dI / I and exp = G + GP to first order); "
         "*_as_modelled (listed normal forms, what is left of them: the loop assemblies of pitzer(), sit(), the LLNL search loop, "
         "pitzer_tidy, read_species): the operator trees of the quantities stored by "
         "pitzer(), G, GP, ETHETAS, calc_pitz_param, pitzer_tidy, sit(), calc_sit_param, gammas(), read_species in the current source "
         "(locals / hoisted sub-expressions / named constants / one-line static helpers inlined, branches as guards, loops as folds, "
         "statement order irrelevant) are the ones the models transcribe (regenerated every run, proved by rfl). Obligation over generated data: reported LG = Float model at reported MU, "
         "DH_A, DH_B (1e-9) for every species of every solution, with parameters from the engine and, independently, from this "
         "module's parse of the database text. Correspondence: pitzer()/sit() arrays vs Model/Pitzer (1e-9) after real solutions and "
         "on random molalities / temperatures / pressures (patm > 1 branch) / parameter values / SIT epsilon1 and neutral pairs; the "
         "engine's a[0..5] table vs this module's parse of the PITZER / SIT blocks (exact). Oracles: integrated Gibbs-Duhem (1e-4) and "
         "a_w (1e-5) on pitzer.dat, sit.dat, frezchem.dat, ColdChem.dat, pitzer.dat+Concrete_PZ.dat.",
    note="Trusted: Lean kernel, harness/ph_gamma.cpp (friend access, BASIC callback), tools/gen_pitzer.py (clang-14 AST, symbolic "
         "execution into normal forms; the correspondence between a normal form and the Lean definition it documents is by reading, the "
         "numerical correspondence checks it), the "
         "Python parser/diff/quadrature in tools/props/c16.py. Partial: the derivative relations between g, g', J, J' are hypotheses of "
         "pitzer_gibbs_duhem (on real outputs they are covered by the numerical Gibbs-Duhem oracle); J, J' (ETHETA_PARAMS) and the "
         "alpha values enter the model as numbers read from the engine; the theorem is for patm <= 1 (the pressure branch is modelled "
         "and tied in-process only); exchange and surface species (gflag 4, 6) are outside the model. "
         "Known finding gd-dh-slope-depends-on-aw: in the Pitzer model A0 follows the water activity (p_sat in calc_rho_0), "
         "which breaks Gibbs-Duhem by up to 3e-4 near 100 C; a path whose excess over 1e-4 is accounted for by the recorded A0 "
         "variation is reported as that finding (a fixed probe path reproduces it on every run), any other excess is a violation.",
)
