// C19 harness: (a) calls the real Phreeqc::calc_PR(phase_ptrs, P, TK, V_m) in-process on the database's gases,
// (b) runs real GAS_PHASE / EQUILIBRIUM_PHASES inputs and prints the selected-output rows.
// Own access shim (friend.hpp is not included: this TU defines its own `class TestIPhreeqc`).
#ifndef CPPUNIT
#define CPPUNIT 1
#endif
#include "IPhreeqc.hpp"
#include "Phreeqc.h"
#include "GasPhase.h"
#include "hx.hpp"
#include <fstream>
#include <cmath>

class TestIPhreeqc {
public:
  static Phreeqc* engine(IPhreeqc* p) { return p->PhreeqcPtr; }
  static void dump(IPhreeqc* p) {
    Phreeqc* e = p->PhreeqcPtr;
    for (size_t i = 0; i < e->phases.size(); i++) {
      class phase* ph = e->phases[i];
      if (ph->t_c > 0 && ph->p_c > 0)
        std::cout << "G " << hx::hex(ph->name) << " " << hx::hexd(ph->t_c) << " " << hx::hexd(ph->p_c) << " "
                  << hx::hexd(ph->omega) << "\n";
    }
    for (auto it = e->gas_binary_parameters.begin(); it != e->gas_binary_parameters.end(); ++it)
      std::cout << "K " << hx::hex(it->first.first) << " " << hx::hex(it->first.second) << " " << hx::hexd(it->second) << "\n";
    std::cout << "N\n";
  }
  static class phase* find(Phreeqc* e, const std::string& name) {
    for (size_t i = 0; i < e->phases.size(); i++) if (name == e->phases[i]->name) return e->phases[i];
    return 0;
  }
  static void fresh(IPhreeqc* p) {
    Phreeqc* e = p->PhreeqcPtr;
    for (size_t i = 0; i < e->phases.size(); i++) { e->phases[i]->pr_a = 0; e->phases[i]->pr_b = 0; e->phases[i]->pr_alpha = 0; e->phases[i]->pr_tk = 0; e->phases[i]->pr_in = false; }
  }
  // pr <iterations> <P> <TK> <Vm> <n> {<hexname> <moles>}*n
  static void pr(IPhreeqc* p, const std::vector<std::string>& w) {
    Phreeqc* e = p->PhreeqcPtr;
    int iter = std::stoi(w[1]);
    double P = hx::unhexd(w[2]), TK = hx::unhexd(w[3]), Vm = hx::unhexd(w[4]);
    size_t n = (size_t)std::stoul(w[5]);
    std::vector<class phase*> ptrs;
    bool allzero = true;
    for (size_t i = 0; i < n; i++) {
      class phase* ph = find(e, hx::unhex(w[6 + 2 * i]));
      if (!ph) { std::cout << "R unknown-gas\n"; return; }
      ph->moles_x = hx::unhexd(w[7 + 2 * i]);
      if (ph->moles_x != 0) allzero = false;
      ptrs.push_back(ph);
    }
    e->iterations = iter;
    e->state = REACTION;              // no log K adjustment (that branch is for initial equilibrations)
    e->use.Set_gas_phase_ptr(NULL);   // return V_m, do not write into a gas phase
    double ret;
    try { ret = e->calc_PR(ptrs, P, TK, Vm); }
    catch (...) { std::cout << "R exception\n"; return; }
    if (n > 1 && allzero) { std::cout << "R early\n"; return; }
    std::cout << "R " << hx::hexd(ret) << " " << hx::hexd(e->b_sum) << " " << hx::hexd(e->a_aa_sum);
    for (size_t i = 0; i < n; i++)
      std::cout << " " << hx::hexd(ptrs[i]->fraction_x) << " " << hx::hexd(ptrs[i]->pr_p) << " " << hx::hexd(ptrs[i]->pr_phi)
                << " " << hx::hexd(ptrs[i]->pr_si_f);
    std::cout << "\n";
  }
  // prn <iterations> <volume> <TK> <n> {<hexname> <moles>}*n : the no-argument calc_PR() of gases.cpp on hand-made gas unknowns
  static void prn(IPhreeqc* p, const std::vector<std::string>& w) {
    Phreeqc* e = p->PhreeqcPtr;
    int iter = std::stoi(w[1]);
    double vol = hx::unhexd(w[2]), TK = hx::unhexd(w[3]);
    size_t n = (size_t)std::stoul(w[4]);
    std::vector<class unknown> us(n);
    std::vector<class phase*> ptrs;
    double msum = 0;
    for (size_t i = 0; i < n; i++) {
      class phase* ph = find(e, hx::unhex(w[5 + 2 * i]));
      if (!ph) { std::cout << "R unknown-gas\n"; return; }
      us[i].type = GAS_MOLES; us[i].phase = ph; us[i].moles = hx::unhexd(w[6 + 2 * i]);
      msum += us[i].moles;
      ptrs.push_back(ph);
    }
    cxxGasPhase gp;
    gp.Set_type(cxxGasPhase::GP_VOLUME);
    gp.Set_volume(vol);
    std::vector<class unknown*> saved = e->gas_unknowns;
    e->gas_unknowns.clear();
    for (size_t i = 0; i < n; i++) e->gas_unknowns.push_back(&us[i]);
    e->use.Set_gas_phase_ptr(&gp);
    e->iterations = iter; e->state = REACTION; e->tk_x = TK;
    double ret = 0; bool thrown = false;
    try { ret = e->calc_PR(); } catch (...) { thrown = true; }
    e->use.Set_gas_phase_ptr(NULL);
    e->gas_unknowns = saved;
    if (thrown) { std::cout << "R exception\n"; return; }
    if (msum == 0) { std::cout << "R early\n"; return; }
    std::cout << "R " << hx::hexd(gp.Get_v_m()) << " " << hx::hexd(e->b_sum) << " " << hx::hexd(e->a_aa_sum);
    for (size_t i = 0; i < n; i++)
      std::cout << " " << hx::hexd(ptrs[i]->fraction_x) << " " << hx::hexd(ptrs[i]->pr_p) << " " << hx::hexd(ptrs[i]->pr_phi)
                << " " << hx::hexd(ptrs[i]->pr_si_f);
    std::cout << " " << hx::hexd(gp.Get_total_p()) << "\n";
    (void)ret;
  }
  static void after_run(IPhreeqc* p) {
    Phreeqc* e = p->PhreeqcPtr;
    std::cout << "X nfv " << (e->numerical_fixed_volume ? 1 : 0) << "\n";
  }
};

static void show_rows(IPhreeqc* p) {
  int nr = p->GetSelectedOutputRowCount(), nc = p->GetSelectedOutputColumnCount();
  for (int r = 0; r < nr; r++) {
    std::cout << "ROW";
    for (int c = 0; c < nc; c++) {
      VAR v; VarInit(&v);
      p->GetSelectedOutputValue(r, c, &v);
      switch (v.type) {
        case TT_EMPTY: std::cout << " E"; break;
        case TT_ERROR: std::cout << " X" << (int)v.vresult; break;
        case TT_LONG: std::cout << " L" << v.lVal; break;
        case TT_DOUBLE: std::cout << " D" << hx::hexd(v.dVal); break;
        case TT_STRING: std::cout << " S" << hx::hex(v.sVal ? v.sVal : ""); break;
      }
      VarClear(&v);
    }
    std::cout << "\n";
  }
}

int main() {
  IPhreeqc* p = 0;
  std::string line;
  while (std::getline(std::cin, line)) {
    auto w = hx::words(line);
    if (w.empty()) continue;
    const std::string& op = w[0];
    if (op == "db" || op == "dbs") {
      delete p; p = new IPhreeqc();
      int rc = op == "db" ? p->LoadDatabase(hx::unhex(w[1]).c_str()) : p->LoadDatabaseString(hx::unhex(w[1]).c_str());
      std::cout << "D " << rc << "\n";
    } else if (!p) { std::cout << "no-db\n"; }
    else if (op == "dump") TestIPhreeqc::dump(p);
    else if (op == "fresh") TestIPhreeqc::fresh(p);
    else if (op == "pr" && w.size() >= 6 && w.size() == 6 + 2 * std::stoul(w[5])) TestIPhreeqc::pr(p, w);
    else if (op == "prn" && w.size() >= 5 && w.size() == 5 + 2 * std::stoul(w[4])) TestIPhreeqc::prn(p, w);
    else if (op == "mark") std::cout << "M " << w[1] << "\n";
    else if (op == "run") {
      p->SetSelectedOutputStringOn(false); p->SetOutputStringOn(false); p->SetErrorStringOn(true);
      p->SetSelectedOutputFileOn(false); p->SetOutputFileOn(false); p->SetErrorFileOn(false); p->SetLogFileOn(false);
      int rc = -999;
      try { rc = p->RunString(hx::unhex(w[1]).c_str()); } catch (...) { rc = -998; }
      std::cout << "RUN " << rc << " " << hx::hex(rc ? std::string(p->GetErrorString()).substr(0, 400) : std::string()) << "\n";
      std::cout << "W " << hx::hex(std::string(p->GetWarningString()).substr(0, 600)) << "\n";
      show_rows(p);
      TestIPhreeqc::after_run(p);
      std::cout << "ENDRUN\n";
    } else std::cout << "bad-op\n";
  }
  delete p;
  return 0;
}
