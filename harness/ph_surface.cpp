// C20 harness: runs real PHREEQC inputs that contain a SURFACE and dumps, at every USER_PUNCH evaluation
// (BASIC `CALLBACK(0,0,"dump")` → after the calculation of that row has completed), the engine's own surface state:
// surface species (la, lm, lk, moles, z, CD-MUSIC dz, rewritten reaction rxn_x incl. psi tokens, database reaction rxn,
// element list), surface unknowns x[i] (type, moles, f, residual), mu_x, eps_r, tk_x, charge structures, diffuse-layer
// g_moles, plus the row of public read-outs (USER_PUNCH EDL/SURF/MOL/LA/MU/EPS_R/TK ...) the same run produced.
// stdin ops:  list <dbpath>            → database SURF species and their database reactions
//             case <id> <dbpath> <hex> → run input text; prints blocks `B … E`, then `END id errors=n`
#ifndef CPPUNIT
#define CPPUNIT 1
#endif
#include "IPhreeqc.hpp"
#include "Phreeqc.h"
#include "hx.hpp"
#include "Surface.h"
#include "SurfaceComp.h"
#include "SurfaceCharge.h"
#include "Use.h"
#include <sstream>
#include <set>
using hx::hex; using hx::hexd;

struct Run {
  IPhreeqc* ip = 0;
  std::vector<std::string> blocks;   // one per callback
};

class Dumper {
public:
  static std::string tok(Phreeqc* e, class rxn_token& t, bool raw) {
    std::ostringstream o;
    class species* s = t.s;
    // log activity as LA() reports it: lm + lg for aqueous species (the `la` field is only maintained for masters)
    double la = s ? ((s->type == AQ && !raw) ? s->lm + s->lg : s->la) : 0.0;
    o << " " << hex(s ? s->name : (t.name ? t.name : "")) << " " << hexd(t.coef) << " " << hexd(la)
      << " " << (s ? s->type : -1) << " " << hexd(s ? s->z : 0.0);
    return o.str();
  }
  static size_t ntok(CReaction& r) {   // tokens 1.. up to the terminating NULL species
    size_t n = 0;
    for (size_t i = 1; i < r.token.size(); i++) { if (r.token[i].s == NULL) break; n++; }
    return n;
  }
};

// all engine access goes through the friend class (Phreeqc.h / IPhreeqc.hpp declare `friend class TestIPhreeqc`)
class TestIPhreeqc {
public:
  static std::string block(IPhreeqc* ip) {
    Phreeqc* e = ip->PhreeqcPtr;
    std::ostringstream o;
    cxxSurface* sp = e->use.Get_surface_ptr();
    bool have = sp != NULL && e->use.Get_surface_in() && e->surface_unknown != NULL;
    o << "G " << (have ? 1 : 0) << " " << e->state;
    if (!have) { o << "\n"; return o.str(); }
    o << " " << (int)sp->Get_type() << " " << (int)e->dl_type_x << " " << (sp->Get_only_counter_ions() ? 1 : 0)
      << " " << (sp->Get_related_phases() ? 1 : 0) << " " << (sp->Get_related_rate() ? 1 : 0)
      << " " << (sp->Get_correct_D() ? 1 : 0) << " " << e->iterations << "\n";
    o << "S " << hexd(e->tk_x) << " " << hexd(e->mu_x) << " " << hexd(e->eps_r) << " " << hexd(e->mass_water_aq_x)
      << " " << hexd(e->mass_water_bulk_x) << " " << hexd(e->mass_water_surfaces_x) << " " << hexd(e->convergence_tolerance)
      << " " << hexd(e->ineq_tol) << " " << hexd(e->MIN_RELATED_SURFACE) << " " << hexd(sp->Get_thickness())
      << " " << hexd(sp->Get_debye_lengths()) << " " << hexd(sp->Get_DDL_limit()) << " " << hexd(e->patm_x) << "\n";
    o << "W " << hexd(e->s_h2o->la) << " " << hexd(e->s_eminus->la) << " " << hexd(e->s_hplus->la) << " " << hexd(e->G_TOL) << "\n";
    for (size_t i = 0; i < sp->Get_surface_comps().size(); i++) {
      cxxSurfaceComp& c = sp->Get_surface_comps()[i];
      o << "K " << hex(c.Get_formula()) << " " << hex(c.Get_charge_name()) << " " << hex(c.Get_phase_name()) << " "
        << hex(c.Get_rate_name()) << " " << hexd(c.Get_phase_proportion()) << " " << hexd(c.Get_moles()) << " "
        << hex(c.Get_master_element()) << "\n";
    }
    for (size_t i = 0; i < sp->Get_surface_charges().size(); i++) {
      cxxSurfaceCharge& c = sp->Get_surface_charges()[i];
      o << "C " << hex(c.Get_name()) << " " << hexd(c.Get_specific_area()) << " " << hexd(c.Get_grams()) << " "
        << hexd(c.Get_mass_water()) << " " << hexd(c.Get_capacitance0()) << " " << hexd(c.Get_capacitance1()) << " "
        << hexd(c.Get_sigma0()) << " " << hexd(c.Get_sigma1()) << " " << hexd(c.Get_sigma2()) << " " << hexd(c.Get_sigmaddl()) << "\n";
      for (std::map<LDBLE, cxxSurfDL>::iterator it = c.Get_g_map().begin(); it != c.Get_g_map().end(); ++it)
        o << "Gm " << hex(c.Get_name()) << " " << hexd(it->first) << " " << hexd(it->second.Get_g()) << "\n";
    }
    for (int i = 0; i < e->count_unknowns; i++) {
      class unknown* u = e->x[i];
      if (u->type < SURFACE || u->type > SURFACE_CB2) continue;
      class master* m = u->master.size() ? u->master[0] : NULL;
      o << "U " << i << " " << u->type << " " << hex(u->description ? u->description : "") << " " << hexd(u->moles) << " "
        << hexd(u->f) << " " << hexd(e->residual[i]) << " " << hex(m ? m->s->name : "") << " " << hexd(m ? m->s->la : 0.0) << " "
        << hex(u->surface_charge ? u->surface_charge : "") << " " << hex(u->surface_comp ? u->surface_comp : "") << " "
        << (u->phase_unknown ? 1 : 0) << " " << hexd(u->phase_unknown ? u->phase_unknown->moles : 0.0) << " "
        << hexd(m ? m->s->z : 0.0) << " " << (u->potential_unknown ? (int)u->potential_unknown->number : -1) << " "
        << hex(m ? m->elt->name : "") << " " << hexd(m ? m->coef : 0.0) << "\n";
    }
    for (size_t k = 0; k < e->s_x.size(); k++) {
      class species* s = e->s_x[k];
      if (s->type == SURF) {
        double lkdb = e->k_calc(s->rxn.logk, e->tk_x, e->patm_x * PASCAL_PER_ATM);
        o << "P " << hex(s->name) << " " << hexd(s->z) << " " << hexd(s->lm) << " " << hexd(s->la) << " " << hexd(s->lk) << " "
          << hexd(s->lg) << " " << hexd(s->moles) << " " << hexd(lkdb) << " " << hexd(s->dz[0]) << " " << hexd(s->dz[1]) << " "
          << hexd(s->dz[2]) << " " << (s->primary ? 1 : 0);
        size_t n = Dumper::ntok(s->rxn_x);
        o << " " << n;
        for (size_t j = 1; j <= n; j++) o << Dumper::tok(e, s->rxn_x.token[j], true);
        n = Dumper::ntok(s->rxn);
        o << " " << n;
        for (size_t j = 1; j <= n; j++) o << Dumper::tok(e, s->rxn.token[j], false);
        size_t ne = 0;
        for (size_t j = 0; j < s->next_elt.size(); j++) { if (s->next_elt[j].elt == NULL) break; ne++; }
        o << " " << ne;
        for (size_t j = 0; j < ne; j++) {
          class element* el = s->next_elt[j].elt;
          int mtype = (el->master && el->master->s) ? el->master->s->type : -1;
          o << " " << hex(el->name) << " " << hexd(s->next_elt[j].coef) << " " << mtype;
        }
        o << " " << hexd(s->rxn.token.size() ? s->rxn.token[0].coef : 0.0) << " " << hexd(s->rxn_x.token.size() ? s->rxn_x.token[0].coef : 0.0);
        o << " " << hexd(s->equiv) << " " << hexd(s->alk);
        for (int j = 0; j < 5; j++) o << " " << hexd(s->cd_music[j]);
        o << "\n";
      } else if (s->type <= HPLUS) {   // aqueous species incl. H+ (types AQ=0, HPLUS=1)
        o << "A " << hex(s->name) << " " << hexd(s->z) << " " << hexd(s->lm) << " " << hexd(s->moles) << " " << hexd(s->erm_ddl)
          << " " << hexd(s->la) << " " << hexd(s->lg);
        if (e->dl_type_x != cxxSurface::NO_DL && (size_t)s->number < e->s_diff_layer.size()) {
          std::map<std::string, cxxSpeciesDL>& m = e->s_diff_layer[s->number];
          o << " " << m.size();
          for (std::map<std::string, cxxSpeciesDL>::iterator it = m.begin(); it != m.end(); ++it)
            o << " " << hex(it->first) << " " << hexd(it->second.Get_g_moles());
        } else o << " 0";
        o << "\n";
      }
    }
    return o.str();
  }
  static void list(IPhreeqc* ip) {
    Phreeqc* e = ip->PhreeqcPtr;
    for (size_t i = 0; i < e->s.size(); i++) {
      class species* s = e->s[i];
      if (s->type != SURF) continue;
      std::cout << "L " << hex(s->name) << " " << hexd(s->z) << " " << (s->primary ? 1 : 0);
      size_t n = Dumper::ntok(s->rxn);
      std::cout << " " << n;
      for (size_t j = 1; j <= n; j++)
        std::cout << " " << hex(s->rxn.token[j].s ? s->rxn.token[j].s->name : "") << " " << hexd(s->rxn.token[j].coef)
                  << " " << (s->rxn.token[j].s ? s->rxn.token[j].s->type : -1);
      std::cout << " " << hexd(s->logk[0]) << "\n";
    }
    for (size_t i = 0; i < e->master.size(); i++) {
      if (e->master[i]->type != SURF) continue;
      std::cout << "M " << hex(e->master[i]->elt->name) << " " << hex(e->master[i]->s->name) << "\n";
    }
  }
};

static double cb(double x1, double x2, const char* str, void* cookie) {
  Run* r = (Run*)cookie;
  r->blocks.push_back(TestIPhreeqc::block(r->ip));
  return (double)r->blocks.size();
}

static std::string showVar(const VAR& v) {
  switch (v.type) {
    case TT_EMPTY: return "E";
    case TT_ERROR: return "X";
    case TT_LONG: return "D" + hexd((double)v.lVal);
    case TT_DOUBLE: return "D" + hexd(v.dVal);
    case TT_STRING: return "S" + hex(v.sVal ? v.sVal : "");
  }
  return "?";
}

int main() {
  std::string line, curdb;
  bool dirty = false;
  IPhreeqc* ip = 0;
  Run run;
  while (std::getline(std::cin, line)) {
    std::vector<std::string> w = hx::words(line);
    if (w.empty()) continue;
    if ((w[0] == "list" && w.size() == 2) || (w[0] == "case" && w.size() == 4)) {
      const std::string& db = w[0] == "list" ? w[1] : w[2];
      // definitions made by an input (SURFACE_SPECIES …) persist in the instance: start every case from the database alone
      if (!ip || db != curdb || w[0] == "list" || dirty) {
        dirty = false;
        delete ip; ip = new IPhreeqc(); curdb = db;
        ip->SetOutputFileOn(false); ip->SetErrorFileOn(false); ip->SetLogFileOn(false); ip->SetSelectedOutputFileOn(false);
        ip->SetDumpFileOn(false);
        if (ip->LoadDatabase(db.c_str()) != 0) { std::cout << "DBERR " << hex(ip->GetErrorString()) << "\n"; delete ip; ip = 0; curdb = ""; continue; }
      }
      if (w[0] == "list") { TestIPhreeqc::list(ip); std::cout << "ENDLIST\n"; std::cout.flush(); continue; }
      run.ip = ip; run.blocks.clear();
      ip->SetBasicCallback(cb, &run);
      ip->SetErrorStringOn(true);
      if (getenv("C20_DEBUG")) ip->SetOutputStringOn(true);
      std::string input = hx::unhex(w[3]);
      if (input.find("_SPECIES") != std::string::npos) dirty = true;
      int nerr = ip->RunString(input.c_str());
      std::string errtxt = nerr ? ip->GetErrorString() : "";
      std::cout << "CASE " << w[1] << " errors=" << nerr << " blocks=" << run.blocks.size() << "\n";
      // rows of selected output 1 (row 0 = headings)
      ip->SetCurrentSelectedOutputUserNumber(1);
      int nr = ip->GetSelectedOutputRowCount(), nc = ip->GetSelectedOutputColumnCount();
      std::vector<std::string> heads;
      for (int c = 0; c < nc; c++) { VAR v; VarInit(&v); ip->GetSelectedOutputValue(0, c, &v); heads.push_back(v.type == TT_STRING ? v.sVal : ""); VarClear(&v); }
      for (size_t k = 0; k < run.blocks.size(); k++) {
        std::cout << "B " << w[1] << " " << k << "\n" << run.blocks[k];
        int row = (int)k + 1;
        if (row < nr) {
          for (int c = 0; c < nc; c++) {
            VAR v; VarInit(&v); ip->GetSelectedOutputValue(row, c, &v);
            std::cout << "R " << hex(heads[c]) << " " << showVar(v) << "\n";
            VarClear(&v);
          }
        } else std::cout << "NOROW\n";
        std::cout << "E\n";
      }
      if (nerr) std::cout << "ERR " << hex(errtxt) << "\n";
      if (nerr && getenv("C20_DEBUG")) { std::string o = ip->GetOutputString(); std::cerr << o.substr(o.size() > 3000 ? o.size() - 3000 : 0) << "\n"; }
      std::cout << "END " << w[1] << " rows=" << (nr > 0 ? nr - 1 : 0) << "\n";
      std::cout.flush();
      if (nerr) { delete ip; ip = 0; curdb = ""; }   // a failed run may leave the instance in an odd state: start fresh
    } else std::cout << "bad-op\n";
  }
  delete ip;
  return 0;
}
