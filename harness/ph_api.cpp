// C13 correspondence harness. Every op names the C function it exercises; getters are read through the C API, through the
// C++ object behind the id (friend access to IPhreeqc::Instances) and through the Fortran glue (…F functions) side by side;
// mutating functions go through ONE binding chosen by the caller (via = c | f | p(C++ object)). The first segment of each
// output line is the C-level result (compared with `pmodel api`); the segments after " | " are the other bindings.
//   create | createcpp | createf                 destroy | destroycpp | destroyf <id>
//   g1 <Name> <id>                 int  Name(id)                       -> "I c | cpp x | f y"
//   g2 <Name> <id> <cap>           const char* Name(id); NameF(id, buf[cap], len) where it exists -> "S hex | cpp hex | f buf:len"
//   g3 <Name> <id> <n> <cap>       const char* Name(id, n); NameF(id, n+1, buf[cap], len)
//   nth <id> <n>                   GetNthSelectedOutputUserNumber(id, n) / C++ / F(n+1)
//   g4 <via> <Name> <id> <int>     Name(id, int)                       -> "I r"
//   g5 <via> <Name> <id> <hex|NULL>Name(id, const char*)               -> "I r"
//   g6 <via> <Name> <id>           void Name(id), stdout captured      -> "O hex"
//   cell <id> <row> <col> [cap]    GetSelectedOutputValue / C++ / Value2 (buffer of cap chars) / ValueF(col+1, buffer of cap chars)
//   setcb <via> <id>               SetBasicCallback (c, p) / SetBasicFortranCallback (fc) / …F (f)
//   version                        GetVersionString / IPhreeqc::GetVersionString / GetVersionStringF
//   loaddb <via> <id> | loadbad <via> <id> | defsel <via> <id> <n> <hex|->      (PH_DB = database path)
//   runsel <via> <id> <hex> <n>...  RunString of a real input that defines SELECTED_OUTPUT n... (no -file option)
//   loadstr <via> <id> | loadstrbad <via> <id>   LoadDatabaseString with the database text / with text that fails
//   pad <hex> <len>                padfstring(dest[len], src, &len)    -> "P buf:len"
#include "friend.hpp"
#include "hx.hpp"
#include "IPhreeqc.h"
#include "IPhreeqc_interface_F.h"
#include <map>
#include <functional>
#include <fstream>
void padfstring(char *dest, const char *src, int* len);
static std::string fstr(const char* buf, int cap, int len){ // Fortran buffer: cap characters, reported length len
  std::string s(buf, cap); return hx::hex(s)+":"+std::to_string(len); }
#define FBUF 48
static double cb_c(double x1, double x2, const char* s, void* cookie){ return x1 + x2 + (cookie ? *(double*)cookie : 0); }
static double cb_f(double* x1, double* x2, const char* s, int l){ return *x1 * *x2 + l; }
static double cookie_val = 1000.0;

struct G1 { std::function<int(int)> c; std::function<int(IPhreeqc*)> p; std::function<int(int*)> f; };
struct G2 { std::function<const char*(int)> c; std::function<const char*(IPhreeqc*)> p; std::function<void(int*,char*,int*)> f; };
struct G3 { std::function<const char*(int,int)> c; std::function<const char*(IPhreeqc*,int)> p; std::function<void(int*,int*,char*,int*)> f; };
struct G4 { std::function<int(int,int)> c; std::function<int(IPhreeqc*,int)> p; std::function<int(int*,int*)> f; };
struct G5 { std::function<int(int,const char*)> c; std::function<int(IPhreeqc*,const char*)> p; std::function<int(int*,char*)> f; };
struct G6 { std::function<void(int)> c; std::function<void(IPhreeqc*)> p; std::function<void(int*)> f; };
#define E1(N)   {#N, { [](int id){return (int)N(id);}, [](IPhreeqc* q){return (int)q->N();}, [](int* id){return (int)N##F(id);} }}
#define E2F(N)  {#N, { [](int id){return N(id);}, [](IPhreeqc* q){return q->N();}, [](int* id,char* b,int* l){ N##F(id,b,l); } }}
#define E2(N)   {#N, { [](int id){return N(id);}, [](IPhreeqc* q){return q->N();}, nullptr }}
#define E3(N)   {#N, { [](int id,int n){return N(id,n);}, [](IPhreeqc* q,int n){return q->N(n);}, [](int* id,int* n,char* b,int* l){ N##F(id,n,b,l); } }}
#define E4B(N)  {#N, { [](int id,int v){return (int)N(id,v);}, [](IPhreeqc* q,int v){ q->N(v!=0); return 0;}, [](int* id,int* v){return (int)N##F(id,v);} }}
#define E5V(N)  {#N, { [](int id,const char* s){return (int)N(id,s);}, [](IPhreeqc* q,const char* s){ q->N(s); return 0;}, [](int* id,char* s){return (int)N##F(id,s);} }}
#define E5I(N)  {#N, { [](int id,const char* s){return (int)N(id,s);}, [](IPhreeqc* q,const char* s){ return (int)q->N(s);}, [](int* id,char* s){return (int)N##F(id,s);} }}
#define E6(N)   {#N, { [](int id){N(id);}, [](IPhreeqc* q){q->N();}, [](int* id){N##F(id);} }}

static std::map<std::string,G1> g1 = { E1(GetComponentCount), E1(GetCurrentSelectedOutputUserNumber), E1(GetDumpFileOn), E1(GetDumpStringLineCount),
  E1(GetDumpStringOn), E1(GetErrorFileOn), E1(GetErrorOn), E1(GetErrorStringLineCount), E1(GetErrorStringOn), E1(GetLogFileOn),
  E1(GetLogStringLineCount), E1(GetLogStringOn), E1(GetOutputFileOn), E1(GetOutputStringLineCount), E1(GetOutputStringOn),
  E1(GetSelectedOutputColumnCount), E1(GetSelectedOutputCount), E1(GetSelectedOutputFileOn), E1(GetSelectedOutputRowCount),
  E1(GetSelectedOutputStringLineCount), E1(GetSelectedOutputStringOn), E1(GetWarningStringLineCount), E1(RunAccumulated),
  {"ClearAccumulatedLines", { [](int id){return (int)ClearAccumulatedLines(id);}, [](IPhreeqc* q){ q->ClearAccumulatedLines(); return 0;}, [](int* id){return (int)ClearAccumulatedLinesF(id);} }} };
static std::map<std::string,G2> g2 = { E2F(GetDumpFileName), E2F(GetErrorFileName), E2F(GetLogFileName), E2F(GetOutputFileName),
  E2F(GetSelectedOutputFileName), E2(GetDumpString), E2(GetErrorString), E2(GetLogString), E2(GetOutputString), E2(GetSelectedOutputString),
  E2(GetWarningString) };
static std::map<std::string,G3> g3 = { E3(GetComponent), E3(GetDumpStringLine), E3(GetErrorStringLine), E3(GetLogStringLine),
  E3(GetOutputStringLine), E3(GetSelectedOutputStringLine), E3(GetWarningStringLine) };
static std::map<std::string,G4> g4 = { E4B(SetDumpFileOn), E4B(SetDumpStringOn), E4B(SetErrorFileOn), E4B(SetErrorOn), E4B(SetErrorStringOn),
  E4B(SetLogFileOn), E4B(SetLogStringOn), E4B(SetOutputFileOn), E4B(SetOutputStringOn), E4B(SetSelectedOutputFileOn), E4B(SetSelectedOutputStringOn),
  {"SetCurrentSelectedOutputUserNumber", { [](int id,int v){return (int)SetCurrentSelectedOutputUserNumber(id,v);},
     [](IPhreeqc* q,int v){return (int)q->SetCurrentSelectedOutputUserNumber(v);}, [](int* id,int* v){return (int)SetCurrentSelectedOutputUserNumberF(id,v);} }} };
static std::map<std::string,G5> g5 = { E5V(SetDumpFileName), E5V(SetErrorFileName), E5V(SetLogFileName), E5V(SetOutputFileName),
  E5V(SetSelectedOutputFileName), E5I(AccumulateLine), E5I(AddError), E5I(AddWarning), E5I(LoadDatabase), E5I(LoadDatabaseString),
  E5I(RunFile), E5I(RunString) };
static std::map<std::string,G6> g6 = { E6(OutputAccumulatedLines), E6(OutputErrorString), E6(OutputWarningString) };

int main(){
  std::streambuf* real = std::cout.rdbuf(); std::ostream out(real);
  std::ostringstream cap; std::cout.rdbuf(cap.rdbuf());          // whatever the library prints to std::cout is captured
  const char* dbp = getenv("PH_DB"); std::string db = dbp ? dbp : "";
  std::string line;
  while(std::getline(std::cin,line)){
    auto w = hx::words(line); if(w.empty()) continue;
    const std::string& op=w[0];
    auto arg=[&](size_t k){ return std::stoi(w.at(k)); };
    try {
    if(op=="create"){ out<<"I "<<CreateIPhreeqc()<<"\n"; }
    else if(op=="createcpp"){ IPhreeqc* q=new IPhreeqc(); out<<"I "<<q->GetId()<<"\n"; }
    else if(op=="createf"){ out<<"I "<<CreateIPhreeqcF()<<"\n"; }
    else if(op=="destroy"){ out<<"I "<<(int)DestroyIPhreeqc(arg(1))<<"\n"; }
    else if(op=="destroyf"){ int id=arg(1); out<<"I "<<(int)DestroyIPhreeqcF(&id)<<"\n"; }
    else if(op=="destroycpp"){ IPhreeqc* q=TestIPhreeqc::instance(arg(1)); if(q){ delete q; out<<"I 0\n"; } else out<<"I -6\n"; }
    else if(op=="g1"){ auto& e=g1.at(w[1]); int id=arg(2); IPhreeqc* q=TestIPhreeqc::instance(id);
      // mutating members of this group (RunAccumulated, ClearAccumulatedLines) are idempotent here: same state, same answer
      int c=e.c(id); int p=q?e.p(q):-77; int f=e.f(&id);
      out<<"I "<<c<<" | cpp "<<p<<" | f "<<f<<"\n"; }
    else if(op=="g2"){ auto& e=g2.at(w[1]); int id=arg(2), capn=arg(3); IPhreeqc* q=TestIPhreeqc::instance(id);
      const char* c=e.c(id); std::string cs=c?c:"(null)"; const char* p=q?e.p(q):0; std::string ps=p?hx::hex(p):std::string("dead");
      std::string fs="-"; if(e.f){ std::vector<char> buf(capn+8,'#'); int len=capn; e.f(&id,buf.data(),&len);
        bool intact=true; for(int k=capn;k<capn+8;k++) intact = intact && buf[k]=='#'; fs=fstr(buf.data(),capn,len)+(intact?"":":OVERRUN"); }
      out<<"S "<<hx::hex(cs)<<" | cpp "<<ps<<" | f "<<fs<<"\n"; }
    else if(op=="g3"){ auto& e=g3.at(w[1]); int id=arg(2), n=arg(3), capn=arg(4), nf=n+1; IPhreeqc* q=TestIPhreeqc::instance(id);
      const char* c=e.c(id,n); std::string cs=c?c:"(null)"; const char* p=q?e.p(q,n):0; std::string ps=p?hx::hex(p):std::string("dead");
      std::vector<char> buf(capn+8,'#'); int len=capn; e.f(&id,&nf,buf.data(),&len);
      bool intact=true; for(int k=capn;k<capn+8;k++) intact = intact && buf[k]=='#';
      out<<"S "<<hx::hex(cs)<<" | cpp "<<ps<<" | f "<<fstr(buf.data(),capn,len)<<(intact?"":":OVERRUN")<<"\n"; }
    else if(op=="nth"){ int id=arg(1), n=arg(2), nf=n+1; IPhreeqc* q=TestIPhreeqc::instance(id);
      out<<"I "<<GetNthSelectedOutputUserNumber(id,n)<<" | cpp "<<(q?q->GetNthSelectedOutputUserNumber(n):-77)<<" | f "<<GetNthSelectedOutputUserNumberF(&id,&nf)<<"\n"; }
    else if(op=="g4"){ auto& e=g4.at(w[2]); int id=arg(3), v=arg(4); IPhreeqc* q=TestIPhreeqc::instance(id); int r;
      if(w[1]=="c") r=e.c(id,v); else if(w[1]=="f") r=e.f(&id,&v); else r = q ? e.p(q,v) : -6;
      out<<"I "<<r<<"\n"; }
    else if(op=="g5"){ auto& e=g5.at(w[2]); int id=arg(3); std::string s; const char* a=0; if(w[4]!="NULL"){ s=hx::unhex(w[4]); a=s.c_str(); }
      IPhreeqc* q=TestIPhreeqc::instance(id); int r;
      if(w[1]=="c") r=e.c(id,a); else if(w[1]=="f") r=e.f(&id,(char*)a); else r = q ? e.p(q,a) : -6;
      out<<"I "<<r<<"\n"; }
    else if(op=="g6"){ auto& e=g6.at(w[2]); int id=arg(3); IPhreeqc* q=TestIPhreeqc::instance(id); cap.str("");
      if(w[1]=="c") e.c(id); else if(w[1]=="f") e.f(&id); else if(q) e.p(q); else std::cout<<w[2]<<": Invalid instance id.\n"<<std::endl;
      out<<"O "<<hx::hex(cap.str())<<"\n"; cap.str(""); }
    else if(op=="setcb"){ int id=arg(2); IPhreeqc* q=TestIPhreeqc::instance(id); int r;
      if(w[1]=="c") r=SetBasicCallback(id,cb_c,&cookie_val); else if(w[1]=="fc") r=SetBasicFortranCallback(id,cb_f);
      else if(w[1]=="f") r=SetBasicFortranCallbackF(&id,cb_f); else { if(q){ q->SetBasicCallback(cb_c,&cookie_val); r=0; } else r=-6; }
      out<<"I "<<r<<"\n"; }
    else if(op=="version"){ char buf[FBUF]; int len=FBUF; GetVersionStringF(buf,&len);
      out<<"S "<<hx::hex(GetVersionString())<<" | cpp "<<hx::hex(IPhreeqc::GetVersionString())<<" | f "<<fstr(buf,FBUF,len)<<"\n"; }
    else if(op=="loaddb"||op=="loadbad"){ int id=arg(2); std::string f = op=="loaddb" ? db : std::string("/nonexistent/none.dat"); IPhreeqc* q=TestIPhreeqc::instance(id); int r;
      if(w[1]=="c") r=LoadDatabase(id,f.c_str()); else if(w[1]=="f") r=LoadDatabaseF(&id,(char*)f.c_str()); else r = q ? q->LoadDatabase(f.c_str()) : -6;
      out<<"I "<<r<<"\n"; }
    else if(op=="loadstr"||op=="loadstrbad"){ // LoadDatabaseString with the text of PH_DB (succeeds) / with text that defines nothing (fails)
      int id=arg(2); static std::string dbtext; if(dbtext.empty()){ std::ifstream f(db.c_str()); std::ostringstream o; o<<f.rdbuf(); dbtext=o.str(); }
      std::string t = op=="loadstr" ? dbtext : std::string("XYZ\n"); IPhreeqc* q=TestIPhreeqc::instance(id); int r;
      if(w[1]=="c") r=LoadDatabaseString(id,t.c_str()); else if(w[1]=="f") r=LoadDatabaseStringF(&id,(char*)t.c_str()); else r = q ? q->LoadDatabaseString(t.c_str()) : -6;
      out<<"I "<<(op=="loadstrbad" && r>0 ? 1 : r)<<"\n"; }
    else if(op=="defsel"){ int id=arg(2), n=arg(3); std::string in="SELECTED_OUTPUT "+std::to_string(n)+"\n -reset false\n";
      if(w[4]!="-") in += " -file "+hx::unhex(w[4])+"\n"; IPhreeqc* q=TestIPhreeqc::instance(id); int r;
      if(w[1]=="c") r=RunString(id,in.c_str()); else if(w[1]=="f") r=RunStringF(&id,(char*)in.c_str()); else r = q ? q->RunString(in.c_str()) : -6;
      out<<"I "<<r<<"\n"; }
    else if(op=="runsel"){ // runsel via id hex n... : a real input that defines the listed SELECTED_OUTPUT numbers (none with -file)
      int id=arg(2); std::string in=hx::unhex(w[3]); IPhreeqc* q=TestIPhreeqc::instance(id); int r;
      if(w[1]=="c") r=RunString(id,in.c_str()); else if(w[1]=="f") r=RunStringF(&id,(char*)in.c_str()); else r = q ? q->RunString(in.c_str()) : -6;
      out<<"I "<<r<<"\n"; }
    else if(op=="pad"){ std::string s=hx::unhex(w[1]); int n=arg(2), len=n; std::vector<char> buf(n+8,'#'); padfstring(buf.data(), s.c_str(), &len);
      bool intact=true; for(int k=n;k<n+8;k++) intact = intact && buf[k]=='#';
      out<<"P "<<hx::hex(std::string(buf.data(),n))<<":"<<len<<(intact?"":":OVERRUN")<<"\n"; }
    else if(op=="cell"){ // cell id row col : C (0-based col), C++, Value2, F (1-based col)
      int id=arg(1), r=arg(2), c=arg(3); IPhreeqc* p=TestIPhreeqc::instance(id);
      auto show=[&](const VAR& v){ switch(v.type){case TT_EMPTY:return std::string("E");case TT_ERROR:return "X"+std::to_string((int)v.vresult);
        case TT_LONG:return "L"+std::to_string(v.lVal);case TT_DOUBLE:return "D"+hx::hexd(v.dVal);case TT_STRING:return "S"+hx::hex(v.sVal?v.sVal:"");} return std::string("?");};
      VAR v1; VarInit(&v1); int rc=GetSelectedOutputValue(id,r,c,&v1); std::string s1=show(v1); VarClear(&v1);
      std::string s2="dead"; int rcpp=-77; if(p){ VAR v2; VarInit(&v2); rcpp=p->GetSelectedOutputValue(r,c,&v2); s2=show(v2); VarClear(&v2);}
      // caller buffers of `capn` characters (default FBUF), 8 guard characters behind them
      int capn = w.size()>4 ? arg(4) : FBUF;
      std::vector<char> sv(capn+8,'#'), svf(capn+8,'#');
      int vt=-1; double d=0; int r2=GetSelectedOutputValue2(id,r,c,&vt,&d,sv.data(),capn);
      int vtf=-1; double df=0; int lenf=capn; int cf=c+1; int rf=GetSelectedOutputValueF(&id,&r,&cf,&vtf,&df,svf.data(),&lenf);
      bool intact=true; for(int k=capn;k<capn+8;k++) intact = intact && sv[k]=='#' && svf[k]=='#';
      out<<"I "<<rc<<" "<<s1<<" | cpp "<<rcpp<<" "<<s2<<" | v2 "<<r2<<" "<<vt<<" "<<hx::hexd(d)<<" "<<hx::hex(std::string(sv.data(),strnlen(sv.data(),capn)))
               <<" | f "<<rf<<" "<<vtf<<" "<<hx::hexd(df)<<" "<<fstr(svf.data(),capn,lenf)<<(intact?"":":OVERRUN")<<"\n";
    }
    else out<<"bad-op\n";
    } catch(const std::exception& e){ out<<"bad-op "<<e.what()<<"\n"; }
    out.flush();
  }
  return 0;
}
