/-! `pmodel store`: line-protocol driver (stub — replaced by the owner of this model). -/
namespace Driver.Store

def run : IO Unit := IO.eprintln "pmodel store: not implemented"

end Driver.Store
