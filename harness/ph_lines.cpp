// C04 harness for the line reader: drives the real PHRQ_io::get_line / get_logical_line on byte strings and prints every
// result in the format of `pmodel linereader`.  Run in an empty directory (include directives name files that must not exist).
// ops:  lines <hex>     get_line until LT_EOF:      "L <OK|KEYWORD|OPTION> <hex m_line> <hex m_line_save> <m_next_keyword>"
//                                                   "I <hex file name>" for an include directive (file missing -> PhreeqcStop)
//                                                   then "EOF <m_next_keyword>"
//       logical <hex>   get_logical_line until LT_EOF: "G <hex m_line_save>" ... "GEOF"
#include "PHRQ_io.h"
#include "Parser.h"
#include "hx.hpp"
#include <sstream>

class RecIO : public PHRQ_io {
public:
  std::string last_err;
  virtual void error_msg(const char* s, bool stop=false){ last_err = s ? s : ""; if(stop) throw PhreeqcStop(); }
  virtual void warning_msg(const char* s){}
  virtual void output_msg(const char* s){}
  virtual void log_msg(const char* s){}
  virtual void screen_msg(const char* s){}
};

static const char* tname(PHRQ_io::LINE_TYPE t){
  switch(t){ case PHRQ_io::LT_OK: return "OK"; case PHRQ_io::LT_KEYWORD: return "KEYWORD"; case PHRQ_io::LT_OPTION: return "OPTION";
             case PHRQ_io::LT_EMPTY: return "EMPTY"; case PHRQ_io::LT_EOF: return "EOF"; default: return "?"; }
}

int main(){
  std::string line;
  while(std::getline(std::cin,line)){
    auto w = hx::words(line);
    if(w.size()<2) continue;
    std::string bytes = hx::unhex(w[1]);
    RecIO io;
    std::istringstream iss(bytes);
    io.push_istream(&iss, false);
    if(w[0]=="lines"){
      int guard = 0;
      for(;;){
        if(++guard > 2000000){ std::cout<<"LOOP\n"; break; }
        PHRQ_io::LINE_TYPE t;
        try { t = io.get_line(); }
        catch (const PhreeqcStop&) {
          // "\n***********  Could not open include file NAME.\n   Please, ..."
          std::string m = io.last_err; std::string key = "include file ";
          size_t a = m.find(key), b = m.find(".\n             Please");
          // (the message reaches error_msg as a C string: a NUL inside the name cuts it short, then b is npos)
          std::string name = (a==std::string::npos) ? "?" : (b!=std::string::npos && b>=a+key.size()) ? m.substr(a+key.size(), b-a-key.size()) : m.substr(a+key.size());
          std::cout<<"I "<<hx::hex(name)<<"\n";
          continue;
        }
        if(t==PHRQ_io::LT_EOF){ std::cout<<"EOF "<<(int)io.Get_m_next_keyword()<<"\n"; break; }
        std::cout<<"L "<<tname(t)<<" "<<hx::hex(io.Get_m_line())<<" "<<hx::hex(io.Get_m_line_save())<<" "<<(int)io.Get_m_next_keyword()<<"\n";
      }
    } else if(w[0]=="logical"){
      int guard = 0;
      for(;;){
        if(++guard > 2000000){ std::cout<<"LOOP\n"; break; }
        PHRQ_io::LINE_TYPE t = io.get_logical_line();
        if(t==PHRQ_io::LT_EOF){ std::cout<<"GEOF\n"; break; }
        std::cout<<"G "<<hx::hex(io.Get_m_line_save())<<"\n";
      }
    } else std::cout<<"bad-op\n";
    io.clear_istream();
    std::cout<<"R done\n";
    std::cout.flush();
  }
  return 0;
}
