import PhreeqcVerif.Model.PengRobinson
import PhreeqcVerif.Model.GasPhase
import PhreeqcVerif.Lemmas.Gas
/-! C19 — gas phases obey their equation of state and fugacity-based equilibrium.

Theorems about the model of `calc_PR` / `calc_gas_pressures` / `mb_gases` over `Rat` with *uninterpreted*
`sqrt cbrt cos acos ln exp` (`ratOps f` for every `f`): whatever is used about those functions is an explicit
hypothesis at the very argument where the code applies them (never a universally quantified law, which no function
on `Rat` could satisfy).  The `Float` instance of the same definitions is compared with the real code by
`tools/props/c19.py`. -/
set_option linter.style.haveILetI false
namespace PhreeqcVerif.C19
open PhreeqcVerif NumOps PR GasPhase GasLemmas

/-- the identity function for every transcendental: enough for the examples that never call one -/
def idFns : TransFns Rat := ⟨id, id, id, id, id, id, id, id, id, id⟩

/-! ## 1. Peng–Robinson pressure ⇔ the cubic the code solves -/

/-- multiplied-out form: `P·(V−b)·D − (RT·D − a·(V−b)) = P·cubic(V)` with `D = V(V+2b) − b²`, for every `P ≠ 0` -/
theorem pr_cubic_identity (f : TransFns Rat) (rt b a p v : Rat) (hp : p ≠ 0) :
    letI := ratOps f
    p * (v - b) * (v * (v + 2 * b) - b * b) - (rt * (v * (v + 2 * b) - b * b) - a * (v - b))
      = p * (cubicOf rt b a p).eval v := by
  simp only [cubicOf, Cubic.eval, NumOps.lit, NumOps.ofRat, id]
  grind

/-- `P = RT/(V−b) − a/(V(V+2b)−b²)` iff `V` is a root of the code's cubic, under the non-zero denominators -/
theorem pr_iff_cubic (f : TransFns Rat) (rt b a p v : Rat) (hp : p ≠ 0) (hv : v - b ≠ 0)
    (hd : v * (v + 2 * b) - b * b ≠ 0) :
    letI := ratOps f
    p = prP rt b a v ↔ (cubicOf rt b a p).eval v = 0 := by
  have key := pr_cubic_identity f rt b a p v hp
  simp only [prP, cubicOf, Cubic.eval, NumOps.lit, NumOps.ofRat, id] at *
  constructor
  · intro h
    grind
  · intro h
    grind

/-- non-vacuity: RT = 24, b = 1, a = 35, V = 3: D = 14, P = 24/2 − 35/14 = 19/2, and 3 is a root of the cubic -/
example : (letI := ratOps idFns; prP (24 : Rat) 1 35 3) = 19 / 2 := by decide +kernel
example : (letI := ratOps idFns; (cubicOf (24 : Rat) 1 35 (19 / 2)).eval 3) = 0 := by decide +kernel
example : (letI := ratOps idFns; (cubicOf (24 : Rat) 1 35 (19 / 2)).eval 4) ≠ 0 := by decide +kernel

/-! ## 2. every branch of the cubic solver returns a root -/

/-- Cardano, `rz ≥ 0` and `ri + rq/2 ≤ 0`: sum of two real cube roots -/
theorem cardano_rootA (f : TransFns Rat) (c : Cubic Rat) :
    letI := ratOps f
    f.sqrt c.rz * f.sqrt c.rz = c.rz →
    (let A := f.sqrt c.rz - c.rq / 2; f.cbrt A * f.cbrt A * f.cbrt A = A) →
    (let B := -f.sqrt c.rz - c.rq / 2; f.cbrt B * f.cbrt B * f.cbrt B = B) →
    c.eval (rootA c) = 0 := by
  intro hs hA hB
  letI := ratOps f
  have hz : c.rz = c.rq * c.rq / 4 + c.rp * c.rp * c.rp / 27 := rfl
  have key := cardano_sum c.rp c.rq _ _ _ _ hA hB (by ring)
    (by rw [hz] at hs; rw [hz]; linarith [hs])
  have dep := depress c.r1 c.r2 c.r3
    (f.cbrt (f.sqrt c.rz - c.rq / 2) + f.cbrt (-f.sqrt c.rz - c.rq / 2))
  exact dep.trans key

/-- Cardano, `rz ≥ 0` and `ri + rq/2 > 0`: `w = −cbrt(ri + rq/2)`, `V = w − rp/(3w) − r1/3` -/
theorem cardano_rootB (f : TransFns Rat) (c : Cubic Rat) :
    letI := ratOps f
    f.sqrt c.rz * f.sqrt c.rz = c.rz →
    0 < f.sqrt c.rz + c.rq / 2 →
    (let B := f.sqrt c.rz + c.rq / 2; f.cbrt B * f.cbrt B * f.cbrt B = B) →
    c.eval (rootB c) = 0 := by
  intro hs hpos hB
  letI := ratOps f
  have hz : c.rz = c.rq * c.rq / 4 + c.rp * c.rp * c.rp / 27 := rfl
  have hw : (-(f.cbrt (f.sqrt c.rz + c.rq / 2))) * (-(f.cbrt (f.sqrt c.rz + c.rq / 2)))
      * (-(f.cbrt (f.sqrt c.rz + c.rq / 2))) = -(f.sqrt c.rz + c.rq / 2) := by
    have : ∀ y : Rat, (-y) * (-y) * (-y) = -(y * y * y) := by intro y; ring
    rw [this, hB]
  have key := cardano_quot c.rp c.rq (f.sqrt c.rz - c.rq / 2) (-(f.sqrt c.rz + c.rq / 2))
    (-(f.cbrt (f.sqrt c.rz + c.rq / 2))) hw (by linarith) (by ring)
    (by rw [hz] at hs; rw [hz]; linarith [hs])
  have dep := depress c.r1 c.r2 c.r3
    (-(f.cbrt (f.sqrt c.rz + c.rq / 2)) - c.rp / (3 * -(f.cbrt (f.sqrt c.rz + c.rq / 2))))
  exact dep.trans key

/-- trigonometric branch, `rz < 0`: `ri = sqrt(−rp³/27)`, `θ = acos(−rq/2/ri)`, `V = 2 cbrt(ri) cos(θ/3) − r1/3`;
the triple-angle law `cos θ = 4 cos³(θ/3) − 3 cos(θ/3)` and `cos (acos y) = y` are required at the used arguments -/
theorem cardano_rootC (f : TransFns Rat) (c : Cubic Rat) :
    letI := ratOps f
    c.rz < 0 →
    (let s := -(c.rp * c.rp * c.rp) / 27; f.sqrt s * f.sqrt s = s) →
    (let ri := f.sqrt (-(c.rp * c.rp * c.rp) / 27); f.cbrt ri * f.cbrt ri * f.cbrt ri = ri) →
    (let ri := f.sqrt (-(c.rp * c.rp * c.rp) / 27); f.cos (f.acos (-c.rq / 2 / ri)) = -c.rq / 2 / ri) →
    (let ri := f.sqrt (-(c.rp * c.rp * c.rp) / 27); let th := f.acos (-c.rq / 2 / ri)
      let k := f.cos (th / 3); f.cos th = 4 * (k * k * k) - 3 * k) →
    c.eval (rootC c) = 0 := by
  intro hneg hs hm hacos h3
  letI := ratOps f
  have hz : c.rz = c.rq * c.rq / 4 + c.rp * c.rp * c.rp / 27 := rfl
  have h0 := ri_ne_zero c.rp c.rq _ (by rw [hz] at hneg; exact hneg) hs
  have key := cardano_trig c.rp c.rq _ _ _ _ hs h0 hm hacos h3
  have dep := depress c.r1 c.r2 c.r3
    (2 * f.cbrt (f.sqrt (-(c.rp * c.rp * c.rp) / 27))
      * f.cos (f.acos (-c.rq / 2 / f.sqrt (-(c.rp * c.rp * c.rp) / 27)) / 3))
  exact dep.trans key

/-- the molar volume `calc_PR` returns for a given pressure is a root of its cubic — whichever branch is taken —
provided `sqrt`, `cbrt`, `cos`, `acos` obey their defining laws at the arguments of that branch -/
theorem cardano_branches_root (f : TransFns Rat) (rt b a p : Rat) :
    letI := ratOps f
    let c := cubicOf rt b a p
    (0 ≤ c.rz → f.sqrt c.rz * f.sqrt c.rz = c.rz) →
    (0 ≤ c.rz → f.sqrt c.rz + c.rq / 2 ≤ 0 →
      (let A := f.sqrt c.rz - c.rq / 2; f.cbrt A * f.cbrt A * f.cbrt A = A) ∧
      (let B := -f.sqrt c.rz - c.rq / 2; f.cbrt B * f.cbrt B * f.cbrt B = B)) →
    (0 ≤ c.rz → 0 < f.sqrt c.rz + c.rq / 2 →
      (let B := f.sqrt c.rz + c.rq / 2; f.cbrt B * f.cbrt B * f.cbrt B = B)) →
    (c.rz < 0 →
      (let s := -(c.rp * c.rp * c.rp) / 27; f.sqrt s * f.sqrt s = s) ∧
      (let ri := f.sqrt (-(c.rp * c.rp * c.rp) / 27); f.cbrt ri * f.cbrt ri * f.cbrt ri = ri) ∧
      (let ri := f.sqrt (-(c.rp * c.rp * c.rp) / 27); f.cos (f.acos (-c.rq / 2 / ri)) = -c.rq / 2 / ri) ∧
      (let ri := f.sqrt (-(c.rp * c.rp * c.rp) / 27); let th := f.acos (-c.rq / 2 / ri)
        let k := f.cos (th / 3); f.cos th = 4 * (k * k * k) - 3 * k)) →
    c.eval (vmOfP rt b a p) = 0 := by
  intro c hsq hA hB hC
  letI := ratOps f
  show c.eval (match c.branch with | 0 => rootA c | 1 => rootB c | _ => rootC c) = 0
  by_cases hz : (0 : Rat) ≤ c.rz
  · by_cases hb : f.sqrt c.rz + c.rq / 2 ≤ 0
    · have hbr : c.branch = 0 := by
        show (if (0 : Rat) ≤ c.rz then (if f.sqrt c.rz + c.rq / 2 ≤ 0 then 0 else 1) else 2) = 0
        rw [if_pos hz, if_pos hb]
      rw [hbr]
      exact cardano_rootA f c (hsq hz) (hA hz hb).1 (hA hz hb).2
    · have hbr : c.branch = 1 := by
        show (if (0 : Rat) ≤ c.rz then (if f.sqrt c.rz + c.rq / 2 ≤ 0 then 0 else 1) else 2) = 1
        rw [if_pos hz, if_neg hb]
      rw [hbr]
      exact cardano_rootB f c (hsq hz) (by linarith [not_le.mp hb]) (hB hz (not_le.mp hb))
  · have hbr : c.branch = 2 := by
      show (if (0 : Rat) ≤ c.rz then (if f.sqrt c.rz + c.rq / 2 ≤ 0 then 0 else 1) else 2) = 2
      rw [if_neg hz]
    rw [hbr]
    have hn := not_le.mp hz
    obtain ⟨h1, h2, h3, h4⟩ := hC hn
    exact cardano_rootC f c hn h1 h2 h3 h4

/-! non-vacuity of the three branches on concrete rationals (depressed cubics, `r1 = 0`):
A: `t³ − 6t − 9`, `rz = 49/4`, `ri = 7/2`, `ri + rq/2 = −1`, cube roots of 8 and 1, root 3;
B: `t³ − 6t + 9`, `ri + rq/2 = 8`, `w = −2`, root −3;
C: `t³ − 3t + 9/8`, `rz = 81/256 − 1 < 0`, `ri = 1`, `cos θ = −9/16`, `cos(θ/3) = 3/4`, root 3/2. -/
def exFns : TransFns Rat :=
  { idFns with
    sqrt := fun x => if x = 49 / 4 then 7 / 2 else if x = 1 then 1 else 0
    cbrt := fun x => if x = 8 then 2 else if x = 1 then 1 else 0
    acos := fun x => if x = -9 / 16 then 7 else 0
    cos := fun x => if x = 7 then -9 / 16 else if x = 7 / 3 then 3 / 4 else 0 }

example : (letI := ratOps exFns; rootA (⟨0, -6, -9⟩ : Cubic Rat)) = 3 := by decide +kernel
example : (letI := ratOps exFns; (⟨0, -6, -9⟩ : Cubic Rat).branch) = 0 := by decide +kernel
example : (letI := ratOps exFns; (⟨0, -6, -9⟩ : Cubic Rat).eval (rootA ⟨0, -6, -9⟩)) = 0 :=
  cardano_rootA exFns ⟨0, -6, -9⟩ (by decide +kernel) (by decide +kernel) (by decide +kernel)
example : (letI := ratOps exFns; rootB (⟨0, -6, 9⟩ : Cubic Rat)) = -3 := by decide +kernel
example : (letI := ratOps exFns; (⟨0, -6, 9⟩ : Cubic Rat).branch) = 1 := by decide +kernel
example : (letI := ratOps exFns; (⟨0, -6, 9⟩ : Cubic Rat).eval (rootB ⟨0, -6, 9⟩)) = 0 :=
  cardano_rootB exFns ⟨0, -6, 9⟩ (by decide +kernel) (by decide +kernel) (by decide +kernel)
example : (letI := ratOps exFns; rootC (⟨0, -3, 9 / 8⟩ : Cubic Rat)) = 3 / 2 := by decide +kernel
example : (letI := ratOps exFns; (⟨0, -3, 9 / 8⟩ : Cubic Rat).branch) = 2 := by decide +kernel
example : (letI := ratOps exFns; (⟨0, -3, 9 / 8⟩ : Cubic Rat).eval (rootC ⟨0, -3, 9 / 8⟩)) = 0 :=
  cardano_rootC exFns ⟨0, -3, 9 / 8⟩ (by decide +kernel) (by decide +kernel) (by decide +kernel)
    (by decide +kernel) (by decide +kernel)

/-! ## 3. partial pressures are mole-fraction shares of the total and sum to it -/

/-- `pr_p_i = (n_i / Σn) · P` for every component, and `Σ pr_p_i = P` whenever the phase holds gas -/
theorem partial_pressures_sum (f : TransFns Rat) (ns : List Rat) (p : Rat) :
    letI := ratOps f
    (∀ i (h : i < ns.length), (partials ns p)[i]'(by simp [partials]; exact h) = ns[i] / total ns * p) ∧
    (total ns ≠ 0 → total (partials ns p) = p) := by
  letI := ratOps f
  refine ⟨fun i h => by simp [partials], fun h0 => ?_⟩
  have ht : ∀ l : List Rat, total l = l.sum := by
    intro l
    show l.foldl (fun acc x => acc + x) 0 = l.sum
    rw [foldl_sum]; ring
  rw [ht] at h0 ⊢
  show (ns.map fun n => n / total ns * p).sum = p
  rw [ht, sum_map_mul_right (fun n => n / ns.sum) ns p, sum_map_div]
  field_simp

example : (letI := ratOps idFns; partials [1, 3, 4] (16 : Rat)) = [2, 6, 8] := by decide +kernel
example : (letI := ratOps idFns; total (partials [1, 3, 4] (16 : Rat))) = 16 := by decide +kernel

/-! ## 4. the fugacity coefficient stays inside its clamp -/

/-- `−4.6 ≤ ln φ ≤ 4.44` for every input and whatever `ln` returns (φ between 0.01 and 85) -/
theorem phi_clamp (f : TransFns Rat) (rt b a p v bi aa2i : Rat) :
    letI := ratOps f
    lnPhiLo ≤ lnPhi rt b a p v bi aa2i ∧ lnPhi rt b a p v bi aa2i ≤ (lnPhiHi : Rat) := by
  simp only [lnPhi, clampPhi, lnPhiLo, lnPhiHi, NumOps.lit, NumOps.ofRat, id]
  grind

/-- inside the clamp the stored value is the equation-of-state expression itself -/
theorem phi_inside_clamp (f : TransFns Rat) (rt b a p v bi aa2i : Rat) :
    letI := ratOps f
    b * p / rt < p * v / rt → lnPhiLo ≤ lnPhiRaw rt b a p v bi aa2i → lnPhiRaw rt b a p v bi aa2i ≤ lnPhiHi →
    lnPhi rt b a p v bi aa2i = lnPhiRaw rt b a p v bi aa2i := by
  simp only [lnPhi, clampPhi, lnPhiLo, lnPhiHi, NumOps.lit, NumOps.ofRat, id]
  grind

/-- non-vacuity: with `ln = id`, RT = 1, b = 1/10, a = 1/5, P = 1, V = 2, pure gas: raw value inside the clamp;
with `ln x = 100` the clamp is active -/
example : (letI := ratOps idFns; lnPhi (1 : Rat) (1 / 10) (1 / 5) 1 2 (1 / 10) (1 / 5))
    = (letI := ratOps idFns; lnPhiRaw (1 : Rat) (1 / 10) (1 / 5) 1 2 (1 / 10) (1 / 5)) := by decide +kernel
example : (letI := ratOps { idFns with ln := fun _ => -100 }; lnPhi (1 : Rat) (1 / 10) (1 / 5) 1 2 (1 / 10) (1 / 5))
    = 444 / 100 := by decide +kernel
example : (letI := ratOps idFns; lnPhi (1 : Rat) (1 / 10) (1 / 5) 1 (1 / 20) (1 / 10) (1 / 5)) = -46 / 10 := by
  decide +kernel

/-! ## 5. existence of a fixed-pressure gas phase -/

/-- `mb_gases` and the `GAS_MOLES` row of `residuals`: in a state the convergence gate accepts,
* the phase equation is in the model iff Σ equilibrium partial pressures exceeds P (+1e-7) or the phase holds moles;
* if it is in, Σ p = P within the tolerance; if it is out, the phase is empty and Σ p ≤ P + 1e-7. -/
theorem fixedP_exists_iff (f : TransFns Rat) (tol sumP totalP moles minTotal : Rat) :
    letI := ratOps f
    gateOk tol sumP totalP (gasIn sumP totalP moles minTotal) = true →
    (gasIn sumP totalP moles minTotal = true ↔ (totalP + 1 / 10000000 < sumP ∨ minTotal < moles)) ∧
    (gasIn sumP totalP moles minTotal = true → totalP - tol ≤ sumP ∧ sumP ≤ totalP + tol) ∧
    (gasIn sumP totalP moles minTotal = false → sumP ≤ totalP + 1 / 10000000 ∧ moles ≤ minTotal) := by
  simp only [gateOk, gasIn, absv, NumOps.lit, NumOps.ofRat, id]
  grind

/-- a phase that exists (moles above `MIN_TOTAL`) has Σ equilibrium partial pressures = P within the tolerance -/
theorem fixedP_exists_reaches (f : TransFns Rat) (tol sumP totalP moles minTotal : Rat) :
    letI := ratOps f
    gateOk tol sumP totalP (gasIn sumP totalP moles minTotal) = true → minTotal < moles →
    totalP - tol ≤ sumP ∧ sumP ≤ totalP + tol := by
  simp only [gateOk, gasIn, absv, NumOps.lit, NumOps.ofRat, id]
  grind

/-- if Σ equilibrium partial pressures stays below P − tol the phase cannot exist; and (for `tol ≤ 1e-7`) an accepted
state never has Σ p above P + 1e-7 -/
theorem fixedP_absent_below (f : TransFns Rat) (tol sumP totalP moles minTotal : Rat) :
    letI := ratOps f
    gateOk tol sumP totalP (gasIn sumP totalP moles minTotal) = true →
    (sumP < totalP - tol → moles ≤ minTotal) ∧ (tol ≤ 1 / 10000000 → sumP ≤ totalP + 1 / 10000000) := by
  simp only [gateOk, gasIn, absv, NumOps.lit, NumOps.ofRat, id]
  grind

example : (letI := ratOps idFns; gasIn (3 / 2 : Rat) 1 0 (1 / 10 ^ 25)) = true := by decide +kernel
example : (letI := ratOps idFns; gasIn (1 / 2 : Rat) 1 0 (1 / 10 ^ 25)) = false := by decide +kernel
example : (letI := ratOps idFns; gateOk (1 / 10 ^ 8 : Rat) (3 / 2) 1 true) = false := by decide +kernel
example : (letI := ratOps idFns; gateOk (1 / 10 ^ 8 : Rat) 1 1 true) = true := by decide +kernel

/-! ## 6. ideal-gas limit and the fixed-volume bookkeeping -/

/-- `a = b = 0` ⇒ `P V = R T` for the molar volume, hence `P·Vol = n R T` -/
theorem ideal_limit (f : TransFns Rat) (rt v : Rat) (hv : v ≠ 0) :
    letI := ratOps f
    prP rt 0 0 v * v = rt := by
  simp only [prP, NumOps.lit, NumOps.ofRat, id]
  grind

theorem ideal_limit_moles (f : TransFns Rat) (rt vol n : Rat) (hv : vol ≠ 0) (hn : n ≠ 0) :
    letI := ratOps f
    prP rt 0 0 (vol / n) * vol = n * rt := by
  simp only [prP, NumOps.lit, NumOps.ofRat, id]
  grind

/-- with `a = b = 0` the ideal volume `RT/P` is a root of the cubic the code solves -/
theorem ideal_cubic_root (f : TransFns Rat) (rt p : Rat) (_hp : p ≠ 0) :
    letI := ratOps f
    (cubicOf rt 0 0 p).eval (rt / p) = 0 := by
  simp only [cubicOf, Cubic.eval, NumOps.lit, NumOps.ofRat, id]
  grind

/-- `idealP n T V · V = n R T` -/
theorem ideal_gas_law (f : TransFns Rat) (n tk vol : Rat) (hv : vol ≠ 0) :
    letI := ratOps f
    idealP n tk vol * vol = n * gasR * tk := by
  simp only [idealP, gasR, NumOps.lit, NumOps.ofRat, id]
  grind

example : (letI := ratOps idFns; prP (24 : Rat) 0 0 3) = 8 := by decide +kernel
example : (letI := ratOps idFns; idealP (2 : Rat) 300 10 * 10) = 2 * (820597 / 10000000) * 300 := by decide +kernel

/-! ## 7. the whole of `calc_PR`: what every call returns -/

/-- the assembled result: every component has `pr_p = x·P`, ln φ inside the clamp; fractions and pressures add up -/
theorem outOf_spec (f : TransFns Rat) (rt : Rat) (cs : List (Comp Rat)) (m : Mix Rat) (p vm : Rat)
    (hlen : m.aa2.length = cs.length) :
    letI := ratOps f
    (∀ c ∈ (outOf rt cs m p vm).comps, c.p = c.x * p ∧ (-46 / 10 : Rat) ≤ c.lnphi ∧ c.lnphi ≤ 444 / 100) ∧
    (outOf rt cs m p vm).comps.map (·.x) = cs.map (·.x) ∧
    ((outOf rt cs m p vm).comps.map (·.p)).sum = (cs.map (·.x)).sum * p := by
  letI := ratOps f
  have hall : ∀ c ∈ (outOf rt cs m p vm).comps,
      c.p = c.x * p ∧ (-46 / 10 : Rat) ≤ c.lnphi ∧ c.lnphi ≤ 444 / 100 := by
    intro c hc
    simp only [outOf, List.mem_map] at hc
    obtain ⟨⟨ci, aa2⟩, _, rfl⟩ := hc
    have := compOut_spec f rt m.bsum m.asum p vm ci aa2
    exact ⟨this.2.1.trans (by rw [this.1]), this.2.2.1, this.2.2.2⟩
  have hx : (outOf rt cs m p vm).comps.map (·.x) = cs.map (·.x) := by
    simp only [outOf, List.map_map]
    have e : ((fun c : CompOut Rat => c.x) ∘ fun (x : Comp Rat × Rat) => compOut rt m.bsum m.asum p vm x.1 x.2)
        = (fun c : Comp Rat => c.x) ∘ Prod.fst := by
      funext x
      exact (compOut_spec f rt m.bsum m.asum p vm x.1 x.2).1
    rw [e, ← List.map_map, List.map_fst_zip (by omega)]
  refine ⟨hall, hx, ?_⟩
  have : (outOf rt cs m p vm).comps.map (·.p) = (outOf rt cs m p vm).comps.map (fun c => c.x * p) :=
    List.map_congr_left (fun c hc => (hall c hc).1)
  rw [this, sum_map_mul_right, hx]

/-- what `calc_PR` returns (one gas record per mole number): partial pressures are the mole-fraction shares of the
pressure used, they sum to it, the fractions sum to one, every ln φ lies in the clamp -/
theorem calcPR_spec (f : TransFns Rat) (tab : List ((String × String) × Rat)) (search : Bool)
    (gs : List (Gas Rat)) (moles : List Rat) (p tk vm : Rat) (hlen : gs.length = moles.length) :
    letI := ratOps f
    ∀ o, calcPR tab search gs moles p tk vm = some o →
      (∀ c ∈ o.comps, c.p = c.x * o.p ∧ (-46 / 10 : Rat) ≤ c.lnphi ∧ c.lnphi ≤ 444 / 100) ∧
      (o.comps.map (·.x)).sum = 1 ∧ (o.comps.map (·.p)).sum = o.p := by
  letI := ratOps f
  intro o h
  unfold calcPR at h
  cases hf : fractions moles with
  | none => rw [hf] at h; simp at h
  | some xs =>
    rw [hf] at h
    simp only [Option.some.injEq] at h
    obtain ⟨hxs, hxl⟩ := fractions_sum f moles xs hf
    subst h
    have hc := comps_x f tk gs xs (by omega)
    obtain ⟨h1, h2, h3⟩ := outOf_spec f (gasR * tk) (comps tk gs xs) (mix (binaryFactor tab) (comps tk gs xs)) _ _
      (mix_aa2_length f _ _)
    refine ⟨h1, ?_, ?_⟩
    · rw [h2, hc, hxs]
    · rw [h3, hc, hxs]; simp [outOf]

/-- pressure-given mode: the returned molar volume is the solver's root for the (floored) pressure -/
theorem calcPR_pressure_mode (f : TransFns Rat) (tab : List ((String × String) × Rat)) (search : Bool)
    (gs : List (Gas Rat)) (moles : List Rat) (p tk : Rat) :
    letI := ratOps f
    ∀ o, calcPR tab search gs moles p tk 0 = some o →
      o.p = (if p < 1 / 10000000000 then 1 / 10000000000 else p) ∧ o.vm = vmOfP (gasR * tk) o.bsum o.asum o.p := by
  letI := ratOps f
  intro o h
  unfold calcPR at h
  cases hf : fractions moles with
  | none => rw [hf] at h; simp at h
  | some xs =>
    rw [hf] at h
    simp only [Option.some.injEq] at h
    subst h
    have hz : isZero (0 : Rat) = true := (isZero_iff f 0).mpr rfl
    simp only [hz, if_true]
    exact ⟨rfl, rfl⟩

/-- volume-given mode without the three-root search (`iterations ≤ 0`): the pressure is the Peng–Robinson pressure at
the given molar volume, or 1 when that is not positive -/
theorem calcPR_volume_mode (f : TransFns Rat) (tab : List ((String × String) × Rat))
    (gs : List (Gas Rat)) (moles : List Rat) (p tk vm : Rat) (hvm : vm ≠ 0) :
    letI := ratOps f
    ∀ o, calcPR tab false gs moles p tk vm = some o →
      o.vm = vm ∧ ((0 < prP (gasR * tk) o.bsum o.asum vm ∧ o.p = prP (gasR * tk) o.bsum o.asum vm) ∨
                   (prP (gasR * tk) o.bsum o.asum vm ≤ 0 ∧ o.p = 1)) := by
  letI := ratOps f
  intro o h
  unfold calcPR at h
  cases hf : fractions moles with
  | none => rw [hf] at h; simp at h
  | some xs =>
    rw [hf] at h
    simp only [Option.some.injEq] at h
    subst h
    have hz : ¬ isZero vm = true := fun hh => hvm ((isZero_iff f vm).mp hh)
    simp only [hz]
    refine ⟨rfl, ?_⟩
    show _ ∨ _
    simp only [outOf, pOfVm, Bool.false_and, Bool.false_eq_true, if_false]
    by_cases hp : prP (gasR * tk) (mix (binaryFactor tab) (comps tk gs xs)).bsum
        (mix (binaryFactor tab) (comps tk gs xs)).asum vm ≤ (lit 0 : Rat)
    · right; rw [if_pos hp]; exact ⟨hp, rfl⟩
    · left; rw [if_neg hp]; exact ⟨not_le.mp hp, rfl⟩

/-! ## 8. binary interaction factor -/

/-- the hard-coded table and the map lookup are symmetric in the two names when the map is -/
theorem binaryFactor_symm (f : TransFns Rat) (tab : List ((String × String) × Rat)) (n1 n2 : String)
    (hsym : ∀ a b, lookupK tab a b = lookupK tab b a) :
    letI := ratOps f
    binaryFactor tab n1 n2 = binaryFactor tab n2 n1 := by
  letI := ratOps f
  unfold binaryFactor
  rw [hsym n1 n2]
  cases lookupK tab n2 n1 with
  | some k => rfl
  | none =>
    by_cases h1 : n1 = "H2O(g)" <;> by_cases h2 : n2 = "H2O(g)"
    · subst h1; subst h2; rfl
    · subst h1; simp [h2]
    · subst h2; simp [h1]
    · simp [h1, h2]

theorem doubleLoop_spec (f : TransFns Rat) (rt b a : Rat) (fuel : Nat) (v0 : Rat) :
    letI := ratOps f
    ∃ k : Nat, k ≤ fuel ∧ (doubleLoop rt b a fuel v0).2 = v0 * 2 ^ k ∧
      (doubleLoop rt b a fuel v0).1 = prP rt b a (v0 * 2 ^ k) ∧
      (∀ j, j < k → prP rt b a (v0 * 2 ^ j) ≤ 0) ∧
      (k < fuel → 0 < prP rt b a (v0 * 2 ^ k)) := by
  letI := ratOps f
  induction fuel generalizing v0 with
  | zero => exact ⟨0, Nat.le_refl _, by simp [doubleLoop], by simp [doubleLoop], by intro j hj; omega, by intro h; omega⟩
  | succ n ih =>
    by_cases hp : prP rt b a v0 ≤ (lit 0 : Rat)
    · have hp0 : prP rt b a v0 ≤ 0 := hp
      obtain ⟨k, hk, h1, h2, h3, h4⟩ := ih (v0 * 2)
      refine ⟨k + 1, by omega, ?_, ?_, ?_, ?_⟩
      · simp only [doubleLoop, if_pos hp]
        have : (lit 2 : Rat) = 2 := rfl
        rw [this, h1]; ring
      · simp only [doubleLoop, if_pos hp]
        have : (lit 2 : Rat) = 2 := rfl
        rw [this, h2]; congr 1; ring
      · intro j hj
        cases j with
        | zero => simpa using hp0
        | succ j => have := h3 j (by omega); rw [show v0 * 2 ^ (j + 1) = v0 * 2 * 2 ^ j by ring]; exact this
      · intro hlt
        have := h4 (by omega)
        rw [show v0 * 2 ^ (k + 1) = v0 * 2 * 2 ^ k by ring]; exact this
    · refine ⟨0, by omega, ?_, ?_, by intro j hj; omega, ?_⟩
      · simp only [doubleLoop, if_neg hp]; simp
      · simp only [doubleLoop, if_neg hp]; simp
      · intro _
        have : ¬ prP rt b a v0 ≤ 0 := hp
        simpa using not_le.mp this

theorem lookupK_mem (tab : List ((String × String) × Rat)) (a b : String) (k : Rat) :
    lookupK tab a b = some k → ∃ e ∈ tab, e.1.1 = a ∧ e.1.2 = b := by
  induction tab with
  | nil => intro h; simp [lookupK] at h
  | cons e rest ih =>
    obtain ⟨⟨x, y⟩, v⟩ := e
    intro h
    simp only [lookupK] at h
    by_cases hk : (x == a && y == b) = true
    · simp only [Bool.and_eq_true, beq_iff_eq] at hk
      exact ⟨((x, y), v), by simp, hk.1, hk.2⟩
    · rw [if_neg hk] at h
      obtain ⟨e, he, h1, h2⟩ := ih h
      exact ⟨e, by simp [he], h1, h2⟩

/-- the run-time test `symmetricTab` (evaluated by `pmodel gas` on the map read back from the engine) discharges the
hypothesis of `binaryFactor_symm` -/
theorem symmetricTab_sound (tab : List ((String × String) × Rat)) (h : symmetricTab tab = true) :
    ∀ a b, lookupK tab a b = lookupK tab b a := by
  have hall : ∀ e ∈ tab, lookupK tab e.1.1 e.1.2 = lookupK tab e.1.2 e.1.1 := by
    intro e he
    have := (List.all_eq_true.mp h) e he
    simpa using this
  intro a b
  cases h1 : lookupK tab a b with
  | some k =>
    obtain ⟨e, he, rfl, rfl⟩ := lookupK_mem tab a b k h1
    rw [← hall e he, h1]
  | none =>
    cases h2 : lookupK tab b a with
    | none => rfl
    | some k =>
      obtain ⟨e, he, rfl, rfl⟩ := lookupK_mem tab b a k h2
      have := hall e he
      rw [h2, h1] at this
      exact this.symm

/-- the binary factor the mixing rule uses is symmetric in the two gases for every map that passes the run-time test -/
theorem binaryFactor_symm_of_check (f : TransFns Rat) (tab : List ((String × String) × Rat)) (n1 n2 : String)
    (h : symmetricTab tab = true) :
    letI := ratOps f
    binaryFactor tab n1 n2 = binaryFactor tab n2 n1 :=
  binaryFactor_symm f tab n1 n2 (symmetricTab_sound tab h)

example : symmetricTab [(("CO2(g)", "CH4(g)"), (1 / 10 : Rat)), (("CH4(g)", "CO2(g)"), 1 / 10)] = true := by decide +kernel
example : symmetricTab [(("CO2(g)", "CH4(g)"), (1 / 10 : Rat))] = false := by decide +kernel

/-- consequence for the converged numerical fixed-volume state (the known departure
`fixedV-numerical-negative-PR-pressure`): the mole numbers are `p_soln/P · V / v_m` with the *stored* molar volume;
if that is `2^k` times the true molar volume `V/n`, the equilibrium partial pressures sum to `2^k · P`, not to `P` -/
theorem fixedV_doubled_vm (f : TransFns Rat) (ps : List Rat) (totalP vol n : Rat) (k : Nat)
    (hP : totalP ≠ 0) (hv : vol ≠ 0) (hn : n ≠ 0) :
    letI := ratOps f
    total (fixedVPRMoles ps totalP vol (vol / n * 2 ^ k)) = n → total ps = 2 ^ k * totalP := by
  letI := ratOps f
  intro h
  have ht : ∀ l : List Rat, total l = l.sum := by
    intro l
    show l.foldl (fun acc x => acc + x) 0 = l.sum
    rw [foldl_sum]; ring
  rw [ht] at h ⊢
  have hm : (fixedVPRMoles ps totalP vol (vol / n * 2 ^ k)).sum = ps.sum / totalP * vol / (vol / n * 2 ^ k) := by
    show (ps.map fun p => p / totalP * vol / (vol / n * 2 ^ k)).sum = _
    have : (fun p : Rat => p / totalP * vol / (vol / n * 2 ^ k)) = fun p => p * (1 / totalP * vol / (vol / n * 2 ^ k)) := by
      funext p; ring
    rw [this, sum_map_mul_right (fun p => p) ps]; simp; ring
  rw [hm] at h
  have h2 : (2 : Rat) ^ k ≠ 0 := pow_ne_zero _ (by norm_num)
  field_simp at h
  linarith

/-- with the true molar volume (`k = 0`) the same bookkeeping gives Σ p = P: the state is consistent -/
theorem fixedV_consistent (f : TransFns Rat) (ps : List Rat) (totalP vol n : Rat)
    (hP : totalP ≠ 0) (hv : vol ≠ 0) (hn : n ≠ 0) :
    letI := ratOps f
    total (fixedVPRMoles ps totalP vol (vol / n)) = n → total ps = totalP := by
  intro h
  have := fixedV_doubled_vm f ps totalP vol n 0 hP hv hn (by simpa using h)
  simpa using this

example : (letI := ratOps idFns; binaryFactor ([] : List ((String × String) × Rat)) "H2O(g)" "CO2(g)") = 81 / 100 := by
  decide +kernel
example : (letI := ratOps idFns; binaryFactor ([] : List ((String × String) × Rat)) "N2(g)" "H2O(g)") = 51 / 100 := by
  decide +kernel
example : (letI := ratOps idFns; binaryFactor [(("H2O(g)", "CO2(g)"), (19 / 100 : Rat))] "H2O(g)" "CO2(g)") = 81 / 100 := by
  decide +kernel
example : (letI := ratOps idFns; binaryFactor ([] : List ((String × String) × Rat)) "CO2(g)" "N2(g)") = 1 := by
  decide +kernel
/-- the doubling loop on RT = 1, b = 1/10, a = 2: the pressure is negative at V = 1/5, 2/5, 4/5, 8/5 and positive at 16/5 -/
example : (letI := ratOps idFns; (doubleLoop (1 : Rat) (1 / 10) 2 5 (1 / 5)).2) = 16 / 5 := by
  simp only [doubleLoop, prP, NumOps.lit, NumOps.ofRat, id]; norm_num
example : (letI := ratOps idFns; fractions [(1 : Rat), 0, 3]) = some [1 / 4, 0, 3 / 4] := by decide +kernel

/-! ## 9. the same model over ℝ with Mathlib's functions: the solver's hypotheses are discharged

`realOps` (Lemmas/Gas.lean) instantiates `sqrt := Real.sqrt`, `cbrt x := x ^ (1/3)` (the code's `pow(x, one_3)`),
`cos := Real.cos`, `acos := Real.arccos`.  The branch guards make every argument of `cbrt` non-negative and put the
argument of `arccos` in [-1, 1], so the pointwise laws assumed in section 2 are theorems here. -/

/-- real numbers, Mathlib's `√`, `x^(1/3)`, `cos`, `arccos`: for every temperature term, mixture parameters and
pressure the molar volume `calc_PR` returns is an exact root of the cubic it solves — no hypothesis on the functions -/
theorem cardano_real (rt b a p : ℝ) :
    letI := realOps
    (cubicOf rt b a p).eval (vmOfP rt b a p) = 0 :=
  cubic_root_real _

/-- hence, over the reals, the returned volume satisfies the Peng–Robinson equation itself wherever its denominators
do not vanish -/
theorem pr_holds_at_returned_volume_real (rt b a p : ℝ) :
    letI := realOps
    p ≠ 0 → vmOfP rt b a p - b ≠ 0 →
    vmOfP rt b a p * (vmOfP rt b a p + 2 * b) - b * b ≠ 0 →
    p = prP rt b a (vmOfP rt b a p) := by
  letI := realOps
  intro hp hv hd
  have hroot := cardano_real rt b a p
  generalize vmOfP rt b a p = v at *
  have l2 : (lit 2 : ℝ) = 2 := by rw [real_lit]; norm_num
  have l3 : (lit (-3) : ℝ) = -3 := by rw [real_lit]; norm_num
  simp only [prP, cubicOf, Cubic.eval, l2, l3] at *
  have key : p * (v - b) * (v * (v + 2 * b) - b * b) = rt * (v * (v + 2 * b) - b * b) - a * (v - b) := by
    have h := congrArg (fun x => p * x) hroot
    simp only [mul_zero] at h
    field_simp at h
    linear_combination h
  rw [div_sub_div _ _ hv hd, eq_div_iff (mul_ne_zero hv hd)]
  linear_combination key

/-! ## 10. the fixed-volume iteration, the gas rows of the convergence gate, and what they guarantee

`calc_gas_pressures` (fixed volume, Peng–Robinson) damps the molar volume, takes `P` from the equation of state at that
internal `V_m` and sets `n_i = p_soln_i / P · V / V_m`.  `fixedV_common_ratio` is the structure of EVERY state this can
produce; `fixedV_fixed_point_eos` is the property's clause at a fixed point; `ideal_gate_identity` and
`gate_does_not_bound_eos` say what the 0.001 atm pressure test of `residuals` does and does not guarantee (the known
departure `fixedV-vm-iteration-accepted-early`). -/

theorem total_eq_sum (f : TransFns Rat) (l : List Rat) : letI := ratOps f; total l = l.sum := by
  show l.foldl (fun acc x => acc + x) 0 = l.sum
  rw [foldl_sum]; ring

/-- the sum of the fixed-volume mole numbers: `n = (Σ p_soln / P) · V / V_m` -/
theorem fixedV_moles_total (f : TransFns Rat) (ps : List Rat) (totalP vol vm : Rat) :
    letI := ratOps f
    total (fixedVPRMoles ps totalP vol vm) = total ps / totalP * vol / vm := by
  letI := ratOps f
  rw [total_eq_sum, total_eq_sum]
  show (ps.map fun p => p / totalP * vol / vm).sum = _
  have : (fun p : Rat => p / totalP * vol / vm) = fun p => p * (1 / totalP * vol / vm) := by funext p; ring
  rw [this, sum_map_mul_right (fun p => p) ps]; simp; ring

/-- structure of every fixed-volume Peng–Robinson state the engine can report (whether or not its V_m iteration has reached
the fixed point): with `r = Σ p_soln / P`, the internal molar volume is `r` times the reported one `V / n`, and every
equilibrium partial pressure is `r` times the mole-fraction share of `P` -/
theorem fixedV_common_ratio (f : TransFns Rat) (ps : List Rat) (totalP vol vm : Rat)
    (hP : totalP ≠ 0) (hv : vol ≠ 0) (hvm : vm ≠ 0) (hs : (letI := ratOps f; total ps) ≠ 0) :
    letI := ratOps f
    let n := total (fixedVPRMoles ps totalP vol vm)
    let r := total ps / totalP
    vm = r * (vol / n) ∧
    ∀ p ∈ ps, p = r * ((p / totalP * vol / vm) / n * totalP) := by
  letI := ratOps f
  intro n r
  have hn : n = total ps / totalP * vol / vm := fixedV_moles_total f ps totalP vol vm
  have hn0 : n ≠ 0 := by
    rw [hn]; exact div_ne_zero (mul_ne_zero (div_ne_zero hs hP) hv) hvm
  constructor
  · rw [hn]; simp only [r]; field_simp
  · intro p _
    rw [hn]; simp only [r]; field_simp

/-- at a fixed point of the V_m iteration (`V_m = V / n`) with `P` the equation-of-state pressure at `V_m`, the reported
`P, V, T, n` satisfy the equation of state, Σ p_soln = P, and every equilibrium partial pressure is the share `x_i · P` -/
theorem fixedV_fixed_point_eos (f : TransFns Rat) (rt b a : Rat) (ps : List Rat) (totalP vol vm : Rat)
    (hP : totalP ≠ 0) (hv : vol ≠ 0) (hvm : vm ≠ 0) (hs : (letI := ratOps f; total ps) ≠ 0) :
    letI := ratOps f
    let n := total (fixedVPRMoles ps totalP vol vm)
    totalP = prP rt b a vm → vm = vol / n →
    totalP = prP rt b a (vol / n) ∧ total ps = totalP ∧ ∀ p ∈ ps, p = (p / totalP * vol / vm) / n * totalP := by
  letI := ratOps f
  intro n hp hfix
  obtain ⟨h1, h2⟩ := fixedV_common_ratio f ps totalP vol vm hP hv hvm hs
  have hn : n = total ps / totalP * vol / vm := fixedV_moles_total f ps totalP vol vm
  have hn0 : n ≠ 0 := by
    rw [hn]; exact div_ne_zero (mul_ne_zero (div_ne_zero hs hP) hv) hvm
  have hr : total ps / totalP = 1 := by
    have h1' : vm = total ps / totalP * (vol / n) := h1
    have hvn : vol / n ≠ 0 := div_ne_zero hv hn0
    rw [hfix] at h1'
    have := mul_right_cancel₀ hvn (show (1 : Rat) * (vol / n) = total ps / totalP * (vol / n) by rw [one_mul]; exact h1')
    exact this.symm
  refine ⟨by rw [← hfix]; exact hp, ?_, ?_⟩
  · field_simp at hr; linarith
  · intro p hp'
    have := h2 p hp'
    rw [hr, one_mul] at this
    exact this

/-- the damped update: `V' = (w V + U)/(w + 1)` leaves `U − V' = w (V' − V)`: the distance of the new internal molar volume
from `U = V/n` is `w` times the step just taken -/
theorem damp_distance (w vOld u : Rat) (hw : w + 1 ≠ 0) :
    u - (w * vOld + u) / (w + 1) = w * ((w * vOld + u) / (w + 1) - vOld) := by
  field_simp; ring

/-- what the 0.001 atm pressure test bounds, in the ideal limit (`a = b = 0`, `P = RT/V`): after a damped step from `V`
(pressure `P`) with weight `w`, `Σ p_soln − P' = w (P' − P) · Σ p_soln / P`.  The gate `|P' − P| ≤ 0.001` therefore bounds
`|Σ p_soln − P'|` by `w · 0.001 · Σp/P` atm — an ABSOLUTE bound: relative 1e-4 only above ~10 atm, 10 % at 0.01 atm -/
theorem ideal_gate_identity (rt ps p w : Rat) (hrt : rt ≠ 0) (hps : ps ≠ 0) (hp : p ≠ 0) (hw : w + 1 ≠ 0)
    (hden : p + w * ps ≠ 0) :
    let v' := (w * (rt / p) + rt / ps) / (w + 1)
    ps - rt / v' = w * (rt / v' - p) * ps / p := by
  intro v'
  have hv : v' = rt * (p + w * ps) / (p * ps * (w + 1)) := by simp only [v']; field_simp; ring
  have hv0 : rt * (p + w * ps) ≠ 0 := mul_ne_zero hrt hden
  have hP' : rt / v' = p * ps * (w + 1) / (p + w * ps) := by
    rw [hv, div_div_eq_mul_div]
    rw [div_eq_div_iff hv0 hden]; ring
  rw [hP']
  set D := p + w * ps with hD
  have e1 : ps - p * ps * (w + 1) / D = (ps * D - p * ps * (w + 1)) / D := by
    rw [eq_div_iff hden, sub_mul, div_mul_cancel₀ _ hden]
  have e2 : w * (p * ps * (w + 1) / D - p) * ps / p = (w * (ps * (w + 1) - D) * ps) / D := by
    rw [eq_div_iff hden, div_mul_eq_mul_div, div_eq_iff hp]
    have : p * ps * (w + 1) / D * D = p * ps * (w + 1) := div_mul_cancel₀ _ hden
    calc w * (p * ps * (w + 1) / D - p) * ps * D
        = w * (p * ps * (w + 1) / D * D - p * D) * ps := by ring
      _ = w * (p * ps * (w + 1) - p * D) * ps := by rw [this]
      _ = w * (ps * (w + 1) - D) * ps * p := by ring
  rw [e1, e2, hD]
  congr 1
  ring

/-- the pressure test alone does not keep the reported state within 1e-4 of the equation of state: ideal limit, RT = 24,
Σ p_soln = 0.012 atm, previous internal V_m = 1900: the new V_m = 1950 gives P' = 24/1950, the test passes
(|P' − P| = 0.00032 ≤ 0.001) and Σ p_soln / P' = 0.975 — the reported V/n differs from the internal V_m by 2.5 % -/
theorem gate_does_not_bound_eos :
    letI := ratOps idFns
    let rt : Rat := 24
    let ps : Rat := 12 / 1000
    let pOld := prP rt 0 0 1900
    let vm := dampVm (1900 : Rat) (rt / ps) 1
    let pNew := prP rt 0 0 vm
    vm = 1950 ∧ pressureTestFails pOld pNew pNew = false ∧ ps / pNew = 39 / 40 := by
  decide +kernel

/-- volume-given mode over the reals, search off: the pressure `calc_PR` uses is the Peng–Robinson pressure at the given
molar volume whenever that is positive — the equation of state holds by construction -/
theorem volume_mode_real (rt b a v : ℝ) :
    letI := realOps
    0 < prP rt b a v → pOfVm false rt b a v = prP rt b a v := by
  letI := realOps
  intro h
  have l0 : (lit 0 : ℝ) = 0 := by rw [real_lit]; norm_num
  simp only [pOfVm, Bool.false_and, Bool.false_eq_true, if_false, l0]
  rw [if_neg (not_le.mpr h)]

/-- with the search on, the pressure is the EOS pressure at the given volume, or at the volume `v1` the three-root search
stops at, or 1 -/
theorem pOfVm_cases (f : TransFns Rat) (search : Bool) (rt b a v : Rat) :
    letI := ratOps f
    pOfVm search rt b a v = prP rt b a v ∨ pOfVm search rt b a v = 1 ∨
    ∃ v1, pOfVm search rt b a v = prP rt b a v1 := by
  letI := ratOps f
  unfold pOfVm
  simp only []
  split
  · split
    · split
      · split
        · right; left; rfl
        · right; right; exact ⟨_, rfl⟩
      · split
        · right; left; rfl
        · left; rfl
    · split
      · right; left; rfl
      · left; rfl
  · split
    · right; left; rfl
    · left; rfl

end PhreeqcVerif.C19
