"""Translator (C10): per entity class of src/phreeqcpp, regenerate from the CURRENT source
  * the `vopts` option vector, in order;
  * what `dump_raw` prints: every `-key` line in writing order, the member(s) it prints, the kind of line (scalar /
    name-double block / nested sub-dump / data lines), the condition it is written under, and whether it stands in a
    "... workspace variables #" section (recomputed) or not (state);
  * what `read_raw` does in every `case` of its option switch: the member(s) the value lands in, the kind, the flags it
    sets, what happens on an unknown option, and the flags the reader requires when `check` is on
→ lean/PhreeqcVerif/Gen/RawTables.lean.  The extraction is regex/brace based over comment-stripped source text and FAILS
CLOSED (TranslatorError) on any statement shape it does not recognise, so a rewritten writer/reader is reported as
"obligation broken" (protocol P) rather than silently mis-modelled.

`extract(repo)` returns the tables as Python data (used by tools/props/c10.py for the evidence and the targeted search),
`generate(ctx)` writes the Lean file (only when its content changes)."""
import re
from pathlib import Path

import vlib

# table name, file stem, C++ class, RAW keyword ("" = component class, only reachable nested)
CLASSES = [
    ("Solution", "Solution", "cxxSolution"),
    ("SolutionIsotope", "SolutionIsotope", "cxxSolutionIsotope"),
    ("Exchange", "Exchange", "cxxExchange"),
    ("ExchComp", "ExchComp", "cxxExchComp"),
    ("Surface", "Surface", "cxxSurface"),
    ("SurfaceComp", "SurfaceComp", "cxxSurfaceComp"),
    ("SurfaceCharge", "SurfaceCharge", "cxxSurfaceCharge"),
    ("GasPhase", "GasPhase", "cxxGasPhase"),
    ("GasComp", "GasComp", "cxxGasComp"),
    ("PPassemblage", "PPassemblage", "cxxPPassemblage"),
    ("PPassemblageComp", "PPassemblageComp", "cxxPPassemblageComp"),
    ("SSassemblage", "SSassemblage", "cxxSSassemblage"),
    ("SS", "SS", "cxxSS"),
    ("SScomp", "SScomp", "cxxSScomp"),
    ("Kinetics", "cxxKinetics", "cxxKinetics"),
    ("KineticsComp", "KineticsComp", "cxxKineticsComp"),
    ("Mix", "cxxMix", "cxxMix"),
    ("Reaction", "Reaction", "cxxReaction"),
    ("Temperature", "Temperature", "cxxTemperature"),
    ("Pressure", "Pressure", "cxxPressure"),
]
CXX2TAB = {c: t for t, _, c in CLASSES}
UNDEFINED_MACROS = {"USE_REVISED_READ_RAW", "PHREEQCI_GUI", "_DEBUG", "SKIP", "SKIP_KEEP"}


class TranslatorError(Exception):
    pass


def fail(where, what, text=""):
    raise TranslatorError(f"{where}: {what}" + (f" :: {' '.join(text.split())[:160]}" if text else ""))


# ------------------------------------------------------------------------------------------------ source preparation
def strip_comments(src):
    """remove // and /* */ comments, keep string literals intact"""
    out, i, n = [], 0, len(src)
    while i < n:
        c = src[i]
        if c == '"':
            j = i + 1
            while j < n and src[j] != '"':
                j += 2 if src[j] == "\\" else 1
            out.append(src[i:j + 1])
            i = j + 1
        elif c == "'":
            j = i + 1
            while j < n and src[j] != "'":
                j += 2 if src[j] == "\\" else 1
            out.append(src[i:j + 1])
            i = j + 1
        elif src.startswith("//", i):
            while i < n and src[i] != "\n":
                i += 1
        elif src.startswith("/*", i):
            j = src.find("*/", i + 2)
            out.append(" " * 0 + "\n" * src.count("\n", i, j + 2))
            i = j + 2
        else:
            out.append(c)
            i += 1
    return "".join(out)


def preprocess(src, where):
    """resolve #if/#ifdef blocks on macros known to be undefined in the build; other directives are kept as lines"""
    out, stack = [], []       # stack of (active_before, this_branch_active, known)
    for line in src.split("\n"):
        s = line.strip()
        m = re.match(r"#\s*(ifdef|ifndef|if|elif|else|endif)\b(.*)", s)
        if not m:
            if all(a for _, a, _ in stack):
                out.append(line)
            else:
                out.append("")
            continue
        d, rest = m.group(1), m.group(2).strip()
        if d in ("ifdef", "ifndef", "if"):
            name = None
            mm = re.match(r"!?\s*defined\s*\(?\s*(\w+)\s*\)?$", rest) if d == "if" else re.match(r"(\w+)$", rest)
            neg = (d == "ifndef") or (d == "if" and rest.startswith("!"))
            if mm:
                name = mm.group(1)
            if name in UNDEFINED_MACROS:
                stack.append((True, neg, True))
            elif name is not None and (name.endswith("_H_INCLUDED") or name.endswith("_H") or name in ("_MSC_VER", "NDEBUG", "WIN32", "_WIN32")):
                stack.append((True, neg if name in ("_MSC_VER", "WIN32", "_WIN32") else True, False))
            else:
                stack.append((True, True, False))      # unknown: keep text, mark so that functions we parse reject it
                out.append("#UNKNOWN_DIRECTIVE " + s)
                continue
        elif d in ("else", "elif"):
            if not stack:
                fail(where, "unbalanced preprocessor directive", s)
            b, a, k = stack.pop()
            stack.append((b, (not a) if d == "else" else False, k))
        else:
            if not stack:
                fail(where, "unbalanced #endif", s)
            stack.pop()
        out.append("")
    return "\n".join(out)


def match_brace(src, i, open_c="{", close_c="}"):
    """src[i] == open_c; index just after the matching close (strings skipped)"""
    depth, n = 0, len(src)
    while i < n:
        c = src[i]
        if c == '"':
            i += 1
            while i < n and src[i] != '"':
                i += 2 if src[i] == "\\" else 1
        elif c == "'":
            i += 1
            while i < n and src[i] != "'":
                i += 2 if src[i] == "\\" else 1
        elif c == open_c:
            depth += 1
        elif c == close_c:
            depth -= 1
            if depth == 0:
                return i + 1
        i += 1
    raise TranslatorError("unbalanced braces")


def function_body(src, cls, name, where, nth=0):
    """body (without outer braces) of the nth definition `cls::name(...)`, and its 1-based line number"""
    hits = [m for m in re.finditer(r"\b%s\s*::\s*%s\s*\(" % (re.escape(cls), re.escape(name)), src)]
    defs = []
    for m in hits:
        j = match_brace(src, m.end() - 1, "(", ")")
        k = j
        while k < len(src) and src[k] in " \t\r\nconst":
            k += 1
        if k < len(src) and src[k] == "{":
            defs.append((m.start(), k))
    if len(defs) <= nth:
        fail(where, f"definition of {cls}::{name} not found")
    if len(defs) > nth + 1 and name in ("dump_raw", "read_raw"):
        fail(where, f"more than one live definition of {cls}::{name}")
    s, k = defs[nth]
    e = match_brace(src, k)
    body = src[k + 1:e - 1]
    if "#" in re.sub(r'"(?:[^"\\]|\\.)*"', '""', body):
        fail(where, f"preprocessor directive inside {cls}::{name}")
    return body, src.count("\n", 0, s) + 1


# ------------------------------------------------------------------------------------------------ statement tree
def parse_block(t, where):
    """text of a brace body -> list of nodes: ('stmt', text) ('if', cond, then, else) ('for', head, body) ('while', cond, body)
    ('block', nodes) ('switch', expr, bodytext)"""
    nodes, i, n = [], 0, len(t)

    def skip_ws(i):
        while i < n and t[i].isspace():
            i += 1
        return i

    def one(i):
        """parse one statement starting at i -> (node, next_i)"""
        i = skip_ws(i)
        if i >= n:
            return None, i
        m = re.compile(r"(if|for|while|switch)\s*\(").match(t, i)
        if m:
            kw = m.group(1)
            j = match_brace(t, m.end() - 1, "(", ")")
            head = t[m.end():j - 1]
            if kw == "switch":
                k = skip_ws(j)
                if t[k] != "{":
                    fail(where, "switch without braces")
                e = match_brace(t, k)
                return ("switch", head, t[k + 1:e - 1]), e
            body, k = one(j)
            body = body[1] if body and body[0] == "block" else [body]
            if kw == "if":
                k2 = skip_ws(k)
                if t.startswith("else", k2) and not (t[k2 + 4].isalnum() or t[k2 + 4] == "_"):
                    eb, k3 = one(k2 + 4)
                    eb = eb[1] if eb and eb[0] == "block" else [eb]
                    return ("if", head, body, eb), k3
                return ("if", head, body, []), k
            return (kw, head, body), k
        if t[i] == "{":
            e = match_brace(t, i)
            return ("block", parse_block(t[i + 1:e - 1], where)), e
        # plain statement up to ';' at depth 0
        j, depth = i, 0
        while j < n:
            c = t[j]
            if c == '"':
                j += 1
                while j < n and t[j] != '"':
                    j += 2 if t[j] == "\\" else 1
            elif c == "'":
                j += 1
                while j < n and t[j] != "'":
                    j += 2 if t[j] == "\\" else 1
            elif c in "([{":
                depth += 1
            elif c in ")]}":
                depth -= 1
            elif c == ";" and depth == 0:
                break
            j += 1
        return ("stmt", norm_stmt(t[i:j])), j + 1

    while True:
        node, i = one(i)
        if node is None:
            break
        if node[0] == "stmt" and node[1] == "":
            continue
        nodes.append(node)
    return nodes


def norm_stmt(s):
    """one-line canonical spelling of a statement (outside string literals): single blanks, no blanks around `.`/`->`,
    none between a function name and its parenthesis"""
    parts = re.split(r'("(?:[^"\\]|\\.)*")', s)
    for k in range(0, len(parts), 2):
        x = " ".join(parts[k].split())
        if parts[k][:1].isspace() and k > 0:
            x = " " + x
        if parts[k][-1:].isspace() and k + 1 < len(parts):
            x = x + " "
        x = re.sub(r"\s*(\.|->)\s*(?=[A-Za-z_])", r"\1", x)
        x = re.sub(r"(?<=[A-Za-z_0-9])\s+\((?=\")", "(", x) if False else x
        x = re.sub(r"\b(?!return\b|if\b|for\b|while\b|switch\b)([A-Za-z_]\w*) \(", r"\1(", x)
        parts[k] = x
    return "".join(parts).strip()


def split_shift(s, op="<<"):
    """split `a << b << c` at top level"""
    parts, depth, cur, i, n = [], 0, "", 0, len(s)
    while i < n:
        c = s[i]
        if c == '"':
            j = i + 1
            while j < n and s[j] != '"':
                j += 2 if s[j] == "\\" else 1
            cur += s[i:j + 1]
            i = j + 1
            continue
        if c in "([":
            depth += 1
        elif c in ")]":
            depth -= 1
        if depth == 0 and s.startswith(op, i):
            parts.append(cur.strip())
            cur = ""
            i += len(op)
            continue
        cur += c
        i += 1
    parts.append(cur.strip())
    return parts


def unquote(lit):
    return bytes(lit[1:-1], "utf-8").decode("unicode_escape")


# ------------------------------------------------------------------------------------------------ class header
def class_members(hsrc, cls, where):
    """data members of the class: name -> declared type text"""
    m = re.search(r"\bclass\s+%s\b[^;{]*\{" % re.escape(cls), hsrc)
    if not m:
        fail(where, f"class {cls} not found in header")
    e = match_brace(hsrc, m.end() - 1)
    body = hsrc[m.end():e - 1]
    # drop inline function bodies
    flat, i = "", 0
    while i < len(body):
        if body[i] == "{":
            i = match_brace(body, i)
            flat += ";"
        else:
            flat += body[i]
            i += 1
    members = {}
    for decl in flat.split(";"):
        d = " ".join(decl.split())
        d = re.sub(r"^(public|protected|private)\s*:\s*", "", d)
        d = re.sub(r"^(public|protected|private)\s*:\s*", "", d)
        if not d or "(" in d or d.startswith(("friend", "using", "typedef", "enum", "class ", "struct ")):
            continue
        mm = re.match(r"(.*?[\s\*&>])((?:\w+(?:\[\w+\])?\s*,\s*)*\w+(?:\[\w+\])?)$", d)
        if not mm:
            continue
        typ = mm.group(1).strip()
        for nm in mm.group(2).split(","):
            nm = re.sub(r"\[\w+\]", "", nm.strip())
            members[nm] = typ
    return members


# ------------------------------------------------------------------------------------------------ vopts
def parse_vopts(src, cls, where):
    m = re.search(r"temp_vopts\s*\[\s*\]\s*=\s*\{", src)
    if not m:
        if re.search(r"const\s+std\s*::\s*vector\s*<\s*std\s*::\s*string\s*>\s*%s\s*::\s*vopts\s*;" % re.escape(cls), src):
            return []           # default-constructed: no options at all
        fail(where, "temp_vopts initializer not found")
    e = match_brace(src, m.end() - 1)
    body = src[m.end():e - 1]
    items = re.findall(r'value_type\s*\(\s*"((?:[^"\\]|\\.)*)"\s*\)', body)
    rest = re.sub(r'std\s*::\s*vector\s*<\s*std\s*::\s*string\s*>\s*::\s*value_type\s*\(\s*"(?:[^"\\]|\\.)*"\s*\)', "", body)
    if rest.replace(",", "").strip():
        fail(where, "unrecognised text in temp_vopts initializer", rest)
    if not re.search(r"%s\s*::\s*vopts\s*\(\s*temp_vopts\s*,\s*temp_vopts\s*\+\s*sizeof\s+temp_vopts\s*/\s*sizeof\s+temp_vopts\s*\[\s*0\s*\]\s*\)" % re.escape(cls), src):
        fail(where, f"{cls}::vopts is not built from the whole temp_vopts array")
    for it in items:
        if it != it.lower() and False:
            pass
    return items


# ------------------------------------------------------------------------------------------------ writer
IGNORED_WRITER_STMT = re.compile(
    r"^(unsigned int i|int i = 0|i = 0|s_oss\.precision\(DBL_DIG \+ 2\)|std::string indent0\(\"\"\)(, indent\d\(\"\"\))*|"
    r"std::string indent1 = indent0|indent\d\.append\(Utilities::INDENT\)|return|"
    r"int n_user_local = \(n_out != NULL\) \? \*n_out : this->n_user|"
    r"std::map\s*<[^;]*>::const_iterator \w+( = (this->)?\w+\.begin\(\))?)$")


def norm_expr(e):
    e = e.strip()
    while e.startswith("(") and match_brace(e, 0, "(", ")") == len(e):
        e = e[1:-1].strip()
    return e


class Writer:
    def __init__(self, tab, cls, members, where):
        self.tab, self.cls, self.members, self.where = tab, cls, members, where
        self.entries = []          # written keys in order
        self.header = None         # RAW keyword
        self.section = "state"
        self.items = []            # pending << items of the current output line
        self.resolved = {}         # index in items -> (member, is_header_token) resolved where the expression stands
        self.item_ctx = None
        self.cur = None            # entry that subsequent data lines / sub-dumps belong to
        self.locals = {}           # local pointer / iterator -> (member, type)
        self.sections = []

    def member_of(self, e, loops):
        """member printed by expression e -> (member or '' for a constant, is_header_token)"""
        e = norm_expr(e)
        m = re.match(r"^(.+?)\s*\?\s*1\s*:\s*0$", e)
        if m:
            e = norm_expr(m.group(1))
        if re.match(r"^-?\d+(\.\d+)?$", e):
            return "", False
        m = re.match(r"^(?:this->)?(\w+)(\[(\d+)\])?$", e)
        if m and m.group(1) in self.members:
            return m.group(1) + (f"[{m.group(3)}]" if m.group(3) else ""), False
        m = re.match(r"^this->Get_(\w+)\(\)$", e)
        if m and m.group(1) in self.members:
            return m.group(1), False
        # loop element expressions
        for var, (mem, typ) in list(self.locals.items()) + [(lp["var"], (lp["member"], lp["type"])) for lp in loops if lp.get("var")]:
            if re.match(r"^(\(\*%s\)|%s)(->|\.)first$" % (var, var), e):
                return mem, True
            if re.match(r"^(\(\*%s\)\.second|%s->second)(\.Get_\w+\(\))?$" % (var, var), e):
                return mem, True
            if re.match(r"^\*%s$" % var, e):
                return mem, False
            if re.match(r"^%s->Get_\w+\(\)$" % var, e):
                return mem, True
        m = re.match(r"^(?:this->)?(\w+)\[\w+\]\.Get_\w+\(\)$", e)
        if m and m.group(1) in self.members:
            return m.group(1), True
        fail(self.where, "writer: unrecognised printed expression", e)

    def flush_line(self, guards, loops):
        items, self.items = self.items, []
        resolved, self.resolved = self.resolved, {}
        rexprs = [resolved[k] for k, x in enumerate(items) if k in resolved]
        lits = [unquote(x) for x in items if x.startswith('"')]
        exprs = [x for x in items if not x.startswith('"') and not re.match(r"^indent\d$", x)]
        first = next((x for x in items if not re.match(r"^indent\d$", x)), None)
        text0 = unquote(first) if first is not None and first.startswith('"') else None
        if text0 is not None and text0.lstrip().startswith("#"):
            if exprs:
                fail(self.where, "writer: expression in a comment line", str(items))
            self.section = "work" if "workspace variables" in text0 else "state"
            self.sections.append(text0.strip())
            self.cur = None
            return
        if text0 is not None and re.match(r"^[A-Z_]+_RAW\s", text0):
            self.header = text0.split()[0]
            want = ["n_user_local", "this->description"]
            if [norm_expr(x).replace(" ", "") for x in exprs] != [w for w in want]:
                fail(self.where, "writer: header line does not print `n_user description`", str(items))
            return
        if text0 is not None and text0.startswith("-"):
            toks = text0.split()
            key = toks[0][1:]
            if len(toks) > 1 and not toks[1].startswith("#"):
                fail(self.where, "writer: literal text after a key", text0)
            if any(l.strip() and not l.lstrip().startswith("#") for l in lits[1:]):
                fail(self.where, "writer: unexpected literal in key line", str(items))
            mems, htok = [], 0
            for mem, is_h in rexprs:
                if is_h:
                    htok += 1
                elif mem not in mems:
                    mems.append(mem)
            if len(mems) > 1 and len({re.sub(r"\[\d+\]", "", m_) for m_ in mems}) == 1 and not all(re.search(r"\[\d+\]", m_) for m_ in mems):
                fail(self.where, "writer: mixed array printing", str(items))
            base = {re.sub(r"\[\d+\]", "", m_) for m_ in mems}
            if len(mems) > 1 and len(base) == 1:
                mems = [base.pop() + "[*]"]
            guard = self.guard_of(guards, mems)
            ent = dict(key=key, members=mems, kind="scalar" if exprs else "bare", section=self.section, guard=guard,
                       child="", htok=htok, loop=bool(loops))
            self.entries.append(ent)
            self.cur = ent
            return
        # data line without a key: belongs to the current entry (map / vector lines) or is a key-less default line (MIX)
        if text0 is not None and text0.strip() == "" and not exprs:
            return          # bare newline / blanks
        mems = []
        for mem, _ in rexprs:
            if mem not in mems:
                mems.append(mem)
        if len(mems) != 1 or mems[0] == "":
            fail(self.where, "writer: data line not printing exactly one container member", str(items))
        if self.cur is not None and self.cur["kind"] in ("bare", "lines") and self.cur["members"] in ([], mems):
            self.cur["kind"], self.cur["members"] = "lines", mems
        elif self.cur is None and not any(e["key"] == "" for e in self.entries):
            self.entries.append(dict(key="", members=mems, kind="lines", section=self.section, guard=self.guard_of(guards, mems),
                                     child="", htok=0, loop=True))
        else:
            fail(self.where, "writer: data line outside a key block", str(items))

    def guard_of(self, guards, mems):
        gs = []
        for g in guards:
            g = norm_expr(g)
            m = re.match(r"^(?:this->)?(\w+)\.size\(\) (?:!= 0|> 0)$", g)
            if m and m.group(1) in self.members:
                gs.append(("nonempty", m.group(1)))
                continue
            m = re.match(r"^!std::isnan\((?:this->)?(\w+)\)$", g)       # "was given": own-member guard like non-emptiness
            if m and m.group(1) in self.members:
                gs.append(("nonempty", m.group(1)))
                continue
            m = re.match(r"^(?:this->)?(\w+)$", g)
            if m and m.group(1) in self.members:
                gs.append(("flag", m.group(1)))
                continue
            fail(self.where, "writer: unrecognised condition around a key", g)
        if len(gs) > 1:
            fail(self.where, "writer: nested conditions around a key")
        if not gs:
            return ("none", "")
        return gs[0]

    def loop_info(self, head):
        """classify a for-header: which member is iterated, loop variable, element type"""
        h = norm_stmt(head)
        if re.match(r"^i = 0 ; i < indent( \+ \d)? ; \+\+i$", re.sub(r"\s*;\s*", " ; ", h)):
            return dict(kind="indent")
        m = re.search(r"(?:this->|\(\*this\)\.)?(\w+)\.(?:size|begin|end)\(\)", h)
        if "(*this).begin()" in h:
            return dict(kind="self")
        if not m or m.group(1) not in self.members:
            fail(self.where, "writer: loop over something that is not a member", h)
        mem = m.group(1)
        var = None
        mv = re.match(r"^(?:std::\w+\s*<[^;]*>::const_iterator\s+)?(\w+) = ", h) or re.match(r"^size_t (\w+) = 0", h)
        if mv:
            var = mv.group(1)
        else:
            mv = re.match(r"^; (\w+) != ", h)
            if mv:
                var = mv.group(1)
        if var is None:
            fail(self.where, "writer: loop variable not recognised", h)
        return dict(kind="data", member=mem, var=var, type=self.members[mem])

    def child_of(self, typ):
        for cxx, tab in CXX2TAB.items():
            if re.search(r"\b%s\b" % cxx, typ):
                return tab
        return None

    def walk(self, nodes, guards, loops):
        for nd in nodes:
            k = nd[0]
            if k == "stmt":
                self.stmt(nd[1], guards, loops)
            elif k == "block":
                self.walk(nd[1], guards, loops)
            elif k == "if":
                cond = norm_stmt(nd[1])
                if cond == "i++ == 5":           # line wrapping of a vector: prints "\n" + indent only
                    for s in nd[2]:
                        if s[0] != "stmt" or not re.match(r'^(s_oss << ("\\n"|indent\d)|i = 0)$', s[1]):
                            fail(self.where, "writer: unexpected statement in line-wrap block", str(s))
                    continue
                if self.cls == "cxxNameDouble":
                    self.walk(nd[2], guards, loops)
                    self.walk(nd[3], guards, loops)
                    continue
                if nd[3]:
                    fail(self.where, "writer: if/else around output", cond)
                if self.items:
                    fail(self.where, "writer: condition starts in the middle of a line", cond)
                self.walk(nd[2], guards + [cond], loops)
                if self.items:
                    fail(self.where, "writer: conditional block ends in the middle of a line", cond)
            elif k == "for":
                info = self.loop_info(nd[1])
                if info["kind"] == "indent":
                    continue
                if info["kind"] == "data":
                    ch = self.child_of(info["type"])
                    body_txt = str(nd[2])
                    if "dump_raw" in body_txt:
                        if not ch:
                            fail(self.where, "writer: sub-dump of an unknown class", info["type"])
                        info["kind"], info["child"] = "nested", ch
                    if self.items and info["kind"] == "nested":
                        fail(self.where, "writer: nested loop starts in the middle of a line")
                self.walk(nd[2], guards, loops + [info])
            else:
                fail(self.where, f"writer: unsupported control statement {k}", str(nd[1]))

    def stmt(self, s, guards, loops):
        if IGNORED_WRITER_STMT.match(s):
            return
        m = re.match(r"^const (cxx\w+) \* (\w+) = &\(this->(\w+)\[\w+\]\)$", s)
        if m and m.group(3) in self.members:
            self.locals[m.group(2)] = (m.group(3), m.group(1))
            return
        if s.startswith("s_oss <<"):
            parts = split_shift(s)[1:]
            for p in parts:
                if p.startswith('"') and p.endswith('"') and unquote(p).endswith("\n"):
                    body = unquote(p)[:-1]
                    if body or not self.items or True:
                        self.items.append('"' + body.replace("\\", "\\\\").replace('"', '\\"').replace("\t", "\\t") + '"')
                    self.flush_line(guards, loops)
                elif p.startswith('"') or re.match(r"^indent\d$", p):
                    self.items.append(p)
                else:
                    mem, is_h = self.member_of(p, loops) if not re.match(r"^(n_user_local|this->description)$", norm_expr(p)) else (None, False)
                    self.resolved[len(self.items)] = (mem, is_h and bool(loops) and loops[-1].get("kind") == "nested")
                    self.items.append(p)
            return
        m = re.match(r"^(.+?)(\.|->)dump_raw\(s_oss, indent \+ \d\)$", s)
        if m:
            if self.items:
                fail(self.where, "writer: sub-dump in the middle of a line", s)
            tgt = m.group(1).strip()
            mm = re.match(r"^this->(\w+)$", tgt)
            if mm and mm.group(1) in self.members and "cxxNameDouble" in self.members[mm.group(1)]:
                if self.cur is None or self.cur["kind"] != "bare":
                    fail(self.where, "writer: name-double dump without its own key line", s)
                self.cur["kind"], self.cur["members"] = "namedouble", [mm.group(1)]
                return
            # nested child
            if not loops or loops[-1].get("kind") != "nested":
                fail(self.where, "writer: sub-dump outside a recognised loop", s)
            lp = loops[-1]
            ok = (re.match(r"^(?:this->)?%s\[%s\]$" % (lp["member"], lp["var"]), tgt) or
                  re.match(r"^(\(\*%s\)\.second|%s->second)$" % (lp["var"], lp["var"]), tgt) or
                  (tgt in self.locals and self.locals[tgt][0] == lp["member"]))
            if not ok:
                fail(self.where, "writer: sub-dump target is not the loop element", s)
            if self.cur is None or self.cur["kind"] not in ("scalar", "bare") or not self.cur["loop"]:
                fail(self.where, "writer: sub-dump without a header key line", s)
            self.cur["kind"], self.cur["child"], self.cur["members"] = "nested", lp["child"], [lp["member"]]
            return
        fail(self.where, "writer: unrecognised statement", s)


def parse_writer(tab, cls, src, members, where):
    body, line = function_body(src, cls, "dump_raw", where)
    if cls != "cxxSolutionIsotope" and "s_oss.precision(DBL_DIG + 2)" not in " ".join(body.split()):
        fail(where, "dump_raw does not print doubles with 17 significant digits (precision(DBL_DIG + 2)): Sys.ValOk assumes the "
                    "IEEE round trip of the text")
    w = Writer(tab, cls, members, where)
    w.walk(parse_block(body, where), [], [])
    if w.items:
        fail(where, "writer: unterminated output line", str(w.items))
    return w, line


# ------------------------------------------------------------------------------------------------ reader
def split_cases(body, where):
    """switch body -> list of (labels, text)"""
    cases, i, n, depth = [], 0, len(body), 0
    marks = []
    while i < n:
        c = body[i]
        if c == '"':
            i += 1
            while i < n and body[i] != '"':
                i += 2 if body[i] == "\\" else 1
        elif c in "{(":
            depth += 1
        elif c in "})":
            depth -= 1
        elif depth == 0:
            m = re.compile(r"(case\s+([\w:]+)\s*:|default\s*:)").match(body, i)
            if m and (i == 0 or not (body[i - 1].isalnum() or body[i - 1] == "_")):
                marks.append((i, m.end(), m.group(2) or "default"))
                i = m.end()
                continue
        i += 1
    for k, (s, e, lab) in enumerate(marks):
        end = marks[k + 1][0] if k + 1 < len(marks) else n
        text = body[e:end]
        if cases and cases[-1][1].strip() == "":
            cases[-1] = (cases[-1][0] + [lab], text)
        else:
            cases.append(([lab], text))
    return cases


def drop_failure_blocks(nodes, where):
    """`if (!(READ)) {defaults + error}` -> READ kept as a statement, block dropped; other ifs kept"""
    out = []
    for nd in nodes:
        if nd[0] == "if":
            cond = norm_stmt(nd[1])
            m = re.match(r"^!\((.*)\)$", cond)
            m2 = re.match(r"^(.*\.read_raw\(parser, next_char\)) != CParser::PARSER_OK$", cond)
            if m and ">>" in m.group(1):
                blk = str(nd[2])
                if "error_msg" not in blk and "incr_input_error" not in blk and nd[2] != [("stmt", "break")]:
                    fail(where, "reader: failure branch of a read without an error message", cond)
                out.append(("stmt", m.group(1)))
                out += drop_failure_blocks(nd[3], where)
            elif m2:
                out.append(("stmt", m2.group(1)))
                out += drop_failure_blocks(nd[3], where)
            else:
                out.append(("if", cond, drop_failure_blocks(nd[2], where), drop_failure_blocks(nd[3], where)))
        elif nd[0] in ("for", "while"):
            out.append((nd[0], norm_stmt(nd[1]), drop_failure_blocks(nd[2], where)))
        elif nd[0] == "block":
            out += drop_failure_blocks(nd[1], where)
        else:
            out.append(nd)
    return out


def flat_stmts(nodes):
    for nd in nodes:
        if nd[0] == "stmt":
            yield nd[1]
        elif nd[0] == "if":
            yield "if " + nd[1]
            yield from flat_stmts(nd[2])
            yield from flat_stmts(nd[3])
        elif nd[0] in ("for", "while"):
            yield nd[0] + " " + nd[1]
            yield from flat_stmts(nd[2])
        elif nd[0] == "block":
            yield from flat_stmts(nd[1])


class Reader:
    def __init__(self, tab, cls, members, where):
        self.tab, self.cls, self.members, self.where = tab, cls, members, where
        self.elem_ref = {}

    def target(self, t):
        """an lvalue -> ('member', name) | ('local', name)"""
        t = norm_expr(t)
        m = re.match(r"^(?:this->)?(\w+)(\[(\w+)\])?$", t)
        if not m:
            fail(self.where, "reader: unrecognised read target", t)
        nm, idx = m.group(1), m.group(3)
        is_member = t.startswith("this->") or (nm in self.members and nm not in self.locals)
        if is_member:
            if nm not in self.members:
                fail(self.where, "reader: this-> target is not a member of the class", t)
            if idx is None:
                return ("member", nm)
            typ = self.members[nm]
            if idx.isdigit():
                return ("member", f"{nm}[{idx}]")
            return ("member", nm + ("[*]" if ("map" not in typ) else ""))
        return ("local", nm)

    def analyse_case(self, labels, text, post_flows):
        where = f"{self.where} case {','.join(labels)}"
        nodes = drop_failure_blocks(parse_block(text, where), where)
        stmts = list(flat_stmts(nodes))
        holds = {}          # local -> True when it holds (part of) the value read from the line
        sinks, flags, kind, child, htok = [], [], None, "", 0
        opt_save, use_last, errors, warns, opt_assign = None, None, False, False, None
        child_local = None
        header_locals = []
        cond_member, clobbers = None, []
        for s in stmts:
            if s in ("break", "continue", "i = 0", "int i", "int i = 0", "int s_num", "double d", "LDBLE d", "std::string str",
                     "std::string name", "LDBLE z", "LDBLE dummy", "double dd", "int j", "std::string token"):
                continue
            if re.match(r"^(parser\.)?incr_input_error\(\)$", s):
                errors = True
                continue
            if re.match(r"^(parser\.)?error_msg\(", s):
                errors = True
                continue
            if re.match(r"^(parser\.)?(warning_msg|output_msg)\(", s):
                warns = True
                continue
            m = re.match(r"^opt_save = (CParser::OPT_DEFAULT|CParser::OPT_ERROR|\d+)$", s)
            if m:
                opt_save = m.group(1)
                continue
            m = re.match(r"^useLastLine = (true|false)$", s)
            if m:
                use_last = (m.group(1) == "true") or bool(use_last)
                continue
            m = re.match(r"^opt = (CParser::OPT_\w+)$", s)
            if m:
                opt_assign = m.group(1)
                continue
            m = re.match(r"^(\w+_defined) = true$", s)
            if m:
                flags.append(m.group(1))
                continue
            # stream reads
            m = re.match(r"^(?:parser\.get_iss\(\)|iss) >> (.+)$", s)
            if m:
                for t in split_shift(m.group(1), ">>"):
                    k, nm = self.target(t)
                    if k == "member":
                        if nm not in sinks:
                            sinks.append(nm)
                    else:
                        holds[nm] = True
                        header_locals.append(nm)
                kind = kind or "value"
                continue
            m = re.match(r"^(.+)\.read_raw\(parser, next_char\)$", s)
            if m:
                k, nm = self.target(m.group(1))
                if k == "member":
                    sinks.append(nm)
                else:
                    holds[nm] = True
                kind = "namedouble"
                continue
            m = re.match(r"^(\w+)\.read_raw\(parser, (check|false|true)\)$", s)
            if m:
                child_local = m.group(1)
                if child_local not in self.locals or not self.child_of(self.locals[child_local]):
                    fail(where, "reader: sub-read into something that is not a known entity class", s)
                child = self.child_of(self.locals[child_local])
                kind = "nested"
                htok = len(header_locals)
                holds[child_local] = True
                continue
            m = re.match(r"^(LDBLE|double|int|std::string) \w+(, \w+)*$", s)
            if m:
                continue
            m = re.match(r"^if (\w+_first)$", s) or re.match(r"^(\w+_first) = false$", s)
            if m and m.group(1) in self.locals:
                continue
            m = re.match(r"^this->(\w+)\.(clear\(\)|assign\(\d+, 0\.0\))$", s)
            if m and m.group(1) in self.members:
                continue
            m = re.match(r"^std::map<[^;]*>::iterator (\w+) = (\w+)\.find\((\w+)\)$", s)
            if m and m.group(2) in self.members and m.group(3) in holds:
                self.elem_ref[m.group(1)] = m.group(2)
                continue
            m = re.match(r"^(\w+)->second\.Set_\w+\((\w+)\)$", s)
            if m and m.group(1) in self.elem_ref and m.group(2) in holds:
                if self.elem_ref[m.group(1)] not in sinks:
                    sinks.append(self.elem_ref[m.group(1)])
                continue
            # local declarations
            m = re.match(r"^(cxx\w+) (\w+)(\(.*\))?$", s)
            if m:
                self.locals[m.group(2)] = m.group(1)
                continue
            m = re.match(r"^(cxx\w+) \*\s?(\w+) = this->Find(_\w+)?\((\w+)(\.c_str\(\))?\)$", s)
            if m:
                self.locals[m.group(2)] = m.group(1) + "*"
                continue
            m = re.match(r"^(\w+_ptr) = this->Find(_\w+)?\((\w+)(\.c_str\(\))?\)$", s)
            if m and m.group(1) in self.locals:
                continue
            m = re.match(r'^\(void\)sscanf\(token\.c_str\(\), "%lf", &(\w+)\)$', s)
            if m:
                holds[m.group(1)] = True
                kind = kind or "value"
                continue
            m = re.match(r"^std::istringstream iss\(token\)$", s)
            if m:
                continue
            m = re.match(r"^j = parser\.copy_token\(token, next_char\)$", s)
            if m:
                holds["token"] = True
                kind = kind or "value"
                continue
            if s == "if j == CParser::TT_EMPTY":
                continue
            m = re.match(r"^this->Set_(\w+)\(token\.c_str\(\)\)$", s)
            if m and "token" in holds and m.group(1) in self.members:
                sinks.append(m.group(1))
                continue
            m = re.match(r"^if !(cleared_once)$", s) or re.match(r"^(cleared_once) = true$", s)
            if m and m.group(1) in self.locals:
                continue
            m = re.match(r"^while (\(k = )?parser\.copy_token\(token, next_char\)\)? == CParser::TT_DIGIT$", s)
            if m:
                kind = kind or "value"
                continue
            m = re.match(r"^if parser\.(peek_token\(\)|copy_token\(token, next_char\)) != CParser::TT_EMPTY$", s)
            if m:
                if "copy_token" in s:
                    holds["token"] = True
                continue
            m = re.match(r"^for (int|size_t) \w+ = 0; \w+ < \d+; \w+\+\+$", s)
            if m:
                continue
            if re.match(r"^if (\w+_ptr)$", s) or re.match(r"^if Utilities::strcmp_nocase\(this->\w+\[j\]\.Get_\w+\(\)\.c_str\(\), str\.c_str\(\)\) == 0$", s) \
                    or re.match(r"^for size_t j = 0; j < this->\w+\.size\(\); j\+\+$", s):
                continue
            m = re.match(r"^(\w+) = \*(\w+)$", s)        # temp_comp = *comp_ptr
            if m and m.group(1) in self.locals:
                continue
            m = re.match(r"^(\w+)\.Set_\w+\((\w+)(\.c_str\(\))?\)$", s)      # temp_comp.Set_formula(str.c_str())
            if m and m.group(1) in self.locals and m.group(2) in holds:
                continue
            # flows local -> member
            m = re.match(r"^(.+?) = (?:\([\w: ]+\)\s*)?(\w+)$", s)
            if m and m.group(2) in holds:
                k, nm = self.target(re.sub(r"\[(\w+)\]$", lambda mm: "" if mm.group(1) in holds else mm.group(0), m.group(1)))
                if k == "member":
                    if nm not in sinks:
                        sinks.append(nm)
                else:
                    holds[nm] = True
                continue
            m = re.match(r"^(.+?)\.(push_back|merge_redox)\((?:\(\w+\)\s?)?(\w+)\)$", s)
            if m and m.group(3) in holds:
                k, nm = self.target(m.group(1))
                if k == "member":
                    if nm not in sinks:
                        sinks.append(nm)
                else:
                    holds[nm] = True
                continue
            m = re.match(r"^this->(\w+)\[(\w+)\] = (\w+)$", s)        # g_map[z] = temp_surf_dl
            if m and m.group(2) in holds and m.group(1) in self.members:
                if m.group(1) not in sinks:
                    sinks.append(m.group(1))
                continue
            m = re.match(r"^if (\w+)$", s)
            if m and m.group(1) in holds:
                continue
            # range validation of a value just read: `if (i == (int) E::A || i == (int) E::B) assign; else error`
            m = re.match(r"^if (\w+) (?:==|>=|<=) \(int\) ?[\w:]+( (?:\|\||&&) (\w+) (?:==|>=|<=) \(int\) ?[\w:]+)*$", s)
            if m and m.group(1) in holds and (m.group(3) is None or m.group(3) == m.group(1)):
                continue
            # conditional constant side effect on another member: `if (this->X) this->Y = false;`
            m = re.match(r"^if this->(\w+)$", s)
            if m and m.group(1) in sinks:
                cond_member = m.group(1)
                continue
            m = re.match(r"^this->(\w+) = (false|true|0)$", s)
            if m and cond_member and m.group(1) in self.members:
                clobbers.append(m.group(1))
                continue
            m = re.match(r"^this->(\w+) = \(?(\w+) (?:!= 0|== 1)\)?$", s)    # this->pr_in = (i != 0)
            if m and m.group(2) in holds and m.group(1) in self.members:
                if m.group(1) not in sinks:
                    sinks.append(m.group(1))
                continue
            m = re.match(r"^this->(\w+) = \((\w+) == 0\) \? false : true$", s)
            if m and m.group(2) in holds and m.group(1) in self.members:
                sinks.append(m.group(1))
                continue
            m = re.match(r"^this->(\w+) = (\w+) \? true : false$", s)
            if m and m.group(2) in holds and m.group(1) in self.members:
                sinks.append(m.group(1))
                continue
            fail(where, "reader: unrecognised statement", s)
        # values parked in locals of the whole function (temp_steps …) flow to members after the loop
        for loc, mem in post_flows.items():
            if loc in holds and mem not in sinks:
                sinks.append(mem)
        if kind is None:
            kind = "error" if errors else ("ignore" if warns else None)
            if kind is None:
                fail(where, "reader: case neither reads, warns nor reports an error", text)
        elif errors and False:
            pass
        if kind == "nested":
            sinks = list(dict.fromkeys(re.sub(r"\[\*\]$", "", x) for x in sinks))
        if kind in ("value", "namedouble", "nested") and not sinks:
            fail(where, "reader: value read but no member receives it", text)
        return dict(labels=labels, sinks=sinks, kind=kind, child=child, htok=htok, flags=flags, clobbers=clobbers,
                    opt_save=opt_save, use_last=bool(use_last), opt_assign=opt_assign)

    def child_of(self, typ):
        for cxx, tab in CXX2TAB.items():
            if re.fullmatch(cxx, typ.strip()):
                return tab
        return None


def parse_reader(tab, cls, src, members, where):
    body, line = function_body(src, cls, "read_raw", where)
    r = Reader(tab, cls, members, where)
    nodes = parse_block(body, where)
    # locate the for(;;) loop containing the switch
    loop = [nd for nd in nodes if nd[0] == "for" and nd[1].replace(" ", "") == ";;"]
    if len(loop) != 1:
        fail(where, "reader: expected exactly one for(;;) loop")
    sw = [nd for nd in loop[0][2] if nd[0] == "switch"]
    if len(sw) != 1 or sw[0][1].strip() != "opt":
        fail(where, "reader: expected exactly one switch (opt)")
    pre = [nd for nd in loop[0][2] if nd[0] != "switch"]
    pre_txt = " ".join(flat_stmts(pre))
    uses_last = bool(re.search(r"getOptionFromLastLine\(vopts, next_char, (true|false)\)", pre_txt))
    if "parser.get_option(vopts, next_char)" not in pre_txt:
        fail(where, "reader: option lookup is not parser.get_option(vopts, next_char)")
    default_to_save = bool(re.search(r"if opt == CParser::OPT_DEFAULT opt = opt_save", pre_txt))
    reset_save_each_line = "opt_save = CParser::OPT_DEFAULT" in pre_txt
    # function-level locals
    r.locals = {}
    for nd in nodes:
        if nd[0] == "stmt":
            m = re.match(r"^(?:std::vector\s*<\s*\w+\s*>|LDBLE|double|int|bool|std::string|cxxNameDouble|std::istream::pos_type|cxx\w+ \*) ?(\w+)", nd[1])
            if m:
                r.locals[m.group(1)] = nd[1].split(" " + m.group(1))[0]
    # flows after the loop: `if (x_defined) this->M = temp;` or `this->M = temp;`
    post_flows, required = {}, []
    after = nodes[nodes.index(loop[0]) + 1:]
    for s in flat_stmts(after):
        m = re.match(r"^this->(\w+) = (\w+)$", s)
        if m and m.group(2) in r.locals and m.group(1) in members:
            post_flows[m.group(2)] = m.group(1)
    for nd in after:
        if nd[0] == "if" and norm_stmt(nd[1]) == "check":
            for s in flat_stmts(nd[2]):
                m = re.match(r"^if (\w+) == false$", s)
                if m:
                    required.append(m.group(1))
                elif not re.match(r"^(parser\.)?(incr_input_error\(\)|error_msg\()", s):
                    fail(where, "reader: unrecognised statement in the check block", s)
    cases, unknown = [], None
    for labels, text in split_cases(sw[0][2], where):
        sym = [l for l in labels if not l.isdigit()]
        if sym:
            if len(sym) != len(labels):
                fail(where, "reader: numeric and symbolic labels share a case", str(labels))
            if "CParser::OPT_ERROR" in labels:
                t = " ".join(text.split())
                if "opt = CParser::OPT_KEYWORD" in t and "error_msg" not in t:
                    unknown = "return"
                elif "error_msg" in t and "opt = CParser::OPT_EOF" in t:
                    unknown = "error"
                else:
                    fail(where, "reader: unrecognised handling of an unknown option", t)
                if "CParser::OPT_DEFAULT" not in labels and tab != "Mix":
                    fail(where, "reader: OPT_DEFAULT not handled with OPT_ERROR")
            elif labels == ["CParser::OPT_DEFAULT"]:
                c = r.analyse_case(["default"], text, post_flows)
                c["labels"] = []
                c["default_line"] = True
                cases.append(c)
            elif set(labels) <= {"CParser::OPT_EOF", "CParser::OPT_KEYWORD"}:
                if " ".join(text.split()) != "break;":
                    fail(where, "reader: EOF/KEYWORD case does more than break")
            else:
                fail(where, "reader: unknown symbolic case label", str(labels))
            continue
        c = r.analyse_case(labels, text, post_flows)
        c["labels"] = [int(l) for l in labels]
        # continuation lines come back to this case only when opt_save names it
        c["continues"] = (c["opt_save"] is not None and c["opt_save"].isdigit() and int(c["opt_save"]) in c["labels"])
        cases.append(c)
    if unknown is None:
        fail(where, "reader: no OPT_ERROR case")
    return dict(cases=cases, unknown=unknown, uses_last=uses_last, required=required, default_to_save=default_to_save,
                reset_save=reset_save_each_line), line


# ------------------------------------------------------------------------------------------------ driver
def extract(repo=None):
    repo = Path(repo or vlib.REPO)
    base = repo / "src" / "phreeqcpp"
    tables = []
    for tab, stem, cls in CLASSES:
        where = f"{stem}.cxx"
        raw = (base / f"{stem}.cxx").read_text(errors="replace")
        src = preprocess(strip_comments(raw), where)
        hsrc = preprocess(strip_comments((base / f"{stem}.h").read_text(errors="replace")), stem + ".h")
        members = class_members(hsrc, cls, stem + ".h")
        vopts = parse_vopts(src, cls, where)
        w, wline = parse_writer(tab, cls, src, members, where + " dump_raw")
        rd, rline = parse_reader(tab, cls, src, members, where + " read_raw")
        if len(set(vopts)) != len(vopts):
            fail(where, "duplicate entries in vopts")
        labels = sorted(l for c in rd["cases"] for l in c["labels"])
        if len(set(labels)) != len(labels):
            fail(where, "duplicate case labels")
        tables.append(dict(name=tab, file=f"src/phreeqcpp/{stem}.cxx", cls=cls, keyword=w.header or "", vopts=vopts,
                           written=w.entries, sections=w.sections, reader=rd, dump_raw_line=wline, read_raw_line=rline))
    # NameDouble: the shape of its one-line writer/reader is checked, it has no options
    nd = preprocess(strip_comments((base / "NameDouble.cxx").read_text(errors="replace")), "NameDouble.cxx")
    body, _ = function_body(nd, "cxxNameDouble", "dump_raw", "NameDouble.cxx dump_raw")
    flat = " ".join(body.split())
    if not re.search(r'pad_right\(it->first, 29 - indent0\.size\(\)\) << it->second << "\\n"', flat) or \
            not re.search(r'pad_right\(it->first, it->first\.size\(\) \+ indent0\.size\(\)\) << " " << it->second << "\\n"', flat):
        fail("NameDouble.cxx", "dump_raw does not print `name value` lines")
    if "s_oss.precision(DBL_DIG + 2)" not in flat:
        fail("NameDouble.cxx", "dump_raw does not print doubles with 17 significant digits")
    body, _ = function_body(nd, "cxxNameDouble", "read_raw", "NameDouble.cxx read_raw")
    flat = " ".join(body.split())
    if "j = parser.copy_token(token, pos)" not in flat or "parser.get_iss() >> d" not in flat or "(*this)[token.c_str()] = d" not in flat:
        fail("NameDouble.cxx", "read_raw does not read `name value` into the map")
    body, _ = function_body(nd, "cxxNameDouble", "merge_redox", "NameDouble.cxx merge_redox")
    flat = " ".join(body.split())
    for need in ("for (cxxNameDouble::const_iterator sit = source.begin(); sit != source.end(); sit++)",
                 'size_t pos = redox_name.find("(");', "elt_name = redox_name.substr(0, pos);",
                 "if ((*this).find(elt_name) != (*this).end()) { (*this).erase((*this).find(elt_name)); }",
                 "(*this)[redox_name] = sit->second;", 'substring.append(elt_name); substring.append("(");',
                 "bool deleted = true; while (deleted) { deleted = false; cxxNameDouble::iterator current = (*this).begin(); "
                 "for ( ; current != (*this).end(); current++) { if (current->first.find(substring) == 0) { (*this).erase(current); "
                 "deleted = true; break; } } }", "(*this)[elt_name] = sit->second;"):
        if need not in flat:
            fail("NameDouble.cxx", "merge_redox no longer has the shape Model/RawTables.lean `mergeOne` was written from", need)
    # find_option itself: case-folded prefix match, first hit wins
    ps = preprocess(strip_comments((base / "common" / "Parser.cxx").read_text(errors="replace")), "Parser.cxx")
    body, _ = function_body(ps, "CParser", "find_option", "Parser.cxx find_option")
    flat = " ".join(body.split())
    for need in ("std::transform(token.begin(), token.end(), token.begin(), tolower)",
                 "for (unsigned int i = 0; i < list.size(); i++)", "list[i].compare(token) == 0",
                 "list[i].find(token) == 0", "*n = i; return FT_OK;", "*n = -1; return FT_ERROR;"):
        if need not in flat:
            fail("Parser.cxx", "find_option is no longer the case-folded first-prefix matcher", need)
    for fn in ("get_option", "getOptionFromLastLine"):
        for nth in (1,):        # the std::istream::pos_type overload is the one every read_raw uses
            b, _ = function_body(ps, "CParser", fn, "Parser.cxx", nth)
            if "std::istream::pos_type pos_ptr" not in b:
                fail("Parser.cxx", f"second definition of {fn} is not the pos_type overload")
            f2 = " ".join(b.split())
            if not (re.search(r"find_option\(option(\.substr\(1\))?, &opt, opt_list, false\)", f2)
                    and re.search(r"find_option\(option, &opt, opt_list, true\)", f2)):
                fail("Parser.cxx", f"{fn} does not look options up with find_option (prefix for -options, exact otherwise)")
    return tables


# ------------------------------------------------------------------------------------------------ Serialize / Deserialize
SER_CLASSES = [t for t in CLASSES if t[0] not in ("Mix", "Reaction")] + [("NameDouble", "NameDouble", "cxxNameDouble"),
                                                                         ("SurfDL", "SurfaceCharge", "cxxSurfDL")]


def _strip_casts(e):
    e = norm_expr(e)
    while True:
        m = re.match(r"^\((?:int|size_t|LDBLE|double|[\w:]+)\)\s*(.+)$", e)
        if m and not re.match(r"^\(\*\w+\)", e):
            e = norm_expr(m.group(1))
            continue
        return e


class SerWalker:
    """symbolic order of pushes (Serialize) / pops (Deserialize): list of [kind, target] with kind i/d/w/nest and loop brackets"""
    def __init__(self, members, where):
        self.members, self.where = members, where
        self.ev = []
        self.cond_reads = []

    def mem(self, e):
        e = _strip_casts(e)
        m = re.match(r"^(?:this->)?(\w+)(\[(\d+)\])?$", e)
        if m and m.group(1) in self.members:
            return m.group(1) + (f"[{m.group(3)}]" if m.group(3) else "")
        return None

    # ---------------------------------------------------------------- Serialize
    def ser_target(self, e, loops, locs):
        e = _strip_casts(e)
        m = re.match(r"^(.+?) \? 1 : 0$", e)
        if m:
            e = _strip_casts(m.group(1))
        m = re.match(r"^this->(\w+) == [\w:]+\) \? 0 : 1$", e) or re.match(r"^\(?this->(\w+) == [\w:]+\)? \? 0 : 1$", e)
        if m and m.group(1) in self.members:
            return m.group(1)
        if e in locs:
            return locs[e]
        t = self.mem(e)
        if t:
            return t
        m = re.match(r"^(?:this->)?(\w+)\.size\(\)$", e)
        if m and m.group(1) in self.members:
            return m.group(1) + ".size"
        if e in ("(*this).size()", "this->size()"):
            return "self.size"
        for lp in reversed(loops):
            v, c = lp["var"], lp["cont"]
            if re.match(r"^(\(\*%s\)\.|%s->)first$" % (v, v), e):
                return c + ".key"
            if re.match(r"^(\(\*%s\)\.|%s->)second$" % (v, v), e):
                return c + ".val"
            if re.match(r"^(?:this->)?%s\[%s\]$" % (c, v), e):
                return c + ".elem"
        fail(self.where, "Serialize: unrecognised pushed expression", e)

    def ser(self, nodes, loops, locs):
        for nd in nodes:
            if nd[0] == "block":
                self.ser(nd[1], loops, locs)
            elif nd[0] == "for":
                h = norm_stmt(nd[1])
                m = re.search(r"(\w+) = (?:this->|\(\*this\)\.)?(\w+)?\.?begin\(\); \1 != ", h) or re.match(r"^size_t (\w+) = 0; \1 < (?:this->)?(\w+)\.size\(\); \1\+\+$", h)
                if "(*this).begin()" in h:
                    var = re.search(r"(\w+) = \(\*this\)\.begin", h).group(1)
                    cont = "self"
                elif m and m.group(2) in self.members:
                    var, cont = m.group(1), m.group(2)
                else:
                    fail(self.where, "Serialize: unrecognised loop", h)
                self.ev.append(["loop[", cont])
                self.ser(nd[2], loops + [dict(var=var, cont=cont)], locs)
                self.ev.append(["]", cont])
            elif nd[0] == "stmt":
                st = nd[1]
                m = re.match(r"^(ints|doubles)\.push_back\((.*)\)$", st)
                if m:
                    arg = norm_expr(m.group(2))
                    mm = re.match(r"^dictionary\.Find\((.*)\)$", arg)
                    if mm:
                        self.ev.append(["w", self.ser_target(mm.group(1), loops, locs)])
                    else:
                        t = self.ser_target(arg, loops, locs)
                        kind = "w" if t.startswith("@w:") else ("i" if m.group(1) == "ints" else "d")
                        self.ev.append([kind, t[3:] if t.startswith("@w:") else t])
                    continue
                m = re.match(r"^int (\w+) = dictionary\.Find\((.*)\)$", st)
                if m:
                    locs = dict(locs)
                    locs[m.group(1)] = "@w:" + self.ser_target(m.group(2), loops, locs)
                    self._locs = locs
                    continue
                m = re.match(r"^(.+?)(\.|->)Serialize\(dictionary, ints, doubles\)$", st)
                if m:
                    tgt = m.group(1)
                    if self.mem(tgt):
                        self.ev.append(["nest", self.mem(tgt)])
                    else:
                        self.ev.append(["nest", self.ser_target(tgt, loops, locs)])
                    continue
                if re.match(r"^std::map\s*<[^;]*>::(const_)?iterator \w+$", st) or st == "return":
                    continue
                fail(self.where, "Serialize: unrecognised statement", st)
            else:
                fail(self.where, f"Serialize: unsupported control statement {nd[0]}", str(nd[1]))
            locs = getattr(self, "_locs", locs)

    # ---------------------------------------------------------------- Deserialize
    READ = re.compile(r"ints\[ii\+\+\]|doubles\[dd\+\+\]")

    def deser(self, nodes, locs, cond=False):
        for nd in nodes:
            if nd[0] == "block":
                self.deser(nd[1], locs, cond)
            elif nd[0] == "if":
                c = norm_stmt(nd[1])
                if not re.match(r"^\w+\.size\(\) != 0$", c) or nd[3]:
                    fail(self.where, "Deserialize: unrecognised condition", c)
                self.deser(nd[2], locs, True)
            elif nd[0] == "for":
                h = norm_stmt(nd[1])
                m = re.match(r"^int (\w+) = 0; \1 < (\w+); \1\+\+$", h)
                if not m or m.group(2) not in locs:
                    fail(self.where, "Deserialize: unrecognised loop", h)
                cnt = locs[m.group(2)]
                start = len(self.ev)
                self.ev.append(["loop[", "?"])
                self.deser(nd[2], locs, cond)
                conts = {t.split(".")[0] for k, t in self.ev[start + 1:] if k in ("i", "d", "w", "nest") and "." in t and not t.startswith("@")}
                inner_open = [e for e in self.ev[start + 1:] if e[0] == "loop["]
                if len(conts) != 1 and not inner_open:
                    fail(self.where, "Deserialize: loop does not fill exactly one container", f"{h} {conts}")
                cont = sorted(conts)[0] if len(conts) == 1 else "?"
                self.ev[start][1] = cont
                self.ev.append(["]", cont])
                cnt[1] = cont + ".size"
            elif nd[0] == "stmt":
                self.deser_stmt(nd[1], locs, cond)
            else:
                fail(self.where, f"Deserialize: unsupported control statement {nd[0]}", str(nd[1]))

    def new_read(self, rhs, cond):
        """event for a right-hand side that pops one value: returns the event"""
        r = norm_expr(rhs)
        if re.match(r"^dictionary\.GetWords\(\)\[ints\[ii\+\+\]\]$", r):
            ev = ["w", "@"]
        elif re.match(r"^(\([\w:]+\) ?)?ints\[ii\+\+\]$", r) or re.match(r"^\(?ints\[ii\+\+\] (!=|==) 0\)?( \? [\w:]+ : [\w:]+)?$", r):
            ev = ["i", "@"]
        elif re.match(r"^(\([\w:]+\) ?)?doubles\[dd\+\+\]$", r):
            ev = ["d", "@"]
        else:
            fail(self.where, "Deserialize: unrecognised popped expression", r)
        if cond:
            self.cond_reads.append(ev)
        self.ev.append(ev)
        return ev

    def lhs_target(self, lhs, locs):
        """where an assignment lands: member target string; resolves key locals as a side effect"""
        l = norm_expr(lhs)
        t = self.mem(l)
        if t:
            return t
        m = re.match(r"^(?:this->)?(\w+)\[(\w+)\]$", l)
        if m and m.group(1) in self.members:
            if m.group(2) in locs:
                locs[m.group(2)][1] = m.group(1) + ".key"
            return m.group(1) + ".val"
        m = re.match(r"^\(\*this\)\[(\w+)\]$", l)
        if m:
            if m.group(1) in locs:
                locs[m.group(1)][1] = "self.key"
            return "self.val"
        return None

    def deser_stmt(self, st, locs, cond):
        n_reads = len(self.READ.findall(st))
        # nested object
        m = re.match(r"^(.+?)\.Deserialize\(dictionary, ints, doubles, ii, dd\)$", st)
        if m:
            tgt = m.group(1)
            if self.mem(tgt):
                self.ev.append(["nest", self.mem(tgt)])
            elif re.match(r"^\w+$", tgt):
                ev = ["nest", "@"]
                self.ev.append(ev)
                locs[tgt] = ev
            else:
                fail(self.where, "Deserialize: unrecognised nested target", st)
            return
        if n_reads == 0:
            # uses of locals that decide where a popped value went
            m = re.match(r"^(.+?) = (\w+)$", st)
            if m and m.group(2) in locs:
                t = self.lhs_target(m.group(1), locs)
                if t is None:
                    fail(self.where, "Deserialize: local stored into something that is not a member", st)
                locs[m.group(2)][1] = t
                return
            m = re.match(r"^(?:this->)?(\w+)\.push_back\((\w+)\)$", st)
            if m and m.group(2) in locs and m.group(1) in self.members:
                locs[m.group(2)][1] = m.group(1) + ".elem"
                return
            m = re.match(r"^std::string (\w+) = dictionary\.GetWords\(\)\[(\w+)\]$", st)
            if m and m.group(2) in locs:
                locs[m.group(2)][0] = "w"
                locs[m.group(1)] = locs[m.group(2)]
                return
            if re.match(r"^(?:this->|\(\*this\)\.)?(\w+\.)?clear\(\)$", st) or re.match(r"^this->n_user_end = this->n_user$", st) \
                    or re.match(r'^this->description = " +"$', st) or re.match(r"^assert\(\w+ >= 0\)$", st) \
                    or re.match(r"^cxx\w+ \w+(\(this->io\)|\(this->Get_io\(\)\))?$", st) or re.match(r"^std::string \w+\(\w+\.Get_name\(\)\)$", st) \
                    or re.match(r"^(int|double|LDBLE|std::string) \w+$", st) or st == "return":
                return
            fail(self.where, "Deserialize: unrecognised statement", st)
        # statements that pop
        m = re.match(r"^(?:this->)?(\w+)\.push_back\((.*)\)$", st)
        if m and m.group(1) in self.members and n_reads == 1:
            self.new_read(m.group(2), cond)[1] = m.group(1) + ".elem"
            return
        m = re.match(r"^(?:int|double|LDBLE|size_t|std::string) (\w+) = (.*)$", st) or (re.match(r"^(\w+) = (.*)$", st) if re.match(r"^(\w+) = ", st) and re.match(r"^(\w+) = ", st).group(1) in locs else None)
        if m and n_reads == 1:
            ev = self.new_read(m.group(2), cond)
            locs[m.group(1)] = ev
            return
        m = re.match(r"^(.+?) = (.*)$", st)
        if m:
            lhs, rhs = m.group(1), m.group(2)
            lk = self.READ.findall(lhs)
            if len(lk) == 1 and n_reads == 2:          # M[ints[ii++]] = doubles[dd++]
                mm = re.match(r"^(?:this->)?(\w+)\[(ints\[ii\+\+\])\]$", norm_expr(lhs))
                if not mm or mm.group(1) not in self.members:
                    fail(self.where, "Deserialize: unrecognised keyed assignment", st)
                self.new_read(mm.group(2), cond)[1] = mm.group(1) + ".key"
                self.new_read(rhs, cond)[1] = mm.group(1) + ".val"
                return
            if n_reads == 1 and not lk:
                t = self.lhs_target(lhs, locs)
                if t is None:
                    fail(self.where, "Deserialize: popped value stored into something that is not a member", st)
                self.new_read(rhs, cond)[1] = t
                return
        fail(self.where, "Deserialize: unrecognised popping statement", st)


def parse_serializer(tab, cls, src, members, where):
    sb, sline = function_body(src, cls, "Serialize", where)
    db, dline = function_body(src, cls, "Deserialize", where)
    ws = SerWalker(members, where + " Serialize")
    ws.ser(parse_block(sb, where), [], {})
    wd = SerWalker(members, where + " Deserialize")
    wd.deser(parse_block(db, where), {})
    for k, t in wd.ev:
        if t in ("@", "?"):
            fail(where, "Deserialize: a popped value is never stored", str(wd.ev))
    return dict(name=tab, ser=[tuple(e) for e in ws.ev], deser=[tuple(e) for e in wd.ev],
                conditional_pops=[tuple(e) for e in wd.cond_reads], lines=(sline, dline))


def extract_serializers(repo=None):
    repo = Path(repo or vlib.REPO)
    base = repo / "src" / "phreeqcpp"
    out = []
    for tab, stem, cls in SER_CLASSES:
        src = preprocess(strip_comments((base / f"{stem}.cxx").read_text(errors="replace")), stem + ".cxx")
        hsrc = preprocess(strip_comments((base / f"{stem}.h").read_text(errors="replace")), stem + ".h")
        members = class_members(hsrc, cls, stem + ".h") if cls != "cxxNameDouble" else {}
        members = dict(members, n_user="int", n_user_end="int", description="std::string")      # cxxNumKeyword base
        out.append(parse_serializer(tab, cls, src, members, f"{stem}.cxx {cls}"))
    return out


# ------------------------------------------------------------------------------------------------ obligations (mirror)
def find_option(item, vopts, exact=False):
    tok = item.lower()
    for i, o in enumerate(vopts):
        if (o == tok) if exact else o.startswith(tok):
            return i
    return None


def resolve(t, k):
    cases = t["reader"]["cases"]
    if k["key"] == "":
        return next((c for c in cases if not c["labels"]), None)
    i = find_option(k["key"], t["vopts"])
    if i is None:
        return None
    return next((c for c in cases if i in c["labels"]), None)


def is_const(k):
    return k["members"] in ([""], [])


KINDS_AGREE = {("scalar", "value"), ("lines", "value"), ("bare", "value"), ("namedouble", "namedouble"), ("nested", "nested")}


def descendants(bytab, t, fuel=3):
    out = [t]
    if fuel:
        for k in t["written"]:
            if k["kind"] == "nested" and k["child"] in bytab:
                out += descendants(bytab, bytab[k["child"]], fuel - 1)
    return out


def followers(ks):
    out = []
    for k in ks:
        out.append(k)
        if k["guard"][0] == "none" and k["kind"] != "nested" and k["key"] != "":
            break
    return out


def defects(tables):
    """the same obligations as Model/RawTables.lean (`failing`), with the key each failure is about:
    list of (table, obligation, key, detail)"""
    bytab = {t["name"]: t for t in tables}
    out = []
    for t in tables:
        W = t["written"]
        for n, k in enumerate(W):
            c = resolve(t, k)
            if c is None or c["kind"] == "error":
                out.append((t["name"], "keys_known", k["key"], "no option" if c is None else "error case"))
            if not is_const(k) and c is not None and not set(c["sinks"]) <= set(k["members"]):
                out.append((t["name"], "no_cross_wiring", k["key"], f"prints {k['members']} lands in {c['sinks']}"))
            if k["section"] != "work" and not is_const(k):
                if c is None or not set(k["members"]) <= set(c["sinks"]) or (k["kind"], c["kind"]) not in KINDS_AGREE:
                    out.append((t["name"], "state_restored", k["key"], f"prints {k['members']} restored {c['sinks'] if c else None}"))
            if k["kind"] == "nested":
                ch = bytab.get(k["child"])
                ok = (c is not None and ch is not None and c["kind"] == "nested" and c["child"] == k["child"] and
                      c["htok"] == k["htok"] and c["use_last"] and t["reader"]["uses_last"])
                why = []
                if not ok:
                    why.append("header line / hand-over differs")
                if ch is not None:
                    for d in descendants(bytab, ch):
                        if d["reader"]["unknown"] != "return":
                            why.append(f"{d['name']} reader reports an error on a line it does not know")
                        for f in [k] + followers(W[n + 1:]):
                            if find_option(f["key"], d["vopts"]) is not None:
                                why.append(f"following key -{f['key']} is swallowed by {d['name']}")
                if why:
                    out.append((t["name"], "header_symmetric", k["key"], "; ".join(why)))
            if k["guard"][0] == "nonempty" and k["members"] != [k["guard"][1]]:
                out.append((t["name"], "guards_ok", k["key"], "guard on another member"))
            if k["guard"][0] == "flag":
                m = k["guard"][1]
                if not any(k2["members"] == [m] and k2["guard"][0] == "none" and (resolve(t, k2) or {}).get("sinks") == [m] for k2 in W):
                    out.append((t["name"], "guards_ok", k["key"], f"flag {m} is not restored unconditionally"))
            if k["section"] != "work" and k["kind"] in ("namedouble", "lines"):
                if c is None or not (c.get("continues") or c.get("default_line")):
                    out.append((t["name"], "continuation_ok", k["key"], "continuation lines do not return to the case"))
            if len(k["members"]) > 1 or (c is not None and len(c["sinks"]) > 1):
                out.append((t["name"], "single_field", k["key"], "more than one member"))
        for f in t["reader"]["required"]:
            if not any(k["guard"][0] == "none" and k["kind"] != "nested" and f in (resolve(t, k) or {}).get("flags", []) for k in W):
                out.append((t["name"], "required_defined", f, "no always-written key sets the flag"))
        fields = [k["members"][0] for k in W if len(k["members"]) == 1 and k["members"][0] != ""]
        for f in sorted({x for x in fields if fields.count(x) > 1}):
            out.append((t["name"], "fields_distinct", f, "printed by two keys"))
    return out


def latent(tables):
    """things the obligations deliberately do not demand (reported in the evidence, never an alarm)"""
    out = []
    for t in tables:
        for k in t["written"]:
            c = resolve(t, k)
            if k["section"] == "work" and c is not None and not is_const(k) and not set(k["members"]) <= set(c["sinks"]):
                out.append(f"{t['name']} -{k['key']}: workspace value dropped by the reader ({c['kind']})")
            if k["section"] == "work" and k["kind"] in ("namedouble", "lines") and c is not None and not (c.get("continues") or c.get("default_line")):
                out.append(f"{t['name']} -{k['key']}: workspace block without a continuation case (the block is empty in every dump)")
            if c is not None and c.get("clobbers"):
                out.append(f"{t['name']} -{k['key']}: when true also clears {c['clobbers']}")
    return out


# ------------------------------------------------------------------------------------------------ Lean emission
def ls(s):
    return '"' + s.replace("\\", "\\\\").replace('"', '\\"') + '"'


def ll(xs):
    return "[" + ", ".join(xs) + "]"


def emit_ser(sers):
    o = ["/-- push / pop sequences of Serialize / Deserialize (tools/gen_raw.py, `extract_serializers`) -/", "def serTabs : List SerTab := ["]
    rows = []
    for t in sers:
        f = lambda evs: ll(f"⟨{ls(k)}, {ls(x)}⟩" for k, x in evs)
        rows.append(f"  ⟨{ls(t['name'])},\n   {f(t['ser'])},\n   {f(t['deser'])}⟩")
    o.append(",\n".join(rows) + "]")
    return "\n".join(o) + "\n"


def emit(tables):
    o = ["/- GENERATED by tools/gen_raw.py from src/phreeqcpp/*.cxx — do not edit. -/",
         "import PhreeqcVerif.Model.RawTables", "namespace PhreeqcVerif.Gen.Raw", "open PhreeqcVerif.Raw", ""]
    for t in tables:
        o.append(f"/-- {t['file']}: dump_raw line {t['dump_raw_line']}, read_raw line {t['read_raw_line']} -/")
        o.append(f"def tab{t['name']} : ClassTab where")
        o.append(f"  name := {ls(t['name'])}")
        o.append(f"  keyword := {ls(t['keyword'])}")
        o.append(f"  vopts := {ll(ls(v) for v in t['vopts'])}")
        o.append("  written := [")
        rows = []
        for e in t["written"]:
            g = {"none": ".always", "nonempty": f".nonEmpty {ls(e['guard'][1])}", "flag": f".flag {ls(e['guard'][1])}"}[e["guard"][0]]
            rows.append(f"    ⟨{ls(e['key'])}, {ll(ls(m) for m in e['members'])}, .{e['kind']}, "
                        f"{'.work' if e['section'] == 'work' else '.state'}, {g}, {ls(e['child'])}, {e['htok']}⟩")
        o.append(",\n".join(rows) + "]")
        o.append("  cases := [")
        rows = []
        for c in t["reader"]["cases"]:
            rows.append(f"    ⟨{ll(str(l) for l in c['labels'])}, {ll(ls(m) for m in c['sinks'])}, .{c['kind']}, {ls(c['child'])}, "
                        f"{c['htok']}, {ll(ls(f) for f in c['flags'])}, {'true' if c.get('continues') or c.get('default_line') else 'false'}, "
                        f"{'true' if c['use_last'] else 'false'}, {ll(ls(m) for m in c.get('clobbers', []))}⟩")
        o.append(",\n".join(rows) + "]")
        o.append(f"  unknownReturns := {'true' if t['reader']['unknown'] == 'return' else 'false'}")
        o.append(f"  usesLastLine := {'true' if t['reader']['uses_last'] else 'false'}")
        o.append(f"  required := {ll(ls(f) for f in t['reader']['required'])}")
        o.append("")
    o.append("def allTables : List ClassTab := " + ll("tab" + t["name"] for t in tables))
    o.append("")
    ex = sorted({d[0] for d in defects(tables)})
    o.append("/-- tables for which the translator's own evaluation of the obligations fails on the current source; each is")
    o.append("reported by the check (finding / violation) and proved defective in `Properties/C10.lean` -/")
    o.append("def exempt : List String := " + ll(ls(x) for x in ex))
    o.append("")
    o.append("end PhreeqcVerif.Gen.Raw")
    return "\n".join(o) + "\n"


def generate(ctx=None):
    tables = extract()
    sers = extract_serializers()
    text = emit(tables).replace("end PhreeqcVerif.Gen.Raw", emit_ser(sers) + "\nend PhreeqcVerif.Gen.Raw")
    out = vlib.LEAN / "PhreeqcVerif" / "Gen" / "RawTables.lean"
    if not out.exists() or out.read_text() != text:
        out.write_text(text)
    ser_defects = [(t["name"], "serialize_symmetric", next((f"{a} vs {b}" for a, b in zip(t["ser"], t["deser"]) if a != b), "length"))
                   for t in sers if t["ser"] != t["deser"]]
    return dict(serializers=sers, ser_defects=ser_defects, tables=tables, defects=defects(tables), latent=latent(tables), classes=len(tables), written_keys=sum(len(t["written"]) for t in tables),
                options=sum(len(t["vopts"]) for t in tables), cases=sum(len(t["reader"]["cases"]) for t in tables),
                sources=[f"{t['file']}:{t['dump_raw_line']},{t['read_raw_line']}" for t in tables])


if __name__ == "__main__":
    import json
    import sys
    try:
        ts = extract(sys.argv[1] if len(sys.argv) > 1 else None)
    except TranslatorError as e:
        print("TRANSLATOR FAILS CLOSED:", e)
        sys.exit(1)
    for t in ts:
        print("==", t["name"], t["keyword"], "unknown:", t["reader"]["unknown"], "last:", t["reader"]["uses_last"], "req:", t["reader"]["required"])
        print("  vopts", t["vopts"])
        for e in t["written"]:
            print("  W", e["key"], e["members"], e["kind"], e["section"], e["guard"], e["child"], e["htok"])
        for c in t["reader"]["cases"]:
            print("  R", c["labels"], c["sinks"], c["kind"], c["child"], c["htok"], c["flags"], c["opt_save"], c["use_last"])
    for d in defects(ts):
        print("DEFECT", d)
    for d in latent(ts):
        print("latent", d)
    for t in extract_serializers(sys.argv[1] if len(sys.argv) > 1 else None):
        print("SER", t["name"], "EQUAL" if t["ser"] == t["deser"] else "DIFFERENT", len(t["ser"]), t["conditional_pops"])
        if t["ser"] != t["deser"]:
            for a, b in zip(t["ser"], t["deser"]):
                print("   ", a, b, "" if a == b else "<<<")
