#!/usr/bin/env python3
"""Translator for C06: everything in the engine that ORDERS things by a user-supplied rule.

Results must be a function of the call sequence alone; the order of items is part of the results (BASIC SYS lists, printed
species lists, …). An ordering rule that looks at ADDRESSES (pointer `<` / `>` / subtraction in a comparator, a pointer cast
to an integer there, a std::map / std::set keyed by a pointer and iterated) makes the order depend on the allocator's
history, i.e. on which other instances exist or existed — without any data race.

Written to lean/PhreeqcVerif/Gen/Comparators.lean:
  * `comparators` — every comparison function handed to `qsort` / `bsearch` / `std::sort` / `std::stable_sort` in src/ (call
    sites read from the source text), with, from clang's typed AST of its definition (`-ast-dump=json -ast-dump-filter`):
    the number of relational / subtraction operators whose two operands are both pointers, and the number of pointer→integer
    casts. -1 = the definition could not be analysed (then nothing is claimed statically; the tie workload of the exploration
    covers it) — the translator does not raise for that.
  * `pointerKeyed` — the distinct std::map / std::set (multi-)types in src/ whose key is a pointer, with the files they occur in.
Properties/C06.lean: no comparator orders by address; every pointer-keyed container type is in the reviewed list."""
import hashlib
import json
import re
import subprocess
import sys
from concurrent.futures import ThreadPoolExecutor
from pathlib import Path

sys.path.insert(0, str(Path(__file__).resolve().parent))
import vlib
from gen_lock_audit import strip_c

SORT_CALL = re.compile(r"\b(qsort|bsearch|std\s*::\s*sort|std\s*::\s*stable_sort)\s*\(")


def match_paren(s, i):
    d = 0
    while i < len(s):
        d += s[i] == "("
        d -= s[i] == ")"
        i += 1
        if d == 0:
            return i
    return len(s)


def split_args(s):
    out, d, cur = [], 0, ""
    for ch in s:
        if ch == "," and d == 0:
            out.append(cur.strip())
            cur = ""
        else:
            d += ch in "([{<" if ch != "<" else 0
            d -= ch in ")]}"
            cur += ch
    if cur.strip():
        out.append(cur.strip())
    return out


def sort_sites(texts):
    """(file, function called, comparator name or "" when the call has no comparator argument)"""
    sites = []
    for f, src in texts.items():
        if f.name == "thread.h":
            continue                                               # the guard macro around qsort, not a call
        for m in SORT_CALL.finditer(src):
            pre = src[max(0, m.start() - 60):m.start()]
            if re.search(r"(#\s*define\s+\w*\s*$|extern\s+void\s*$|\busing\s+(std\s*::\s*)?$)", pre) or re.search(r"#\s*define\s+qsort", pre):
                continue
            e = match_paren(src, m.end() - 1)
            args = split_args(src[m.end():e - 1])
            fn = re.sub(r"\s+", "", m.group(1))
            need = {"qsort": 4, "bsearch": 5, "std::sort": 3, "std::stable_sort": 3}[fn]
            if len(args) < need:
                if fn.startswith("std::") and len(args) == 2:
                    sites.append((f, fn, ""))                      # operator< of the element type
                continue
            cmp_ = re.sub(r"\s+", "", args[need - 1]).lstrip("&")
            cmp_ = cmp_.split("::")[-1]
            cmp_ = re.sub(r"\(\)$", "", cmp_)                       # a default-constructed function object
            if re.match(r"^\w+$", cmp_):
                sites.append((f, fn, cmp_))
            else:
                sites.append((f, fn, "?" + cmp_[:40]))             # lambda / functor expression: analysed as unknown
    return sites


def find_definition(texts, name):
    pat = re.compile(r"\b" + re.escape(name) + r"\s*\(\s*const\s+void\s*\*[^)]*\)\s*(?:const\s*)?\{")
    for f, src in texts.items():
        if f.suffix in (".cpp", ".cxx", ".c") and pat.search(src):
            return f
    obj = re.compile(r"\b(?:struct|class)\s+" + re.escape(name) + r"\b[^;{]*\{")          # function object with operator()
    for f, src in texts.items():
        if f.suffix in (".cpp", ".cxx", ".c") and obj.search(src) and re.search(r"operator\s*\(\s*\)", src):
            return f
    return None


def analyse(repo, f, name):
    """(pointer-ordering operators, pointer->integer casts) in the body of `name` defined in file f; (-1, -1) if unknown"""
    inc = [a.replace(str(vlib.REPO), str(repo)) for a in vlib.INC if not a.startswith("-I" + str(vlib.HARNESS))]
    try:
        r = subprocess.run(["clang++-14", "-fsyntax-only", "-w", "-std=gnu++17"] + inc +
                           ["-Xclang", "-ast-dump=json", "-Xclang", "-ast-dump-filter=" + name, str(f)],
                           capture_output=True, text=True, timeout=300)
    except Exception:
        return -1, -1
    t, dec, i, objs = r.stdout, json.JSONDecoder(), 0, []
    try:
        while True:
            i = t.find("{", i)
            if i < 0:
                break
            o, i = dec.raw_decode(t, i)
            objs.append(o)
    except Exception:
        return -1, -1
    bodies = [o for o in objs if o.get("name") == name and (any(c.get("kind") == "CompoundStmt" for c in o.get("inner", []) or [])
                                                            or (o.get("kind") == "CXXRecordDecl" and o.get("completeDefinition")))]
    if not bodies:
        return -1, -1
    order = casts = 0

    def is_ptr(n):
        q = (n.get("type") or {}).get("qualType", "")
        return q.rstrip().endswith("*")

    def walk(n):
        nonlocal order, casts
        k = n.get("kind")
        inner = n.get("inner", []) or []
        if k == "BinaryOperator" and n.get("opcode") in ("<", ">", "<=", ">=", "-") and len(inner) == 2 and all(is_ptr(c) for c in inner):
            order += 1
        if k in ("CStyleCastExpr", "CXXReinterpretCastExpr", "CXXStaticCastExpr", "CXXFunctionalCastExpr", "ImplicitCastExpr") and \
                n.get("castKind") == "PointerToIntegral":
            casts += 1
        for c in inner:
            walk(c)
    for b in bodies:
        walk(b)
    return order, casts


PTR_KEYED = re.compile(r"std\s*::\s*(?:multi)?(map|set)\s*<\s*((?:const\s+)?[\w:]+(?:\s*<[^<>]*>)?\s*(?:const\s*)?\*\s*(?:const\s*)?)\s*[,>]")


def pointer_keyed(texts, repo):
    found = {}
    for f, src in texts.items():
        for m in PTR_KEYED.finditer(src):
            t = "std::" + m.group(1) + "<" + re.sub(r"\s+", "", m.group(2)).replace("const", "const ") + ">"
            found.setdefault(t, set()).add(str(f.relative_to(repo)))
    return sorted((t, sorted(fs)) for t, fs in found.items())


def lstr(s):
    return '"' + s.replace("\\", "\\\\").replace('"', '\\"') + '"'


def generate(ctx=None):
    repo = vlib.REPO
    files = [f for f in sorted((repo / "src").rglob("*")) if f.suffix in (".cpp", ".cxx", ".h", ".hpp", ".hxx", ".c")
             and f.name not in ("class_main.cpp",)]
    texts = {f: strip_c(f.read_text(errors="replace")) for f in files}
    sites = sort_sites(texts)
    names = sorted({s[2] for s in sites if s[2]})
    cache_p = vlib.BUILD / "c06_comparators_cache.json"
    try:
        cache = json.loads(cache_p.read_text())
    except Exception:
        cache = {}
    hdr = hashlib.sha1((repo / "src" / "phreeqcpp" / "Phreeqc.h").read_bytes()).hexdigest()[:12]
    jobs, table = [], {}
    for n in names:
        if n.startswith("?"):
            table[n] = ("?", -1, -1)
            continue
        f = find_definition(texts, n)
        if f is None:
            table[n] = ("?", -1, -1)
            continue
        key = n + ":" + hashlib.sha1(f.read_bytes()).hexdigest()[:12] + ":" + hdr
        if key in cache:
            table[n] = (str(f.relative_to(repo)), cache[key][0], cache[key][1])
        else:
            jobs.append((n, f, key))
    if jobs:
        with ThreadPoolExecutor(6) as ex:
            for (n, f, key), res in zip(jobs, ex.map(lambda j: analyse(repo, j[1], j[0]), jobs)):
                table[n] = (str(f.relative_to(repo)), res[0], res[1])
                if res[0] >= 0:
                    cache[key] = list(res)
        try:
            vlib.BUILD.mkdir(exist_ok=True)
            cache_p.write_text(json.dumps(cache))
        except Exception:
            pass
    pk = pointer_keyed(texts, repo)
    nsites = {n: sum(1 for s in sites if s[2] == n) for n in names}
    L = ["/-! GENERATED by tools/gen_comparators.py from /repo's current source — do not edit. -/",
         "namespace PhreeqcVerif.Gen.Comparators", "",
         "/-- (comparison function, file of its definition, call sites that use it, relational/subtraction operators on two pointers in",
         "its body, pointer→integer casts in its body); -1 = not analysed -/",
         "def comparators : List (String × String × Nat × Int × Int) := ["]
    L += [",\n".join(f"  ({lstr(n)}, {lstr(table[n][0])}, {nsites[n]}, {table[n][1]}, {table[n][2]})" for n in names)]
    L += ["]", "", "/-- sort calls without a comparison function (the element type's `operator<`) -/",
          f"def sortsWithoutComparator : Nat := {sum(1 for s in sites if not s[2])}", "",
          "/-- std::map / std::set types keyed by a pointer, with the files they occur in -/",
          "def pointerKeyed : List (String × List String) := ["]
    L += [",\n".join(f"  ({lstr(t)}, [{', '.join(lstr(x) for x in fs)}])" for t, fs in pk)]
    L += ["]", "", "end PhreeqcVerif.Gen.Comparators", ""]
    text = "\n".join(L)
    out = vlib.LEAN / "PhreeqcVerif" / "Gen" / "Comparators.lean"
    if not out.exists() or out.read_text() != text:
        out.write_text(text)
    return {"comparators": {n: table[n] for n in names}, "sort_sites": len(sites), "pointer_keyed": pk,
            "not_analysed": [n for n in names if table[n][1] < 0]}


if __name__ == "__main__":
    print(json.dumps(generate(), indent=1))
