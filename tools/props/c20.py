"""C20 — surface complexation obeys site balance, electrostatic mass action, charge laws.

(1) proof obligations: Properties/C20.lean (gate_surface*, potential_factor_mass_action, cd_music_factor_mass_action,
    gc_odd / gc_strict_mono / gc_injective, ccm_linear, cdmusic_charge_sum, dl_charge_neutral, …) about Model/Surface.lean;
(2) tie: real PHREEQC runs with a SURFACE (harness/ph_surface.cpp dumps the engine's surface state in-process at every
    USER_PUNCH evaluation, plus the public read-outs of the same row); `pmodel surface` executes Model/Surface.lean on
    that dump and re-evaluates every relation of the property (V lines) and every model=code identity (T lines);
(3) a V failure is re-evaluated by the direct oracle below (plain Python on the public read-outs / dumped numbers),
    the case is shrunk and reported as a violation.  Runs that end with an ERROR are counted, not judged.
"""
import concurrent.futures
import copy
import json
import math
import re
import struct

import dbparse
import vlib
import gen_surfconst
from gens import surface as gen

NAME = "PhreeqcVerif.Properties.C20"
F_KJ, R_KJ, F_C, EPS0 = 96.4935, 0.00831470, 96493.5, 8.854e-12
LN10 = math.log(10.0)


def hexs(s):
    return s.encode().hex() if s else "-"


def unhex(h):
    return "" if h == "-" else bytes.fromhex(h).decode(errors="replace")


def unhexd(h):
    return struct.unpack(">d", bytes.fromhex(h))[0]


def dbpath(db):
    return str(vlib.REPO / "database" / db)


# ------------------------------------------------------------------------------------------------ species data from TEXT
_DBCACHE = {}


def hexd(x):
    return struct.pack(">d", float(x)).hex()


def cd_music_from_text(text):
    """{species: [5 numbers]} from `-cd_music` option lines of SURFACE_SPECIES in `text` (own small reader)"""
    out, cur, inblock = {}, None, False
    for raw in text.split("\n"):
        for line in raw.split(";"):
            line = line.split("#")[0].strip()
            if not line:
                continue
            w0 = line.split()[0].lower()
            if w0 in dbparse.KEYWORDS:
                inblock = w0 == "surface_species"
                if w0 == "end":
                    return out
                continue
            if not inblock:
                continue
            if "=" in line and not line.startswith("-"):
                try:
                    lhs, rhs = dbparse.split_equation(line)
                    cur = rhs[0][1]
                except Exception:
                    cur = None
            elif cur and re.match(r"-?cd_music\b|-?music\b", line.lower()):
                vals = []
                for t in line.split()[1:6]:
                    try:
                        vals.append(float(t))
                    except ValueError:
                        break
                out[cur] = (vals + [0.0] * 5)[:5]
    return out


def text_species(db, text):
    """surface species as the database file and the input text define them (tools/dbparse.py; the input's own
    SURFACE_SPECIES come later and win).  Returns (dict name -> Species, {name: cd_music}, problems)"""
    if db not in _DBCACHE:
        _DBCACHE[db] = dbparse.parse(dbpath(db))
    base = _DBCACHE[db]
    sp = dict(base.surface_species)
    cds, problems = {}, list(base.problems)
    if "SURFACE_SPECIES" in text:
        own = dbparse.parse(text, is_text=True)
        sp.update(own.surface_species)
        cds = cd_music_from_text(text)
        problems += [p for p in own.problems if "surf" in p.lower()]
    return sp, cds, problems


def input_surface(text):
    """what the FIRST `SURFACE` block of the input text says: {charge: dict(area, grams, cap0, cap1, ccm)}, {site element: sites}
    (own small reader of the input; absolute site units only)"""
    charges, sites, inblock, last, density = {}, {}, False, None, False
    for raw in text.split("\n"):
        line = raw.split("#")[0].strip()
        if not line:
            continue
        w = line.split()
        if w[0].lower() in dbparse.KEYWORDS:
            if inblock:
                break
            inblock = w[0].lower() == "surface"
            continue
        if not inblock:
            continue
        if w[0].startswith("-"):
            o = w[0].lower()
            if o.startswith("-cap") and last:
                charges[last]["cap0"], charges[last]["cap1"] = float(w[1]), float(w[2])
            elif o.startswith("-ccm") and last:
                charges[last]["cap0"] = float(w[1])
            elif o.startswith("-sites"):
                density = w[1].lower().startswith("d")
            continue
        m = re.match(r"([A-Z][a-z]*)_([a-z]+)", w[0])
        if not m:
            continue
        ch, elt = m.group(1), m.group(0)
        c = charges.setdefault(ch, {})
        last = ch
        related = len(w) > 2 and w[2].lower().startswith(("equ", "kin"))
        nums = w[4:] if related else w[2:]
        if not related:
            sites[elt] = float(w[1])
        if len(nums) >= 1:
            c["area"] = float(nums[0])
        if len(nums) >= 2 and not related:
            c["grams"] = float(nums[1])
    if density:
        sites = {}
    return charges, sites


def d_lines(case_id, db, text, lines):
    """`D` lines (reading of the TEXT) for the surface species that occur in the dump `lines` of one case"""
    names = set()
    for ln in lines:
        if ln.startswith("P "):
            names.add(unhex(ln.split()[1]))
    if not names:
        return []
    sp, cds, _ = text_species(db, text)
    out = []
    # charges of the aqueous species as the database text spells them
    aq = _DBCACHE[db].species
    for ln in lines:
        if ln.startswith("A "):
            nm = unhex(ln.split()[1])
            if nm in aq:
                out.append(f"Z {case_id} {hexs(nm)} {hexd(aq[nm].z)}")
    out = sorted(set(out))
    # the first SURFACE block of the input: area, grams, capacitances, sites — tied to the first calculation with a surface
    first = None
    blk = -1
    for ln in lines:
        if ln.startswith("B "):
            blk = int(ln.split()[2])
        elif ln.startswith("G 1") and first is None:
            first = blk
    if first is not None:
        charges, sites = input_surface(text)
        for ch, c in charges.items():
            out.append(" ".join(["I", str(case_id), str(first), "C", hexs(ch)] +
                                [hexd(c.get(k, float("nan"))) for k in ("area", "grams", "cap0", "cap1")]))
        for el, n in sites.items():
            out.append(f"I {case_id} {first} S {hexs(el)} {hexd(n)}")
        # initial amount of a kinetic reactant (-m0): reference scale of the drift bound of kinetic-related sites
        m0s = [float(x) for x in re.findall(r"(?m)^\s*-m0\s+([0-9.eE+-]+)", text)]
        if m0s:
            out.append(f"I {case_id} {first} M {hexd(max(m0s))}")
    for n in sorted(names):
        s = sp.get(n)
        if s is None or s.add_logk:
            continue
        toks = []
        for nm, c in s.rxn:
            kind = 6 if nm in sp else 2 if nm == "H2O" else 3 if nm == "e-" else 1 if nm == "H+" else 0
            toks += [hexs(nm), hexd(c / s.head_coef), hexd(s.zs.get(nm, 0.0)), str(kind)]
        cd = cds.get(n)
        elts = []
        for e, k in s.elements.items():
            elts += [hexs(e), hexd(k)]
        out.append(" ".join(["D", str(case_id), hexs(n), hexd(s.z), str(len(s.rxn))] + toks + [hexd(v) for v in s.logk.vector()] +
                            ["1" if cd else "0"] + [hexd(v) for v in (cd or [0.0] * 5)] + [str(len(s.elements))] + elts))
    return out


# ------------------------------------------------------------------------------------------------ running cases
def db_species(ctx, exe, db):
    r = ctx.run_harness(exe, f"list {dbpath(db)}\n")
    names = []
    for ln in r.stdout.splitlines():
        w = ln.split()
        if w and w[0] == "L":
            names.append(unhex(w[1]))
    return names


def run_batch(ctx, exe, batch):
    """batch: list of (id, db, text).  Returns {id: dict(errors, blocks=[lines...], raw=[...], crashed)}"""
    text = "".join(f"case {i} {dbpath(db)} {hexs(t)}\n" for i, db, t in batch)
    try:
        r = ctx.run_harness(exe, text, timeout=900)
        out, rc = r.stdout, r.returncode
    except Exception as ex:   # timeout
        out, rc = "", -9
    res = {}
    cur = None
    for ln in out.splitlines():
        if ln.startswith("CASE "):
            w = ln.split()
            cur = {"errors": int(w[2].split("=")[1]), "lines": [], "err": "", "done": False}
            res[int(w[1])] = cur
        elif cur is not None:
            if ln.startswith("END "):
                cur["done"] = True
                cur = None
            elif ln.startswith("ERR "):
                cur["err"] = unhex(ln.split()[1])[:600]
            else:
                cur["lines"].append(ln)
    for i, db, t in batch:
        if i in res and res[i]["errors"] == 0:
            res[i]["dlines"] = d_lines(i, db, t, res[i]["lines"])
    if rc != 0 or len([1 for c in res.values() if c["done"]]) != len(batch):
        if len(batch) == 1:
            res[batch[0][0]] = {"errors": -1, "lines": [], "err": f"harness exit {rc}", "done": False, "crashed": True}
        else:   # isolate the case that killed the process
            res = {}
            for b in batch:
                res.update(run_batch(ctx, exe, [b]))
    return res


def evaluate(ctx, results):
    """feed the dumps of completed cases to the Lean model; returns {id: [parsed V/T/N lines]}"""
    text = []
    for i, c in results.items():
        if c["errors"] == 0:
            text += c.get("dlines", []) + c["lines"]
    if not text:
        return {}
    out = ctx.pmodel("surface", "\n".join(text) + "\n", timeout=1800)
    per = {}
    for ln in out:
        w = ln.split()
        if w[0] in "VT":
            per.setdefault(int(w[1]), []).append((w[0], int(w[2]), w[3], unhex(w[4]), w[5] == "ok", unhexd(w[6]), unhexd(w[7])))
        elif w[0] == "N":
            per.setdefault(int(w[1]), []).append(("N", int(w[2])) + tuple(int(x) for x in w[3:]))
    return per


# ------------------------------------------------------------------------------------------------ direct oracle (Python)
def parse_block_public(lines):
    """blocks of one case → list of dict(readouts={heading: value}, S=[...], U=[...], P=[...])"""
    blocks, cur = [], None
    for ln in lines:
        w = ln.split()
        if not w:
            continue
        if w[0] == "B":
            cur = {"R": {}, "raw": []}
            blocks.append(cur)
        elif cur is not None:
            cur["raw"].append(w)
            if w[0] == "R" and w[2].startswith("D"):
                cur["R"][unhex(w[1])] = unhexd(w[2][1:])
            elif w[0] == "G":
                cur["G"] = w
            elif w[0] == "S":
                cur["S"] = [unhexd(x) for x in w[1:]]
    return blocks


def gc_python(epsr, tk, mu, psi):
    return math.sqrt(8 * epsr * EPS0 * (R_KJ * 1000) * tk * 1000) * math.sqrt(mu) * math.sinh(F_KJ * psi / (2 * R_KJ * tk))


def direct_oracle(spec, lines, fail):
    """evaluate the property statement on the implementation's own output for one failed relation.
    Returns a text describing the contradiction or None when the property holds on these outputs."""
    tag, blk, kind, name, ok, lhs, rhs = fail
    blocks = parse_block_public(lines)
    if blk >= len(blocks):
        return None
    b = blocks[blk]
    R = b["R"]
    tol = 1.00001e-8
    stype = int(b["G"][3]) if len(b.get("G", [])) > 3 else 0
    if kind in ("gc", "pub-gc", "ccm", "pub-ccm"):
        psi, sig = R.get(f"psi:{name}"), R.get(f"sigma:{name}")
        if psi is None or sig is None:
            return f"{kind} {name}: {lhs!r} vs {rhs!r}"
        if stype == 2:
            law = gc_python(R["epsr"], R["tk"], R["mu"], psi)
        else:
            cap = None
            for w in b["raw"]:
                if w[0] == "C" and unhex(w[1]) == name:
                    cap = unhexd(w[5])
            law = cap * psi
        d = abs(sig - law)
        if d <= tol * max(abs(sig), abs(law)) or d <= b["S"][6]:
            return None
        return (f"surface {name}: EDL sigma = {sig!r} C/m2 but the {'Gouy-Chapman' if stype == 2 else 'constant-capacitance'} "
                f"law at the reported psi = {psi!r} V, mu = {R['mu']!r}, eps_r = {R['epsr']!r}, T = {R['tk']!r} gives {law!r}")
    if kind == "site":
        got = R.get(f"surf:{name}")
        sites = rhs
        if got is None:
            got = lhs
        d = abs(got - sites)
        if d <= tol * abs(sites) or d < 1e-15:
            return None
        return f"site type {name}: surface species sum to {got!r} mol but {sites!r} mol of sites are defined"
    if kind == "ma":
        # log activity of the species (public LA) against log K + sum(nu * LA) + electrostatic term from public psi
        d = abs(lhs - rhs)
        if d <= 4.3430e-9:
            return None
        la = R.get(f"la:{name}")
        return (f"surface species {name}: log activity {lhs!r} (LA read-out {la!r}) but its database mass-action equation with the "
                f"electrostatic term gives {rhs!r}")
    if kind == "site-related":
        big = max([abs(lhs), abs(rhs)] + [bb["R"].get(f"surf:{name}", 0.0) for bb in blocks[:blk + 1]])
        kin = (spec or {}).get("kin")
        if kin:      # initial sites = proportion × m0 (the drift bound is relative to the largest site total of the run)
            big = max(big, max(kin["prop"]) * kin["m0"])
        if abs(lhs - rhs) <= tol * (blk + 2) * big:
            return None
        return (f"site type {name} is related to a reactant: surface species sum to {lhs!r} mol but proportion x moles of the "
                f"reactant (EQUI/KIN read-out) = {rhs!r} mol")
    if kind in ("moles",):
        if abs(lhs - rhs) <= tol * max(abs(lhs), abs(rhs)):
            return None
        return f"surface species {name}: moles {lhs!r} but 10^lm = {rhs!r}"
    if kind in ("cd-plane0", "cd-plane1", "cd-plane2", "pub-cd0", "pub-cd1"):
        d = abs(lhs - rhs)
        if d <= tol * max(abs(lhs), abs(rhs)) or d <= b["S"][6]:
            return None
        return f"CD-MUSIC surface {name} {kind}: plane charge {lhs!r} C/m2 but capacitance/diffuse-layer relation gives {rhs!r}"
    if kind == "dl-neutral":
        d = abs(lhs - rhs)
        if d <= max(b["S"][6], tol * abs(rhs)):
            return None
        return f"surface {name}: diffuse-layer excess {lhs!r} eq does not balance the surface charge ({rhs!r} eq needed)"
    return f"{kind} {name}: {lhs!r} vs {rhs!r}"


# ------------------------------------------------------------------------------------------------ judging
def judge_case(spec, text, c, rels):
    """returns (vfails, tfails, stats)"""
    vf = [r for r in rels if r[0] == "V" and not r[4]]
    tf = [r for r in rels if r[0] == "T" and not r[4]]
    return vf, tf


def run_one(ctx, exe, spec, dbsp):
    text = gen.render(spec, dbsp.get(spec["db"]))
    res = run_batch(ctx, exe, [(0, spec["db"], text)])
    c = res[0]
    if c["errors"] != 0:
        return text, c, [], []
    rels = evaluate(ctx, res).get(0, [])
    vf, tf = judge_case(spec, text, c, rels)
    return text, c, vf, tf


def shrink(ctx, exe, spec, dbsp, pred):
    """greedy shrink of a spec while `pred(text, c, vf, tf)` stays true"""
    cur = spec
    for _ in range(12):
        for cand in gen.shrink_candidates(cur):
            try:
                text, c, vf, tf = run_one(ctx, exe, cand, dbsp)
            except Exception:
                continue
            if pred(text, c, vf, tf):
                cur = cand
                break
        else:
            break
    return cur


def option_key(spec):
    e = spec["edl"]
    k = e["type"]
    if e.get("dl"):
        k += "+" + e["dl"] + ("-debye" if "debye" in e else "")
    if e.get("only_counter_ions"):
        k += "+oci"
    return k


def run(ctx):
    gen_surfconst.generate(ctx)                 # translator: constants and hard-coded factors of the source → Gen/SurfConst.lean
    ok = ctx.prove([NAME])
    ctx.build_lib()
    exe = ctx.build_harness("ph_surface")
    n = ctx.n(600, 12000)
    if not ok:
        n = max(n, 3000)
    dbsp = {db: db_species(ctx, exe, db) for db in gen.DBS}
    ctx.cov["db_surface_species"] = {db: len(v) for db, v in dbsp.items()}
    run_corpus(ctx, exe)
    specs = [gen.gen_case(ctx.rng, i) for i in range(n)]
    texts = {s["id"]: gen.render(s, dbsp.get(s["db"])) for s in specs}
    byid = {s["id"]: s for s in specs}
    CH = 10
    batches = [[(s["id"], s["db"], texts[s["id"]]) for s in specs[i:i + CH]] for i in range(0, n, CH)]
    results = {}
    with concurrent.futures.ThreadPoolExecutor(max_workers=max(2, vlib.NCPU - 2)) as ex:
        for res in ex.map(lambda b: run_batch(ctx, exe, b), batches):
            results.update(res)
    ctx.log(f"{n} cases run; evaluating the model")
    # evaluate in a few big chunks (pmodel is fast)
    ids = sorted(results)
    rels = {}
    chunks = [ids[i:i + 100] for i in range(0, len(ids), 100)]
    with concurrent.futures.ThreadPoolExecutor(max_workers=8) as ex:
        for per in ex.map(lambda ch: evaluate(ctx, {i: results[i] for i in ch}), chunks):
            rels.update(per)
    hist = {"kind": {}, "option": {}, "db": {}, "completed_by_option": {}, "not_completed": 0, "crashed": 0,
            "blocks_with_surface": 0, "state": {}, "relations": {}, "pH": {"3-5": 0, "5-7": 0, "7-9": 0, "9-11": 0},
            "logI": {"-4..-3": 0, "-3..-2": 0, "-2..-1": 0, "-1..0": 0}, "errors": {}}
    nV = nT = 0
    distinct = set()
    tie_broken = []
    for i in ids:
        s, c = byid[i], results[i]
        hist["kind"][s["kind"]] = hist["kind"].get(s["kind"], 0) + 1
        hist["option"][option_key(s)] = hist["option"].get(option_key(s), 0) + 1
        hist["db"][s["db"]] = hist["db"].get(s["db"], 0) + 1
        hist["pH"]["3-5" if s["pH"] < 5 else "5-7" if s["pH"] < 7 else "7-9" if s["pH"] < 9 else "9-11"] += 1
        li = math.log10(s["I"])
        hist["logI"]["-4..-3" if li < -3 else "-3..-2" if li < -2 else "-2..-1" if li < -1 else "-1..0"] += 1
        if c.get("crashed"):
            hist["crashed"] += 1
            continue
        if c["errors"] != 0:
            hist["not_completed"] += 1
            key = next((ln.strip() for ln in c["err"].splitlines() if len(ln.strip()) > 10), "?")
            key = " ".join(key.split())[:70]
            hist["errors"][key] = hist["errors"].get(key, 0) + 1
            continue
        hist["completed_by_option"][option_key(s)] = hist["completed_by_option"].get(option_key(s), 0) + 1
        rl = rels.get(i, [])
        for r in rl:
            if r[0] == "N":
                if r[2]:
                    hist["blocks_with_surface"] += 1
                    hist["state"][str(r[3])] = hist["state"].get(str(r[3]), 0) + 1
                    distinct.add((i, r[1]))
            else:
                hist["relations"][r[0] + ":" + r[2]] = hist["relations"].get(r[0] + ":" + r[2], 0) + 1
                nV += r[0] == "V"
                nT += r[0] == "T"
        vf, tf = judge_case(s, texts[i], c, rl)
        if len(ctx.cov["samples"]) < 3 and rl and any(r[0] == "V" and r[2] in ("gc", "ccm", "cd-plane0", "dl-neutral") for r in rl):
            ex_ = next(r for r in rl if r[0] == "V" and r[2] in ("gc", "ccm", "cd-plane0", "dl-neutral"))
            ctx.sample({"case": i, "kind": s["kind"], "option": option_key(s), "db": s["db"], "pH": s["pH"], "I": s["I"],
                        "relation": ex_[2], "surface": ex_[3], "lhs": ex_[5], "rhs": ex_[6], "input_head": texts[i][:400]})
        if vf:
            report_failure(ctx, exe, s, dbsp, c, vf, tf)
            if len(ctx.violations) >= 3:
                break
        elif tf:
            tie_broken.append((i, tf[:5]))
    ctx.cov["input_distribution"] = hist
    ctx.cov["evaluations"] = nV + nT
    ctx.cov["property_relations_evaluated"] = nV
    ctx.cov["tie_relations_evaluated"] = nT
    ctx.cov["distinct_nontrivial"] = len(distinct)
    ctx.cov["traces_validated_against_impl"] = len(distinct)
    ctx.cov["rule"] = ("seeded specs (kind hfo/user/cd/phase/kin × database × electrostatic option × pH 3–11 × I 1e-4…1 × 0–4 sorbing ions × "
                       "0–2 REACTION stages) rendered to PHREEQC input and run on the real library; every USER_PUNCH row of a run that ends "
                       "without ERROR and has a SURFACE in use is one block: the in-process dump is re-evaluated by pmodel surface "
                       "(V = relation of the property at 1e-8 relative, T = number held by the code equals the model's recomputation or the "
                       "independent reading of the database/input text). Histories: 0–4 stages per case (reagent additions in 1–3 steps, "
                       "temperature changes, redefinition of SURFACE 1, SAVE/USE chains, kinetic time steps). "
                       "distinct_nontrivial = blocks with a surface in use (distinct (case, calculation) pairs).")
    if tie_broken and not ctx.violations:
        i, tf = tie_broken[0]
        ctx.violation("model/code correspondence broken (a number the engine holds differs from the model's recomputation) "
                      "while every relation of the property still holds on the outputs",
                      {"correspondence": [dict(kind=t[2], name=t[3], code=t[5], model=t[6], block=t[1]) for t in tf],
                       "spec": byid[i], "db": byid[i]["db"], "input": texts[i], "cases_with_tie_failures": len(tie_broken)},
                      found_input=False)
    if not ok and not ctx.violations:
        ctx.violation("proof obligation of C20 no longer checks (constants/factors extracted from the source differ from the "
                      "model's, or a theorem broke) and no failing input was found",
                      {"broken": ctx.proof_broken, "translator": ctx.cov.get("translator_surfconst")}, found_input=False)


def run_corpus(ctx, exe):
    """corpus/C20/*.json (db, input): fixed cases that are always run first"""
    files = sorted((vlib.ROOT / "corpus" / "C20").glob("*.json"))
    nrel = 0
    for k, f in enumerate(files):
        data = json.loads(f.read_text())
        res = run_batch(ctx, exe, [(0, data["db"], data["input"])])
        c = res[0]
        if c["errors"] != 0:
            ctx.violation(f"corpus case {f.name} no longer completes: {c['err'][:200]}", dict(data, corpus=f.name), found_input=False)
            continue
        rels = evaluate(ctx, res).get(0, [])
        nrel += len([r for r in rels if r[0] != "N"])
        vf = [r for r in rels if r[0] == "V" and not r[4]]
        tf = [r for r in rels if r[0] == "T" and not r[4]]
        if vf:
            msgs = [m for m in (direct_oracle({}, c["lines"], x) for x in vf[:6]) if m]
            ctx.violation(f"corpus case {f.name}: surface calculation completed without error but violates the property: "
                          + (msgs[0] if msgs else vf[0][2]),
                          dict(data, corpus=f.name, failed_relations=[dict(kind=x[2], name=x[3], block=x[1], lhs=x[5], rhs=x[6]) for x in vf[:10]]))
        elif tf:
            ctx.violation(f"corpus case {f.name}: model/code correspondence broken",
                          dict(data, corpus=f.name, correspondence=[dict(kind=x[2], name=x[3], code=x[5], model=x[6]) for x in tf[:6]]),
                          found_input=False)
    ctx.cov["corpus_cases"] = len(files)
    ctx.cov["corpus_relations"] = nrel


def report_failure(ctx, exe, spec, dbsp, c, vf, tf):
    kinds = {(f[2]) for f in vf}

    def still(text, c2, vf2, tf2):
        return c2["errors"] == 0 and any(f[2] in kinds for f in vf2)
    small = shrink(ctx, exe, spec, dbsp, still)
    text, c2, vf2, tf2 = run_one(ctx, exe, small, dbsp)
    if not vf2:
        small, text, c2, vf2 = spec, gen.render(spec, dbsp.get(spec["db"])), c, vf
    msgs = []
    for f in vf2[:6]:
        m = direct_oracle(small, c2["lines"], f)
        if m:
            msgs.append(m)
    replay = {"spec": small, "db": small["db"], "input": text,
              "failed_relations": [dict(kind=f[2], name=f[3], block=f[1], lhs=f[5], rhs=f[6]) for f in vf2[:10]]}
    if msgs:
        ctx.violation("surface calculation completed without error but violates the property: " + msgs[0], dict(replay, oracle=msgs))
    else:
        ctx.violation("model relation failed but the direct oracle holds on the public outputs (model stale?)", replay,
                      found_input=False)


def replay(ctx, data):
    gen_surfconst.generate(ctx)
    ctx.prove([NAME])
    ctx.build_lib()
    exe = ctx.build_harness("ph_surface")
    text = data["input"]
    res = run_batch(ctx, exe, [(0, data["db"], text)])
    c = res[0]
    print("errors:", c["errors"], c["err"][:300])
    if c["errors"] != 0:
        print("run does not complete: outside the property")
        return
    rels = evaluate(ctx, res).get(0, [])
    vf = [r for r in rels if r[0] == "V" and not r[4]]
    tf = [r for r in rels if r[0] == "T" and not r[4]]
    print(f"{len(rels)} relations, {len(vf)} property relations failed, {len(tf)} tie relations failed")
    for f in (vf + tf)[:20]:
        print("  ", f[0], "block", f[1], f[2], f[3], repr(f[5]), repr(f[6]))
    msgs = [m for m in (direct_oracle(data.get("spec", {}), c["lines"], f) for f in vf[:6]) if m]
    for m in msgs:
        print("oracle:", m)
    if vf:
        ctx.violation("replayed input still violates the property: " + (msgs[0] if msgs else vf[0][2]), data)
    elif tf:
        ctx.violation("replayed input: model/code correspondence still broken", data, found_input=False)


MANIFEST = dict(
    technique="Lean 4 theorems on an executable model of the surface code (rows of residuals/check_residuals/model, "
              "add_potential_factor/add_cd_music_factors, gammas case 6/molalities, k_calc, calc_psi_avg/calc_all_donnan, "
              "calc_all_g with g_function/midpnt/qromb_midpnt/polint, the EDL read-outs); translator tools/gen_surfconst.py "
              "(structural: statement search, constant/local resolution, helper inlining, polynomial normal form; constants and hard-coded factors of model.cpp, integrate.cpp, prep.cpp → Gen/SurfConst.lean, theorem source_constants); correspondence: "
              "the model re-evaluates every relation on in-process dumps of real runs, with species data (reaction, log K, ΔH, "
              "charge, -cd_music, site count), aqueous charges and the SURFACE block (area, mass, capacitances, sites) read "
              "independently from the database / input TEXT (tools/dbparse.py + own readers) and tied to the engine's tables",
    text="Theorems (Properties/C20.lean, for all inputs/histories, over Rat with uninterpreted sqrt/sinh/exp/ln): gate_surface* "
         "(any solver step, any iteration count: model() completes without error ⇒ site balance within tol·sites, |GC(ψ)−σ|, "
         "|C·ψ−σ|, CD-MUSIC rows within tol), checkError_imp_fails, potential_factor_mass_action, cd_music_factor_mass_action, "
         "gc_odd / gc_strict_mono / gc_injective, ccm_linear, cdmusic_charge_sum / cdmusic_exact, dl_charge_neutral, "
         "donnan_charge_neutral(_exact) (root of calc_psi_avg's function ⇒ Donnan layer holds −A·f_sinh·sinh(Fψ/2RT)/F), "
         "donnan_boltzmann(_mul) (layer/solution concentration ratio = exp(cd_m·z·p), multiplicative in z), donnanG_content_pos, "
         "dl_species_charge, kCalc_vant_hoff, rewrite_dz / electro_cd_linear / chain_mass_action / source_trxn_add (species written from a "
         "non-master parent: effective -cd_music distribution = own + Σ coef·parent, as trxn_add does), site_drift_bound (kinetic-related sites over n calculations), source_constants; "
         "non-vacuity examples. Obligation over generated data: pmodel surface (same definitions on Float) recomputes on each "
         "completed calculation: Σ species = defined sites (and = proportion × reactant for related surfaces, with the proved drift "
         "bound); log a = log K(T) + Σν·log a_j + electrostatic term with reaction/log K/ΔH/charges/-cd_music taken from the "
         "database and input TEXT and the reported ψ (1e-8 relative); σ(species) = Gouy–Chapman / C·ψ / CD-MUSIC plane relations with "
         "area, mass, capacitances from the input TEXT; diffuse layer: g(z) of every charge number recomputed by the model of "
         "calc_psi_avg+calc_all_donnan resp. of the Romberg integration of calc_all_g, moles of every species in the layer = "
         "moles·erm·(g+ratio), Donnan layer total = −GC charge, ion excess = −surface charge; the same on the public read-outs "
         "EDL/SURF/MOL/LA/MU/EPS_R/TK/EQUI/KIN. Correspondence (T): engine tables = text reading (db-rxn, db-lk, db-z, db-cd, "
         "db-elt, db-aq-z, in-area/grams/cap0/cap1/sites), psi-token coefficients, lm from rxn_x, lg, f and residual of every "
         "row, sigma0/sigma1, g_map (donnan-g, borkovec-g), read-out = internal value.",
    note="Trusted: Lean kernel; harness/ph_surface.cpp (friend access, BASIC CALLBACK at punch time); tools/dbparse.py and the "
         "small -cd_music / SURFACE-block readers in tools/props/c20.py; libm. Partial: Donnan with correct_D / Donnan_factors / "
         "viscosity options is not generated; erm_ddl, the diffuse-layer water (initial_surface_water) and log gamma of aqueous "
         "species are taken from the engine; pressure is 1 atm; near zero charge calc_psi_avg stops at |p| < G_TOL and the Donnan "
         "total is then not judged (premise of donnan_charge_neutral). Runs that end with ERROR are counted, not judged.",
)
