/-
C07 — wrapper-level state machine of IPhreeqc: constructor, setters, AccumulateLine, Run*, LoadDatabase(String) /
UnLoadDatabase / load_db / test_db / check_database / update_errors, over an abstract engine.

Every data member of class IPhreeqc is represented (see ResetPolicy.wrapperClass for the member-by-member map):
  survivors            `id`, `sw` (global on/off switches incl. PHRQ_io::error_on), `names` (user-set file names)
  reset by unload      `Cleared` (DatabaseLoaded … io_error_count, log_on, reporters)
  overwritten per call `PerCall` (OutputString/Lines, LogString/Lines, ErrorLines, WarningLines)
  engine               abstract `E`
Abstractions (documented, tested by the correspondence check):
  * (UpdateComponents, Components, the eight other lists) is the single field `compCache : Option _`: `none` = UpdateComponents set.
    The code never reads the lists while the flag is set (ListComponents refills all of them first).
  * the PHRQ_io switches punch_on / dump_on / echo_on are not part of the state: ResetPolicy.ioHealed names the code that
    makes their old value unreadable; a run cannot see them (`RunEnv` has no such field).
  * output streams are opened and closed inside each Run* call; they are not state between calls.
-/
namespace PhreeqcVerif.Reset

structure Switches where
  outFile : Bool := false
  logFile : Bool := false
  errFile : Bool := false
  dumpFile : Bool := false
  dumpStr : Bool := false
  outStr : Bool := false
  logStr : Bool := false
  errStr : Bool := true
  errOn : Bool := true
deriving DecidableEq, Repr, Inhabited

structure FileNames where
  out : String
  err : String
  log : String
  dump : String
  sel : List (Int × String)
deriving DecidableEq, Repr, Inhabited

/-- members UnLoadDatabase puts back to their constructor value -/
structure Cleared where
  dbLoaded : Bool := false
  clearAccumulated : Bool := false
  compCache : Option (List String) := none
  selFileOn : List (Int × Bool) := [(1, false)]
  selStrOn : List (Int × Bool) := [(1, false)]
  curSel : Int := 1
  selTables : List (Int × String) := []
  selStrings : List (Int × String) := []
  selLines : List (Int × String) := []
  accumulated : String := ""
  dumpString : String := ""
  errReporter : String := ""
  warnReporter : String := ""
  errorString : String := ""
  warningString : String := ""
  ioErrors : Nat := 0
  logOn : Bool := false
deriving DecidableEq, Repr, Inhabited

/-- members every Run* call overwrites (check_database at its start, update_errors at its end) -/
structure PerCall where
  outputString : String := ""
  logString : String := ""
  errorLines : String := ""
  warningLines : String := ""
deriving DecidableEq, Repr, Inhabited

structure W (E : Type) where
  id : Nat
  sw : Switches
  names : FileNames
  c : Cleared
  pc : PerCall
  engine : E

/-- what a run can see of the wrapper -/
structure RunEnv where
  id : Nat
  sw : Switches
  names : FileNames
  selFileOn : List (Int × Bool)
  selStrOn : List (Int × Bool)
  curSel : Int
  logOn : Bool
  dumpString : String
deriving DecidableEq, Repr

/-- what a run leaves in the wrapper -/
structure RunOut where
  errors : Nat
  pc : PerCall
  selTables : List (Int × String)
  selStrings : List (Int × String)
  selLines : List (Int × String)
  dumpString : String
  errText : String
  warnText : String
  selNames : List (Int × String)     -- punch_open may enter a file name (SELECTED_OUTPUT -file or the default)
  dumpName : String                  -- DUMP -file with the dump file switched on
  logOn : Bool                       -- KNOBS -logfile
deriving DecidableEq, Repr

structure Engine (E : Type) where
  fresh : E                                   -- engine of a new instance (constructor + UnLoadDatabase)
  unload : E → E                              -- clean_up(); init(); do_initialize(); dump_info reset
  readDb : E → String → E × Nat               -- read_database: (state, input errors)
  readDbText : E → String → String × String   -- the error and warning text read_database reports for this database
  run : E → RunEnv → String → E × RunOut      -- do_run on an instance with a loaded database
  testInput : E → String                      -- the SOLUTION n; DELETE text test_db builds from the engine
  components : E → List String

/-- `EngineReset`: the static obligations of Properties/C07 (members) + the white-box correspondence stand for this -/
def EngineReset {E : Type} (eng : Engine E) : Prop := ∀ e, eng.unload e = eng.fresh

def defaultNames (id : Nat) : FileNames :=
  { out := "phreeqc." ++ toString id ++ ".out", err := "phreeqc." ++ toString id ++ ".err",
    log := "phreeqc." ++ toString id ++ ".log", dump := "dump." ++ toString id ++ ".out",
    sel := [(1, "selected_1." ++ toString id ++ ".out")] }

/-- IPhreeqc::IPhreeqc -/
def create {E : Type} (eng : Engine E) (id : Nat) : W E :=
  { id := id, sw := {}, names := defaultNames id, c := {}, pc := {}, engine := eng.fresh }

def setAssoc {β : Type} (k : Int) (v : β) : List (Int × β) → List (Int × β)
  | [] => [(k, v)]
  | (k', v') :: t => if k' = k then (k, v) :: t else (k', v') :: setAssoc k v t

inductive SwKind where
  | outFile | logFile | errFile | dumpFile | dumpStr | outStr | logStr | errStr | errOn
deriving DecidableEq, Repr

def Switches.set (s : Switches) : SwKind → Bool → Switches
  | .outFile, b => { s with outFile := b }
  | .logFile, b => { s with logFile := b }
  | .errFile, b => { s with errFile := b }
  | .dumpFile, b => { s with dumpFile := b }
  | .dumpStr, b => { s with dumpStr := b }
  | .outStr, b => { s with outStr := b }
  | .logStr, b => { s with logStr := b }
  | .errStr, b => { s with errStr := b }
  | .errOn, b => { s with errOn := b }

inductive NameKind where
  | out | err | log | dump
deriving DecidableEq, Repr

/-- Set*FileName ignore NULL / empty names -/
def FileNames.set (n : FileNames) (k : NameKind) (v : String) : FileNames :=
  if v = "" then n else
  match k with
  | .out => { n with out := v }
  | .err => { n with err := v }
  | .log => { n with log := v }
  | .dump => { n with dump := v }

def runEnv {E : Type} (w : W E) : RunEnv :=
  { id := w.id, sw := w.sw, names := w.names, selFileOn := w.c.selFileOn, selStrOn := w.c.selStrOn, curSel := w.c.curSel,
    logOn := w.c.logOn, dumpString := w.c.dumpString }

/-- check_database + do_run + update_errors, shared by RunString / RunFile / RunAccumulated.
    Returns the new state and the result code. -/
def runCore {E : Type} (eng : Engine E) (w : W E) (input : String) : W E × Nat :=
  -- check_database: reporters, selected-output containers, output and log strings are emptied
  let c0 : Cleared := { w.c with errReporter := "", warnReporter := "", selTables := [], selStrings := [], selLines := [] }
  if !w.c.dbLoaded then
    let msg := "No database is loaded"
    let c1 : Cleared := { c0 with errReporter := msg, errorString := msg, warningString := "", ioErrors := 0 }
    ({ w with c := c1, pc := { outputString := "", logString := "", errorLines := msg, warningLines := "" } }, 1)
  else
    let (e', o) := eng.run w.engine (runEnv w) input
    let c1 : Cleared := { c0 with compCache := none, selTables := o.selTables, selStrings := o.selStrings, selLines := o.selLines,
                                   dumpString := o.dumpString, errReporter := o.errText, warnReporter := o.warnText,
                                   errorString := o.errText, warningString := o.warnText, ioErrors := 0, logOn := o.logOn }
    ({ w with c := c1, pc := o.pc, engine := e', names := { w.names with sel := o.selNames, dump := o.dumpName } }, o.errors)

/-- RunString / RunFile: the accumulated lines are discarded first -/
def runString {E : Type} (eng : Engine E) (w : W E) (input : String) : W E × Nat :=
  runCore eng { w with c := { w.c with accumulated := "", clearAccumulated := false } } input

/-- RunAccumulated: runs the accumulated lines, marks them for clearing at the next AccumulateLine -/
def runAccumulated {E : Type} (eng : Engine E) (w : W E) : W E × Nat :=
  let r := runCore eng w w.c.accumulated
  ({ r.1 with c := { r.1.c with clearAccumulated := true } }, r.2)

/-- AccumulateLine -/
def accumulate {E : Type} (w : W E) (line : String) : W E :=
  let acc := if w.c.clearAccumulated then "" else w.c.accumulated
  { w with c := { w.c with accumulated := acc ++ line ++ "\n", clearAccumulated := false, errReporter := "", warnReporter := "" } }

/-- IPhreeqc::UnLoadDatabase: survivors and per-call members are left alone, everything else is put back -/
def unloadDatabase {E : Type} (eng : Engine E) (w : W E) : W E :=
  { w with c := {}, engine := eng.unload w.engine }

/-- load_db / load_db_str: UnLoadDatabase, read_database, then update_errors (since ba67bb06 also after a failed read: the
    error/warning strings and their line views show what this read reported), DatabaseLoaded := no input errors -/
def loadDb {E : Type} (eng : Engine E) (w : W E) (db : String) : W E × Nat :=
  let w1 := unloadDatabase eng w
  let (e', n) := eng.readDb w1.engine db
  let t := eng.readDbText w1.engine db
  ({ w1 with engine := e',
             c := { w1.c with dbLoaded := (n == 0), errReporter := t.1, warnReporter := t.2, errorString := t.1, warningString := t.2 },
             pc := { w1.pc with errorLines := t.1, warningLines := t.2 } }, n)

/-- LoadDatabase / LoadDatabaseString: three file switches are held off while loading; test_db runs when the read succeeded -/
def load {E : Type} (eng : Engine E) (w : W E) (db : String) : W E × Nat :=
  let saved := w.sw
  let w0 := { w with sw := { w.sw with errFile := false, outFile := false, logFile := false } }
  let (w1, n) := loadDb eng w0 db
  let (w2, n2) := if n == 0 then runString eng w1 (eng.testInput w1.engine) else (w1, n)
  ({ w2 with sw := { w2.sw with errFile := saved.errFile, outFile := saved.outFile, logFile := saved.logFile } }, n2)

/-- the calls of the public API that change state -/
inductive Op where
  | setSwitch (k : SwKind) (b : Bool)
  | setName (k : NameKind) (v : String)
  | setSelName (v : String)
  | setCur (n : Int)
  | setSelFileOn (b : Bool)
  | setSelStrOn (b : Bool)
  | accumulate (line : String)
  | clearAccumulated
  | runString (input : String)
  | runAccumulated
  | load (db : String)
  | listComponents
deriving DecidableEq, Repr

def step {E : Type} (eng : Engine E) (w : W E) : Op → W E
  | .setSwitch k b => { w with sw := w.sw.set k b }
  | .setName k v => { w with names := w.names.set k v }
  | .setSelName v => if v = "" then w else { w with names := { w.names with sel := setAssoc w.c.curSel v w.names.sel } }
  | .setCur n => if 0 ≤ n then { w with c := { w.c with curSel := n } } else w
  | .setSelFileOn b => if 0 ≤ w.c.curSel then { w with c := { w.c with selFileOn := setAssoc w.c.curSel b w.c.selFileOn } } else w
  | .setSelStrOn b => { w with c := { w.c with selStrOn := setAssoc w.c.curSel b w.c.selStrOn } }
  | .accumulate l => accumulate w l
  | .clearAccumulated => { w with c := { w.c with accumulated := "" } }
  | .runString s => (runString eng w s).1
  | .runAccumulated => (runAccumulated eng w).1
  | .load db => (load eng w db).1
  | .listComponents => match w.c.compCache with
      | some _ => w
      | none => { w with c := { w.c with compCache := some (eng.components w.engine) } }

def runOps {E : Type} (eng : Engine E) (w : W E) (ops : List Op) : W E := ops.foldl (step eng) w

/-- result code of a call (0 for setters) -/
def result {E : Type} (eng : Engine E) (w : W E) : Op → Nat
  | .runString s => (runString eng w s).2
  | .runAccumulated => (runAccumulated eng w).2
  | .load db => (load eng w db).2
  | _ => 0

/-- everything the getters of the public API return (the engine is observed only through runs) -/
structure Obs where
  id : Nat
  sw : Switches
  names : FileNames
  c : Cleared
  pc : PerCall
  components : List String
deriving DecidableEq, Repr

def observe {E : Type} (eng : Engine E) (w : W E) : Obs :=
  { id := w.id, sw := w.sw, names := w.names, c := w.c, pc := w.pc,
    components := match w.c.compCache with | some l => l | none => eng.components w.engine }

/-- observations and result codes after each of a sequence of later calls -/
def trace {E : Type} (eng : Engine E) : W E → List Op → List (Nat × Obs)
  | _, [] => []
  | w, op :: rest => (result eng w op, observe eng (step eng w op)) :: trace eng (step eng w op) rest

/-- the survivors of a load -/
structure Survivors where
  id : Nat
  sw : Switches
  names : FileNames
deriving DecidableEq, Repr

def survivors {E : Type} (w : W E) : Survivors := { id := w.id, sw := w.sw, names := w.names }

/-- a newly created instance that was given the same id, switches and file names -/
def freshWith {E : Type} (eng : Engine E) (s : Survivors) : W E :=
  { create eng s.id with sw := s.sw, names := s.names }

end PhreeqcVerif.Reset
